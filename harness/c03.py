"""C03 - masked values do not exist: the numbers stored underneath masked elements never influence
an observable result (a two-run / non-interference property).

 P  Props/C03.v (expression language over masked arrays WITH hidden values; obs_equiv;
    C03_op_noninterference_* per operation family; C03_program_noninterference by induction over
    expression trees; non-vacuity and a leaking operation refuted).
 S  (a) twin runs over the API sweep (harness/sweep.py): every call whose operands (receiver,
        arguments, their derivatives, MaskedArray arguments) hold at least one masked element is
        built again for every substitution of the pool and the numbers underneath the masked
        elements are overwritten in place (mask representation untouched) before the call; the
        observable outcomes (exception family+site / obs of everything reachable from the result /
        obs of the operands afterwards) must agree with the untouched run.
    (b) twin runs over compositions (depth 1-3 expression programs over the core alphabet).
 K  the same kind of programs restricted to the modelled alphabet on integer Scalars: the model is
    evaluated inside Coq on BOTH twins and compared with what the implementation returned for each.
"""
import json
import math
import os
import pickle
import warnings

import numpy as np

from . import lib, sweep
from .lib import cbool, clist

HEADER = ('From Coq Require Import List ZArith Bool.\nFrom PM Require Import C03Model.\n'
          'Import ListNotations.\nOpen Scope Z_scope.\n')


def P():
    return sweep.P()


# ---------------------------------------------------------------------------------------
# substitutions of hidden values
# ---------------------------------------------------------------------------------------
SUBST = ['zero', 'neg1', 'huge', 'neghuge', 'frac', 'oor', 'default', 'mixed']
_F = {'zero': 0.0, 'neg1': -1.0, 'huge': 1e300, 'neghuge': -1e300, 'frac': 7.25, 'oor': 1e6}
_I = {'zero': 0, 'neg1': -1, 'huge': 10 ** 9, 'neghuge': -10 ** 9, 'frac': 7, 'oor': 10 ** 6}
_B = {'zero': False, 'neg1': True, 'huge': True, 'neghuge': False, 'frac': True, 'oor': True}
_MIXF = [1e300, 0.0, -1.0, 7.25, -1e300, 1e6, 3.0, -0.5]
_MIXI = [10 ** 6, 0, -1, 7, -10 ** 9, 10 ** 9, 3, -2]


def _fill(kind, s, n, item, default, cur):
    """array of shape (n,)+item with the substituted numbers"""
    if s == 'default':
        d = np.asarray(default)
        try:
            return np.broadcast_to(d, (n,) + item).copy()
        except ValueError:
            return np.ones((n,) + item)
    if s == 'mixed':
        if kind == 'b':
            return np.logical_not(cur)
        pool = _MIXF if kind == 'f' else _MIXI
        k = int(np.prod((n,) + item))
        return np.array([pool[i % len(pool)] for i in range(k)]).reshape((n,) + item)
    tab = _F if kind == 'f' else (_I if kind in 'iu' else _B)
    return np.full((n,) + item, tab[s])


def _subst_array(holder, attr, v, m, s, default):
    """overwrite v[m] (m: bool array over the leading axes, or True = everything)"""
    kind = v.dtype.kind
    if kind not in 'fiub':
        return 0
    if m is True:
        lead = ()
        sel = v.reshape((1,) + v.shape)
        n = 1
        item = v.shape
    else:
        n = int(m.sum())
        item = v.shape[m.ndim:]
    if n == 0:
        return 0
    restore = False
    w = v
    if not v.flags.writeable:
        try:
            v.flags.writeable = True
            restore = True
        except ValueError:
            w = v.copy()
    if m is True:
        cur = w.reshape((1,) + w.shape)
        w[...] = _fill(kind, s, 1, item, default, cur)[0].astype(w.dtype)
    else:
        w[m] = _fill(kind, s, n, item, default, w[m]).astype(w.dtype)
    if restore:
        v.flags.writeable = False
    if w is not v:
        w.flags.writeable = False
        if isinstance(holder, dict):
            holder[attr] = w
        else:
            setattr(holder, attr, w)
    return n


def subst_qube(q, s, Pm, seen):
    """replace the hidden numbers of q (and of its derivatives); -> number of hidden elements.
    s = None: only count."""
    if id(q) in seen:
        return 0
    seen.add(id(q))
    n = 0
    m = q.__dict__.get('_mask_')
    v = q.__dict__.get('_values_')
    shape = tuple(q.__dict__.get('_shape_', ()))
    default = q.__dict__.get('_default_', 1)
    if isinstance(m, np.ndarray) and m.shape == shape and m.dtype == np.bool_:
        k = int(m.sum())
        if k and s is not None and isinstance(v, np.ndarray) and v.shape[:m.ndim] == shape:
            _subst_array(q.__dict__, '_values_', v, m, s, default)
        n += k
    elif isinstance(m, (bool, np.bool_)) and bool(m):
        size = int(np.prod(shape)) if shape else 1
        n += size
        if s is not None and size:
            if isinstance(v, np.ndarray):
                if shape:
                    _subst_array(q.__dict__, '_values_', v, np.ones(shape, bool), s, default)
                else:
                    _subst_array(q.__dict__, '_values_', v, True, s, default)
            elif isinstance(v, (bool, int, float, np.generic)):
                kind = np.asarray(v).dtype.kind
                f = _fill(kind, s, 1, (), default, np.asarray([v]))[0]
                q.__dict__['_values_'] = type(v)(f) if not isinstance(v, np.generic) else np.asarray(v).dtype.type(f)
    if n and s is not None:
        c = q.__dict__.get('_cache_')
        if isinstance(c, dict):
            c.clear()
    for k, d in list((q.__dict__.get('_derivs_') or {}).items()):
        n += subst_qube(d, s, Pm, seen)
    return n


def subst_any(o, s, Pm, seen, depth=0):
    if depth > 4:
        return 0
    if isinstance(o, Pm.Qube):
        return subst_qube(o, s, Pm, seen)
    if isinstance(o, np.ma.MaskedArray):
        if id(o) in seen:
            return 0
        seen.add(id(o))
        m = np.ma.getmaskarray(o)
        k = int(m.sum())
        if k and s is not None:
            _subst_array({}, 'x', o.data, m, s, 1)
        return k
    if isinstance(o, (list, tuple)):
        return sum(subst_any(e, s, Pm, seen, depth + 1) for e in o)
    if isinstance(o, dict):
        return sum(subst_any(e, s, Pm, seen, depth + 1) for e in o.values())
    return 0


def make_hook(s, Pm, only=None):
    """before-hook for sweep.execute: substitute (s) / count (s=None) the hidden elements of all
    operands, or of the operand labelled `only`; token = {label: hidden elements}"""
    def before(desc, recv, operands):
        seen = set()
        per = {}
        for lab, o in operands:
            if only is not None and lab != only:
                continue
            k = subst_any(o, s, Pm, seen)
            if k:
                per[lab] = per.get(lab, 0) + k
        return per
    return before


# ---------------------------------------------------------------------------------------
# observation
# ---------------------------------------------------------------------------------------
def _fhex(x):
    x = float(x)
    if math.isnan(x):
        return 'nan'
    return x.hex()


def units_obs(u):
    if u is None:
        return None
    return ('U', tuple(u.exponents), tuple(u.triple), repr(u.name))


def qobs(q, Pm, vis=None):
    """observable content of one polymath object.  vis (bool array, parent's antimask) restricts a
    derivative to the elements where its parent is unmasked."""
    d = {'T': type(q).__name__}
    try:
        shape = tuple(q._shape_)
        d['shape'] = shape
        d['numer'] = tuple(q._numer_)
        d['denom'] = tuple(q._denom_)
        d['units'] = units_obs(q._units_)
        d['readonly'] = bool(q._readonly_)
        v = q._values_
        va = np.asarray(v)
        if isinstance(v, np.ndarray) or isinstance(v, np.generic):
            d['dtype'] = va.dtype.kind
        else:                                     # Python scalar: its kind is its type
            d['dtype'] = 'b' if isinstance(v, bool) else ('i' if isinstance(v, int) else
                                                          ('f' if isinstance(v, float) else type(v).__name__))
        em = np.broadcast_to(np.asarray(q._mask_, dtype=bool), shape)
        if vis is not None and vis.shape == shape:
            d['mask'] = em[vis].tobytes()
            sel = np.logical_and(np.logical_not(em), vis)
        else:
            d['mask'] = em.tobytes()
            sel = np.logical_not(em)
        if va.shape[:len(shape)] == shape:
            if shape == ():
                vals = va[np.newaxis][np.asarray([bool(sel)])]
            else:
                vals = va[sel]
            d['values'] = (va.dtype.str, np.ascontiguousarray(vals).tobytes()) if vals.size else ('', b'')
        else:
            d['values'] = ('malformed', str(va.shape))
        dv = {}
        for k, x in sorted((q._derivs_ or {}).items()):
            dv[k] = qobs(x, Pm, vis=np.logical_not(em))
        d['derivs'] = dv
    except Exception as e:                        # a malformed object is C05's business
        d['error'] = type(e).__name__
    return d


def obs(x, Pm, depth=0):
    if depth > 6:
        return ('deep',)
    if isinstance(x, Pm.Qube):
        return qobs(x, Pm)
    if isinstance(x, Pm.Units):
        return units_obs(x)
    if isinstance(x, np.ma.MaskedArray):
        m = np.ma.getmaskarray(x)
        data = np.asarray(x.data)
        return ('MA', data.dtype.str, tuple(data.shape), m.tobytes(), np.ascontiguousarray(data[~m]).tobytes())
    if isinstance(x, np.ndarray):
        if x.dtype == object:
            return ('AO', tuple(x.shape), tuple(obs(e, Pm, depth + 1) for e in x.ravel()))
        return ('A', x.dtype.str, tuple(x.shape), np.ascontiguousarray(x).tobytes())
    if isinstance(x, (tuple, list)):
        return (type(x).__name__,) + tuple(obs(e, Pm, depth + 1) for e in x)
    if isinstance(x, dict):
        return ('dict',) + tuple((repr(k), obs(v, Pm, depth + 1)) for k, v in sorted(x.items(), key=lambda kv: repr(kv[0])))
    if isinstance(x, (set, frozenset)):
        return ('set', tuple(sorted(repr(e) for e in x)))
    if isinstance(x, np.generic):
        return ('g', x.dtype.str, x.tobytes())
    if isinstance(x, bool) or x is None or isinstance(x, (int, str, bytes, slice, type(Ellipsis))):
        return ('O', type(x).__name__, repr(x))
    if isinstance(x, float):
        return ('f', _fhex(x))
    if isinstance(x, complex):
        return ('c', _fhex(x.real), _fhex(x.imag))
    if isinstance(x, type):
        return ('type', x.__name__)
    return ('O', type(x).__name__)


def outcome(ev, Pm):
    """the observable outcome of one executed call"""
    out = {'ok': bool(ev.ok)}
    if ev.ok:
        out['result'] = obs(ev.result, Pm)
    else:
        out['exc'] = tuple(ev.exc_family)
    after = []
    seen = set()
    for lab, o in ev.operands:
        if id(o) in seen:
            continue
        seen.add(id(o))
        if isinstance(o, (Pm.Qube, Pm.Units, np.ma.MaskedArray, list, tuple, dict)):
            after.append((lab, obs(o, Pm)))
    out['after'] = after
    return out


_KEY_ORDER = {'ok': 0, 'exc': 1, 'error': 2, 'T': 3, 'shape': 4, 'numer': 5, 'denom': 6, 'dtype': 7, 'units': 8,
              'readonly': 9, 'mask': 10, 'values': 11, 'derivs': 12, 'result': 20, 'after': 30}


def first_diff(a, b, path=''):
    """(path, a-part, b-part) of the first difference between two observations"""
    if type(a) != type(b):
        return (path, _sh(a), _sh(b))
    if isinstance(a, dict):
        for k in sorted(set(a) | set(b), key=lambda k: (_KEY_ORDER.get(k, 50), str(k))):
            if k not in a or k not in b:
                return ('%s.%s' % (path, k), _sh(a.get(k, '<absent>')), _sh(b.get(k, '<absent>')))
            r = first_diff(a[k], b[k], '%s.%s' % (path, k))
            if r:
                return r
        return None
    if isinstance(a, (tuple, list)):
        if len(a) != len(b):
            return (path + '.len', len(a), len(b))
        for i, (x, y) in enumerate(zip(a, b)):
            r = first_diff(x, y, '%s[%d]' % (path, i))
            if r:
                return r
        return None
    if a != b:
        return (path, _sh(a), _sh(b))
    return None


def _sh(x):
    if isinstance(x, bytes):
        if len(x) % 8 == 0 and 0 < len(x) <= 64:
            return 'f8' + str(np.frombuffer(x, dtype='<f8').tolist()) + '/i8' + str(np.frombuffer(x, dtype='<i8').tolist())
        return 'bytes:' + x.hex()[:80]
    s = repr(x)
    return s if len(s) < 240 else s[:240] + '...'


def diff_kind(path, base, twin):
    """coarse class of a twin difference, for signatures"""
    if base['ok'] != twin['ok']:
        return 'raises-vs-returns'
    if not base['ok'] and base['exc'] != twin['exc']:
        return 'exception-family'
    p = path
    where = 'operand-after' if p.startswith('.after') else 'result'
    if '.derivs' in p:
        # a derivative key present on one side only / a difference inside a derivative
        return where + (':deriv-keys' if p.split('.derivs', 1)[1].count('.') == 1 else ':derivs')
    for k in ('mask', 'values', 'units', 'shape', 'numer', 'denom', 'readonly', 'dtype', 'T'):
        if '.' + k in p:
            return where + ':' + k
    return where + ':value'


# ---------------------------------------------------------------------------------------
# exemptions (the property's own list)
# ---------------------------------------------------------------------------------------
EXEMPT_NAMES = {
    'values': 'property: the raw array, documented as such',
    'vals': 'alias of values',
    'without_mask': 'documented: the same object with its mask removed',
    'remask': 'documented: replaces the mask, values untouched',
}


_DEFAULTS = {}


def _default_of(desc, pname, Pm):
    """the default of a parameter of the callable named by the descriptor (None if there is none)"""
    key = (desc['cls'], desc['name'], pname)
    if key not in _DEFAULTS:
        val = None
        try:
            import inspect
            f = inspect.getattr_static(getattr(Pm, desc['cls']), desc['name'])
            f = getattr(f, '__func__', f)
            p = inspect.signature(f).parameters.get(pname)
            if p is not None and p.default is not inspect.Parameter.empty:
                val = p.default
        except Exception:
            val = None
        _DEFAULTS[key] = val
    return _DEFAULTS[key]


def exempt(desc, Pm):
    """reason string when the call is outside the property, else None"""
    n = desc['name']
    if n in EXEMPT_NAMES:
        return 'raw-storage:' + n
    args = dict((p, s) for p, s in desc['args'])

    def effective(pname):
        sp = args.get(pname)
        if sp is None:
            return None
        if sp == ['omit']:
            return _default_of(desc, pname, Pm)
        return sp[1] if sp[0] == 'lit' else '<obj>'
    if n in ('as_index', 'as_index_and_mask') and 'masked' in args and effective('masked') is None:
        return 'raw-storage:as_index(masked=None)'
    if 'check' in args and effective('check') is False:
        return 'caller-promise:check=False'
    if 'nozeros' in args and effective('nozeros') is True:
        return 'caller-promise:nozeros=True'
    return None


# ---------------------------------------------------------------------------------------
# (a) twin runs over the sweep
# ---------------------------------------------------------------------------------------
def twin_call(d, Pm, substs=None):
    """-> (hidden per operand label, [failure dicts], status).  A failure = one substitution under
    which the outcome differs from the untouched run; `leak_from` names the operands whose hidden
    values alone (all others untouched) already change the outcome."""
    ev0 = sweep.execute(d, Pm, before=make_hook(None, Pm))
    if ev0.fn is None:
        return {}, [], 'build-error'
    per = ev0.token or {}
    if not per:
        return {}, [], 'no-hidden'
    if ev0.exc_family and ev0.exc_family[0] == 'SweepTimeout':
        return per, [], 'timeout'
    o0 = outcome(ev0, Pm)
    fails = []
    wdiff = 0
    checked = False
    for s in (substs or SUBST):
        ev1 = sweep.execute(d, Pm, before=make_hook(s, Pm))
        if ev1.exc_family and ev1.exc_family[0] == 'SweepTimeout':
            continue
        o1 = outcome(ev1, Pm)
        if ev1.warnings != ev0.warnings:
            wdiff += 1
        if o1 == o0:
            continue
        if not checked:       # determinism guard: the untouched run must reproduce itself
            checked = True
            ev2 = sweep.execute(d, Pm, before=make_hook(None, Pm))
            if outcome(ev2, Pm) != o0:
                return per, [], 'nondeterministic'
        path, pa, pb = first_diff(o0, o1)
        leak = []
        if len(per) > 1:
            for lab in sorted(per):
                evl = sweep.execute(d, Pm, before=make_hook(s, Pm, only=lab))
                if outcome(evl, Pm) != o0:
                    leak.append(lab)
        else:
            leak = sorted(per)
        fails.append({'subst': s, 'path': path, 'a': pa, 'b': pb, 'kind': diff_kind(path, o0, o1),
                      'base': summary(o0), 'twin': summary(o1), 'leak_from': leak})
    return per, fails, ('warn-diff' if wdiff else 'ok')


def summary(o):
    if not o['ok']:
        return 'raised %s at %s' % o['exc']
    r = o['result']
    if isinstance(r, dict):
        return 'returned %s shape=%s mask=%s' % (r.get('T'), r.get('shape'), _sh(r.get('mask')))
    return 'returned ' + _sh(r)[:160]


def worker(chunk):
    Pm = P()
    out = []
    stats = {}

    def cnt(k, n=1):
        stats[k] = stats.get(k, 0) + n
    for d in chunk:
        cnt('calls')
        ex = exempt(d, Pm)
        if ex:
            cnt('exempt')
            cnt('exempt:' + ex)
            continue
        per, fails, st = twin_call(d, Pm)
        cnt('st:' + st)
        if per:
            cnt('twinned')
            cnt('twin-runs', len(SUBST))
        for f in fails:
            out.append((d['id'], f))
    return {'fail': out, 'stats': stats}


def _role(lab):
    return 'recv' if lab == 'recv' else lab.split('[')[0]


def signature(desc, f):
    """structured signature of a twin disagreement (matched against known findings)"""
    args = dict((p, s) for p, s in desc['args'])
    r = desc.get('recv') or {}
    path = f['path']
    exc = None
    for k in ('twin', 'base'):
        if f[k].startswith('raised'):
            exc = f[k][7:]
            break
    sig = {'kind': 'sweep', 'method': desc['name'], 'cls': desc['cls'], 'diff': f['kind'],
           'leak_from': '+'.join(sorted(set(_role(x) for x in f['leak_from']))) or 'joint',
           'where': 'derivs' if '.derivs' in path else ('after' if path.startswith('.after') else 'result'),
           'item_rank': len(r.get('item') or []), 'recv_kind': r.get('kind'), 'exc': exc}
    return sig


# ---------------------------------------------------------------------------------------
# run
# ---------------------------------------------------------------------------------------
def run(ctx):
    Pm = P()
    ctx.rule = ('twin runs: every sweep call / composition whose operands hold masked elements is re-run with the '
                'numbers underneath the masks replaced (pool: 0, -1, +-1e300 (ints +-1e9), 7.25, out-of-range index '
                '1e6, the class default, a mixed pattern); outcomes compared on obs + exception family; '
                'non-trivial = call with at least one hidden element')
    ctx.assumptions = ['hidden values are overwritten through the private fields _values_ (mask representation, '
                       'read-only flags and WRITEABLE flags are restored)',
                       'warnings are outside the projection (counted, not compared); NaN/inf are not in the pool']
    if ctx.ensure_library():
        ctx.prove(['theories/Props/C03.v'])
    calls = sweep.call_list(Pm)
    sel = sweep.select(calls, ctx.rng, ctx.tier)
    byid = {d['id']: d for d in sel}
    ctx.log('sweep: %d of %d calls' % (len(sel), len(calls)))
    results = sweep.run_parallel(sel, worker, chunk=200)
    tot = {}
    seen = set()
    for res in results:
        for k, v in res['stats'].items():
            tot[k] = tot.get(k, 0) + v
        for cid, f in res['fail']:
            d = byid[cid]
            sig = signature(d, f)
            ctx.count('twin-disagreements')
            key = json.dumps(sig, sort_keys=True, default=str)
            if key in seen:
                continue
            seen.add(key)
            ctx.fail(sig, {'call': d, 'subst': f['subst']},
                     {'call': sweep.describe(d), 'first_difference': [f['path'], f['a'], f['b']],
                      'untouched': f['base'], 'twin': f['twin'], 'leak_from': f['leak_from']})
    for k, v in sorted(tot.items()):
        ctx.count('sweep:' + k, v)
    ctx.evaluations += tot.get('twin-runs', 0) + tot.get('twinned', 0)
    ctx.log('sweep twins done: %s' % {k: v for k, v in tot.items() if not k.startswith('exempt:')})
    ctx.exhaustive = (ctx.tier == 'thorough')
    return ctx.finish()


def replay(path):
    Pm = P()
    d = json.load(open(path))
    if 'case' not in d:
        print(json.dumps(d, indent=1)[:4000])
        return 1
    c = d['case']
    bad = False
    if 'call' in c:
        print('call      :', sweep.describe(c['call']))
        print('subst     :', c['subst'])
        per, fails, st = twin_call(c['call'], Pm, substs=[c['subst']])
        print('hidden elements:', per, 'status:', st)
        for f in fails:
            print('  untouched :', f['base'])
            print('  twin      :', f['twin'])
            print('  leak from :', f['leak_from'])
            print('  first difference at %s [%s]:\n     %s\n     %s' % (f['path'], f['kind'], f['a'], f['b']))
        bad = bool(fails)
    print('property FAILS on this case' if bad else 'property holds on this case')
    return 1 if bad else 0
