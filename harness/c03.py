"""C03 - masked values do not exist: the numbers stored underneath masked elements never influence
an observable result (a two-run / non-interference property).

 P  Props/C03.v (expression language over masked arrays WITH hidden values; obs_equiv;
    C03_op_noninterference_* per operation family; C03_program_noninterference by induction over
    expression trees; non-vacuity and a leaking operation refuted).
 S  (a) twin runs over the API sweep (harness/sweep.py): every call whose operands (receiver,
        arguments, their derivatives, MaskedArray arguments) hold at least one masked element is
        built again for every substitution of the pool and the numbers underneath the masked
        elements are overwritten in place (mask representation untouched) before the call; the
        observable outcomes (exception family+site / obs of everything reachable from the result /
        obs of the operands afterwards) must agree with the untouched run.
    (b) twin runs over compositions (depth 1-3 expression programs over the core alphabet).
 K  the same kind of programs restricted to the modelled alphabet on integer Scalars: the model is
    evaluated inside Coq on BOTH twins and compared with what the implementation returned for each.
"""
import json
import math
import os
import pickle
import warnings

import numpy as np

from . import lib, sweep
from .lib import cbool, clist

HEADER = ('From Coq Require Import List ZArith Bool.\nFrom PM Require Import C03Model.\n'
          'Import ListNotations.\nOpen Scope Z_scope.\n')


def P():
    return sweep.P()


# ---------------------------------------------------------------------------------------
# substitutions of hidden values
# ---------------------------------------------------------------------------------------
SUBST = ['zero', 'neg1', 'huge', 'neghuge', 'frac', 'oor', 'default', 'mixed']
_F = {'zero': 0.0, 'neg1': -1.0, 'huge': 1e300, 'neghuge': -1e300, 'frac': 7.25, 'oor': 1e6}
_I = {'zero': 0, 'neg1': -1, 'huge': 10 ** 9, 'neghuge': -10 ** 9, 'frac': 7, 'oor': 10 ** 6}
_B = {'zero': False, 'neg1': True, 'huge': True, 'neghuge': False, 'frac': True, 'oor': True}
_MIXF = [1e300, 0.0, -1.0, 7.25, -1e300, 1e6, 3.0, -0.5]
_MIXI = [10 ** 6, 0, -1, 7, -10 ** 9, 10 ** 9, 3, -2]


def _fill(kind, s, n, item, default, cur):
    """array of shape (n,)+item with the substituted numbers"""
    if s == 'default':
        d = np.asarray(default)
        try:
            return np.broadcast_to(d, (n,) + item).copy()
        except ValueError:
            return np.ones((n,) + item)
    if s == 'mixed':
        if kind == 'b':
            return np.logical_not(cur)
        pool = _MIXF if kind == 'f' else _MIXI
        k = int(np.prod((n,) + item))
        return np.array([pool[i % len(pool)] for i in range(k)]).reshape((n,) + item)
    tab = _F if kind == 'f' else (_I if kind in 'iu' else _B)
    return np.full((n,) + item, tab[s])


def _subst_array(holder, attr, v, m, s, default):
    """overwrite v[m] (m: bool array over the leading axes, or True = everything)"""
    kind = v.dtype.kind
    if kind not in 'fiub':
        return 0
    if m is True:
        lead = ()
        sel = v.reshape((1,) + v.shape)
        n = 1
        item = v.shape
    else:
        n = int(m.sum())
        item = v.shape[m.ndim:]
    if n == 0:
        return 0
    restore = False
    w = v
    if not v.flags.writeable:
        try:
            v.flags.writeable = True
            restore = True
        except ValueError:
            w = v.copy()
    if m is True:
        cur = w.reshape((1,) + w.shape)
        w[...] = _fill(kind, s, 1, item, default, cur)[0].astype(w.dtype)
    else:
        w[m] = _fill(kind, s, n, item, default, w[m]).astype(w.dtype)
    if restore:
        v.flags.writeable = False
    if w is not v:
        w.flags.writeable = False
        if isinstance(holder, dict):
            holder[attr] = w
        else:
            setattr(holder, attr, w)
    return n


def subst_qube(q, s, Pm, seen):
    """replace the hidden numbers of q (and of its derivatives); -> number of hidden elements.
    s = None: only count."""
    if id(q) in seen:
        return 0
    seen.add(id(q))
    n = 0
    m = q.__dict__.get('_mask_')
    v = q.__dict__.get('_values_')
    shape = tuple(q.__dict__.get('_shape_', ()))
    default = q.__dict__.get('_default_', 1)
    if isinstance(m, np.ndarray) and m.shape == shape and m.dtype == np.bool_:
        k = int(m.sum())
        if k and s is not None and isinstance(v, np.ndarray) and v.shape[:m.ndim] == shape:
            _subst_array(q.__dict__, '_values_', v, m, s, default)
        n += k
    elif isinstance(m, (bool, np.bool_)) and bool(m):
        size = int(np.prod(shape)) if shape else 1
        n += size
        if s is not None and size:
            if isinstance(v, np.ndarray):
                if shape:
                    _subst_array(q.__dict__, '_values_', v, np.ones(shape, bool), s, default)
                else:
                    _subst_array(q.__dict__, '_values_', v, True, s, default)
            elif isinstance(v, (bool, int, float, np.generic)):
                kind = np.asarray(v).dtype.kind
                f = _fill(kind, s, 1, (), default, np.asarray([v]))[0]
                q.__dict__['_values_'] = type(v)(f) if not isinstance(v, np.generic) else np.asarray(v).dtype.type(f)
    if n and s is not None:
        c = q.__dict__.get('_cache_')
        if isinstance(c, dict):
            c.clear()
    for k, d in list((q.__dict__.get('_derivs_') or {}).items()):
        n += subst_qube(d, s, Pm, seen)
    return n


def subst_any(o, s, Pm, seen, depth=0):
    if depth > 4:
        return 0
    if isinstance(o, Pm.Qube):
        return subst_qube(o, s, Pm, seen)
    if isinstance(o, np.ma.MaskedArray):
        if id(o) in seen:
            return 0
        seen.add(id(o))
        m = np.ma.getmaskarray(o)
        k = int(m.sum())
        if k and s is not None:
            _subst_array({}, 'x', o.data, m, s, 1)
        return k
    if isinstance(o, (list, tuple)):
        return sum(subst_any(e, s, Pm, seen, depth + 1) for e in o)
    if isinstance(o, dict):
        return sum(subst_any(e, s, Pm, seen, depth + 1) for e in o.values())
    return 0


def make_hook(s, Pm, only=None):
    """before-hook for sweep.execute: substitute (s) / count (s=None) the hidden elements of all
    operands, or of the operand labelled `only`; token = {label: hidden elements}"""
    def before(desc, recv, operands):
        seen = set()
        per = {}
        for lab, o in operands:
            if only is not None and lab != only:
                continue
            k = subst_any(o, s, Pm, seen)
            if k:
                per[lab] = per.get(lab, 0) + k
        return per
    return before


# ---------------------------------------------------------------------------------------
# observation
# ---------------------------------------------------------------------------------------
def _fhex(x):
    x = float(x)
    if math.isnan(x):
        return 'nan'
    return x.hex()


def units_obs(u):
    if u is None:
        return None
    return ('U', tuple(u.exponents), tuple(u.triple), repr(u.name))


def qobs(q, Pm, vis=None):
    """observable content of one polymath object.  vis (bool array, parent's antimask) restricts a
    derivative to the elements where its parent is unmasked."""
    d = {'T': type(q).__name__}
    try:
        shape = tuple(q._shape_)
        d['shape'] = shape
        d['numer'] = tuple(q._numer_)
        d['denom'] = tuple(q._denom_)
        d['units'] = units_obs(q._units_)
        d['readonly'] = bool(q._readonly_)
        v = q._values_
        va = np.asarray(v)
        if isinstance(v, np.ndarray) or isinstance(v, np.generic):
            d['dtype'] = va.dtype.kind
        else:                                     # Python scalar: its kind is its type
            d['dtype'] = 'b' if isinstance(v, bool) else ('i' if isinstance(v, int) else
                                                          ('f' if isinstance(v, float) else type(v).__name__))
        em = np.broadcast_to(np.asarray(q._mask_, dtype=bool), shape)
        if vis is not None and vis.shape == shape:
            d['mask'] = em[vis].tobytes()
            sel = np.logical_and(np.logical_not(em), vis)
        else:
            d['mask'] = em.tobytes()
            sel = np.logical_not(em)
        if va.shape[:len(shape)] == shape:
            if shape == ():
                vals = va[np.newaxis][np.asarray([bool(sel)])]
            else:
                vals = va[sel]
            d['values'] = (va.dtype.str, np.ascontiguousarray(vals).tobytes()) if vals.size else ('', b'')
            if not vals.size:
                d['dtype'] = ''       # the numeric kind is observable only through the value of an unmasked element
        else:
            d['values'] = ('malformed', str(va.shape))
        dv = {}
        for k, x in sorted((q._derivs_ or {}).items()):
            dv[k] = qobs(x, Pm, vis=np.logical_not(em))
        d['derivs'] = dv
    except Exception as e:                        # a malformed object is C05's business
        d['error'] = type(e).__name__
    return d


def obs(x, Pm, depth=0):
    if depth > 6:
        return ('deep',)
    if isinstance(x, Pm.Qube):
        return qobs(x, Pm)
    if isinstance(x, Pm.Units):
        return units_obs(x)
    if isinstance(x, np.ma.MaskedArray):
        m = np.ma.getmaskarray(x)
        data = np.asarray(x.data)
        if data.dtype == object:        # the bytes of an object array are addresses, not content
            return ('MAO', tuple(data.shape), m.tobytes(), tuple(obs(e, Pm, depth + 1) for e in data[~m].ravel()))
        return ('MA', data.dtype.str, tuple(data.shape), m.tobytes(), np.ascontiguousarray(data[~m]).tobytes())
    if isinstance(x, np.ndarray):
        if x.dtype == object:
            return ('AO', tuple(x.shape), tuple(obs(e, Pm, depth + 1) for e in x.ravel()))
        return ('A', x.dtype.str, tuple(x.shape), np.ascontiguousarray(x).tobytes())
    if isinstance(x, (tuple, list)):
        return (type(x).__name__,) + tuple(obs(e, Pm, depth + 1) for e in x)
    if isinstance(x, dict):
        return ('dict',) + tuple((repr(k), obs(v, Pm, depth + 1)) for k, v in sorted(x.items(), key=lambda kv: repr(kv[0])))
    if isinstance(x, (set, frozenset)):
        return ('set', tuple(sorted(repr(e) for e in x)))
    if isinstance(x, np.generic):                 # NumPy scalar vs Python scalar is representation
        if isinstance(x, np.bool_):
            return ('O', 'bool', repr(bool(x)))
        if isinstance(x, np.integer):
            return ('O', 'int', repr(int(x)))
        if isinstance(x, np.floating):
            return ('f', _fhex(x))
        return ('g', x.dtype.str, x.tobytes())
    if isinstance(x, bool) or x is None or isinstance(x, (int, str, bytes, slice, type(Ellipsis))):
        return ('O', type(x).__name__, repr(x))
    if isinstance(x, float):
        return ('f', _fhex(x))
    if isinstance(x, complex):
        return ('c', _fhex(x.real), _fhex(x.imag))
    if isinstance(x, type):
        return ('type', x.__name__)
    return ('O', type(x).__name__)


def outcome(ev, Pm):
    """the observable outcome of one executed call"""
    out = {'ok': bool(ev.ok)}
    if ev.ok:
        out['result'] = obs(ev.result, Pm)
    else:
        out['exc'] = tuple(ev.exc_family)
    after = []
    seen = set()
    for lab, o in ev.operands:
        if id(o) in seen:
            continue
        seen.add(id(o))
        if isinstance(o, (Pm.Qube, Pm.Units, np.ma.MaskedArray, list, tuple, dict)):
            after.append((lab, obs(o, Pm)))
    out['after'] = after
    return out


_KEY_ORDER = {'ok': 0, 'exc': 1, 'error': 2, 'T': 3, 'shape': 4, 'numer': 5, 'denom': 6, 'units': 8,
              'readonly': 9, 'mask': 10, 'dtype': 10.5, 'values': 11, 'derivs': 12, 'result': 20, 'after': 30}


def first_diff(a, b, path=''):
    """(path, a-part, b-part) of the first difference between two observations"""
    if type(a) != type(b):
        return (path, _sh(a), _sh(b))
    if isinstance(a, dict):
        for k in sorted(set(a) | set(b), key=lambda k: (_KEY_ORDER.get(k, 50), str(k))):
            if k not in a or k not in b:
                return ('%s.%s' % (path, k), _sh(a.get(k, '<absent>')), _sh(b.get(k, '<absent>')))
            r = first_diff(a[k], b[k], '%s.%s' % (path, k))
            if r:
                return r
        return None
    if isinstance(a, (tuple, list)):
        if len(a) != len(b):
            return (path + '.len', len(a), len(b))
        for i, (x, y) in enumerate(zip(a, b)):
            r = first_diff(x, y, '%s[%d]' % (path, i))
            if r:
                return r
        return None
    if a != b:
        return (path, _sh(a), _sh(b))
    return None


def _sh(x):
    if isinstance(x, bytes):
        if len(x) % 8 == 0 and 0 < len(x) <= 64:
            return 'f8' + str(np.frombuffer(x, dtype='<f8').tolist()) + '/i8' + str(np.frombuffer(x, dtype='<i8').tolist())
        return 'bytes:' + x.hex()[:80]
    s = repr(x)
    return s if len(s) < 240 else s[:240] + '...'


def only_rounding(a, b):
    """True iff two observations are equal except for float value arrays that agree to within 2 units in the last
    place everywhere (NumPy's math kernels round differently for contiguous and strided input, so a copy made on one
    side only shows up as a last-bit difference; KF-C03-layout-rounding)"""
    if type(a) != type(b):
        return False
    if isinstance(a, dict):
        return set(a) == set(b) and all(only_rounding(a[k], b[k]) for k in a)
    if isinstance(a, tuple) and len(a) == 2 and isinstance(a[1], bytes) and isinstance(b, tuple) and len(b) == 2 \
            and isinstance(b[1], bytes) and a != b:
        if a[0] != b[0] or len(a[1]) != len(b[1]) or not str(a[0]).lstrip('<>=|').startswith('f'):
            return False
        x, y = np.frombuffer(a[1], dtype=a[0]), np.frombuffer(b[1], dtype=b[0])
        with np.errstate(all='ignore'):
            same = (x == y) | (np.isnan(x) & np.isnan(y))
            close = np.abs(x - y) <= 2 * np.spacing(np.maximum(np.abs(x), np.abs(y)))
        return bool(np.all(same | (close & np.isfinite(x) & np.isfinite(y))))
    if isinstance(a, (tuple, list)):
        return len(a) == len(b) and all(only_rounding(x, y) for x, y in zip(a, b))
    return a == b


def diff_kind(path, base, twin):
    """coarse class of a twin difference, for signatures"""
    if base['ok'] == twin['ok'] and base['ok'] and only_rounding(base, twin):
        return 'result:values~rounding'
    if base['ok'] != twin['ok']:
        return 'raises-vs-returns'
    if not base['ok'] and base['exc'] != twin['exc']:
        return 'exception-family'
    p = path
    where = 'operand-after' if p.startswith('.after') else 'result'
    if '.derivs' in p:
        # a derivative key present on one side only / a difference inside a derivative
        return where + (':deriv-keys' if p.split('.derivs', 1)[1].count('.') == 1 else ':derivs')
    for k in ('mask', 'values', 'units', 'shape', 'numer', 'denom', 'readonly', 'dtype', 'T'):
        if '.' + k in p:
            return where + ':' + k
    return where + ':value'


# ---------------------------------------------------------------------------------------
# exemptions (the property's own list)
# ---------------------------------------------------------------------------------------
EXEMPT_NAMES = {
    'values': 'property: the raw array, documented as such',
    'vals': 'alias of values',
    'without_mask': 'documented: the same object with its mask removed',
    'remask': 'documented: replaces the mask, values untouched',
}


_DEFAULTS = {}


def _default_of(desc, pname, Pm):
    """the default of a parameter of the callable named by the descriptor (None if there is none)"""
    key = (desc['cls'], desc['name'], pname)
    if key not in _DEFAULTS:
        val = None
        try:
            import inspect
            f = inspect.getattr_static(getattr(Pm, desc['cls']), desc['name'])
            f = getattr(f, '__func__', f)
            p = inspect.signature(f).parameters.get(pname)
            if p is not None and p.default is not inspect.Parameter.empty:
                val = p.default
        except Exception:
            val = None
        _DEFAULTS[key] = val
    return _DEFAULTS[key]


def exempt(desc, Pm):
    """reason string when the call is outside the property, else None"""
    n = desc['name']
    if n in EXEMPT_NAMES:
        return 'raw-storage:' + n
    args = dict((p, s) for p, s in desc['args'])

    def effective(pname):
        sp = args.get(pname)
        if sp is None:
            return None
        if sp == ['omit']:
            return _default_of(desc, pname, Pm)
        return sp[1] if sp[0] == 'lit' else '<obj>'
    if n in ('as_index', 'as_index_and_mask') and 'masked' in args and effective('masked') is None:
        return 'raw-storage:as_index(masked=None)'
    if 'check' in args and effective('check') is False:
        return 'caller-promise:check=False'
    if 'nozeros' in args and effective('nozeros') is True:
        return 'caller-promise:nozeros=True'
    return None


# ---------------------------------------------------------------------------------------
# (a) twin runs over the sweep
# ---------------------------------------------------------------------------------------
def twin_call(d, Pm, substs=None):
    """-> (hidden per operand label, [failure dicts], status).  A failure = one substitution under
    which the outcome differs from the untouched run; `leak_from` names the operands whose hidden
    values alone (all others untouched) already change the outcome."""
    ev0 = sweep.execute(d, Pm, before=make_hook(None, Pm))
    if ev0.fn is None:
        return {}, [], 'build-error'
    per = ev0.token or {}
    if not per:
        return {}, [], 'no-hidden'
    if ev0.exc_family and ev0.exc_family[0] == 'SweepTimeout':
        return per, [], 'timeout'
    o0 = outcome(ev0, Pm)
    fails = []
    wdiff = 0
    checked = False
    for s in (substs or SUBST):
        ev1 = sweep.execute(d, Pm, before=make_hook(s, Pm))
        if ev1.exc_family and ev1.exc_family[0] == 'SweepTimeout':
            continue
        o1 = outcome(ev1, Pm)
        if ev1.warnings != ev0.warnings:
            wdiff += 1
        if o1 == o0:
            continue
        if not checked:       # determinism guard: the untouched run must reproduce itself
            checked = True
            ev2 = sweep.execute(d, Pm, before=make_hook(None, Pm))
            if outcome(ev2, Pm) != o0:
                return per, [], 'nondeterministic'
        path, pa, pb = first_diff(o0, o1)
        kind = diff_kind(path, o0, o1)
        leak = []
        if len(per) > 1:        # which operand's hidden numbers alone produce this kind of difference
            for lab in sorted(per):
                evl = sweep.execute(d, Pm, before=make_hook(s, Pm, only=lab))
                ol = outcome(evl, Pm)
                if ol != o0 and diff_kind(first_diff(o0, ol)[0], o0, ol) == kind:
                    leak.append(lab)
        else:
            leak = sorted(per)
        fails.append({'subst': s, 'path': path, 'a': pa, 'b': pb, 'kind': kind,
                      'base': summary(o0), 'twin': summary(o1), 'leak_from': leak})
    return per, fails, ('warn-diff' if wdiff else 'ok')


def summary(o):
    if not o['ok']:
        return 'raised %s at %s' % o['exc']
    r = o['result']
    if isinstance(r, dict):
        return 'returned %s shape=%s mask=%s' % (r.get('T'), r.get('shape'), _sh(r.get('mask')))
    return 'returned ' + _sh(r)[:160]


def worker(chunk):
    Pm = P()
    out = []
    tw = []
    stats = {}

    def cnt(k, n=1):
        stats[k] = stats.get(k, 0) + n
    for d in chunk:
        cnt('calls')
        ex = exempt(d, Pm)
        if ex:
            cnt('exempt')
            cnt('exempt:' + ex)
            continue
        per, fails, st = twin_call(d, Pm)
        cnt('st:' + st)
        if per:
            cnt('twinned')
            cnt('twin-runs', len(SUBST))
            tw.append(d['id'])
        for f in fails:
            out.append((d['id'], f))
    return {'fail': out, 'stats': stats, 'twinned': tw}


def _role(lab):
    return 'recv' if lab == 'recv' else lab.split('[')[0]


def signature(desc, f):
    """structured signature of a twin disagreement (matched against known findings)"""
    args = dict((p, s) for p, s in desc['args'])
    r = desc.get('recv') or {}
    path = f['path']
    exc = None
    for k in ('twin', 'base'):
        if f[k].startswith('raised'):
            exc = f[k][7:]
            break
    sig = {'kind': 'sweep', 'method': desc['name'], 'cls': desc['cls'], 'diff': f['kind'],
           'leak_from': '+'.join(sorted(set(_role(x) for x in f['leak_from']))) or 'joint',
           'where': 'derivs' if '.derivs' in path else ('after' if path.startswith('.after') else 'result'),
           'item_rank': len(r.get('item') or []), 'recv_kind': r.get('kind'), 'exc': exc}
    return sig


# ---------------------------------------------------------------------------------------
# (b) compositions: expression programs over the core alphabet
# ---------------------------------------------------------------------------------------
N = 4
LEAVES = [
    {'cls': 'Scalar', 'kind': 'float', 'vals': [2.0, -1.0, 0.0, 3.0], 'mask': [0, 1, 0, 0]},
    {'cls': 'Scalar', 'kind': 'float', 'vals': [0.5, 2.0, 2.0, -4.0], 'mask': [1, 0, 0, 1]},
    {'cls': 'Scalar', 'kind': 'float', 'vals': [1.0, 0.25, 9.0, 0.0], 'mask': [0, 0, 1, 0],
     'dt': {'vals': [1.0, -2.0, 0.5, 3.0], 'mask': [0, 1, 0, 0]}},
    {'cls': 'Scalar', 'kind': 'float', 'vals': [4.0, 4.0, 4.0, 4.0], 'mask': True},
    {'cls': 'Scalar', 'kind': 'float', 'vals': [-3.0, 5.0, 5.0, 1.0], 'mask': False},
    {'cls': 'Scalar', 'kind': 'int', 'vals': [3, 0, -2, 1], 'mask': [0, 0, 1, 0]},
    {'cls': 'Scalar', 'kind': 'int', 'vals': [0, 2, 1, 3], 'mask': [0, 1, 0, 1]},          # an index object
    {'cls': 'Scalar', 'kind': 'int', 'vals': [1, 1, 0, 2], 'mask': [1, 0, 0, 0]},
    {'cls': 'Boolean', 'kind': 'bool', 'vals': [1, 0, 1, 0], 'mask': [0, 0, 1, 1]},
    {'cls': 'Vector3', 'kind': 'float', 'vals': [[1., 0., 0.], [0., 2., 0.], [1., 1., 1.], [0., 0., -3.]],
     'mask': [0, 0, 1, 0]},
    {'cls': 'Scalar', 'kind': 'float', 'vals': 2.5, 'mask': True},                          # shapeless, masked
    {'cls': 'Pair', 'kind': 'int', 'vals': [[0, 1], [1, 0], [1, 1], [0, 0]], 'mask': [0, 1, 0, 0]},
    # beyond the 200-value cutoff of the pickler's compressed encodings, sparsely masked (fewer than 1/8 of the
    # elements) and smoothly varying: the hidden numbers must not reach the encoder's range / reference statistics
    {'cls': 'Scalar', 'kind': 'float', 'vals': [1.0 + (i % 97) / 97.0 for i in range(300)],
     'mask': [int(i % 23 == 5) for i in range(300)]},
    {'cls': 'Vector3', 'kind': 'float', 'vals': [[1.0 + i / 120.0, 2.0 - i / 240.0, 0.5 + (i % 7) / 14.0] for i in range(120)],
     'mask': [int(i % 31 == 3) for i in range(120)]},
]
BIG_LEAVES = (13, 14)


def build_leaf(d, Pm):
    c = getattr(Pm, d['cls'])
    dt = {'float': np.float64, 'int': np.int64, 'bool': np.bool_}[d['kind']]
    v = d['vals']
    vals = np.array(v, dtype=dt) if isinstance(v, list) else v
    m = d['mask']
    mask = np.array(m, dtype=bool) if isinstance(m, list) else bool(m)
    o = c(vals, mask)
    if 'dt' in d:
        o.insert_deriv('t', c(np.array(d['dt']['vals'], dtype=np.float64), np.array(d['dt']['mask'], dtype=bool)))
    return o


def _pickle_rt(Pm, x):
    return pickle.loads(pickle.dumps(x))


def _pickle_lossy(Pm, x):
    y = x.copy()
    y.set_pickle_digits(('single', 'single'), ('mean', 'mean'))
    return pickle.loads(pickle.dumps(y))


def _pickle_digits(digits, reference):
    def f(Pm, x):
        y = x.copy()
        y.set_pickle_digits(digits, reference)
        return pickle.loads(pickle.dumps(y))
    return f


_CURRENT_SUBST = [None]


def _rehide(Pm, x):
    """identity on an intermediate result, except that in the twin run the numbers under ITS mask are replaced as well
    (a value that an earlier step of the program has hidden is as invisible as one hidden from the start; seeded
    change C03-O: bool() of a comparison result that was masked afterwards read the booleans under the mask)"""
    if isinstance(x, Pm.Qube):
        if x.readonly or not isinstance(x._values_, np.ndarray) or not x._values_.flags.writeable:
            x = x.copy()
        subst_qube(x, _CURRENT_SUBST[0], Pm, set())
    return x


def _shrink_rt(Pm, x):
    am = x.antimask
    return x.shrink(am).unshrink(am)


UNARY = {
    'neg': lambda Pm, x: -x, 'abs': lambda Pm, x: abs(x), 'sqrt': lambda Pm, x: x.sqrt(), 'log': lambda Pm, x: x.log(),
    'sin': lambda Pm, x: x.sin(), 'arccos': lambda Pm, x: x.arccos(), 'arcsin': lambda Pm, x: x.arcsin(),
    'reciprocal': lambda Pm, x: x.reciprocal(), 'sq': lambda Pm, x: x ** 2, 'sign': lambda Pm, x: x.sign(),
    'sum': lambda Pm, x: x.sum(), 'mean': lambda Pm, x: x.mean(), 'max': lambda Pm, x: x.max(), 'min': lambda Pm, x: x.min(),
    'argmax': lambda Pm, x: x.argmax(), 'argmin': lambda Pm, x: x.argmin(), 'median': lambda Pm, x: x.median(),
    'sort': lambda Pm, x: x.sort(), 'any': lambda Pm, x: x.any(), 'all': lambda Pm, x: x.all(),
    'tvl_any': lambda Pm, x: x.tvl_any(), 'tvl_all': lambda Pm, x: x.tvl_all(), 'not': lambda Pm, x: x.logical_not(),
    'as_int': lambda Pm, x: x.as_int(), 'as_float': lambda Pm, x: x.as_float(), 'as_bool': lambda Pm, x: x.as_boolean(),
    'int': lambda Pm, x: x.int(), 'frac': lambda Pm, x: x.frac(),
    'shrink_rt': _shrink_rt, 'shrink': lambda Pm, x: x.shrink(x.antimask), 'pickle': _pickle_rt, 'pickle_lossy': _pickle_lossy,
    'pickle_d7_largest': _pickle_digits(7, 'largest'), 'pickle_d6_smallest': _pickle_digits(6, 'smallest'),
    'pickle_d5_median': _pickle_digits(5, 'median'), 'pickle_d8_logmean': _pickle_digits(8, 'logmean'),
    'pickle_d9_fpzip': _pickle_digits(9, 'fpzip'), 'pickle_d6_one': _pickle_digits(6, 1.0),
    'pickle_single': _pickle_digits('single', 'fpzip'), 'pickle_d7_mean': _pickle_digits((7, 5), ('mean', 'largest')),
    'str': lambda Pm, x: str(x), 'repr': lambda Pm, x: repr(x), 'builtin0': lambda Pm, x: x[0].as_builtin(),
    'bool': lambda Pm, x: bool(x), 'clip01': lambda Pm, x: x.clip(0, 1), 'clip01_noremask': lambda Pm, x: x.clip(0, 1, remask=False),
    'mw_eq0': lambda Pm, x: x.mask_where_eq(0, 1), 'mw_lt0': lambda Pm, x: x.mask_where_lt(0), 'mw_ne0_keep': lambda Pm, x: x.mask_where_ne(0, 7, remask=False),
    'norm': lambda Pm, x: x.norm(), 'unit': lambda Pm, x: x.unit(), 'wod': lambda Pm, x: x.wod,
    'flip': lambda Pm, x: x[::-1], 'count_masked': lambda Pm, x: x.count_masked(), 'mvals_sum': lambda Pm, x: x.mvals.sum(),
    'to_scalar0': lambda Pm, x: x.to_scalar(0), 'cumsum_like': lambda Pm, x: x + x.sum(), 'copy': lambda Pm, x: x.copy(),
    'as_index_m': lambda Pm, x: x.as_index(masked=0) if isinstance(x, Pm.Scalar) else x.as_index(masked=0),
    'rehide': _rehide,
    # a rotation about an undefined (zero) pole by the angles x: masked wherever the angle is not an unmasked zero
    # (seeded change C03-L: one hidden zero angle switched the replacement of every zero pole on)
    'spin_zero_pole': lambda Pm, x: Pm.Vector3(np.tile([1., 2., 3.], tuple(x.shape) + (1,))).spin(
        Pm.Vector3(np.zeros(tuple(x.shape) + (3,))), x),
    'as_builtin': lambda Pm, x: x.as_builtin(), 'hash_eq': lambda Pm, x: x == x, 'float0': lambda Pm, x: float(x[0]),
}
BINARY = {
    'add': lambda Pm, x, y: x + y, 'sub': lambda Pm, x, y: x - y, 'mul': lambda Pm, x, y: x * y, 'truediv': lambda Pm, x, y: x / y,
    'floordiv': lambda Pm, x, y: x // y, 'mod': lambda Pm, x, y: x % y, 'pow': lambda Pm, x, y: x ** y,
    'eq': lambda Pm, x, y: x == y, 'ne': lambda Pm, x, y: x != y, 'lt': lambda Pm, x, y: x < y, 'le': lambda Pm, x, y: x <= y,
    'booleq': lambda Pm, x, y: bool(x == y), 'tvl_eq': lambda Pm, x, y: x.tvl_eq(y), 'tvl_lt': lambda Pm, x, y: x.tvl_lt(y),
    'tvl_and': lambda Pm, x, y: x.tvl_and(y), 'tvl_or': lambda Pm, x, y: x.tvl_or(y),
    'and': lambda Pm, x, y: x & y, 'or': lambda Pm, x, y: x | y,
    'maximum': lambda Pm, x, y: Pm.Scalar.maximum(x, y), 'minimum': lambda Pm, x, y: Pm.Scalar.minimum(x, y),
    'stack': lambda Pm, x, y: Pm.Qube.stack(x, y), 'getitem': lambda Pm, x, y: x[y],
    'getitem2d': lambda Pm, x, y: Pm.Qube.stack(x, x)[y],
    'setitem': lambda Pm, x, y: _setitem(x, y), 'dot': lambda Pm, x, y: x.dot(y), 'cross': lambda Pm, x, y: x.cross(y),
    'sep': lambda Pm, x, y: x.sep(y), 'mask_where': lambda Pm, x, y: x.mask_where(y.as_mask_where_nonzero()),
    'mw_gt': lambda Pm, x, y: x.mask_where_gt(y.wod.without_mask() if False else 1.), 'from_scalars': lambda Pm, x, y: Pm.Vector.from_scalars(x, y, x),
    'shrink_by': lambda Pm, x, y: x.shrink(y.antimask).unshrink(y.antimask), 'clip_by': lambda Pm, x, y: x.clip(None, y),
    'where': lambda Pm, x, y: Pm.Scalar.as_scalar(x).mask_where(y < 1),
}


def _inplace_after_queries(opname):
    """z = copy of x; ask the cached questions; z op= y; the cache must not keep answers about the old mask
    (seeded change C03-A: a stale antimask lets reductions read the numbers hidden under the new mask)"""
    import operator
    fn = getattr(operator, opname)

    def f(Pm, x, y):
        z = x.copy()
        z.antimask, z.corners, z.sum()
        if z.shape:
            z.shrink(z.antimask)
        return fn(z, y)
    return f


for _nm in ('iadd', 'isub', 'imul', 'itruediv', 'ifloordiv', 'imod'):
    BINARY[_nm + '_q'] = _inplace_after_queries(_nm)


def _derived_then_mutated(derive):
    """w = derive(z); then every element of z is assigned in turn, first made visible, then hidden, then the whole
    object is combined in place with an operand masked the other way round; w is what is observed.  w may share z's
    arrays (number fast paths, clone, views), so a mutator that writes into a shared mask array makes w show numbers
    that were computed from z's hidden ones (seeded change C03-G)"""
    def f(Pm, x):
        z = x.copy()
        w = derive(Pm, z)
        if w is z:
            return 'same object'
        if z.shape:
            for k in range(z.shape[0]):
                z[k] = z[k].remask(False)
            for k in range(z.shape[0]):
                z[k] = z[k].remask(True)
            z[...] = x.copy().remask(False)
            z[::2] = z[::2].remask(True)
        if not z.is_bool():
            one = 1 if z.is_int() else 1.
            z *= Pm.Scalar(np.full(z.shape, one) if z.shape else one, np.logical_not(np.broadcast_to(x.mask, z.shape)))
        return w
    return f


for _nm, _fn in (('neg', lambda Pm, z: -z), ('addnum', lambda Pm, z: z + 10), ('mulnum', lambda Pm, z: z * 2),
                 ('abs', lambda Pm, z: abs(z)), ('clone', lambda Pm, z: z.clone()), ('wod', lambda Pm, z: z.wod),
                 ('view', lambda Pm, z: z[...]), ('flip', lambda Pm, z: z[::-1]), ('eq', lambda Pm, z: z == z),
                 ('reshape', lambda Pm, z: z.reshape(z.shape + (1,))), ('asfloat', lambda Pm, z: z.as_float()),
                 ('remask_or', lambda Pm, z: z.remask_or(False)), ('shrink', lambda Pm, z: z.shrink(True))):
    UNARY['sib_' + _nm] = _derived_then_mutated(_fn)
SMALL_UNARY = ['neg', 'sqrt', 'reciprocal', 'sum', 'mean', 'max', 'argmax', 'argmin', 'median', 'sort', 'any', 'all',
               'shrink_rt', 'pickle', 'as_int', 'mw_eq0', 'clip01', 'str', 'int', 'min']
SMALL_BINARY = ['add', 'mul', 'truediv', 'floordiv', 'eq', 'lt', 'tvl_eq', 'maximum', 'minimum', 'stack', 'getitem', 'booleq',
                'isub_q', 'itruediv_q']


def _setitem(x, y):
    z = x.copy()
    z[y] = z[0]
    return z


def prog_leaves(p):
    if p[0] == 'leaf':
        return [p[1]]
    out = []
    for c in p[1:]:
        out.extend(prog_leaves(c))
    return out


def prog_ops(p):
    if p[0] == 'leaf':
        return set()
    out = {p[0]}
    for c in p[1:]:
        out |= prog_ops(c)
    return out


def prog_depth(p):
    return 0 if p[0] == 'leaf' else 1 + max(prog_depth(c) for c in p[1:])


def eval_prog(p, leaves, Pm):
    if p[0] == 'leaf':
        return leaves[p[1]]
    args = [eval_prog(c, leaves, Pm) for c in p[1:]]
    f = UNARY[p[0]] if len(args) == 1 else BINARY[p[0]]
    return f(Pm, *args)


def run_prog(p, s, Pm):
    """-> (outcome, hidden elements)"""
    leaves = {i: build_leaf(LEAVES[i], Pm) for i in set(prog_leaves(p))}
    seen = set()
    nh = 0
    for i in sorted(leaves):
        nh += subst_qube(leaves[i], s, Pm, seen)
    out = {}
    _CURRENT_SUBST[0] = s
    with warnings.catch_warnings():
        warnings.simplefilter('ignore')
        try:
            r = eval_prog(p, leaves, Pm)
            out = {'ok': True, 'result': obs(r, Pm)}
        except Exception as e:
            out = {'ok': False, 'exc': tuple(lib.exc_family(e))}
    out['after'] = []
    return out, nh


COMP_SUBST = ['zero', 'huge', 'oor', 'mixed', 'neg1']


def twin_prog(p, Pm, substs=None):
    """-> list of failure dicts for program p (empty = fine), status"""
    o0, nh = run_prog(p, None, Pm)
    if nh == 0:
        return [], 'no-hidden'
    fails = []
    for s in (substs or COMP_SUBST):
        o1, _ = run_prog(p, s, Pm)
        if o1 != o0:
            if run_prog(p, None, Pm)[0] != o0:
                return [], 'nondeterministic'
            path, pa, pb = first_diff(o0, o1)
            fails.append({'subst': s, 'path': path, 'a': pa, 'b': pb, 'kind': diff_kind(path, o0, o1),
                          'base': summary(o0), 'twin': summary(o1)})
    return fails, ('raises' if not o0['ok'] else 'ok')


def shrink_prog(p, Pm):
    """the smallest sub-program that already disagrees on twins"""
    for c in p[1:] if p[0] != 'leaf' else []:
        if c[0] != 'leaf' and twin_prog(c, Pm)[0]:
            return shrink_prog(c, Pm)
    return p


def prog_str(p):
    if p[0] == 'leaf':
        return 'L%d' % p[1]
    return '%s(%s)' % (p[0], ', '.join(prog_str(c) for c in p[1:]))


def comp_signature(p, f):
    kids = [c[0] for c in p[1:] if c[0] != 'leaf']
    exc = None
    for k in ('twin', 'base'):
        if f[k].startswith('raised'):
            exc = f[k][7:]
            break
    return {'kind': 'comp', 'root': p[0], 'children': '+'.join(kids), 'ops': '+'.join(sorted(prog_ops(p))),
            'diff': f['kind'], 'depth': prog_depth(p), 'exc': exc}


def comp_worker(chunk):
    Pm = P()
    out = []
    st = {}
    for p in chunk:
        try:
            fails, status = twin_prog(p, Pm)
        except Exception as e:          # the harness itself
            fails, status = [], 'harness:' + type(e).__name__
        st[status] = st.get(status, 0) + 1
        if fails:
            q = shrink_prog(p, Pm)
            qf = twin_prog(q, Pm)[0] or fails
            out.append((p, q, qf[0]))
    return {'fail': out, 'stats': st}


def depth1_programs(unary, binary, nleaves):
    out = []
    for u in unary:
        for i in range(nleaves):
            out.append([u, ['leaf', i]])
    for b in binary:
        for i in range(nleaves):
            for j in range(nleaves):
                out.append([b, ['leaf', i], ['leaf', j]])
    return out


def rehide_programs():
    n = len(LEAVES)
    out = []
    for i in range(n):
        out.append(['spin_zero_pole', ['leaf', i]])
        out.append(['spin_zero_pole', ['neg', ['leaf', i]]])
    # in-place operators applied after cached queries, bare and under a reduction: always complete (the detection of
    # seeded change C03-A had depended on which of these the quick sample happened to contain)
    for b in sorted(k for k in BINARY if k.endswith('_q')):
        for i in range(n):
            for j in range(n):
                out.append([b, ['leaf', i], ['leaf', j]])
                if (i + j) % 2 == 0:
                    out.append(['sum', [b, ['leaf', i], ['leaf', j]]])
    # values hidden by a step of the program itself: observer(rehide(mask_where(cmp(a, b), c)))
    for cmp_ in ('eq', 'ne', 'lt', 'le'):
        for i in range(n):
            for j in range(n):
                if (i + 2 * j + len(cmp_)) % 3:
                    continue
                for k in range(n):
                    if (i + j + k) % 2:
                        continue
                    out.append(['bool', ['rehide', ['mask_where', [cmp_, ['leaf', i], ['leaf', j]], ['leaf', k]]]])
    for u in ('bool', 'mvals_sum', 'count_masked', 'str', 'neg', 'abs'):
        if u not in UNARY:
            continue
        for b in ('mask_where', 'where', 'setitem'):
            for i in range(n):
                for k in range(n):
                    if (i + k + len(u)) % 2 == 0:
                        out.append([u, ['rehide', [b, ['leaf', i], ['leaf', k]]]])
    return out


def exhaustive_programs():
    """all depth-1 programs over the full alphabet; depth 2 over the small alphabet:
    u(any small depth-1), b(u(leaf), leaf), b(leaf, u(leaf))"""
    n = len(LEAVES)
    out = depth1_programs(sorted(UNARY), sorted(BINARY), n)
    small1 = depth1_programs(SMALL_UNARY, SMALL_BINARY, n)
    for u in SMALL_UNARY:
        for q in small1:
            out.append([u, q])
    un1 = [q for q in small1 if len(q) == 2]
    for b in SMALL_BINARY:
        for q in un1:
            for j in range(n):
                out.append([b, q, ['leaf', j]])
                out.append([b, ['leaf', j], q])
    return out


def grow_programs(rng, n, Pm, maxdepth=3):
    """n seeded programs of depth <= maxdepth grown bottom-up from sub-programs that evaluate without an
    exception on the untouched operands (one raising program in ten is kept as well)"""
    pool = [(['leaf', i], 0) for i in range(len(LEAVES))]
    un, bi = sorted(UNARY), sorted(BINARY)
    out = []
    tries = 0
    while len(out) < n and tries < 30 * n:
        tries += 1
        if rng.random() < 0.5:
            op, args = rng.choice(un), [rng.choice(pool)]
        else:
            op, args = rng.choice(bi), [rng.choice(pool), rng.choice(pool)]
        d = 1 + max(a[1] for a in args)
        if d > maxdepth:
            continue
        p = [op] + [a[0] for a in args]
        try:
            o, _ = run_prog(p, None, Pm)
        except Exception:
            continue
        if o['ok']:
            if o['result'][0] != 'O' if isinstance(o['result'], tuple) else True:
                pool.append((p, d))
            out.append(p)
        elif rng.random() < 0.1:
            out.append(p)
    return out


def corpus_programs():
    out = []
    d = os.path.join(lib.VERIF, 'corpus', 'C03')
    if os.path.isdir(d):
        for f in sorted(os.listdir(d)):
            if f.endswith('.json'):
                try:
                    c = json.load(open(os.path.join(d, f)))
                    if 'prog' in c:
                        out.append(c['prog'])
                except Exception:
                    pass
    return out


# ---------------------------------------------------------------------------------------
# (K) correspondence: model programs on integer Scalars, both twins
# ---------------------------------------------------------------------------------------
K_UN = ['UNeg', 'USanit0', 'UShrinkRT', 'USum', 'UMax', 'UMin', 'UMean', 'UAny', 'UAll', 'UArgmax', 'UArgmin', 'USort']
K_BIN = ['BAdd', 'BSub', 'BMul', 'BFloordiv', 'BEq', 'BLt', 'BMaximum', 'BMaskWhere', 'BGetitem', 'BStack']
K_REDUCE = {'USum', 'UMax', 'UMin', 'UMean', 'UAny', 'UAll', 'UArgmax', 'UArgmin'}
K_HIDDEN = [0, -1, 1, 7, 10 ** 6, -10 ** 6, 10 ** 9, 3, -2]


def k_len(p, lens):
    """model length of a program's value, 'S' marks a shapeless (reduced) value; None = rejected by the generator"""
    if p[0] == 'leaf':
        return lens[p[1]]
    for c in p[1:]:                   # Boolean-valued operations only at the root (the model is untyped)
        if c[0] in ('UAny', 'UAll', 'BEq', 'BLt', 'UShrinkRT'):      # (an all-masked shrink collapses its shape)
            return None
    if len(p) == 2:
        a = k_len(p[1], lens)
        if a is None:
            return None
        if a == 'E':                  # a shape error below propagates
            return 'E'
        if p[0] in K_REDUCE:
            if p[0] == 'UMean' and isinstance(a, int) and a > 10:      # 2520 = lcm(1..10) keeps the mean integral
                return None
            return None if a == 'S' else 'S'
        if p[0] in ('USort', 'UShrinkRT') and a == 'S':
            return None
        return a
    a, b = k_len(p[1], lens), k_len(p[2], lens)
    if a is None or b is None:
        return None
    if a == 'E' or b == 'E':
        return 'E'
    if p[0] == 'BGetitem':
        return None if a == 'S' else b
    if p[0] == 'BStack':
        if a == 'S' or b == 'S' or a != b:
            return None
        return 2 * a
    if p[0] == 'BMaskWhere' and a != b:      # mask_where does not broadcast the object being masked
        return None
    if a == 'S':
        return b
    if b == 'S':
        return a
    if a == b or a == 1 or b == 1:
        return max(a, b)
    return 'E' if p[0] != 'BEq' else None


def k_random_prog(rng, depth, nleaves):
    if depth == 0 or rng.random() < 0.2:
        return ['leaf', rng.randrange(nleaves)]
    if rng.random() < 0.45:
        return [rng.choice(K_UN), k_random_prog(rng, depth - 1, nleaves)]
    return [rng.choice(K_BIN), k_random_prog(rng, depth - 1, nleaves), k_random_prog(rng, depth - 1, nleaves)]


def k_gen_case(rng):
    n = rng.choice([1, 2, 3, 3, 4, 4, 5])
    nl = rng.choice([1, 2, 2, 3])
    lens = [n] * nl
    if rng.random() < 0.12:
        lens[rng.randrange(nl)] = rng.choice([1, 2, 3])
    env, twin = [], []
    for ln in lens:
        style = rng.random()
        vals = [rng.choice([-3, -2, -1, 0, 0, 1, 2, 3, 4]) for _ in range(ln)]
        if style < 0.25:       # index-like
            vals = [rng.randrange(-n, n) if rng.random() < 0.85 else rng.choice([n, -n - 1, 9]) for _ in range(ln)]
        r = rng.random()
        if r < 0.15:
            mask = [False] * ln
        elif r < 0.27:
            mask = [True] * ln
        else:
            mask = [rng.random() < 0.4 for _ in range(ln)]
        tv = [(rng.choice(K_HIDDEN) if m else v) for v, m in zip(vals, mask)]
        env.append([[int(m), v] for m, v in zip(mask, vals)])
        twin.append([[int(m), v] for m, v in zip(mask, tv)])
    for _ in range(40):
        p = k_random_prog(rng, rng.choice([1, 2, 2, 3]), nl)
        if p[0] != 'leaf' and k_len(p, lens) is not None:
            return {'env': env, 'twin': twin, 'prog': p}
    return {'env': env, 'twin': twin, 'prog': ['UNeg', ['leaf', 0]]}


def k_eval(p, leaves, Pm):
    if p[0] == 'leaf':
        return leaves[p[1]]
    a = k_eval(p[1], leaves, Pm)
    o = p[0]
    if len(p) == 2:
        if o == 'UNeg':
            return -a
        if o == 'USanit0':
            return a.mask_where_eq(0, 1)
        if o == 'UShrinkRT':
            am = a.antimask
            return a.shrink(am).unshrink(am)
        if o == 'USort':
            return a.sort()
        f = {'USum': 'sum', 'UMax': 'max', 'UMin': 'min', 'UMean': 'mean', 'UAny': 'any', 'UAll': 'all',
             'UArgmax': 'argmax', 'UArgmin': 'argmin'}[o]
        r = getattr(a, f)()
        return ('mean', r) if o == 'UMean' else r
    b = k_eval(p[2], leaves, Pm)
    if isinstance(a, tuple) or isinstance(b, tuple):
        raise KUnsupported('mean inside')
    if o == 'BAdd':
        return a + b
    if o == 'BSub':
        return a - b
    if o == 'BMul':
        return a * b
    if o == 'BFloordiv':
        return a // b
    if o == 'BEq':
        return a == b
    if o == 'BLt':
        return a < b
    if o == 'BMaximum':
        return Pm.Scalar.maximum(a, b)
    if o == 'BMaskWhere':
        return a.mask_where(b.as_mask_where_nonzero())
    if o == 'BGetitem':
        return a[b]
    if o == 'BStack':
        r = Pm.Qube.stack(a, b)
        return r.reshape((r.size,))
    raise KeyError(o)


class KUnsupported(Exception):
    pass


def k_impl(env, p, Pm):
    """impl outcome as ('ok', n, mask list, value list) | ('err', family) | ('skip', why)"""
    leaves = []
    for cells in env:
        m = np.array([bool(c[0]) for c in cells])
        v = np.array([c[1] for c in cells], dtype=np.int64)
        leaves.append(Pm.Scalar(v, m))
    with warnings.catch_warnings():
        warnings.simplefilter('ignore')
        try:
            r = k_eval(p, leaves, Pm)
        except KUnsupported as e:
            return ('skip', str(e))
        except IndexError:
            return ('err', 'EIndex')
        except ValueError as e:
            if 'broadcast' in str(e) or 'shape' in str(e) or 'incompatible dimension' in str(e):
                return ('err', 'EShape')
            return ('skip', 'ValueError: ' + str(e)[:60])
        except Exception as e:
            return ('skip', '%s: %s' % (type(e).__name__, str(e)[:60]))
    scale = 1
    if isinstance(r, tuple):
        scale, r = 2520, r[1]
    if isinstance(r, (bool, np.bool_)):
        return ('skip', 'builtin bool result')
    if not isinstance(r, Pm.Qube):
        return ('skip', 'non-qube result')
    shape = tuple(r.shape)
    em = np.broadcast_to(np.asarray(r.mask, dtype=bool), shape).reshape(-1)
    va = np.broadcast_to(np.asarray(r.values), shape).reshape(-1)
    vals = []
    for x, mm in zip(va.tolist(), em.tolist()):
        if mm:
            vals.append(0)
        elif scale != 1:
            vals.append(int(round(float(x) * scale)))
        else:
            if isinstance(x, float) and x != int(x):
                return ('skip', 'non-integer value')
            vals.append(int(x))
    return ('ok', len(vals), [bool(x) for x in em.tolist()], vals)


def k_mean_inside(p):
    """UMean below the root: its float result is outside the integer model"""
    if p[0] == 'leaf':
        return False
    return any((c[0] == 'UMean') or k_mean_inside(c) for c in p[1:])


def cZ(v):
    return '(%d)' % v


def coq_cells(cells):
    return clist(['(%s, %s)' % (cbool(c[0]), cZ(c[1])) for c in cells], 'cell')


def coq_prog(p):
    if p[0] == 'leaf':
        return '(Leaf %d%%nat)' % p[1]
    if len(p) == 2:
        return '(Un %s %s)' % (p[0], coq_prog(p[1]))
    return '(Bin %s %s %s)' % (p[0], coq_prog(p[1]), coq_prog(p[2]))


def coq_oobs(o):
    if o[0] == 'err':
        return '(OErr %s)' % o[1]
    return '(OOk %d%%nat %s %s)' % (o[1], clist([cbool(b) for b in o[2]], 'bool'), clist([cZ(v) for v in o[3]], 'Z'))


def coq_case(c, o1, o2):
    return '(%s, %s, %s, %s, %s)' % (clist([coq_cells(x) for x in c['env']], '(list cell)'),
                                     clist([coq_cells(x) for x in c['twin']], '(list cell)'),
                                     coq_prog(c['prog']), coq_oobs(o1), coq_oobs(o2))


def k_worker(chunk):
    Pm = P()
    out = []
    for c in chunk:
        if k_mean_inside(c['prog']):
            out.append(('skip', 'mean inside', None))
            continue
        o1 = k_impl(c['env'], c['prog'], Pm)
        o2 = k_impl(c['twin'], c['prog'], Pm)
        if o1[0] == 'skip' or o2[0] == 'skip':
            out.append(('skip', (o1 if o1[0] == 'skip' else o2)[1], None))
            continue
        out.append(('case', coq_case(c, o1, o2), (o1, o2)))
    return out


# ---------------------------------------------------------------------------------------
# run
# ---------------------------------------------------------------------------------------
def run(ctx):
    Pm = P()
    ctx.rule = ('twin runs: every sweep call / composition whose operands hold masked elements is re-run with the '
                'numbers underneath the masks replaced (pool: 0, -1, +-1e300 (ints +-1e9), 7.25, out-of-range index '
                '1e6, the class default, a mixed pattern); outcomes compared on obs + exception family; '
                'non-trivial = call with at least one hidden element')
    ctx.assumptions = ['hidden values are overwritten through the private fields _values_ (mask representation, '
                       'read-only flags and WRITEABLE flags are restored)',
                       'warnings are outside the projection (counted, not compared); NaN/inf are not in the pool']
    if ctx.ensure_library():
        ctx.prove(['theories/Props/C03.v'])
    calls = sweep.call_list(Pm)
    sel = sweep.select(calls, ctx.rng, ctx.tier)
    byid = {d['id']: d for d in sel}
    ctx.log('sweep: %d of %d calls' % (len(sel), len(calls)))
    results = sweep.run_parallel(sel, worker, chunk=200)
    tot = {}
    seen = set()
    for res in results:
        for k, v in res['stats'].items():
            tot[k] = tot.get(k, 0) + v
        ctx.nontrivial.update(res['twinned'])
        for cid, f in res['fail']:
            d = byid[cid]
            sig = signature(d, f)
            ctx.count('twin-disagreements')
            key = json.dumps(sig, sort_keys=True, default=str)
            if key in seen:
                continue
            seen.add(key)
            ctx.fail(sig, {'call': d, 'subst': f['subst']},
                     {'call': sweep.describe(d), 'first_difference': [f['path'], f['a'], f['b']],
                      'untouched': f['base'], 'twin': f['twin'], 'leak_from': f['leak_from']})
    for k, v in sorted(tot.items()):
        ctx.count('sweep:' + k, v)
    ctx.evaluations += tot.get('twin-runs', 0) + tot.get('twinned', 0)
    ctx.log('sweep twins done: %s' % {k: v for k, v in tot.items() if not k.startswith('exempt:')})
    # ---- (b) compositions ----
    progs = corpus_programs() + rehide_programs()
    if ctx.tier == 'thorough':
        progs += exhaustive_programs()
        progs += grow_programs(ctx.rng, 8000, Pm)
    else:
        ex = exhaustive_programs()
        progs += [ex[i] for i in sorted(ctx.rng.sample(range(len(ex)), 6000))]
        progs += grow_programs(ctx.rng, 2500, Pm)
    ctx.log('compositions: %d programs' % len(progs))
    cres = sweep.run_parallel(progs, comp_worker, chunk=500)
    cst = {}
    for res in cres:
        for k, v in res['stats'].items():
            cst[k] = cst.get(k, 0) + v
        for p, q, f in res['fail']:
            sig = comp_signature(q, f)
            ctx.count('comp-disagreements')
            key = json.dumps(sig, sort_keys=True, default=str)
            if key in seen:
                continue
            seen.add(key)
            ctx.fail(sig, {'prog': q, 'subst': f['subst'], 'found_in': p},
                     {'program': prog_str(q), 'found_in': prog_str(p), 'first_difference': [f['path'], f['a'], f['b']],
                      'untouched': f['base'], 'twin': f['twin']})
    for k, v in sorted(cst.items()):
        ctx.count('comp:' + k, v)
    ntw = sum(v for k, v in cst.items() if k in ('ok', 'raises'))
    ctx.evaluations += ntw * (1 + len(COMP_SUBST))
    for p in progs:
        if prog_depth(p) >= 1:
            ctx.nontrivial.add(lib.case_hash(p))
    ctx.log('compositions done: %s' % cst)
    # ---- (K) correspondence ----
    nk = 3000 if ctx.tier != 'thorough' else 30000
    kcases = [k_gen_case(ctx.rng) for _ in range(nk)]
    kres = [x for r in sweep.run_parallel(kcases, k_worker, chunk=500) for x in r]
    terms, kidx = [], []
    for i, (tag, t, oo) in enumerate(kres):
        if tag == 'skip':
            ctx.count('K:skip')
            ctx.count('K:skip:' + str(t)[:40])
            continue
        terms.append(t)
        kidx.append(i)
        o1, o2 = oo
        ctx.count('K:' + ('raises' if o1[0] == 'err' else 'returns'))
        if o1 != o2:                       # the implementation itself disagrees on the twins
            c = kcases[i]
            sig = {'kind': 'model-prog', 'root': c['prog'][0], 'ops': '+'.join(sorted(prog_ops(c['prog'])))}
            ctx.fail(sig, {'kcase': c}, {'untouched': str(o1), 'twin': str(o2)}, tie='model-vs-impl')
    for c in kcases:
        for o in prog_ops(c['prog']):
            ctx.count('K:op:' + o)
    ctx.traces = len(terms)
    ctx.evaluations += 2 * len(terms)
    mism = ctx.coq_eval_shards('cases', HEADER, terms, lambda x: 'mismatches %s' % x, shard=400)
    ctx.log('correspondence: %d cases, %s mismatches' % (len(terms), None if mism is None else len(mism)))
    ctx.cov['correspondence_cases'] = len(terms)
    ctx.cov['correspondence_mismatches'] = len(mism or [])
    if mism:
        j = mism[0]
        c = kcases[kidx[j]]
        shown = ctx.coq_show(HEADER, 'run03 %s' % terms[j])
        ctx.broken_tie('correspondence', 'model-vs-impl',
                       {'n_mismatch': len(mism), 'first_case': c, 'impl': [str(x) for x in kres[kidx[j]][2]], 'model': shown})
    ctx.exhaustive = (ctx.tier == 'thorough')
    return ctx.finish()


def replay(path):
    Pm = P()
    d = json.load(open(path))
    if 'case' not in d:
        print(json.dumps(d, indent=1)[:4000])
        return 1
    c = d['case']
    bad = False
    if 'call' in c:
        print('call      :', sweep.describe(c['call']))
        print('subst     :', c['subst'])
        per, fails, st = twin_call(c['call'], Pm, substs=[c['subst']])
        print('hidden elements:', per, 'status:', st)
        for f in fails:
            print('  untouched :', f['base'])
            print('  twin      :', f['twin'])
            print('  leak from :', f['leak_from'])
            print('  first difference at %s [%s]:\n     %s\n     %s' % (f['path'], f['kind'], f['a'], f['b']))
        bad = bool(fails)
    if 'kcase' in c:
        k = c['kcase']
        print('program   :', k['prog'])
        o1, o2 = k_impl(k['env'], k['prog'], Pm), k_impl(k['twin'], k['prog'], Pm)
        print('  operands  :', k['env'])
        print('  twin      :', k['twin'])
        print('  untouched :', o1)
        print('  twin      :', o2)
        bad = o1 != o2
    if 'prog' in c:
        print('program   :', prog_str(c['prog']))
        print('leaves    :', {i: LEAVES[i] for i in set(prog_leaves(c['prog']))})
        fails, st = twin_prog(c['prog'], Pm, substs=[c['subst']])
        for f in fails:
            print('  subst     :', f['subst'])
            print('  untouched :', f['base'])
            print('  twin      :', f['twin'])
            print('  first difference at %s [%s]:\n     %s\n     %s' % (f['path'], f['kind'], f['a'], f['b']))
        bad = bool(fails)
    print('property FAILS on this case' if bad else 'property holds on this case')
    return 1 if bad else 0
