"""C15 - reshaping and item restructuring are pure relabelings.

Inputs are identifier tagged: the values of an object are 1 + its own flat element
index, derivative k carries 1000*(k+1) + 1 + flat index, the mask is a generated
pattern; the provenance of every result element is therefore read off directly.

Per case: (a) direct oracle = the corresponding NumPy function applied to the tagged
value / mask / derivative arrays; (b) correspondence = the Coq model (index maps,
C15Model.v) evaluated by vm_compute and compared inside Coq with what the
implementation returned; (c) NumPy itself is compared with the model's NumPy index maps
(kind 'np'); (d) inverse-pair identities on the implementation."""
import itertools
import json
import warnings

import numpy as np

from . import lib, hist
from .lib import cbool, cnat, cZ, clist, cshape, copt

HEADER = ('From Coq Require Import List ZArith Bool.\nFrom PM Require Import Base Mask C15Model.\n'
          'Import ListNotations.\nOpen Scope Z_scope.\n')

MREPS = ['F', 'T', 'aF', 'aT', 'mix', 'bview']
CLS_ITEMS = {'Scalar': [()], 'Boolean': [()], 'Vector': [(1,), (2,), (3,), (4,)], 'Vector3': [(3,)],
             'Pair': [(2,)], 'Matrix': [(2, 2), (2, 3), (3, 1), (1, 3), (1, 2), (3, 3)], 'Matrix3': [(3, 3)],
             'Quaternion': [(4,)], 'Qube': [(), (2,), (2, 3), (2, 1, 2)]}
CLS_ID = {'Qube': 0, 'Scalar': 1, 'Boolean': 2, 'Vector': 3, 'Vector3': 4, 'Pair': 5, 'Matrix': 6,
          'Matrix3': 7, 'Quaternion': 8}
DENOMS = [(), (), (), (2,), (3,), (1,), (2, 3), (2, 2), (3, 1)]
LEADS = [(), (1,), (2,), (3,), (0,), (1, 1), (2, 3), (3, 2), (1, 3), (2, 1), (0, 2), (2, 0), (3, 3),
         (2, 3, 2), (1, 2, 3), (3, 1, 2), (2, 0, 3), (2, 2, 2), (1, 1, 2), (2, 3, 1),
         (2, 3, 2, 2), (1, 2, 1, 3), (2, 1, 3, 2), (3, 2, 1, 1), (2, 0, 1, 2)]
MAXELEMS = 400


def P():
    lib.setup_impl_path()
    import polymath
    return polymath


def prod(s):
    r = 1
    for x in s:
        r *= int(x)
    return r


# ---------------------------------------------------------------------------
# object descriptions
# ---------------------------------------------------------------------------
def gen_mask(rng, shape, rep):
    n = prod(shape)
    if rep == 'F':
        return False
    if rep == 'T':
        return True
    if shape == ():
        return rng.random() < 0.5
    if rep == 'aF':
        return [False] * n
    if rep == 'aT':
        return [True] * n
    if rep == 'bview':
        last = [rng.random() < 0.5 for _ in range(shape[-1])]
        return [bool(x) for x in np.broadcast_to(np.array(last, bool), shape).ravel()] if n else []
    return [rng.random() < 0.4 for _ in range(n)]


def gen_obj(rng, cls=None, shape=None, numer=None, denom=None, nder=None, rep=None, readonly=None,
            kind=None):
    cls = cls or rng.choice(list(CLS_ITEMS))
    numer = tuple(numer if numer is not None else rng.choice(CLS_ITEMS[cls]))
    if denom is None:
        denom = () if cls == 'Boolean' else rng.choice(DENOMS)
    denom = tuple(denom)
    if shape is None:
        for _ in range(50):
            shape = rng.choice(LEADS)
            if prod(shape) * prod(numer) * prod(denom) <= MAXELEMS:
                break
        else:
            shape = (2,)
    shape = tuple(shape)
    rep = rep or rng.choice(MREPS)
    if cls == 'Boolean':
        kind, nder = 'bool', 0
    elif kind is None:
        kind = 'int' if (cls in ('Scalar', 'Vector', 'Pair', 'Qube') and rng.random() < 0.25) else 'float'
    if nder is None:
        nder = rng.choice([0, 0, 1, 2])
    derivs = []
    for k in range(nder):
        dd = rng.choice([(), (), (2,), (3,), (2, 2)])
        if prod(shape) * prod(numer) * prod(dd) > MAXELEMS:
            dd = ()
        derivs.append({'key': 'tx'[k] if k < 2 else 'k%d' % k, 'denom': list(dd)})
    d = {'cls': cls, 'shape': list(shape), 'numer': list(numer), 'denom': list(denom), 'kind': kind,
         'mrep': rep, 'mask': gen_mask(rng, shape, rep), 'derivs': derivs,
         'readonly': bool(rng.random() < 0.25) if readonly is None else readonly}
    if kind == 'bool':
        d['bvals'] = [rng.random() < 0.5 for _ in range(prod(shape))]
    if kind == 'float' and derivs and not numer and not denom and rng.random() < 0.5:
        d['plusnum'] = True
    return d


def tag_array(full, base, kind, bvals=None):
    n = prod(full)
    if kind == 'bool':
        return np.array(bvals, bool).reshape(full)
    a = (np.arange(n) + 1 + base).reshape(full)
    return a.astype(float) if kind == 'float' else a.astype(int)


def mask_array(d):
    """expanded boolean mask of the description, as the reference sees it"""
    shape = tuple(d['shape'])
    m = d['mask']
    if isinstance(m, bool):
        return np.full(shape, m, bool)
    return np.array(m, bool).reshape(shape)


def impl_mask(d):
    shape = tuple(d['shape'])
    m = d['mask']
    if isinstance(m, bool):
        return m
    a = np.array(m, bool).reshape(shape)
    if d['mrep'] == 'bview' and len(shape) >= 1 and a.size:
        row = a[(0,) * (len(shape) - 1)]
        if (a == row).all():
            return np.broadcast_to(row.copy(), shape)
    return a


def build(d, Pm):
    cls = getattr(Pm, d['cls'])
    shape, numer, denom = tuple(d['shape']), tuple(d['numer']), tuple(d['denom'])
    full = shape + numer + denom
    vals = tag_array(full, 0, d['kind'], d.get('bvals'))
    mask = impl_mask(d)
    if full == ():
        vals = vals.item()
    kw = {'drank': len(denom)}
    if d['cls'] == 'Qube':
        kw['nrank'] = len(numer)
    obj = cls(vals, mask, **kw)
    for k, dd in enumerate(d['derivs']):
        dfull = shape + numer + tuple(dd['denom'])
        dv = tag_array(dfull, 1000 * (k + 1), 'float')
        if dfull == ():
            dv = dv.item()
        kw = {'drank': len(dd['denom'])}
        if d['cls'] == 'Qube':
            kw['nrank'] = len(numer)
        obj.insert_deriv(dd['key'], cls(dv, impl_mask(d), **kw))
    if d.get('plusnum') and not numer and not denom and d['kind'] == 'float' and d['derivs']:
        # the object is the result of the number fast path on an operand whose derivative-free twin is cached
        # (seeded change C15-E: the identity short cuts of the relabelings return self.wod)
        x0 = obj - 2.0
        hist.warm(x0)
        obj = x0 + 2.0
    if d['readonly']:
        obj = obj.as_readonly()
    return obj


# ---------------------------------------------------------------------------
# observations
# ---------------------------------------------------------------------------
def as_ints(a):
    a = np.asarray(a)
    if a.dtype == bool:
        return a.astype(int)
    return np.rint(a).astype(np.int64)


def obs_core(vals, mask, shape, numer, denom, hide=None):
    full = tuple(shape) + tuple(numer) + tuple(denom)
    v = as_ints(np.broadcast_to(np.asarray(vals), full)).copy()
    m = np.broadcast_to(np.asarray(mask, dtype=bool), tuple(shape))
    if hide is not None:        # a derivative is also hidden wherever its parent is masked
        hm = m | np.broadcast_to(np.asarray(hide, dtype=bool), tuple(shape))
    else:
        hm = m
    mm = hm.reshape(tuple(shape) + (1,) * (len(full) - len(shape)))
    v = np.where(np.broadcast_to(mm, full), 0, v)       # hidden values are never compared
    return {'shape': list(shape), 'numer': list(numer), 'denom': list(denom),
            'vals': [int(x) for x in v.ravel()], 'mask': [bool(x) for x in m.ravel()]}


def obs_obj(r, Pm):
    o = obs_core(r._values_, r._mask_, r.shape, r.numer, r.denom)
    o['cls'] = type(r).__name__
    o['ro'] = bool(r.readonly)
    o['derivs'] = {}
    for key, dv in r._derivs_.items():
        od = obs_core(dv._values_, dv._mask_, dv.shape, dv.numer, dv.denom, hide=r._mask_)
        od['nested'] = len(dv._derivs_)
        o['derivs'][key] = od
    return o


def observe(r, Pm):
    if isinstance(r, Pm.Qube):
        return ('ok', [obs_obj(r, Pm)])
    if isinstance(r, (tuple, list)) and all(isinstance(x, Pm.Qube) for x in r):
        return ('ok', [obs_obj(x, Pm) for x in r])
    return ('other', repr(r)[:200])


# reference-side object: plain arrays
class R(object):
    def __init__(self, d, base=0):
        self.cls = d['cls']
        self.shape, self.numer, self.denom = tuple(d['shape']), tuple(d['numer']), tuple(d['denom'])
        self.V = tag_array(self.shape + self.numer + self.denom, base, d['kind'], d.get('bvals'))
        self.M = mask_array(d)
        self.ro = d['readonly']
        self.kind = d['kind']
        self.D = {}
        for k, dd in enumerate(d['derivs']):
            self.D[dd['key']] = (tag_array(self.shape + self.numer + tuple(dd['denom']), 1000 * (k + 1), 'float'),
                                 tuple(dd['denom']), self.M)

    def k0(self):
        return len(self.shape)


def robs(cls, V, M, shape, numer, denom, D, ro):
    o = obs_core(V, M, shape, numer, denom)
    o['cls'] = cls
    o['ro'] = ro
    o['derivs'] = {}
    for key, (dv, dden, dm) in D.items():
        dn = list(np.shape(dv))[len(shape):len(np.shape(dv)) - len(dden)]
        od = obs_core(dv, dm, shape, dn, dden, hide=M)
        od['nested'] = 0
        o['derivs'][key] = od
    return o


NUMER_OF = {'Scalar': ((), 0), 'Boolean': ((), 0), 'Vector': (None, 1), 'Vector3': ((3,), 1), 'Pair': ((2,), 1),
            'Matrix': (None, 2), 'Matrix3': ((3, 3), 2), 'Quaternion': ((4,), 1), 'Qube': (None, None)}


def cast_ref(cur, classes, numer):
    """Qube.cast: first suitable class, else unchanged"""
    for c in classes:
        if c == cur:
            return cur
        nm, nr = NUMER_OF[c]
        if nm is not None and tuple(nm) != tuple(numer):
            continue
        if nr is not None and nr != len(numer):
            continue
        return c
    return cur


ERR = ('err', ('ValueError',))
ERR_IDX = ('err', ('ValueError', 'IndexError'))


def norm_ax(a, n):
    if not (-n <= a < n):
        return None
    return a + n if a < 0 else a


# ---- leading-axis references: f(L) -> new leading array of source flat indices
def lead_apply(r, fn, recursive, ro=True):
    """fn maps an array whose leading axes are r.shape (any trailing axes) to the result"""
    k = r.k0()
    V = fn(r.V, k)
    M = fn(r.M, k)
    shape = M.shape
    D = {}
    if recursive:
        for key, (dv, dden, dm) in r.D.items():
            D[key] = (fn(dv, k), dden, fn(dm, k))
    return ('ok', [robs(r.cls, V, M, shape, r.numer, r.denom, D, r.ro if ro is True else ro)])


def ref_reshape(r, target, recursive):
    t = target
    if isinstance(t, (int, np.integer)):
        t = (t,)
    t = tuple(t)
    try:
        new = np.reshape(np.empty(r.shape, bool), t).shape
    except ValueError:
        return ERR
    return lead_apply(r, lambda A, k: A.reshape(new + A.shape[k:]), recursive)


def ref_flatten(r, recursive):
    return lead_apply(r, lambda A, k: A.reshape((prod(A.shape[:k]),) + A.shape[k:]) if k >= 1 else A, recursive)


def ref_swap_axes(r, a1, a2, recursive):
    try:
        np.swapaxes(np.empty(r.shape, bool), a1, a2)
    except ValueError:
        return ERR
    n = len(r.shape)
    b1, b2 = norm_ax(a1, n), norm_ax(a2, n)
    return lead_apply(r, lambda A, k: np.swapaxes(A, b1, b2), recursive)


def eff_rank(r, rank):
    n = len(r.shape)
    R_ = rank or n
    if R_ < n:
        return None
    if R_ == 0:
        R_ = 1
    return R_


def ref_roll_axis(r, axis, start, rank, recursive):
    R_ = eff_rank(r, rank)
    if R_ is None:
        return ERR
    pad = (R_ - len(r.shape)) * (1,)
    try:
        np.rollaxis(np.empty(pad + (r.shape or (1,)) if r.shape else (1,) * R_, bool), axis, start)
    except ValueError:
        return ERR
    if not r.shape:
        return lead_apply(r, lambda A, k: A, recursive)
    a = norm_ax(axis, R_)
    s = start + R_ if start < 0 else start
    return lead_apply(r, lambda A, k: np.rollaxis(A.reshape(pad + A.shape), a, s), recursive)


def ref_move_axis(r, src, dst, rank, recursive):
    R_ = eff_rank(r, rank)
    if R_ is None:
        return ERR
    pad = (R_ - len(r.shape)) * (1,)
    try:
        np.moveaxis(np.empty(pad + r.shape if r.shape else (1,) * R_, bool), src, dst)
    except ValueError:
        return ERR
    if not r.shape:
        return lead_apply(r, lambda A, k: A, recursive)
    s_ = [norm_ax(x, R_) for x in ([src] if isinstance(src, int) else src)]
    d_ = [norm_ax(x, R_) for x in ([dst] if isinstance(dst, int) else dst)]
    return lead_apply(r, lambda A, k: np.moveaxis(A.reshape(pad + A.shape), s_, d_), recursive)


def ref_broadcast_to(r, target, recursive):
    t = tuple(target)
    if t == () and r.shape != () and prod(r.shape) == 1:
        # documented special case of polymath: a single element may be broadcast to ()
        return lead_apply(r, lambda A, k: A.reshape(A.shape[k:]), recursive, ro=None)
    try:
        np.broadcast_to(np.empty(r.shape, bool), t)
    except ValueError:
        return ERR
    same = (t == r.shape)
    ro = r.ro if same else None

    def fn(A, k):
        it = A.shape[k:]
        return np.broadcast_to(A.reshape(A.shape[:k] + it), t + it) if not it else \
            np.broadcast_to(A, t + it)
    return lead_apply(r, fn, recursive, ro=ro)


# ---- item-axis references
def item_apply(r, fn, recursive, classes, numer_of=None, drop_derivs=False, ro=True, cur='Qube'):
    """fn(A, k, nr) acts on numerator axes (k .. k+nr) of A"""
    k, nr = r.k0(), len(r.numer)
    V = fn(r.V, k, nr)
    dr = len(r.denom)
    numer = V.shape[k:V.ndim - dr]
    D = {}
    if recursive and not drop_derivs:
        for key, (dv, dden, dm) in r.D.items():
            D[key] = (fn(dv, k, nr), dden, dm)
    cls = cast_ref(cur, classes, numer)
    return ('ok', [robs(cls, V, r.M, r.shape, numer, r.denom, D, r.ro if ro is True else ro)])


def ref_extract_numer(r, axis, index, classes, recursive):
    nr = len(r.numer)
    a = norm_ax(axis, nr)
    if a is None:
        return ERR
    if not (-r.numer[a] <= index < r.numer[a]):
        return ERR_IDX
    return item_apply(r, lambda A, k, n: np.take(A, index, axis=k + a), recursive, classes)


def ref_slice_numer(r, axis, i1, i2, classes, recursive):
    nr = len(r.numer)
    a = norm_ax(axis, nr)
    if a is None:
        return ERR
    return item_apply(r, lambda A, k, n: A[(slice(None),) * (k + a) + (slice(i1, i2),)], recursive, classes)


def ref_transpose_numer(r, a1, a2, recursive):
    nr = len(r.numer)
    b1, b2 = norm_ax(a1, nr), norm_ax(a2, nr)
    if b1 is None or b2 is None:
        return ERR
    return item_apply(r, lambda A, k, n: np.swapaxes(A, k + b1, k + b2), recursive, (), cur=r.cls)


def ref_reshape_numer(r, target, classes, recursive):
    t = tuple(target)
    if prod(t) != prod(r.numer) or any(x < 0 for x in t):
        return ERR
    return item_apply(r, lambda A, k, n: A.reshape(A.shape[:k] + t + A.shape[k + n:]), recursive, classes)


def denom_apply(r, fn, cls):
    k = r.k0() + len(r.numer)
    V = fn(r.V, k, len(r.denom))
    denom = V.shape[k:]
    return ('ok', [robs(cls, V, r.M, r.shape, r.numer, denom, {}, r.ro)])


def ref_extract_denom(r, axis, index, classes):
    dr = len(r.denom)
    a = norm_ax(axis, dr)
    if a is None:
        return ERR
    if not (-r.denom[a] <= index < r.denom[a]):
        return ERR_IDX
    res = denom_apply(r, lambda A, k, n: np.take(A, index, axis=k + a), None)
    res[1][0]['cls'] = cast_ref('Qube', (r.cls,) + tuple(classes), r.numer)
    return res


def ref_transpose_denom(r, a1, a2):
    dr = len(r.denom)
    b1, b2 = norm_ax(a1, dr), norm_ax(a2, dr)
    if b1 is None or b2 is None:
        return ERR
    return denom_apply(r, lambda A, k, n: np.swapaxes(A, k + b1, k + b2), r.cls)


def ref_reshape_denom(r, target):
    t = tuple(target)
    if prod(t) != prod(r.denom) or any(x < 0 for x in t):
        return ERR
    if r.cls == 'Boolean' and len(t) > 0:
        return ERR          # class Boolean admits no denominator
    return denom_apply(r, lambda A, k, n: A.reshape(A.shape[:k] + t), r.cls)


def ref_join_items(r, classes):
    if not r.denom:
        return ('ok', [robs(r.cls, r.V, r.M, r.shape, r.numer, (), {}, r.ro)])
    numer = r.numer + r.denom
    return ('ok', [robs(cast_ref('Qube', classes, numer), r.V, r.M, r.shape, numer, (), {}, r.ro)])


def ref_split_items(r, nrank, classes):
    item = r.numer + r.denom
    if not (0 <= nrank <= len(item)):
        return ERR
    numer, denom = item[:nrank], item[nrank:]
    if r.cls == 'Boolean' and denom:
        return ERR
    return ('ok', [robs(cast_ref('Qube', classes, numer), r.V, r.M, r.shape, numer, denom, {}, r.ro)])


def ref_swap_items(r, classes):
    k, nr, dr = r.k0(), len(r.numer), len(r.denom)
    axes = list(range(k)) + list(range(k + nr, k + nr + dr)) + list(range(k, k + nr))
    V = np.transpose(r.V, axes)
    return ('ok', [robs(cast_ref('Qube', classes, r.denom), V, r.M, r.shape, r.denom, r.numer, {}, r.ro)])


def ref_as_diagonal(r, recursive):
    def fn(A, k, n):
        m = A.shape[k]
        out = np.zeros(A.shape[:k + 1] + (m,) + A.shape[k + 1:], A.dtype)
        for i in range(m):
            out[(slice(None),) * k + (i, i)] = A[(slice(None),) * k + (i,)]
        return out
    return item_apply(r, fn, recursive, ('Matrix',), ro=None)


def ref_swapxy(r, recursive):
    return item_apply(r, lambda A, k, n: A[(slice(None),) * k + (slice(None, None, -1),)], recursive, (), cur='Pair')


def ref_to_scalars(r, recursive):
    outs = []
    for i in range(r.numer[0]):
        outs.append(ref_extract_numer(r, 0, i, ('Scalar',), recursive)[1][0])
    return ('ok', outs)


def ref_multi(objs, axis_from_end_of_lead, cls, recursive, or_masks):
    """stack (new leading axis 0, masks stacked) / from_scalars (new first numerator axis, masks or-ed)"""
    rs = [o for o in objs if o is not None]
    den = rs[0].denom
    if any(o.denom != den for o in rs):
        return ERR
    try:
        shape = np.broadcast_shapes(*[o.shape for o in rs])
    except ValueError:
        return ERR
    numer = rs[0].numer
    if any(o.numer != numer for o in rs):
        return ERR
    item = numer + den
    k = len(shape)

    def comb(arrs, it):
        bs = [np.broadcast_to(a, shape + it) for a in arrs]
        return np.stack(bs, axis=0 if not or_masks else k)
    V = comb([(o.V if o is not None else np.zeros(shape + item)) for o in objs], item)
    Ms = [np.broadcast_to(o.M if o is not None else np.zeros(shape, bool), shape) for o in objs]
    if or_masks:
        M = np.zeros(shape, bool)
        for m in Ms:
            M = M | m
        out_shape, out_numer = shape, (len(objs),) + numer
    else:
        M = np.stack(Ms, axis=0)
        out_shape, out_numer = (len(objs),) + shape, numer
    D = {}
    if recursive:
        keys = []
        for o in rs:
            for key in o.D:
                if key not in keys:
                    keys.append(key)
        for key in keys:
            dden = None
            for o in rs:
                if key in o.D:
                    if dden is None:
                        dden = o.D[key][1]
                    elif dden != o.D[key][1]:
                        return ERR
            dit = numer + dden
            dv = comb([(o.D[key][0] if (o is not None and key in o.D) else np.zeros(shape + dit)) for o in objs], dit)
            dm = M      # the derivative's own mask is not compared for multi-operand constructors
            D[key] = (dv, dden, dm)
    o = robs(cls, V, M, out_shape, out_numer, den, D, None)
    for key in o['derivs']:
        o['derivs'][key]['mask'] = None
    return ('ok', [o])


# ---------------------------------------------------------------------------
# operations table: name -> (applicable(d), arg generator, impl call, reference, coq op)
# ---------------------------------------------------------------------------
CLASSES_POOL = [(), ('Scalar',), ('Vector',), ('Vector3', 'Vector'), ('Pair', 'Vector'), ('Matrix',),
                ('Matrix3', 'Matrix'), ('Quaternion', 'Vector'), ('Scalar', 'Vector', 'Matrix'),
                ('Scalar', 'Matrix3', 'Quaternion', 'Matrix'), ('Qube',), ('Vector3', 'Pair')]


def pyclasses(names, Pm):
    return tuple(getattr(Pm, n) for n in names)


def reshape_targets(shape, rng=None):
    n = prod(shape)
    out = [(), (n,), (-1,), n, (1, n), (n, 1), (-1, 1), tuple(reversed(shape)), tuple(shape), list(shape) + [1],
           (n + 1,), (2, -1), (-1, 2), (3, -1), (-1, -1), (0, -1), (-1, 0), (2, 2), (2, 3), (3, 2), (6,), (4, 3),
           (2, 3, 2), (12,), (2, 6), (1, 1), (1,), (0,), (0, 2), (-2,)]
    for a in (2, 3, 4, 6):
        if n and n % a == 0:
            out.append((a, n // a))
            out.append((n // a, -1))
            out.append((-1, a))
    res = []
    for t in out:
        if t not in res:
            res.append(t)
    return res


def bcast_targets(shape):
    out = [tuple(shape), (), (2,) + tuple(shape), (1,) + tuple(shape), (3, 2) + tuple(shape), (0,) + tuple(shape)]
    s = list(shape)
    for i, x in enumerate(s):
        for y in ((2, 3, 0) if x == 1 else (1, x + 1)):
            t = list(s)
            t[i] = y
            out.append(tuple(t))
            out.append((2,) + tuple(t))
    if len(s) >= 1:
        out.append(tuple(s[1:]))
        out.append(tuple(s[:-1]))
    out.append(tuple(y if x != 1 else 2 for x, y in zip(s, s)))
    res = []
    for t in out:
        if t not in res and prod(t) <= 200:
            res.append(t)
    return res


def axis_range(n):
    return list(range(-n - 2, n + 2))


def enum_args(op, d, rng, full):
    """all argument tuples of `op` for object description d (full=True) or a sample"""
    shape, numer, denom = d['shape'], d['numer'], d['denom']
    n, nr, dr = len(shape), len(numer), len(denom)
    rec = [True, False]
    out = []
    if op == 'reshape':
        out = [(t, r) for t in reshape_targets(shape) for r in rec]
    elif op == 'flatten':
        out = [(r,) for r in rec]
    elif op == 'swap_axes':
        out = [(a, b, r) for a in axis_range(n) for b in axis_range(n) for r in rec]
    elif op == 'roll_axis':
        for rank in [None, 0] + list(range(max(n - 1, 1), n + 3)):
            R_ = max(rank or n, 1)
            for a in range(-R_ - 1, R_ + 1):
                for s in range(-R_ - 1, R_ + 3):
                    out.append((a, s, rank, True))
        out += [(a, s, None, False) for a in axis_range(n) for s in axis_range(n)]
    elif op == 'move_axis':
        for rank in [None] + list(range(max(n - 1, 1), n + 2)):
            R_ = max(rank or n, 1)
            for a in range(-R_ - 1, R_ + 1):
                for s in range(-R_ - 1, R_ + 1):
                    out.append((a, s, rank, True))
            prs = list(itertools.permutations(range(-R_, R_), 2))
            for sp in prs[:30]:
                for dp in prs[:30]:
                    out.append((sp, dp, rank, True))
            out.append(((0,), (0, 1), rank, True))
            out.append(((0, 0), (0, 1), rank, True))
            out.append(((), (), rank, True))
            out.append(((0, R_), (1, 0), rank, True))
        out += [(a, s, None, False) for a in range(-n, n) for s in range(-n, n)]
    elif op == 'broadcast_to':
        out = [(t, r) for t in bcast_targets(shape) for r in rec]
    elif op == 'extract_numer':
        for a in axis_range(nr):
            m = numer[a % nr] if nr else 1
            for i in range(-m - 1, m + 1):
                for cl in (CLASSES_POOL if full else [rng.choice(CLASSES_POOL), ('Scalar', 'Vector', 'Matrix')]):
                    out.append((a, i, cl, True))
                out.append((a, i, (), False))
    elif op == 'slice_numer':
        for a in axis_range(nr):
            m = numer[a % nr] if nr else 1
            for i1 in range(-m - 1, m + 2):
                for i2 in range(-m - 1, m + 2):
                    out.append((a, i1, i2, rng.choice(CLASSES_POOL), rng.random() < 0.7))
            out.append((a, None, 1, (), True))
            out.append((a, 1, None, ('Vector',), True))
    elif op == 'transpose_numer':
        out = [(a, b, r) for a in axis_range(nr) for b in axis_range(nr) for r in rec]
    elif op == 'reshape_numer':
        ns = prod(numer)
        ts = [(), (ns,), (1, ns), (ns, 1), tuple(reversed(numer)), tuple(numer), (ns + 1,), (2, 2), (3,), (2, 3),
              (3, 2), (4,), (6,), (1,), (1, 1), (9,), (2, 1, 2), (3, 3)]
        for t in ts:
            for cl in (CLASSES_POOL if full else [rng.choice(CLASSES_POOL), ('Scalar', 'Vector', 'Matrix')]):
                out.append((t, cl, True))
            out.append((t, (), False))
    elif op == 'flatten_numer':
        out = [(cl, r) for cl in CLASSES_POOL for r in rec]
    elif op == 'extract_denom':
        for a in axis_range(dr):
            m = denom[a % dr] if dr else 1
            for i in range(-m - 1, m + 1):
                out.append((a, i, rng.choice(CLASSES_POOL)))
    elif op == 'transpose_denom':
        out = [(a, b) for a in axis_range(dr) for b in axis_range(dr)]
    elif op == 'reshape_denom':
        ds = prod(denom)
        out = [(t,) for t in [(), (ds,), (1, ds), (ds, 1), tuple(reversed(denom)), tuple(denom), (ds + 1,), (2, 2),
                              (3,), (2, 3), (3, 2), (4,), (6,), (1,)]]
    elif op == 'flatten_denom':
        out = [()]
    elif op in ('join_items', 'swap_items'):
        out = [(cl,) for cl in CLASSES_POOL if cl]
    elif op == 'split_items':
        out = [(k, cl) for k in range(0, nr + dr + 1) for cl in CLASSES_POOL if cl]
    elif op in ('as_row', 'as_column', 'as_diagonal', 'to_scalars', 'swapxy', 'transpose'):
        out = [(r,) for r in rec]
    elif op == 'to_scalar':
        m = numer[0]
        out = [(i, r) for i in range(-m - 1, m + 1) for r in rec]
    res = []
    for x in out:
        if x not in res:
            res.append(x)
    return res


LEAD_OPS = ['reshape', 'flatten', 'swap_axes', 'roll_axis', 'move_axis', 'broadcast_to']
ITEM_OPS = ['extract_numer', 'slice_numer', 'transpose_numer', 'reshape_numer', 'flatten_numer',
            'extract_denom', 'transpose_denom', 'reshape_denom', 'flatten_denom', 'join_items',
            'split_items', 'swap_items']
VEC_OPS = ['as_row', 'as_column', 'as_diagonal', 'to_scalars', 'to_scalar']


def applicable(op, d):
    cls = d['cls']
    if op in ('extract_denom', 'transpose_denom', 'reshape_denom', 'flatten_denom', 'join_items', 'split_items',
              'swap_items'):
        return not d['derivs']          # derivatives are documented as removed / objects are derivatives themselves
    if op in VEC_OPS:
        return cls in ('Vector', 'Vector3', 'Pair', 'Quaternion')
    if op == 'swapxy':
        return cls == 'Pair'
    if op == 'transpose':
        return cls in ('Matrix', 'Matrix3')
    return True


def call_impl(op, obj, args, Pm):
    if op == 'reshape':
        return obj.reshape(args[0], args[1])
    if op == 'flatten':
        return obj.flatten(args[0])
    if op == 'swap_axes':
        return obj.swap_axes(args[0], args[1], args[2])
    if op == 'roll_axis':
        return obj.roll_axis(args[0], args[1], args[3], args[2])
    if op == 'move_axis':
        return obj.move_axis(args[0], args[1], args[3], args[2])
    if op == 'broadcast_to':
        return obj.broadcast_to(args[0], args[1])
    if op == 'extract_numer':
        return obj.extract_numer(args[0], args[1], pyclasses(args[2], Pm), args[3])
    if op == 'slice_numer':
        return obj.slice_numer(args[0], args[1], args[2], pyclasses(args[3], Pm), args[4])
    if op == 'transpose_numer':
        return obj.transpose_numer(args[0], args[1], args[2])
    if op == 'reshape_numer':
        return obj.reshape_numer(args[0], pyclasses(args[1], Pm), args[2])
    if op == 'flatten_numer':
        return obj.flatten_numer(pyclasses(args[0], Pm), args[1])
    if op == 'extract_denom':
        return obj.extract_denom(args[0], args[1], pyclasses(args[2], Pm))
    if op == 'transpose_denom':
        return obj.transpose_denom(args[0], args[1])
    if op == 'reshape_denom':
        return obj.reshape_denom(args[0])
    if op == 'flatten_denom':
        return obj.flatten_denom()
    if op == 'join_items':
        return obj.join_items(pyclasses(args[0], Pm))
    if op == 'split_items':
        return obj.split_items(args[0], pyclasses(args[1], Pm))
    if op == 'swap_items':
        return obj.swap_items(pyclasses(args[0], Pm))
    if op == 'as_row':
        return obj.as_row(args[0])
    if op == 'as_column':
        return obj.as_column(args[0])
    if op == 'as_diagonal':
        return obj.as_diagonal(args[0])
    if op == 'to_scalars':
        return obj.to_scalars(args[0])
    if op == 'to_scalar':
        return obj.to_scalar(args[0], args[1])
    if op == 'swapxy':
        return obj.swapxy(args[0])
    if op == 'transpose':
        return obj.transpose(args[0])
    raise KeyError(op)


def call_ref(op, r, args):
    if op == 'reshape':
        return ref_reshape(r, args[0], args[1])
    if op == 'flatten':
        return ref_flatten(r, args[0])
    if op == 'swap_axes':
        return ref_swap_axes(r, *args)
    if op == 'roll_axis':
        return ref_roll_axis(r, *args)
    if op == 'move_axis':
        return ref_move_axis(r, *args)
    if op == 'broadcast_to':
        return ref_broadcast_to(r, *args)
    if op == 'extract_numer':
        return ref_extract_numer(r, *args)
    if op == 'slice_numer':
        return ref_slice_numer(r, *args)
    if op == 'transpose_numer':
        return ref_transpose_numer(r, *args)
    if op == 'reshape_numer':
        return ref_reshape_numer(r, *args)
    if op == 'flatten_numer':
        return ref_reshape_numer(r, (prod(r.numer),), args[0], args[1])
    if op == 'extract_denom':
        return ref_extract_denom(r, *args)
    if op == 'transpose_denom':
        return ref_transpose_denom(r, *args)
    if op == 'reshape_denom':
        return ref_reshape_denom(r, *args)
    if op == 'flatten_denom':
        return ref_reshape_denom(r, (prod(r.denom),))
    if op == 'join_items':
        return ref_join_items(r, *args)
    if op == 'split_items':
        return ref_split_items(r, *args)
    if op == 'swap_items':
        return ref_swap_items(r, *args)
    if op == 'as_row':
        return ref_reshape_numer(r, (1,) + r.numer, ('Matrix',), args[0])
    if op == 'as_column':
        return ref_reshape_numer(r, r.numer + (1,), ('Matrix',), args[0])
    if op == 'as_diagonal':
        return ref_as_diagonal(r, args[0])
    if op == 'to_scalars':
        return ref_to_scalars(r, args[0])
    if op == 'to_scalar':
        return ref_extract_numer(r, 0, args[0], ('Scalar',), args[1])
    if op == 'swapxy':
        return ref_swapxy(r, args[0])
    if op == 'transpose':
        return ref_transpose_numer(r, 0, 1, args[0])
    raise KeyError(op)


# ---------------------------------------------------------------------------
# Coq terms
# ---------------------------------------------------------------------------
def czlist(l):
    return clist([cZ(x) for x in l], 'Z')


def coq_mask(d):
    m = d['mask']
    if isinstance(m, bool):
        return '(LS %s)' % cbool(m)
    return '(LA %s)' % clist([cbool(x) for x in m], 'bool')


def coq_obj(d):
    ders = clist(['(%s, %s)' % (cnat(k), cshape(dd['denom'])) for k, dd in enumerate(d['derivs'])], '(nat * list nat)')
    bv = clist([cbool(x) for x in d.get('bvals', [])], 'bool')
    return '(mkI %s %s %s %s %s %s %s %s)' % (cnat(CLS_ID[d['cls']]), cshape(d['shape']), cshape(d['numer']),
                                               cshape(d['denom']), coq_mask(d), ders, cbool(d['readonly']), bv)


def ccls(names):
    return clist([cnat(CLS_ID[n]) for n in names], 'nat')


def ztuple(x):
    if isinstance(x, (int, np.integer)):
        return czlist([x])
    return czlist(list(x))


def coq_op(op, args):
    if op == 'reshape':
        t = args[0]
        return '(OReshape %s %s)' % (ztuple(t), cbool(args[1]))
    if op == 'flatten':
        return '(OFlatten %s)' % cbool(args[0])
    if op == 'swap_axes':
        return '(OSwapAxes %s %s %s)' % (cZ(args[0]), cZ(args[1]), cbool(args[2]))
    if op == 'roll_axis':
        return '(ORollAxis %s %s %s %s)' % (cZ(args[0]), cZ(args[1]), cnat(args[2] or 0), cbool(args[3]))
    if op == 'move_axis':
        return '(OMoveAxis %s %s %s %s)' % (ztuple(args[0]), ztuple(args[1]), cnat(args[2] or 0), cbool(args[3]))
    if op == 'broadcast_to':
        return '(OBroadcastTo %s %s)' % (cshape(args[0]), cbool(args[1]))
    if op == 'extract_numer':
        return '(OExtractNumer %s %s %s %s)' % (cZ(args[0]), cZ(args[1]), ccls(args[2]), cbool(args[3]))
    if op == 'slice_numer':
        return '(OSliceNumer %s %s %s %s %s)' % (cZ(args[0]), copt(cZ(args[1]) if args[1] is not None else None, 'Z'),
                                                 copt(cZ(args[2]) if args[2] is not None else None, 'Z'),
                                                 ccls(args[3]), cbool(args[4]))
    if op == 'transpose_numer':
        return '(OTransposeNumer %s %s %s)' % (cZ(args[0]), cZ(args[1]), cbool(args[2]))
    if op == 'reshape_numer':
        return '(OReshapeNumer %s %s %s)' % (cshape(args[0]), ccls(args[1]), cbool(args[2]))
    if op == 'flatten_numer':
        return '(OFlattenNumer %s %s)' % (ccls(args[0]), cbool(args[1]))
    if op == 'extract_denom':
        return '(OExtractDenom %s %s %s)' % (cZ(args[0]), cZ(args[1]), ccls(args[2]))
    if op == 'transpose_denom':
        return '(OTransposeDenom %s %s)' % (cZ(args[0]), cZ(args[1]))
    if op == 'reshape_denom':
        return '(OReshapeDenom %s)' % cshape(args[0])
    if op == 'flatten_denom':
        return 'OFlattenDenom'
    if op == 'join_items':
        return '(OJoinItems %s)' % ccls(args[0])
    if op == 'split_items':
        return '(OSplitItems %s %s)' % (cnat(args[0]), ccls(args[1]))
    if op == 'swap_items':
        return '(OSwapItems %s)' % ccls(args[0])
    if op == 'as_row':
        return '(OAsRow %s)' % cbool(args[0])
    if op == 'as_column':
        return '(OAsColumn %s)' % cbool(args[0])
    if op == 'as_diagonal':
        return '(OAsDiagonal %s)' % cbool(args[0])
    if op == 'to_scalars':
        return '(OToScalars %s)' % cbool(args[0])
    if op == 'to_scalar':
        return '(OToScalar %s %s)' % (cZ(args[0]), cbool(args[1]))
    if op == 'swapxy':
        return '(OSwapXY %s)' % cbool(args[0])
    if op == 'transpose':
        return '(OTransposeNumer 0 1 %s)' % cbool(args[0])
    raise KeyError(op)


KEYID = {'t': 0, 'x': 1}


def coq_oobj(o, with_ro=True):
    ders = []
    for key in sorted(o['derivs'], key=lambda k: KEYID.get(k, 9)):
        od = o['derivs'][key]
        ders.append('(%s, (%s, %s, %s, %s))' % (cnat(KEYID.get(key, 9)), cshape(od['numer']), cshape(od['denom']),
                                             czlist(od['vals']), clist([cbool(x) for x in od['mask']], 'bool')))
    return '(mkO %s %s %s %s %s %s %s %s)' % (
        cnat(CLS_ID.get(o['cls'], 99)), cshape(o['shape']), cshape(o['numer']), cshape(o['denom']),
        czlist(o['vals']), clist([cbool(x) for x in o['mask']], 'bool'), cbool(o['ro']),
        clist(ders, '(nat * (list nat * list nat * list Z * list bool))'))


def coq_obs(impl):
    if impl[0] == 'ok':
        return '(OOk %s)' % clist([coq_oobj(o) for o in impl[1]], 'oobj')
    if impl[0] == 'exc' and impl[1] in ('ValueError', 'IndexError'):
        return 'OErr'
    return 'OOther'


# ---------------------------------------------------------------------------
# one case
# ---------------------------------------------------------------------------
def jsonable(x):
    if isinstance(x, tuple):
        return [jsonable(y) for y in x]
    if isinstance(x, list):
        return [jsonable(y) for y in x]
    if isinstance(x, (np.integer,)):
        return int(x)
    return x


def detuple(x, depth=0):
    """JSON round trip turns tuples into lists; argument tuples are restored here"""
    if isinstance(x, list):
        return tuple(detuple(y, depth + 1) for y in x)
    return x


def blank_placeholders(o, ks, n):
    def blank(od):
        if od['mask'] is not None and len(od['mask']) % n == 0:
            m = len(od['mask']) // n
            for k in ks:
                od['mask'][k * m:(k + 1) * m] = [False] * m
        if len(od['vals']) % n == 0:
            m = len(od['vals']) // n
            for k in ks:
                od['vals'][k * m:(k + 1) * m] = [0] * m
    blank(o)
    for od in o['derivs'].values():
        blank(od)


def run_impl(fn, Pm):
    with warnings.catch_warnings():
        warnings.simplefilter('error')
        try:
            return observe(fn(), Pm)
        except Exception as e:     # noqa
            name, site = lib.exc_family(e)
            return ('exc', name, site, str(e)[:120])


def run_case(c, Pm):
    kind = c['kind']
    res = {'coq': None, 'ref': None}
    if kind == 'op':
        d, op, args = c['a'], c['op'], detuple(c['args'])
        if op == 'reshape' and isinstance(c['args'][0], list) and c.get('tlist'):
            args = (list(args[0]),) + args[1:]
        r = R(d)
        res['ref'] = call_ref(op, r, args)
        res['impl'] = run_impl(lambda: call_impl(op, build(d, Pm), args, Pm), Pm)
        res['coq'] = '(COp %s %s)' % (coq_op(op, args), coq_obj(d))
        # the argument must be left as it was
    elif kind == 'stack' or kind == 'from_scalars':
        ds = c['objs']
        rs = [R(d) if d is not None else None for d in ds]
        if kind == 'stack':
            cls = [d for d in ds if d is not None][0]['cls']
            res['ref'] = ref_multi(rs, 0, cls, c['recursive'], False)
            res['impl'] = run_impl(lambda: Pm.Qube.stack(*[build(d, Pm) if d is not None else None for d in ds],
                                                         recursive=c['recursive']), Pm)
            res['coq'] = '(CStack %s %s)' % (clist([copt(coq_obj(d) if d is not None else None, 'iobj') for d in ds]),
                                             cbool(c['recursive']))
            # a None placeholder is not an input element: its mask and value are not compared
            for side in (res['impl'], res['ref']):
                if side[0] == 'ok':
                    blank_placeholders(side[1][0], [k for k, d in enumerate(ds) if d is None], len(ds))
        else:
            tcls = c['cls']
            n = len(ds)
            want = cast_ref('Vector' if tcls != 'Qube' else 'Qube', (tcls,), (n,))
            res['ref'] = ref_multi(rs, 0, want, c['recursive'], True)
            if tcls in ('Pair', 'Vector3') and n != {'Pair': 2, 'Vector3': 3}[tcls]:
                res['ref'] = ('err', ('TypeError',))
            kw = {'recursive': c['recursive']}
            if tcls == 'Matrix' and c['recursive']:
                kw = {}         # the default
            if tcls == 'Matrix':
                ms = c.get('mshape')
                if ms is not None:
                    kw['shape'] = tuple(ms)
                    item = tuple(ms)
                else:
                    dim = int(np.sqrt(n))
                    item = (dim, dim)
                if res['ref'][0] == 'ok':
                    if prod(item) != n:
                        res['ref'] = ERR
                    else:
                        o = res['ref'][1][0]
                        o['numer'] = list(item)
                        o['cls'] = 'Matrix'
                        for od in o['derivs'].values():
                            od['numer'] = list(item)
            res['impl'] = run_impl(lambda: getattr(Pm, tcls).from_scalars(*[build(d, Pm) for d in ds], **kw), Pm)
            if tcls == 'Matrix':
                pass        # covered by the direct oracle only
            elif res['ref'][0] == 'ok' or res['ref'] == ERR:
                res['coq'] = '(CFromScalars %s %s %s)' % (cnat(CLS_ID[tcls]), clist([coq_obj(d) for d in ds]),
                                                          cbool(c['recursive']))
    elif kind == 'np':
        res.update(run_np(c))
    elif kind == 'inv':
        res.update(run_inverse(c, Pm))
    return res


# ---- NumPy itself against the model's NumPy index maps
def run_np(c):
    f, shape, args = c['f'], tuple(c['shape']), detuple(c['args'])
    A = np.arange(prod(shape)).reshape(shape)
    try:
        if f == 'swapaxes':
            B = np.swapaxes(A, *args)
        elif f == 'rollaxis':
            B = np.rollaxis(A, *args)
        elif f == 'moveaxis':
            B = np.moveaxis(A, *args)
        elif f == 'reshape':
            B = np.reshape(A, args[0])
        elif f == 'broadcast_to':
            B = np.broadcast_to(A, args[0])
        out = ('ok', list(B.shape), [int(x) for x in B.ravel()])
    except ValueError:
        out = ('err',)
    if f == 'swapaxes':
        t = '(NSwap %s %s)' % (cZ(args[0]), cZ(args[1]))
    elif f == 'rollaxis':
        t = '(NRoll %s %s)' % (cZ(args[0]), cZ(args[1]))
    elif f == 'moveaxis':
        t = '(NMove %s %s)' % (ztuple(args[0]), ztuple(args[1]))
    elif f == 'reshape':
        t = '(NReshape %s)' % ztuple(args[0])
    else:
        t = '(NBroadcast %s)' % cshape(args[0])
    coq = '(CNp %s %s)' % (t, cshape(shape))
    obs = '(ONp %s %s)' % (cshape(out[1]), clist([cnat(x) for x in out[2]], 'nat')) if out[0] == 'ok' else 'OErr'
    return {'impl': out, 'ref': None, 'coq': coq, 'coq_obs': obs}


# ---- inverse pairs on the implementation
def same_obs(a, b, ignore=('ro',)):
    if a[0] != 'ok' or b[0] != 'ok' or len(a[1]) != len(b[1]):
        return False
    for x, y in zip(a[1], b[1]):
        for k in x:
            if k in ignore:
                continue
            if x[k] != y[k]:
                return False
    return True


def run_inverse(c, Pm):
    d, pair = c['a'], c['pair']
    args = detuple(c['args'])

    def go():
        q = build(d, Pm)
        if pair == 'swap_axes':
            return q.swap_axes(args[0], args[1]).swap_axes(args[0], args[1])
        if pair == 'reshape':
            return q.reshape(args[0]).reshape(tuple(d['shape']))
        if pair == 'roll_axis':     # roll k to the front and back again
            k = args[0]
            return q.roll_axis(k, 0).roll_axis(0, k + 1)
        if pair == 'move_axis':
            return q.move_axis(args[0], args[1]).move_axis(args[1], args[0])
        if pair == 'flatten':
            return q.flatten().reshape(tuple(d['shape']))
        if pair == 'join_split':
            return q.join_items((Pm.Qube,)).split_items(len(d['numer']), (getattr(Pm, d['cls']),))
        if pair == 'swap_items':
            return q.swap_items((Pm.Qube,)).swap_items((getattr(Pm, d['cls']),))
        if pair == 'scalars':
            return getattr(Pm, d['cls']).from_scalars(*q.to_scalars())
        if pair == 'transpose_numer':
            return q.transpose_numer(args[0], args[1]).transpose_numer(args[0], args[1])
        if pair == 'transpose_denom':
            return q.transpose_denom(args[0], args[1]).transpose_denom(args[0], args[1])
        if pair == 'row_vector':
            return q.as_row().flatten_numer((getattr(Pm, d['cls']),))
        if pair == 'column_vector':
            return q.as_column().flatten_numer((getattr(Pm, d['cls']),))
        if pair == 'reshape_numer':
            return q.reshape_numer(args[0], (Pm.Qube,)).reshape_numer(tuple(d['numer']), (getattr(Pm, d['cls']),))
        if pair == 'swapxy':
            return q.swapxy().swapxy()
        raise KeyError(pair)
    impl = run_impl(go, Pm)
    ident = run_impl(lambda: build(d, Pm), Pm)
    ref = ident
    if pair == 'reshape':
        try:
            np.reshape(np.empty(tuple(d['shape']), bool), args[0])
        except ValueError:
            return {'impl': impl, 'ref': ERR, 'coq': None}      # not a legal target: must be rejected
    if pair in ('join_split', 'swap_items') or (pair == 'scalars' and False):
        ref = ('ok', [dict(ident[1][0], derivs={})])
    return {'impl': impl, 'ref': ref, 'coq': None}


def same(impl, ref):
    if ref is None:
        return True
    if ref[0] == 'err':
        return impl[0] == 'exc' and impl[1] in ref[1]
    if impl[0] != 'ok' or len(impl[1]) != len(ref[1]):
        return False
    for x, y in zip(impl[1], ref[1]):
        for k in ('shape', 'numer', 'denom', 'vals', 'mask'):
            if x[k] != y[k]:
                return False
        if y.get('cls') is not None and x['cls'] != y['cls']:
            return False
        if y.get('ro') is not None and bool(x['ro']) != bool(y['ro']):
            return False
        if sorted(x['derivs']) != sorted(y['derivs']):
            return False
        for key in x['derivs']:
            for k in ('shape', 'numer', 'denom', 'vals', 'mask', 'nested'):
                if y['derivs'][key][k] is not None and x['derivs'][key][k] != y['derivs'][key][k]:
                    return False
    return True


def first_diff(impl, ref):
    if ref is None or ref[0] == 'err' or impl[0] != 'ok':
        return 'outcome'
    if len(impl[1]) != len(ref[1]):
        return 'count'
    for x, y in zip(impl[1], ref[1]):
        for k in ('shape', 'numer', 'denom', 'mask', 'vals'):
            if x[k] != y[k]:
                return k
        if y.get('cls') is not None and x['cls'] != y['cls']:
            return 'cls'
        if y.get('ro') is not None and bool(x['ro']) != bool(y['ro']):
            return 'ro'
        if sorted(x['derivs']) != sorted(y['derivs']):
            return 'deriv-keys'
        for key in x['derivs']:
            for k in ('shape', 'numer', 'denom', 'mask', 'vals', 'nested'):
                if y['derivs'][key][k] is not None and x['derivs'][key][k] != y['derivs'][key][k]:
                    return 'deriv-' + k
    return ''


def signature(c, res):
    impl, ref = res['impl'], res.get('ref')
    sig = {'kind': c['kind'], 'op': c.get('op') or c.get('pair') or c.get('f') or c['kind']}
    sig['outcome'] = impl[0]
    if impl[0] == 'exc':
        sig['exc'], sig['site'] = impl[1], impl[2]
    sig['expected'] = 'error' if (ref and ref[0] == 'err') else 'result'
    sig['diff'] = first_diff(impl, ref)
    a = c.get('a')
    if a:
        sig['cls'] = a['cls']
        sig['rank'] = len(a['shape'])
        sig['nrank'] = len(a['numer'])
        sig['drank'] = len(a['denom'])
        sig['size'] = prod(a['shape'])
        sig['nderivs'] = len(a['derivs'])
        # largest item rank among the object and its derivatives
        sig['item_rank'] = max([sig['nrank'] + sig['drank']] +
                               [sig['nrank'] + len(dd['denom']) for dd in a['derivs']])
        if c['kind'] == 'inv' and c['pair'] == 'swap_items':
            # the second swap sees numerator and denominator exchanged
            sig['nrank'], sig['drank'] = max(sig['nrank'], sig['drank']), min(sig['nrank'], sig['drank'])
    if c['kind'] == 'inv' and c['pair'] == 'reshape':
        t = c['args'][0]
        sig['target_rank'] = len(t) if isinstance(t, (list, tuple)) else 1
        if not c['a']['shape'] and sig['target_rank'] > 0:
            # the way back is the reshape to (): describe that step
            sig['rank'], sig['target_rank'] = sig['target_rank'], 0
    if c['kind'] == 'from_scalars':
        sig['cls'] = c['cls']
        sig['shape_given'] = c.get('mshape') is not None
        sig['recursive_kw'] = not c['recursive']
    if c['kind'] == 'op':
        args = c['args']
        if c['op'] in ('reshape', 'broadcast_to'):
            t = args[0]
            sig['target_rank'] = len(t) if isinstance(t, (list, tuple)) else 1
        if c['op'] in ('move_axis', 'roll_axis'):
            sig['rank_arg'] = args[2]
        if c['op'] == 'split_items':
            sig['nrank_arg'] = args[0]
    return sig


def nontrivial(c):
    a = c.get('a') or ([d for d in c.get('objs', []) if d] or [None])[0]
    if not a:
        return True
    m = a['mask']
    return bool(a['derivs']) or m is True or (isinstance(m, list) and any(m))


# ---------------------------------------------------------------------------
# case generation
# ---------------------------------------------------------------------------
ALL_OPS = LEAD_OPS + ITEM_OPS + VEC_OPS + ['swapxy', 'transpose']


def gen_cases(rng, tier):
    cases = []
    full = tier == 'thorough'

    def add_op(d, op, args):
        c = {'kind': 'op', 'op': op, 'a': d, 'args': jsonable(args)}
        if op == 'reshape' and isinstance(args[0], list):
            c['tlist'] = True
        cases.append(c)

    # 1. exhaustive axis-argument core: every leading shape x every axis argument (one plain class)
    core_leads = LEADS if full else [(), (1,), (2,), (2, 3), (0, 2), (1, 1, 2), (2, 3, 2), (1, 2, 1, 3)]
    for shape in core_leads:
        for op in LEAD_OPS:
            cls, numer = rng.choice([('Scalar', ()), ('Vector', (2,)), ('Pair', (2,)), ('Matrix', (2, 2))])
            d = gen_obj(rng, cls, shape, numer, denom=rng.choice([(), (2,)]), nder=rng.choice([0, 1]))
            allargs = enum_args(op, d, rng, full)
            if not full and len(allargs) > 150:
                allargs = rng.sample(allargs, 150)
            for args in allargs:
                add_op(d, op, args)
    # 2. item operations: every class/item shape x denominators x every axis argument
    for cls, items in sorted(CLS_ITEMS.items()):
        for numer in items:
            for denom in ([(), (2,), (2, 3), (3, 1)] if cls != 'Boolean' else [()]):
                for op in ITEM_OPS + VEC_OPS + ['swapxy', 'transpose']:
                    shape = rng.choice([(), (2,), (2, 3), (0,), (1, 2)])
                    d = gen_obj(rng, cls, shape, numer, denom)
                    if not applicable(op, d):
                        d = gen_obj(rng, cls, shape, numer, denom, nder=0)
                        if not applicable(op, d):
                            continue
                    allargs = enum_args(op, d, rng, full)
                    lim = 400 if full else 12
                    if len(allargs) > lim:
                        allargs = rng.sample(allargs, lim)
                    for args in allargs:
                        add_op(d, op, args)
    # 3. seeded structured sample over the whole space
    nrand = 12000 if full else 1500
    for _ in range(nrand):
        d = gen_obj(rng)
        ops = [op for op in ALL_OPS if applicable(op, d)]
        op = rng.choice(ops)
        allargs = enum_args(op, d, rng, False)
        if allargs:
            add_op(d, op, rng.choice(allargs))
    # 4. stack / from_scalars
    nmulti = 3000 if full else 400
    for _ in range(nmulti):
        if rng.random() < 0.5:
            cls = rng.choice(['Scalar', 'Vector', 'Pair', 'Matrix', 'Vector3', 'Boolean'])
            numer = rng.choice(CLS_ITEMS[cls])
            denom = () if cls == 'Boolean' else rng.choice([(), (), (2,)])
            n = rng.choice([1, 2, 2, 3])
            shapes = rng.choice([[(2, 3), (3,), ()], [(2,), (2,), (1,)], [(), (), ()], [(3, 1), (1, 2), (2,)],
                                 [(2,), (3,), (2,)], [(0,), (1,), ()], [(2, 3), (2, 3), (2, 3)]])
            objs = []
            for k in range(n):
                dn = denom if rng.random() < 0.93 else (3,)
                if cls == 'Boolean':
                    dn = ()
                objs.append(gen_obj(rng, cls, shapes[k], numer, dn, readonly=False,
                                    kind=None if cls != 'Boolean' else 'bool'))
            kinds = set(o['kind'] for o in objs)
            if len(kinds) > 1:      # the class/dtype coercion of mixed stacks is C04's business
                for o in objs:
                    o['kind'] = 'float'
            if rng.random() < 0.15 and n > 1:
                objs[rng.randrange(1, n)] = None
            cases.append({'kind': 'stack', 'objs': objs, 'recursive': rng.random() < 0.8})
        else:
            tcls = rng.choice(['Vector', 'Vector', 'Pair', 'Vector3', 'Qube', 'Matrix'])
            n = {'Pair': 2, 'Vector3': 3}.get(tcls, rng.choice([1, 2, 3, 4]))
            mshape = None
            if tcls == 'Matrix':
                n, mshape = rng.choice([(4, None), (1, None), (3, None), (4, (2, 2)), (2, (1, 2)), (3, (3, 1)),
                                        (4, (1, 4)), (3, (2, 2)), (4, (4, 1))])
            denom = rng.choice([(), (), (2,)])
            shapes = rng.choice([[(2, 3), (3,), (), (1,)], [(2,), (2,), (1,), (2,)], [(), (), (), ()],
                                 [(3, 1), (1, 2), (2,), ()], [(2,), (3,), (2,), (2,)], [(0,), (1,), (), (0,)]])
            objs = [gen_obj(rng, 'Scalar', shapes[k], (), denom if rng.random() < 0.95 else (3,), readonly=False,
                            kind='float') for k in range(n)]
            cases.append({'kind': 'from_scalars', 'cls': tcls, 'objs': objs, 'recursive': rng.random() < 0.8,
                          'mshape': list(mshape) if mshape else None})
    # 5. NumPy against the model's NumPy index maps
    np_leads = LEADS if full else [(), (2,), (2, 3), (0, 2), (2, 3, 2), (1, 2, 1, 3), (2, 1, 3, 2)]
    for shape in np_leads:
        n = len(shape)
        lst = []
        for a in axis_range(n):
            for b in axis_range(n):
                lst.append(('swapaxes', (a, b)))
                lst.append(('rollaxis', (a, b)))
                lst.append(('moveaxis', (a, b)))
        prs = list(itertools.permutations(range(-n, n), 2))
        for sp in prs:
            for dp in prs:
                lst.append(('moveaxis', (sp, dp)))
        if n >= 3:
            for sp in itertools.permutations(range(n), 3):
                lst.append(('moveaxis', (sp, tuple(rng.sample(range(-n, n), 3)))))
        for t in reshape_targets(shape):
            lst.append(('reshape', (t,)))
        for t in bcast_targets(shape):
            lst.append(('broadcast_to', (t,)))
        if not full and len(lst) > 250:
            lst = rng.sample(lst, 250)
        for f, args in lst:
            cases.append({'kind': 'np', 'f': f, 'shape': list(shape), 'args': jsonable(args)})
    # 6. inverse pairs on the implementation
    ninv = 4000 if full else 500
    for _ in range(ninv):
        d = gen_obj(rng)
        n, nr, dr = len(d['shape']), len(d['numer']), len(d['denom'])
        opts = ['flatten', 'reshape']
        if n >= 1:
            opts += ['swap_axes', 'roll_axis', 'move_axis']
        if not d['derivs']:
            opts += ['join_split', 'swap_items']
        if nr >= 1:
            opts += ['transpose_numer', 'reshape_numer']
        if dr >= 1 and not d['derivs']:
            opts.append('transpose_denom')
        if d['cls'] in ('Vector', 'Vector3', 'Pair') and not d['readonly']:
            opts += ['scalars', 'row_vector', 'column_vector']
        if d['cls'] == 'Pair':
            opts.append('swapxy')
        pair = rng.choice(opts)
        args = ()
        if pair in ('swap_axes', 'move_axis'):
            args = (rng.randrange(-n, n), rng.randrange(-n, n))
        elif pair == 'roll_axis':
            args = (rng.randrange(0, n),)
        elif pair == 'reshape':
            ts = [t for t in reshape_targets(d['shape']) if isinstance(t, tuple)]
            args = (rng.choice(ts),)
        elif pair == 'transpose_numer':
            args = (rng.randrange(-nr, nr), rng.randrange(-nr, nr))
        elif pair == 'transpose_denom':
            args = (rng.randrange(-dr, dr), rng.randrange(-dr, dr))
        elif pair == 'reshape_numer':
            args = (rng.choice([(prod(d['numer']),), (1, prod(d['numer'])), tuple(reversed(d['numer']))]),)
        cases.append({'kind': 'inv', 'pair': pair, 'a': d, 'args': jsonable(args)})
    return cases


# ---------------------------------------------------------------------------
def check_case(c, res):
    """direct oracle verdict"""
    impl, ref = res['impl'], res.get('ref')
    if c['kind'] == 'np':
        return True
    if c['kind'] == 'inv':
        if ref[0] == 'err':
            return impl[0] == 'exc' and impl[1] in ref[1]
        return same_obs(impl, ref)
    ok = same(impl, ref)
    if impl[0] == 'exc' and impl[1] not in ('ValueError', 'IndexError', 'TypeError'):
        ok = False
    return ok


def nonfinite_checks(Pm):
    """relabelings move numbers, they do not compute with them: inf, -inf and nan components come through unchanged and
    the elements a relabeling fills in are exact zeros (seeded change C15-L: as_diagonal multiplied by an identity
    matrix, which turns inf * 0 into nan off the diagonal).  -> list of (case, problem or None)"""
    out = []
    vals = np.array([[np.inf, -2., 3.], [1., -np.inf, np.nan], [0., 5., -7.]])
    for cname in ('Vector', 'Vector3'):
        for with_deriv in (False, True):
            v = getattr(Pm, cname)(vals.copy(), np.array([False, False, True]))
            if with_deriv:
                v.insert_deriv('t', getattr(Pm, cname)(vals[::-1].copy()))
            checks = {
                'as_diagonal': (lambda x: x.as_diagonal(), lambda a: np.stack([np.diag(r) for r in a])),
                'as_row': (lambda x: x.as_row(), lambda a: a[:, None, :]),
                'as_column': (lambda x: x.as_column(), lambda a: a[:, :, None]),
                'to_scalar1': (lambda x: x.to_scalar(1), lambda a: a[:, 1]),
                'reshape': (lambda x: x.reshape((3, 1)), lambda a: a.reshape(3, 1, 3)),
                'flip': (lambda x: x[::-1], lambda a: a[::-1]),
            }
            for op, (f, ref) in sorted(checks.items()):
                case = {'kind': 'nonfinite', 'op': op, 'cls': cname, 'deriv': with_deriv}
                prob = None
                try:
                    with warnings.catch_warnings():
                        warnings.simplefilter('ignore')
                        r = f(v)
                    pairs = [(np.asarray(r.values, float), ref(vals))]
                    if with_deriv:
                        if 't' not in r.derivs:
                            prob = 'derivative missing'
                        else:
                            pairs.append((np.asarray(r.derivs['t'].values, float), ref(vals[::-1])))
                    for got, want in pairs:
                        if prob is None and (got.shape != want.shape or not np.array_equal(got, want, equal_nan=True)):
                            prob = 'values differ from the relabeled array (non-finite components)'
                except Exception as e:       # noqa
                    prob = 'raised %s: %s' % (type(e).__name__, str(e)[:80])
                out.append((case, prob))
    return out


def run(ctx):
    Pm = P()
    ctx.rule = ('identifier-tagged objects (values = 1 + own flat index, derivative k = 1000(k+1) + ..., generated mask '
                'pattern in six representations); exhaustive axis/target arguments incl. out-of-range and negative '
                'values and rank= for every leading shape of the pool (rank <= 4, lengths 0-3); every class / item '
                'shape x denominators of rank 0-2 x item operation with all axis/index arguments; seeded structured '
                'sample; stack / from_scalars; NumPy itself vs the model index maps; inverse pairs. non-trivial = some '
                'element masked or derivatives present')
    ctx.assumptions = ['values under masked elements are not compared',
                       'polymath broadcast_to(()) of a single-element object is accepted as a documented extension of np.broadcast_to',
                       'read-only flag is compared where the result is a view of the operand; fresh copies are exempt',
                       'mixed-dtype stacks are coerced to float before stacking (class/dtype choice of stack belongs to C04)']
    if ctx.ensure_library():
        ctx.prove(['theories/Props/C15.v'])
        ctx.shape_obligations()        # regenerated from the current source: see coq/obl/Shp_C15.v
    cases = gen_cases(ctx.rng, ctx.tier)
    ctx.log('%d cases' % len(cases))
    terms, idx, bad = [], [], []
    for i, c in enumerate(cases):
        res = run_case(c, Pm)
        small = c if len(str(c)) < 700 else {'kind': c['kind'], 'op': c.get('op')}
        ctx.note_case(small, nontrivial(c))
        ctx.count('kind:' + c['kind'])
        ctx.count('op:' + str(c.get('op') or c.get('pair') or c.get('f') or c['kind']))
        if res['impl'][0] == 'exc':
            ctx.count('exc:' + res['impl'][1])
        if c.get('a'):
            ctx.count('cls:' + c['a']['cls'])
            ctx.count('mrep:' + c['a']['mrep'])
            ctx.count('nderivs:%d' % len(c['a']['derivs']))
            ctx.count('rank:%d' % len(c['a']['shape']))
        if not check_case(c, res):
            bad.append((i, c, res))
        if res['coq'] is not None:
            ob = res.get('coq_obs') or coq_obs(res['impl'])
            terms.append('(%s, %s)' % (res['coq'], ob))
            idx.append(i)
    ctx.traces = len(terms)
    badset = set()
    for i, c, res in bad:
        badset.add(i)
        ctx.fail(signature(c, res), c, {'impl': res['impl'], 'reference': res.get('ref')}, tie='model-vs-impl')
    for case, prob in nonfinite_checks(Pm):
        ctx.note_case(case, True)
        ctx.count('kind:nonfinite')
        if prob:
            ctx.fail({'kind': 'nonfinite', 'op': case['op'], 'cls': case['cls'], 'deriv': case['deriv']}, case, {'problem': prob})
    mism = ctx.coq_eval_shards('cases', HEADER, terms, lambda x: 'mismatches %s' % x, shard=250)
    if mism:
        unexplained = [j for j in mism if idx[j] not in badset]
        if unexplained:
            j = unexplained[0]
            c = cases[idx[j]]
            res = run_case(c, Pm)
            shown = ctx.coq_show(HEADER, 'run15 %s' % res['coq'])
            name = 'numpy-model' if c['kind'] == 'np' else 'model-vs-impl-unexplained'
            ctx.broken_tie('correspondence', name,
                           {'n_mismatch': len(unexplained), 'first_case': c, 'impl': res['impl'], 'model': shown,
                            'others': [json.dumps(cases[idx[k]])[:300] for k in unexplained[1:12]]})
    ctx.cov['correspondence_mismatches'] = len(mism or [])
    ctx.cov['oracle_failures'] = len(bad)
    ctx.exhaustive = True
    return ctx.finish()


def replay(path):
    Pm = P()
    d0 = json.load(open(path))
    if isinstance(d0.get('case'), dict) and d0['case'].get('kind') == 'nonfinite':
        bad = 0
        for case, prob in nonfinite_checks(Pm):
            if case == d0['case']:
                print(case, '->', prob or 'ok')
                bad = 1 if prob else 0
        print('property FAILS on this case' if bad else 'property holds on this case')
        return bad
    d = json.load(open(path))
    if 'case' not in d:
        print(json.dumps(d, indent=1)[:3000])
        return 1
    c = d['case']
    res = run_case(c, Pm)
    print('case      :', json.dumps(c)[:2000])
    print('impl      :', str(res['impl'])[:2000])
    print('reference :', str(res.get('ref'))[:2000])
    ok = check_case(c, res)
    print('property holds on this case' if ok else 'property FAILS on this case')
    return 0 if ok else 1
