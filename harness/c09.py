"""C09 - indexing reads exactly the selected elements; masked index entries mask results.

Stages: prove Props/C09.v; generate cases (corpus + exhaustive core of short index
tuples + seeded structured sample + malformed stream + iteration cases); run the
implementation; compare with (a) the Python reference harness/ref_index.py written
from the documentation (direct oracle) and (b) the Coq specification C09Model.getitem
evaluated by vm_compute on the same cases (correspondence)."""
import itertools
import json
import warnings

import numpy as np

from . import lib
from . import idx_gen as G
from .ref_index import ref_getitem
from .lib import clist

HEADER = ('From Coq Require Import List ZArith Bool.\nFrom PM Require Import Base Mask C09Model.\n'
          'Import ListNotations.\nOpen Scope Z_scope.\n')


def P():
    lib.setup_impl_path()
    import polymath
    return polymath


# ---------------------------------------------------------------------------
# case generation
# ---------------------------------------------------------------------------
def entry_pool(n, rest):
    """Small deterministic pool of entries for an axis of length n (rest = remaining shape)."""
    pool = [{'k': 'int', 'v': 0, 'm': False}, {'k': 'int', 'v': -1, 'm': False},
            {'k': 'int', 'v': n, 'm': False}, {'k': 'int', 'v': 0, 'm': True},
            {'k': 'slice', 'a': None, 'b': None, 'c': None}, {'k': 'slice', 'a': None, 'b': None, 'c': -1},
            {'k': 'slice', 'a': 1, 'b': None, 'c': None}, {'k': 'slice', 'a': 0, 'b': 0, 'c': None},
            {'k': 'none'}, {'k': 'ell'},
            {'k': 'bool', 'v': True, 'm': False}, {'k': 'bool', 'v': False, 'm': False},
            {'k': 'bool', 'v': True, 'm': True},
            {'k': 'iarr', 'shape': [2], 'v': [n - 1, 0], 'm': None, 'obj': False},
            {'k': 'iarr', 'shape': [2], 'v': [0, n - 1], 'm': [False, True], 'obj': True},
            {'k': 'iarr', 'shape': [2, 1], 'v': [-1, n + 1], 'm': None, 'obj': True},
            {'k': 'iarr', 'shape': [1, 2], 'v': [0, 0], 'm': None, 'obj': False},
            {'k': 'barr', 'shape': [n], 'v': [i % 2 == 0 for i in range(n)], 'm': None, 'obj': False},
            {'k': 'barr', 'shape': [n], 'v': [i % 2 == 1 for i in range(n)],
             'm': [i == 0 for i in range(n)], 'obj': True}]
    if len(rest) >= 2:
        pool.append({'k': 'vec', 'n': 2, 'shape': [2], 'v': [0, rest[1] - 1, rest[0] - 1, 0], 'm': [False, True]})
        pool.append({'k': 'barr', 'shape': list(rest[:2]),
                     'v': [(i % 3) != 1 for i in range(rest[0] * rest[1])], 'm': None, 'obj': True})
    return pool


def exhaustive_core(shape, maxent):
    """All index tuples of up to maxent entries drawn from entry_pool, entry j built for
    the axis it meets (depth-first, deterministic)."""
    out = []

    def rec(prefix, ax, depth):
        out.append(list(prefix))
        if depth == maxent:
            return
        n = shape[ax] if ax < len(shape) else 1
        rest = list(shape[ax:]) or [1]
        for e in entry_pool(n, rest):
            k = e['k']
            step = 0 if k in ('none', 'ell') else (len(e['shape']) if k == 'barr' else (e['n'] if k == 'vec' else 1))
            rec(prefix + [e], ax + step, depth + 1)
    rec([], 0, 0)
    return out


CORPUS = [
    # the examples of the class documentation, scaled down
    ((2, 2, 2, 2), [{'k': 'slice', 'a': None, 'b': None, 'c': None}, {'k': 'iarr', 'shape': [2], 'v': [0, 1], 'm': None},
                    {'k': 'slice', 'a': None, 'b': None, 'c': None}, {'k': 'iarr', 'shape': [2, 1], 'v': [1, 0], 'm': None}]),
    ((2, 3), [{'k': 'slice', 'a': None, 'b': None, 'c': None}, {'k': 'iarr', 'shape': [3], 'v': [0, 1, 2], 'm': [False, True, False], 'obj': True}]),
    ((3, 4), [{'k': 'slice', 'a': None, 'b': None, 'c': None}, {'k': 'iarr', 'shape': [4], 'v': [0, 1, 5, 3], 'm': [False, False, False, True], 'obj': True}]),
    ((2, 3, 2), [{'k': 'int', 'v': 0, 'm': False}, {'k': 'slice', 'a': None, 'b': None, 'c': None}, {'k': 'iarr', 'shape': [2], 'v': [0, 1], 'm': None}]),
    ((2, 3, 2), [{'k': 'int', 'v': 0, 'm': False}, {'k': 'ell'}, {'k': 'barr', 'shape': [2], 'v': [True, False], 'm': None}]),
    ((3,), [{'k': 'int', 'v': 1, 'm': False}, {'k': 'ell'}]),
    ((0,), [{'k': 'int', 'v': 0, 'm': False}]),
    ((0, 3), [{'k': 'bool', 'v': True, 'm': True, 'obj': True}]),
    ((), [{'k': 'bool', 'v': True, 'm': False}]), ((), [{'k': 'bool', 'v': False, 'm': False}]),
    ((), [{'k': 'bool', 'v': True, 'm': True, 'obj': True}, {'k': 'none'}]),
    ((), [{'k': 'int', 'v': 0, 'm': False}]),
]


def gen_cases(rng, tier):
    cases = []
    for shape, ents in CORPUS:
        cases.append({'kind': 'get', 'obj': G.gen_object(rng, shape), 'index': ents, 'src': 'corpus'})
    core_shapes = [((3,), 2), ((2, 3), 2), ((2, 2, 2), 2)] if tier == 'quick' else \
                  [((3,), 3), ((2, 3), 3), ((2, 2, 2), 3), ((2, 0), 2), ((2, 3, 2), 2)]
    for shape, maxent in core_shapes:
        for ents in exhaustive_core(shape, maxent):
            cases.append({'kind': 'get', 'obj': G.gen_object(rng, shape, nderiv=rng.choice([0, 0, 0, 1])),
                          'index': ents, 'src': 'core'})
    # shapeless objects: every mask state of the object and of its derivative x every index of up to two entries
    # made of True / False / a masked Boolean / None / Ellipsis / a full slice (plus one entry that is not allowed)
    sl_pool = [{'k': 'bool', 'v': True, 'm': False}, {'k': 'bool', 'v': False, 'm': False},
               {'k': 'bool', 'v': True, 'm': True, 'obj': True}, {'k': 'bool', 'v': True, 'm': False, 'obj': True},
               {'k': 'none'}, {'k': 'ell'}, {'k': 'slice', 'a': None, 'b': None, 'c': None}, {'k': 'int', 'v': 0, 'm': False}]
    sl_idx = [[e] for e in sl_pool] + [[a, b] for a in sl_pool for b in sl_pool]
    for om in ('F', 'T'):
        for dm in ('F', 'T', None):
            for ents in sl_idx:
                o = G.gen_object(rng, (), nderiv=0 if dm is None else 1)
                o['mrep'], o['mask'] = om, [om == 'T']
                for k in o['derivs']:
                    o['derivs'][k]['mrep'], o['derivs'][k]['mask'] = dm, [dm == 'T']
                    o['derivs'][k].pop('bcast', None)
                cases.append({'kind': 'get', 'obj': o, 'index': [dict(e) for e in ents], 'src': 'core'})
    for what in G.HIST_FLOATS:          # float index objects that descend from an integer one: always rejected
        for shape in ((4,), (2, 3)):
            cases.append({'kind': 'get', 'obj': G.gen_object(rng, shape), 'index': [{'k': 'bad', 'what': what}], 'src': 'core'})
            cases.append({'kind': 'get', 'obj': G.gen_object(rng, shape),
                          'index': [{'k': 'slice', 'a': None, 'b': None, 'c': None}, {'k': 'bad', 'what': what}][:len(shape)], 'src': 'core'})
    nrand = 12000 if tier == 'quick' else 120000
    for _ in range(nrand):
        shape = rng.choice(G.LEAD_SHAPES)
        r = rng.random()
        if r < 0.08:
            cases.append({'kind': 'get', 'obj': G.gen_object(rng, shape), 'index': G.gen_bad_index(rng, shape),
                          'src': 'malformed'})
        elif r < 0.13:
            cases.append({'kind': rng.choice(['iter', 'enum', 'len']), 'obj': G.gen_object(rng, shape), 'src': 'iter'})
        else:
            focus = len(shape) >= 1 and rng.random() < 0.3        # template-built multi-array indices
            cases.append({'kind': 'get', 'obj': G.gen_object(rng, shape),
                          'index': G.gen_focus_index(rng, shape) if focus else G.gen_index(rng, shape),
                          'src': 'focus' if focus else 'random'})
    # every shape of the pool is iterated at least once
    for shape in G.LEAD_SHAPES:
        for kind in ('iter', 'enum', 'len'):
            cases.append({'kind': kind, 'obj': G.gen_object(rng, shape), 'src': 'iter'})
    return cases


# ---------------------------------------------------------------------------
# reference: what the property requires, from ref_getitem and the object observed
# ---------------------------------------------------------------------------
def expect_plain(src_obs, ref):
    """apply (out_shape, src) to an observed plain object"""
    out_shape, src = ref
    _, mask, vals = src_obs
    m, v = [], []
    for s, mk in src:
        if mk:
            m.append(True)
            v.append(None)
        else:
            m.append(bool(mask[s]))
            v.append(vals[s])
    return (list(out_shape), m, v)


def expect_get(before, ref):
    if ref == ('err',):
        return ('err',)
    return {'main': expect_plain(before['main'], ref),
            'derivs': {k: expect_plain(p, ref) for k, p in before['derivs'].items()}}


def same_plain(impl, exp):
    if list(impl[0]) != list(exp[0]) or list(impl[1]) != list(exp[1]):
        return False
    return all(m or a == b for m, a, b in zip(exp[1], impl[2], exp[2]))


def same_obj(impl, exp):
    if sorted(impl['derivs']) != sorted(exp['derivs']):
        return False
    return same_plain(impl['main'], exp['main']) and all(same_plain(impl['derivs'][k], exp['derivs'][k])
                                                         for k in exp['derivs'])


def int_index(idx):
    return [{'k': 'int', 'v': int(i), 'm': False} for i in idx]


# ---------------------------------------------------------------------------
# one case
# ---------------------------------------------------------------------------
def coq_obj(before, d):
    ders = [G.coq_plain(before['derivs'][k], d['derivs'][k]['mrep']) for k in sorted(before['derivs'])]
    return G.coq_plain(before['main'], d['mrep']), clist(ders, '(plain V)')


def coq_eobs_list(o):
    return clist([G.coq_eobs(o['main'])] + [G.coq_eobs(o['derivs'][k]) for k in sorted(o['derivs'])], 'eobs')


def coq_oobj(o):
    return '(OObj %s)' % coq_eobs_list(o)


def run_case(c, Pm):
    """returns dict(impl, ref, coq term, fail kind)"""
    d = c['obj']
    q = G.build_object(d, Pm)
    before = G.observe(q)
    shape = tuple(d['shape'])
    res = {'coq': None, 'before': before}
    main, ders = coq_obj(before, d)
    with warnings.catch_warnings():
        warnings.simplefilter('error')
        if c['kind'] == 'get':
            ref = ref_getitem(shape, c['index'])
            res['ref'] = expect_get(before, ref)
            try:
                idx = G.to_impl(c['index'], Pm)
                snap = G.index_snapshot(idx)
                r = q[idx]
                res['impl'] = observe_result(r, Pm)
                res['index_changed'] = G.index_snapshot(idx) != snap
            except Exception as e:          # noqa
                res['impl'] = ('exc',) + lib.exc_family(e)
            if res['impl'] == ('other',):
                res['coq_obs'] = 'OOther'
            elif isinstance(res['impl'], tuple):
                res['coq_obs'] = 'OErr' if res['impl'][1] == 'IndexError' else 'OOther'
            else:
                res['coq_obs'] = coq_oobj(res['impl'])
            res['coq'] = '(CGet %s %s %s)' % (main, ders, G.coq_entries(c['index']))
            res['after'] = G.observe(q)
        elif c['kind'] == 'len':
            res['ref'] = ('len', shape[0] if shape else 'TypeError')
            try:
                res['impl'] = ('len', len(q))
            except TypeError:
                res['impl'] = ('len', 'TypeError')             # unsized object, as for NumPy
            except Exception as e:      # noqa
                res['impl'] = ('exc',) + lib.exc_family(e)
        else:
            if c['kind'] == 'iter':
                idxs = [(i,) for i in range(shape[0])] if shape else [None]
            else:
                idxs = list(itertools.product(*[range(n) for n in shape])) if shape else [None]
            exp = []
            for i in idxs:
                exp.append(before if i is None else expect_get(before, ref_getitem(shape, int_index(i))))
            res['ref'] = ('seq', [None if i is None else list(i) for i in idxs], exp)
            try:
                if c['kind'] == 'iter':
                    got = [observe_result(x, Pm) for x in q]
                    gi = [None if i is None else list(i) for i in idxs][:len(got)] + [None] * (len(got) - len(idxs))
                else:
                    pairs = list(q.ndenumerate())
                    got = [observe_result(x, Pm) for _, x in pairs]
                    gi = [list(int(k) for k in i) if shape else None for i, _ in pairs]
                res['impl'] = ('seq', gi, got)
                res['coq_obs'] = '(OSeq %s)' % clist(['(Some %s)' % coq_eobs_list(o) if isinstance(o, dict)
                                                      else '(@None (list eobs))' for o in got], '(option (list eobs))')
            except Exception as e:      # noqa
                res['impl'] = ('exc',) + lib.exc_family(e)
                res['coq_obs'] = 'OOther'
            res['coq'] = '(%s %s %s)' % ('CIter' if c['kind'] == 'iter' else 'CEnum', main, ders)
    res['fail'] = failure_kind(res)
    return res


def observe_result(r, Pm):
    if not isinstance(r, Pm.Qube):
        return ('other',)
    return G.observe(r)


def failure_kind(res):
    """None if the property holds on this case, else a short class name."""
    impl, ref = res['impl'], res['ref']
    if 'after' in res and not same_obj(res['after'], res['before']):
        return 'source_modified'
    if res.get('index_changed'):
        return 'index_object_modified'      # its next use would select / mask other elements
    if isinstance(impl, tuple) and impl[0] == 'exc':
        if ref == ('err',):
            return None if impl[1] == 'IndexError' else 'wrong_exception'
        return 'exception'
    if ref == ('err',):
        return 'should_raise'
    if isinstance(impl, tuple) and impl[0] == 'len':
        return None if impl == ref else 'content'
    if isinstance(impl, tuple) and impl[0] == 'seq':
        if impl[1] != ref[1]:
            return 'order'
        for a, b in zip(impl[2], ref[2]):
            if not isinstance(a, dict) or not same_obj(a, b):
                return 'content'
        return None
    if not isinstance(impl, dict):
        return 'content'
    if list(impl['main'][0]) != list(ref['main'][0]):
        return 'shape'
    return None if same_obj(impl, ref) else 'content'


def signature(c, res):
    d = c['obj']
    sig = {'op': {'get': 'getitem'}.get(c['kind'], c['kind']), 'fail': res['fail'], 'cls': d['cls'],
           'mrep': d['mrep'], 'zero_size': 0 in d['shape'], 'shapeless': not d['shape'], 'exc': None, 'site': None}
    if isinstance(res['impl'], tuple) and res['impl'][0] == 'exc':
        sig['exc'], sig['site'] = res['impl'][1], res['impl'][2]
    if 'index' in c:
        sig.update(G.features(d['shape'], c['index']))
    impl, ref = res['impl'], res['ref']
    sig['derivs_only'] = bool(isinstance(impl, dict) and isinstance(ref, dict)
                              and same_plain(impl['main'], ref['main']))
    return sig


def nontrivial(c):
    if 'index' not in c:
        return True
    f = G.features(c['obj']['shape'], c['index'])
    return f['n_arr'] > 0 or f['masked_entry']


def slim(c):
    s = json.dumps(c, default=str)
    return c if len(s) < 900 else {'kind': c['kind'], 'shape': c['obj']['shape'], 'cls': c['obj']['cls']}


def run(ctx):
    Pm = P()
    ctx.rule = ('corpus + every index tuple of <= %d entries from a 19-21 entry pool (each kind, masked and '
                'out-of-range variants) on fixed shapes + seeded structured sample over 20 leading shapes '
                '(rank 0-4, lengths 0-4), 9 class/item-shape combinations, 3 mask representations, 0-2 '
                'derivatives, 8%% malformed indices, iteration/ndenumerate/len; non-trivial = an array entry '
                'or a masked entry (or an iteration case)' % (2 if ctx.tier == 'quick' else 3))
    ctx.assumptions = ['values are identifier tags (own flat indices), so provenance is visible; values under '
                       'masks are not compared', 'index arrays have at most 2 axes and 4 elements; Pair/Vector '
                       'index objects have 2 or 3 components']
    if ctx.ensure_library():
        ctx.prove(['theories/Props/C09.v'])
        ctx.loops_obligations()        # regenerated from the current source: see coq/obl/Lp_C09.v
    cases = gen_cases(ctx.rng, ctx.tier)
    ctx.log('%d cases' % len(cases))
    terms, idx, bad = [], [], []
    for i, c in enumerate(cases):
        res = run_case(c, Pm)
        ctx.note_case(slim(c), nontrivial(c))
        ctx.count('kind:' + c['kind'])
        ctx.count('src:' + c['src'])
        ctx.count('cls:' + c['obj']['cls'])
        ctx.count('mrep:' + c['obj']['mrep'])
        ctx.count('rank:%d' % len(c['obj']['shape']))
        for e in c.get('index', []):
            ctx.count('entry:' + e['k'])
        if res['ref'] == ('err',):
            ctx.count('rejected')
        if res['fail']:
            bad.append((i, c, res))
        if res['coq'] is not None:
            terms.append('(%s, %s)' % (res['coq'], res['coq_obs']))
            idx.append(i)
    ctx.traces = len(terms)
    badset = set()
    for i, c, res in bad:
        badset.add(i)
        ctx.fail(signature(c, res), c, {'impl': res['impl'], 'reference': res['ref']}, tie='spec-vs-impl')
    mism = ctx.coq_eval_shards('cases', HEADER, terms, lambda x: 'mismatches %s' % x, shard=250)
    if mism:
        unexplained = [j for j in mism if idx[j] not in badset]
        if unexplained:
            c = cases[idx[unexplained[0]]]
            res = run_case(c, Pm)
            shown = ctx.coq_show(HEADER, 'run09 %s' % res['coq'])
            ctx.broken_tie('correspondence', 'spec-vs-impl-unexplained',
                           {'n_mismatch': len(unexplained), 'first_case': c, 'impl': res['impl'], 'model': shown})
    # the converse: a direct-oracle failure the Coq specification does not see
    if mism is not None:
        mset = set(idx[j] for j in mism)
        missed = [i for i, c, res in bad if res['coq'] is not None and i not in mset
                  and res['fail'] not in ('source_modified', 'order', 'wrong_exception')]
        if missed:
            ctx.broken_tie('correspondence', 'python-reference-vs-coq-spec',
                           {'n': len(missed), 'first_case': cases[missed[0]]})
    ctx.cov['correspondence_mismatches'] = len(mism or [])
    ctx.exhaustive = True
    return ctx.finish()


def replay(path):
    Pm = P()
    d = json.load(open(path))
    if 'case' not in d:
        print(json.dumps(d, indent=1)[:3000])
        return 1
    res = run_case(d['case'], Pm)
    print('case      :', json.dumps(d['case']))
    print('impl      :', res['impl'])
    print('reference :', res['ref'])
    print('property holds on this case' if not res['fail'] else 'property FAILS on this case (%s)' % res['fail'])
    return 1 if res['fail'] else 0
