"""C12 - units are a dimensional algebra over values held in standard units.

Stages of one run:
  R  tools/regen/units_ast.py translates /repo/polymath/units.py (current text) into
     coq/gen/Gen_units.v (fail closed -> broken tie 'regeneration')
  P  coqc Gen_units.v, theories/C12Model.v, C12Lemmas.v, Props/C12.v (compiled HERE, not via
     coq/parts, because they import the regenerated file; only C12Pre.v is in parts)
  S  direct oracle: every case is evaluated on the implementation and compared with an
     independent reference (fractions.Fraction algebra + a hand written SI table + the
     object-level rule table); after every case all Units.* constants must be unchanged
  K  correspondence: the regenerated model is evaluated by vm_compute inside Coq on the same
     cases and compared there with what the implementation returned
"""
import itertools
import json
import math
import os
import sys
import warnings
from fractions import Fraction

import numpy as np

from . import lib, hist
from .lib import cbool, cZ, clist, copt, cstr

GEN_DIR = lib.GEN
HEADER = ('From Coq Require Import List ZArith Bool String.\n'
          'From PM Require Import C12Pre.\nFrom PMGen Require Import Gen_units.\n'
          'From PM Require Import C12Model.\nImport ListNotations.\nOpen Scope Z_scope.\n')


def P():
    lib.setup_impl_path()
    import polymath
    return polymath


# ---------------------------------------------------------------------------
# the reference algebra (exact rationals) - independent of units.py
# ---------------------------------------------------------------------------
class RU(object):
    """exps (3 ints), q Fraction (None = not exactly representable), k = exponent of pi,
    f = float value of the factor (always present)"""
    __slots__ = ('e', 'q', 'k', 'f')

    def __init__(self, e, q, k, f=None):
        self.e = tuple(int(x) for x in e)
        self.q = q
        self.k = k
        if f is None:
            f = float(q) * math.pi ** k
        self.f = f

    def exact(self):
        return self.q is not None

    def key(self):
        return (self.e, self.q, self.k)

    def __repr__(self):
        return 'RU(%s, %s, pi^%s)' % (self.e, self.q if self.q is not None else '~%r' % self.f, self.k)


def r_mul(a, b):
    e = tuple(x + y for x, y in zip(a.e, b.e))
    if a.exact() and b.exact():
        return RU(e, a.q * b.q, a.k + b.k)
    return RU(e, None, 0, a.f * b.f)


def r_div(a, b):
    e = tuple(x - y for x, y in zip(a.e, b.e))
    if a.exact() and b.exact():
        return RU(e, a.q / b.q, a.k - b.k)
    return RU(e, None, 0, a.f / b.f)


def r_ipow(a, p):
    e = tuple(x * p for x in a.e)
    if a.exact():
        return RU(e, a.q ** p, a.k * p)
    return RU(e, None, 0, a.f ** p)


def is_square(n):
    return n >= 0 and math.isqrt(n) ** 2 == n


def r_sqrt(a):
    """None when the dimension has an odd exponent (illegal)"""
    if any(x % 2 for x in a.e):
        return None
    e = tuple(x // 2 for x in a.e)
    if a.exact() and a.k % 2 == 0 and is_square(a.q.numerator) and is_square(a.q.denominator):
        return RU(e, Fraction(math.isqrt(a.q.numerator), math.isqrt(a.q.denominator)), a.k // 2)
    return RU(e, None, 0, math.sqrt(a.f))


def r_pow2(a, p2):
    """power p2/2"""
    if p2 % 2 == 0:
        return r_ipow(a, p2 // 2)
    s = r_sqrt(a)
    if s is None:
        return None
    return r_ipow(s, p2)


# hand written SI table: the exact conversion factor to km / s / rad
def _si():
    t = {}
    F = Fraction
    t['UNITLESS'] = ((0, 0, 0), F(1), 0)
    for names, q in ((('KM', 'KILOMETER', 'KILOMETERS'), F(1)), (('M', 'METER', 'METERS'), F(1, 1000)),
                     (('CM', 'CENTIMETER', 'CENTIMETERS'), F(1, 100000)),
                     (('MM', 'MILLIMETER', 'MILLIMETERS'), F(1, 10 ** 6)),
                     (('MICRON', 'MICRONS'), F(1, 10 ** 9))):
        for n in names:
            t[n] = ((1, 0, 0), q, 0)
    for names, q in ((('S', 'SEC', 'SECOND', 'SECONDS'), F(1)), (('MIN', 'MINUTE', 'MINUTES'), F(60)),
                     (('H', 'HOUR', 'HOURS'), F(3600)), (('D', 'DAY', 'DAYS'), F(86400)),
                     (('MS', 'MSEC'), F(1, 1000))):
        for n in names:
            t[n] = ((0, 1, 0), q, 0)
    for names, q, k in ((('RAD', 'RADIAN', 'RADIANS'), F(1), 0), (('MRAD', 'MILLIRAD'), F(1, 1000), 0),
                        (('DEG', 'DEGREE', 'DEGREES'), F(1, 180), 1),
                        (('ARCHOUR', 'ARCHOURS'), F(1, 12), 1),
                        (('ARCMIN', 'ARCMINUTE', 'ARCMINUTES'), F(1, 180 * 60), 1),
                        (('ARCSEC', 'ARCSECOND', 'ARCSECONDS'), F(1, 180 * 3600), 1),
                        (('REV', 'REVS', 'ROTATION', 'ROTATIONS', 'CYCLE', 'CYCLES'), F(2), 1)):
        for n in names:
            t[n] = ((0, 0, 1), q, k)
    t['STER'] = ((0, 0, 2), F(1), 0)
    return t


SI = _si()
# one representative per distinct value, used for triples
DISTINCT = ['UNITLESS', 'KM', 'M', 'CM', 'MM', 'MICRON', 'S', 'MIN', 'H', 'D', 'MSEC', 'RAD', 'MRAD',
            'DEG', 'ARCHOUR', 'ARCMIN', 'ARCSEC', 'CYCLES', 'STER']


def named_units(Pm):
    U = Pm.Units
    return sorted(n for n in dir(U) if isinstance(getattr(U, n), U) and n.isupper())


# ---------------------------------------------------------------------------
# unit expressions: ['n', NAME] | ['mul', a, b] | ['div', a, b] | ['pow', a, p] | ['sqrt', a]
# ---------------------------------------------------------------------------
def ref_eval(x):
    if x is None:
        return None
    t = x[0]
    if t == 'n':
        e, q, k = SI[x[1]]
        return RU(e, q, k)
    if t == 'mul':
        return r_mul(ref_eval(x[1]), ref_eval(x[2]))
    if t == 'div':
        return r_div(ref_eval(x[1]), ref_eval(x[2]))
    if t == 'pow':
        return r_ipow(ref_eval(x[1]), x[2])
    if t == 'sqrt':
        return r_sqrt(ref_eval(x[1]))
    raise ValueError(x)


def impl_eval(x, U):
    if x is None:
        return None
    t = x[0]
    if t == 'n':
        return getattr(U, x[1])
    if t == 'mul':
        return impl_eval(x[1], U) * impl_eval(x[2], U)
    if t == 'div':
        return impl_eval(x[1], U) / impl_eval(x[2], U)
    if t == 'pow':
        return impl_eval(x[1], U) ** x[2]
    if t == 'sqrt':
        return impl_eval(x[1], U).sqrt()
    raise ValueError(x)


def in_range(r, lim=3):
    return r is not None and all(-lim <= v <= lim for v in r.e)


def gen_uexpr(rng, names, depth=2):
    """random product/quotient/power of named units with every exponent in -3..3"""
    for _ in range(50):
        x = _gen(rng, names, depth)
        try:
            r = ref_eval(x)
        except ZeroDivisionError:
            continue
        if in_range(r) and _all_in_range(x):
            return x
    return ['n', rng.choice(names)]


def _all_in_range(x):
    if x[0] == 'n':
        return True
    if not in_range(ref_eval(x)):
        return False
    return all(_all_in_range(s) for s in x[1:] if isinstance(s, list))


def _gen(rng, names, depth):
    if depth == 0 or rng.random() < 0.3:
        return ['n', rng.choice(names)]
    r = rng.random()
    if r < 0.4:
        return ['mul', _gen(rng, names, depth - 1), _gen(rng, names, depth - 1)]
    if r < 0.75:
        return ['div', _gen(rng, names, depth - 1), _gen(rng, names, depth - 1)]
    return ['pow', _gen(rng, names, depth - 1), rng.choice([-3, -2, -1, 2, 3, 0, 1])]


# ---------------------------------------------------------------------------
# observation of Units values; constants monitor
# ---------------------------------------------------------------------------
def is_int(x):
    return isinstance(x, int) and not isinstance(x, bool)


def obs_units(u):
    """('none',) | ('u', exps, triple, exact?, factor, factor_inv, printed)"""
    if u is None:
        return ('none',)
    exact = all(is_int(t) for t in u.triple) and all(is_int(t) for t in u.exponents)
    try:
        printed = str(u)
        if not isinstance(printed, str):
            printed = ('EXC', 'str returned %s' % type(printed).__name__)
    except Exception as e:      # noqa
        printed = ('EXC', type(e).__name__ + ': ' + str(e)[:80])
    return ('u', tuple(u.exponents), tuple(u.triple), exact, float(u.factor), float(u.factor_inv), printed)


def snapshot_constants(U):
    snap = {}
    for n in dir(U):
        v = getattr(U, n)
        if isinstance(v, U):
            snap[n] = (id(v), v.exponents, v.triple, v.factor, v.factor_inv,
                       json.dumps(v.name, sort_keys=True) if isinstance(v.name, dict) else v.name)
    snap['#NAME_TO_UNIT'] = tuple(sorted((str(k), id(v)) for k, v in U.NAME_TO_UNIT.items()))
    snap['#TUPLES_TO_UNIT'] = tuple(sorted((str(k), id(v)) for k, v in U.TUPLES_TO_UNIT.items()))
    for ln in ('DISTANCE_LIST', 'TIME_LIST', 'ANGLE_LIST', 'STANDARD_LIST'):
        snap['#' + ln] = tuple(id(v) for v in getattr(U, ln))
    return snap


def restore_constants(U, snap0, pristine):
    """put damaged constants back so that one failure is reported once"""
    for n, val in pristine.items():
        cur = getattr(U, n)
        cur.exponents, cur.triple, cur.factor, cur.factor_inv, cur.name = val


def is_float_int(n):
    """the integer n is exactly a binary64 value (so int -> float conversion does not round)"""
    try:
        return int(float(n)) == n
    except OverflowError:
        return False


def close(a, b, ulps=8):
    if a == b:
        return True
    if a == 0 or b == 0 or not (math.isfinite(a) and math.isfinite(b)):
        return False
    return abs(a - b) <= ulps * 2.3e-16 * max(abs(a), abs(b))


def check_units(o, r, what, fails, strict_none=False):
    """compare an observed Units value with the reference value r (RU or None)"""
    if r is None:
        if o[0] != 'none':
            # None and 'unitless with factor 1' are interchangeable for the property
            if not (o[1] == (0, 0, 0) and o[4] == 1.0) or strict_none:
                fails.append('%s: expected no units, got %s' % (what, o[1:3]))
        return
    if o[0] == 'none':
        if not (r.e == (0, 0, 0) and r.f == 1.0):
            fails.append('%s: expected %r, got None' % (what, r))
        return
    if o[1] != r.e:
        fails.append('%s: exponents %s, expected %s' % (what, o[1], r.e))
    if r.exact():
        want = (r.q.numerator, r.q.denominator, r.k)
        if o[2] != want or not o[3]:
            fails.append('%s: triple %s, expected exactly %s' % (what, o[2], want))
    if not close(o[4], r.f):
        fails.append('%s: factor %r, expected %r' % (what, o[4], r.f))
    if not close(o[4] * o[5], 1.0):
        fails.append('%s: factor*factor_inv = %r' % (what, o[4] * o[5]))
    if isinstance(o[6], tuple):
        fails.append('%s: not printable: %s' % (what, o[6][1]))


# ---------------------------------------------------------------------------
# Units-level cases
# ---------------------------------------------------------------------------
REALS = [2, 3, 1000, 0.5, 2.5, 0.125, 1.0, 0.001, 1.1]
POWERS2 = [-6, -4, -2, 0, 2, 4, 6, 8, 1, -1, 3, -3, 5]     # doubled powers


class OperandFailed(Exception):
    pass


def run_ucase(c, Pm):
    """returns dict(fails=[...], outcome=..., coq=[(term, obs_term)...])"""
    U = Pm.Units
    op = c['op']
    fails = []
    coq = []
    out = {'fails': fails, 'coq': coq, 'exc': None}

    def ev(x):
        try:
            return impl_eval(x, U), ref_eval(x)
        except ZeroDivisionError:
            raise
        except Exception as e:      # noqa
            name, site = lib.exc_family(e)
            fails.append('building operand %s: raised %s at %s (%s)' % (x, name, site, str(e)[:80]))
            out['bad_exc'] = (name, site)
            raise OperandFailed()

    def guarded(fn):
        try:
            return ('ok', fn())
        except Exception as e:      # noqa
            name, site = lib.exc_family(e)
            out['exc'] = (name, site)
            return ('exc', name, site, str(e)[:100])

    def expect_value(res, r, what, term=None, operands=()):
        if res[0] != 'ok':
            fails.append('%s: raised %s at %s (%s)' % (what, res[1], res[2], res[3]))
            out.setdefault('bad_exc', (res[1], res[2]))
            if term:
                add_coq(term, ('exc', res[1]), operands)
            return None
        o = obs_units(res[1])
        check_units(o, r, what, fails)
        if term:
            add_coq(term, o, operands)
        return res[1]

    def expect_error(res, what, classes=('ValueError',), term=None, operands=()):
        if res[0] == 'ok':
            fails.append('%s: expected %s, returned %s' % (what, '/'.join(classes), obs_units(res[1])[1:3]
                                                           if not isinstance(res[1], bool) else res[1]))
            if term:
                add_coq(term, obs_units(res[1]), operands)
        else:
            if res[1] not in classes:
                fails.append('%s: expected %s, raised %s' % (what, '/'.join(classes), res[1]))
                out.setdefault('bad_exc', (res[1], res[2]))
            if term:
                add_coq(term, ('exc', res[1]), operands)

    def add_coq(term, o, operands):
        # the model speaks about exact (integer) unit records only
        for u in operands:
            if u is not None and not obs_units(u)[3]:
                return
        coq.append((term, coq_obs(o)))

    try:
        if op == 'named':
            n = c['name']
            u = getattr(U, n)
            o = obs_units(u)
            if n in SI:
                e, q, k = SI[n]
                check_units(o, RU(e, q, k), 'Units.' + n, fails)
            else:
                check_units(o, RU(o[1], Fraction(o[2][0], o[2][1]), o[2][2]) if o[3] else
                            RU(o[1], None, 0, o[4]), 'Units.' + n, fails)
            if not isinstance(u.name, str):
                fails.append('Units.%s has no string name: %r' % (n, u.name))
            coq.append(('(KNamed %s)' % cstr(n), coq_obs(o)))
            if isinstance(u.name, str) and u.name.strip() in U.NAME_TO_UNIT:
                v = U.as_units(u.name.strip())
                if not (v.exponents == u.exponents and v.triple == u.triple):
                    fails.append('as_units(%r) differs from Units.%s' % (u.name, n))
        elif op in ('mul', 'div'):
            (a, ra), (b, rb) = ev(c['a']), ev(c['b'])
            rr = r_mul(ra, rb) if op == 'mul' else r_div(ra, rb)
            K = 'KMul' if op == 'mul' else 'KDiv'
            res = guarded((lambda: a * b) if op == 'mul' else (lambda: a / b))
            r1 = expect_value(res, rr, op, '(%s %s %s)' % (K, coq_u(a), coq_u(b)), (a, b))
            if op == 'mul' and r1 is not None:
                r2 = expect_value(guarded(lambda: b * a), rr, 'mul reversed')
                if r2 is not None and not (r1 == r2 and r1.triple == r2.triple):
                    fails.append('a*b != b*a: %s vs %s' % (r1.triple, r2.triple))
        elif op == 'assoc':
            (a, ra), (b, rb), (cc, rc) = ev(c['a']), ev(c['b']), ev(c['c'])
            rr = r_mul(r_mul(ra, rb), rc)
            r1 = expect_value(guarded(lambda: (a * b) * cc), rr, '(a*b)*c')
            r2 = expect_value(guarded(lambda: a * (b * cc)), rr, 'a*(b*c)')
            if r1 is not None and r2 is not None and not (r1 == r2 and (not rr.exact() or r1.triple == r2.triple)):
                fails.append('(a*b)*c != a*(b*c): %s vs %s' % (r1.triple, r2.triple))
        elif op == 'cancel':
            (a, ra), (b, rb) = ev(c['a']), ev(c['b'])
            r1 = expect_value(guarded(lambda: a * b / b), ra, 'a*b/b')
            if r1 is not None and not (r1 == a):
                fails.append('a*b/b != a: %s vs %s' % (r1.triple, a.triple))
            r2 = expect_value(guarded(lambda: a / b * b), ra, 'a/b*b')
            if r2 is not None and not (r2 == a):
                fails.append('a/b*b != a: %s vs %s' % (r2.triple, a.triple))
        elif op == 'pow':
            a, ra = ev(c['a'])
            p2 = c['p2']
            p = p2 // 2 if p2 % 2 == 0 else p2 / 2.0
            rr = r_pow2(ra, p2)
            res = guarded(lambda: a ** p)
            term = '(KPow %s %s)' % (coq_u(a), cZ(p2))
            if rr is None:
                expect_error(res, 'a**%s (odd dimension)' % p, term=term, operands=(a,))
            else:
                expect_value(res, rr, 'a**%s' % p, term, (a,))
        elif op == 'badpow':
            a, ra = ev(c['a'])
            expect_error(guarded(lambda: a ** c['p']), 'a**%s' % c['p'])
        elif op == 'pow_add':
            a, ra = ev(c['a'])
            p, q = c['p'], c['q']
            rr = r_ipow(ra, p + q)
            r1 = expect_value(guarded(lambda: (a ** p) * (a ** q)), rr, 'a**p * a**q')
            r2 = expect_value(guarded(lambda: a ** (p + q)), rr, 'a**(p+q)')
            if r1 is not None and r2 is not None and not (r1 == r2):
                fails.append('a**p * a**q != a**(p+q)')
        elif op == 'sqrt':
            a, ra = ev(c['a'])
            rr = r_sqrt(ra)
            res = guarded(lambda: a.sqrt())
            term = '(KSqrt %s)' % coq_u(a)
            if rr is None:
                expect_error(res, 'sqrt of odd dimension', term=term, operands=(a,))
            else:
                expect_value(res, rr, 'sqrt', term, (a,))
        elif op == 'sqrt_sq':
            a, ra = ev(c['a'])
            r1 = expect_value(guarded(lambda: (a * a).sqrt()), ra, 'sqrt(a*a)')
            if r1 is not None and not (r1 == a):
                fails.append('sqrt(a*a) != a: %s vs %s' % (r1.triple, a.triple))
        elif op == 'convert':
            (a, ra), (b, rb) = ev(c['a']), ev(c['b'])
            v = c['value']
            res = guarded(lambda: a.convert(v, b))
            if ra.e != rb.e:
                expect_error(res, 'convert between dimensions')
            elif res[0] != 'ok':
                fails.append('convert raised %s' % (res[1],))
            else:
                rr = r_div(ra, rb)
                want = v * rr.f
                if rr.exact() and rr.q == 1 and rr.k == 0 and res[1] != v:
                    fails.append('convert between equal units changed the value: %r -> %r' % (v, res[1]))
                if not close(res[1], want, 8):
                    fails.append('convert: %r, expected %r' % (res[1], want))
                if rr.exact() and rr.k == 0 and float(v) == int(v) and abs(v) < 2 ** 20:
                    # a purely rational factor n/d applied to a small whole number.  With n = numer(a)*denom(b) and
                    # d = denom(a)*numer(b) taken from the canonical (gcd-reduced) triples of the two operands, the
                    # result is THE float nearest to the exact quotient whenever n, n*v and d are floats themselves:
                    # binary floating point then rounds once, in the division (seeded change C12-L rounded the factor
                    # first).  When one of them is not a float (integers above 2**53 with a wide odd part, e.g.
                    # (arcsec/km)**3 -> (deg/m)**3, d = 648000000**3) no sequence of float operations on these
                    # integers is exact, every step may round, and the property does not ask for correct rounding
                    # there: each of the at most four roundings is within half an ulp, so 5 ulp of the exact quotient
                    # is what is demanded instead.
                    from fractions import Fraction as _Fr
                    ex = float(_Fr(int(v)) * rr.q)
                    n = ra.q.numerator * rb.q.denominator
                    d = ra.q.denominator * rb.q.numerator
                    if is_float_int(n) and is_float_int(n * int(v)) and is_float_int(d):
                        out.setdefault('tags', []).append('convert:whole-number:single-rounding(compared exactly)')
                        if res[1] != ex:
                            fails.append('convert is not exact: %r, the correctly rounded value is %r' % (res[1], ex))
                    else:
                        out.setdefault('tags', []).append('convert:whole-number:integers-not-floats(5 ulp)')
                        if not close(res[1], ex, 5):
                            fails.append('convert of a whole number: %r is more than 5 ulp from the exact quotient %r'
                                         % (res[1], ex))
                back = b.convert(res[1], a)
                if not close(back, v, 16):
                    fails.append('convert round trip: %r -> %r' % (v, back))
        elif op == 'match':
            (a, ra), (b, rb) = ev(c['a']), ev(c['b'])
            ea = ra.e if ra else None
            eb = rb.e if rb else None
            z = (0, 0, 0)
            want = {'can_match': ea is None or eb is None or ea == eb,
                    'do_match': (ea or z) == (eb or z),
                    'is_angle': ea is None or ea in (z, (0, 0, 1)),
                    'is_unitless': ea is None or ea == z}
            for fn, w in sorted(want.items()):
                args = (a, b) if fn in ('can_match', 'do_match') else (a,)
                res = guarded(lambda: getattr(U, fn)(*args))
                K = {'can_match': 'KCan', 'do_match': 'KDo', 'is_angle': 'KAngle', 'is_unitless': 'KUnitless'}[fn]
                term = '(%s %s)' % (K, ' '.join(coq_ou(x) for x in args))
                if res[0] != 'ok' or res[1] is not w:
                    fails.append('%s(%s,%s) = %s, expected %s' % (fn, ea, eb, res[1:2], w))
                add_coq(term, ('bool', res[1]) if res[0] == 'ok' else ('exc', res[1]), args)
            for fn, w in (('require_compatible', want['can_match']), ('require_match', want['do_match']),
                          ('require_angle', want['is_angle']), ('require_unitless', want['is_unitless'])):
                args = (a, b) if fn in ('require_compatible', 'require_match') else (a,)
                res = guarded(lambda: getattr(U, fn)(*args))
                if w and res[0] != 'ok':
                    fails.append('%s raised %s' % (fn, res[1]))
                if not w and not (res[0] == 'exc' and res[1] == 'ValueError'):
                    fails.append('%s did not raise ValueError' % fn)
            if a is not None and b is not None:
                eq = guarded(lambda: (a == b, a != b))
                same = (ra.e == rb.e and ((ra.key() == rb.key()) if ra.exact() and rb.exact() else a.factor == b.factor))
                if eq[0] != 'ok' or eq[1] != (same, not same):
                    fails.append('Units == / != : %s, expected %s' % (eq[1:2], (same, not same)))
        elif op == 'static':
            (a, ra), (b, rb) = ev(c['a']), ev(c['b'])
            fn = c['fn']
            if fn == 'mul_units':
                rr = rb if ra is None else (ra if rb is None else r_mul(ra, rb))
                res = guarded(lambda: U.mul_units(a, b))
                term = '(KMulU %s %s)' % (coq_ou(a), coq_ou(b))
                ops = (a, b)
            elif fn == 'div_units':
                rr = ra if rb is None else (r_ipow(rb, -1) if ra is None else r_div(ra, rb))
                res = guarded(lambda: U.div_units(a, b))
                term = '(KDivU %s %s)' % (coq_ou(a), coq_ou(b))
                ops = (a, b)
            elif fn == 'units_power':
                p2 = c['p2']
                p = p2 // 2 if p2 % 2 == 0 else p2 / 2.0
                rr = None if ra is None else r_pow2(ra, p2)
                res = guarded(lambda: U.units_power(a, p))
                term = '(KPowU %s %s)' % (coq_ou(a), cZ(p2))
                ops = (a,)
                if ra is not None and rr is None:
                    expect_error(res, 'units_power odd dimension', term=term, operands=ops)
                    rr = 'done'
            else:
                rr = None if ra is None else r_sqrt(ra)
                res = guarded(lambda: U.sqrt_units(a))
                term = '(KSqrtU %s)' % coq_ou(a)
                ops = (a,)
                if ra is not None and rr is None:
                    expect_error(res, 'sqrt_units odd dimension', term=term, operands=ops)
                    rr = 'done'
            if rr != 'done':
                if res[0] == 'ok' and (res[1] is None) != (rr is None):
                    fails.append('%s: None-ness of the result: %s' % (fn, res[1]))
                r1 = expect_value(res, rr, fn, term, ops)
                if r1 is not None and (r1 is a or r1 is b) and fn in ('mul_units', 'div_units'):
                    # the result is renamed by the helper, so it must not be the caller's object
                    fails.append('%s returned (and renamed) its own argument' % fn)
        elif op == 'scale':
            a, ra = ev(c['a'])
            x = c['x']
            fx = Fraction(x)
            dyadic = (fx * 256).denominator == 1
            rx = RU((0, 0, 0), fx, 0) if dyadic else RU((0, 0, 0), None, 0, float(x))
            for how, fn, rr in (('a*x', lambda: a * x, r_mul(ra, rx)), ('x*a', lambda: x * a, r_mul(ra, rx)),
                                ('a/x', lambda: a / x, r_div(ra, rx)), ('x/a', lambda: x / a, r_div(rx, ra))):
                term = None
                if is_int(x):
                    term = '(%s %s %s)' % ({'a*x': 'KMulR', 'x*a': 'KRMulR', 'a/x': 'KDivR', 'x/a': 'KRDivR'}[how],
                                           coq_u(a), cZ(x))
                expect_value(guarded(fn), rr, how, term, (a,))
        elif op == 'init':
            e, t = tuple(c['e']), tuple(c['t'])
            res = guarded(lambda: U(e, t))
            f0, f1 = Fraction(t[0]), Fraction(t[1])
            if (f0 * 256).denominator == 1 and (f1 * 256).denominator == 1:
                rr = RU(e, f0 / f1, t[2])
            else:
                rr = RU(e, None, 0, (t[0] / t[1]) * math.pi ** t[2])
            term = None
            if all(is_int(v) for v in t):
                term = '(KInit %s %s)' % (coq_z3(e), coq_z3(t))
            expect_value(res, rr, 'Units(%s,%s)' % (e, t), term)
        elif op == 'copy':
            a, ra = ev(c['a'])
            res = guarded(lambda: a.copy())
            r1 = expect_value(res, ra, 'copy', '(KCopy %s)' % coq_u(a), (a,))
            if r1 is not None and (r1 is a or r1.name != a.name):
                fails.append('copy is not a distinct equal object')
        else:
            raise ValueError(op)
    except ZeroDivisionError:
        out['skipped'] = True
    except OperandFailed:
        pass
    return out


# ---------------------------------------------------------------------------
# Coq printers
# ---------------------------------------------------------------------------
def coq_z3(t):
    return '(%s, %s, %s)' % tuple(cZ(x) for x in t)


def coq_u(u):
    if not (all(is_int(t) for t in u.triple) and all(is_int(t) for t in u.exponents)):
        return '(mkU (0,0,0) (0,0,0))'      # never evaluated: such cases are filtered out
    return '(mkU %s %s)' % (coq_z3(u.exponents), coq_z3(u.triple))


def coq_ou(u):
    return '(@None units)' if u is None else '(Some %s)' % coq_u(u)


EXC = {'ValueError': 'EValue', 'TypeError': 'EType', 'AttributeError': 'EAttr', 'KeyError': 'EKey',
       'ZeroDivisionError': 'EZeroDiv'}


def coq_obs(o):
    if o[0] == 'none':
        return 'ONone'
    if o[0] == 'bool':
        return '(OBool %s)' % cbool(o[1])
    if o[0] == 'exc':
        return '(OErr %s)' % EXC.get(o[1], 'EOther')
    if o[0] == 'u':
        if not o[3]:
            return 'OInexact'
        return '(OUnits %s %s)' % (coq_z3(o[1]), coq_z3(o[2]))
    raise ValueError(o)


# ---------------------------------------------------------------------------
# object-level cases
# ---------------------------------------------------------------------------
ITEMS = {'Scalar': (), 'Vector': (3,), 'Vector3': (3,), 'Pair': (2,), 'Matrix': (2, 2), 'Boolean': ()}
ADDITIVE = ['add', 'sub', 'iadd', 'isub', 'radd_none']
ORDER = ['lt', 'le', 'gt', 'ge']
ANGLE_FN = ['sin', 'cos', 'tan', 'exp']
PURE_FN = ['arcsin', 'arccos', 'arctan', 'log', 'int', 'frac']


def mk_values(cls, shape, seed):
    item = ITEMS[cls]
    n = int(np.prod(shape + item)) if shape + item else 1
    base = np.array([0.75 + ((seed * 7 + 3 * i) % 11) * 0.125 for i in range(n)], dtype=float)
    if cls == 'Matrix':
        arr = base.reshape(shape + item) + 2.0 * np.eye(2)
    else:
        arr = base.reshape(shape + item)
    return arr


def mk_obj(Pm, cls, units, shape=(), seed=0, derivs=False, scale=1.0):
    arr = mk_values(cls, shape, seed) * scale
    if cls == 'Boolean':
        return Pm.Boolean(arr > 1.0, units=units)
    obj = getattr(Pm, cls)(arr if arr.shape else float(arr), units=units)
    if derivs:
        d = getattr(Pm, cls)(mk_values(cls, shape, seed + 5), units=units)
        obj.insert_deriv('t', d)
    return obj


def ref_mulu(a, b):
    return b if a is None else (a if b is None else r_mul(a, b))


def ref_divu(a, b):
    return a if b is None else (r_ipow(b, -1) if a is None else r_div(a, b))


def can_match_ref(ra, rb):
    return ra is None or rb is None or ra.e == rb.e


def run_ocase(c, Pm):
    U = Pm.Units
    op = c['op']
    cls = c.get('cls', 'Scalar')
    fails = []
    coq = []
    out = {'fails': fails, 'coq': coq, 'exc': None}
    try:
        ua, ra = impl_eval(c.get('ua'), U), ref_eval(c.get('ua'))
        ub, rb = impl_eval(c.get('ub'), U), ref_eval(c.get('ub'))
        uc0 = impl_eval(c.get('uc'), U)
    except Exception as e:      # noqa
        name, site = lib.exc_family(e)
        fails.append('building operand units: raised %s at %s (%s)' % (name, site, str(e)[:80]))
        out['bad_exc'] = (name, site)
        return out
    shape = tuple(c.get('shape', ()))
    S = Pm.Scalar

    def guarded(fn):
        with warnings.catch_warnings():
            warnings.simplefilter('ignore')
            try:
                return ('ok', fn())
            except Exception as e:      # noqa
                name, site = lib.exc_family(e)
                out['exc'] = (name, site)
                return ('exc', name, site, str(e)[:100])

    def units_of(x):
        return x._units_ if isinstance(x, Pm.Qube) else None

    def expect_units(res, rr, what, kop=None, none_ok=True):
        """result must be an object whose units equal rr"""
        if res[0] != 'ok':
            fails.append('%s: raised %s at %s (%s)' % (what, res[1], res[2], res[3]))
            out.setdefault('bad_exc', (res[1], res[2]))
            o = ('exc', res[1])
        else:
            o = obs_units(units_of(res[1]))
            check_units(o, rr, what, fails)
        if kop:
            add_coq(kop, o)
        return res[1] if res[0] == 'ok' else None

    def expect_error(res, what, classes=('ValueError',), kop=None):
        if res[0] == 'ok':
            fails.append('%s: expected %s, got a result with units %s' % (what, '/'.join(classes),
                                                                          obs_units(units_of(res[1]))[1:3]))
            o = obs_units(units_of(res[1]))
        else:
            if res[1] not in classes:
                fails.append('%s: expected %s, raised %s at %s' % (what, '/'.join(classes), res[1], res[2]))
                out.setdefault('bad_exc', (res[1], res[2]))
            o = ('exc', res[1])
        if kop:
            add_coq(kop, o)

    def add_coq(kop, o):
        for u in (ua, ub):
            if u is not None and not obs_units(u)[3]:
                return
        coq.append(('(KObj %s %s %s)' % (kop, coq_ou(ua), coq_ou(ub)), coq_obs(o)))

    a = mk_obj(Pm, cls, ua, shape, 1, derivs=c.get('derivs', False))
    vals_a = np.array(a._values_, copy=True)

    if op in ADDITIVE:
        b = mk_obj(Pm, cls, ub, shape, 2)
        if op == 'add':
            res = guarded(lambda: a + b)
        elif op == 'sub':
            res = guarded(lambda: a - b)
        elif op == 'radd_none':
            b = None
            ub, rb = None, None
            res = guarded(lambda: 1.5 + a if cls == 'Scalar' else a + a.without_units())
        else:
            a2 = a.copy()

            def inplace():
                x = a2
                if op == 'iadd':
                    x += b
                else:
                    x -= b
                return x
            res = guarded(inplace)
        if can_match_ref(ra, rb):
            expect_units(res, ra if ra is not None else rb, op, 'OAdd')
        else:
            expect_error(res, op + ' of incompatible units', kop='OAdd')
    elif op in ORDER:
        b = mk_obj(Pm, 'Scalar', ub, shape, 2)
        fn = {'lt': lambda: a < b, 'le': lambda: a <= b, 'gt': lambda: a > b, 'ge': lambda: a >= b}[op]
        res = guarded(fn)
        if can_match_ref(ra, rb):
            if res[0] != 'ok':
                fails.append('%s raised %s' % (op, res[1]))
            add_coq('OOrder', ('none',) if res[0] == 'ok' else ('exc', res[1]))
        else:
            expect_error(res, op + ' of incompatible units', kop='OOrder')
    elif op in ('eq', 'ne'):
        # same values: equal iff units allow; 'bcls': the right operand has the sibling class (it is converted with the
        # left one as example - seeded change C12-M let the example's units win over the operand's own)
        b = mk_obj(Pm, c.get('bcls') or cls, ub, shape, 1)
        res = guarded((lambda: a == b) if op == 'eq' else (lambda: a != b))
        if res[0] != 'ok':
            fails.append('%s raised %s at %s' % (op, res[1], res[2]))
            add_coq('OEq', ('exc', res[1]))
        else:
            truth = bool(np.all(res[1].vals)) if isinstance(res[1], Pm.Qube) else bool(res[1])
            want = can_match_ref(ra, rb) if op == 'eq' else not can_match_ref(ra, rb)
            if truth != want:
                fails.append('%s of equal values with units %s, %s gave %s' % (op, ra, rb, truth))
            add_coq('OEq', ('bool', truth if op == 'eq' else not truth))
    elif op in ('mul', 'rmul', 'imul', 'div', 'idiv', 'floordiv', 'mod', 'rdiv', 'element_mul', 'element_div',
                'dot', 'cross', 'outer', 'matmul', 'matvec'):
        if op in ('mul', 'imul', 'div', 'idiv', 'rmul', 'rdiv'):
            b = mk_obj(Pm, 'Scalar', ub, shape, 2)
        elif op in ('floordiv', 'mod'):
            b = mk_obj(Pm, 'Scalar', ub, shape, 2)
        elif op == 'matvec':
            b = mk_obj(Pm, 'Vector', ub, shape, 2)
            b = Pm.Vector(b.vals[..., :2], units=ub)
        else:
            b = mk_obj(Pm, cls, ub, shape, 2)
        if op in ('mul', 'matmul', 'matvec'):
            res = guarded(lambda: a * b)
        elif op == 'rmul':
            res = guarded(lambda: b * a)
        elif op == 'div':
            res = guarded(lambda: a / b)
        elif op == 'rdiv':
            res = guarded(lambda: b / a)
        elif op == 'floordiv':
            res = guarded(lambda: a // b)
        elif op == 'mod':
            res = guarded(lambda: a % b)
        elif op in ('imul', 'idiv'):
            a2 = a.copy()

            def inplace2():
                x = a2
                if op == 'imul':
                    x *= b
                else:
                    x /= b
                return x
            res = guarded(inplace2)
        elif op == 'element_mul':
            res = guarded(lambda: a.element_mul(b))
        elif op == 'element_div':
            res = guarded(lambda: a.element_div(b))
        elif op == 'dot':
            res = guarded(lambda: a.dot(b))
        elif op == 'cross':
            res = guarded(lambda: a.cross(b))
        else:
            res = guarded(lambda: a.outer(b))
        if op in ('div', 'idiv', 'floordiv', 'mod', 'element_div'):
            expect_units(res, ref_divu(ra, rb), op, 'ODiv')
        elif op == 'rdiv':
            # b / a : Scalar / Scalar only
            expect_units(res, ref_divu(rb, ra), op)
        else:
            expect_units(res, ref_mulu(ra, rb), op, 'OMul')
    elif op == 'pow':
        p2 = c['p2']
        p = p2 // 2 if p2 % 2 == 0 else p2 / 2.0
        res = guarded(lambda: a ** p)
        kop = '(OPow %s)' % cZ(p2)
        if ra is None:
            expect_units(res, None, 'pow', kop)
        else:
            rr = r_pow2(ra, p2)
            if rr is None:
                expect_error(res, 'pow with odd dimension', kop=kop)
            else:
                expect_units(res, rr, 'a**%s' % p, kop)
    elif op == 'pow_bad':
        how = c['how']
        if how == 'united_exponent':
            ex = S(2., units=ub)
            res = guarded(lambda: a ** ex)
            if rb is None or rb.e == (0, 0, 0):
                if res[0] != 'ok':
                    fails.append('pow with unitless exponent raised %s' % res[1])
            else:
                expect_error(res, 'exponent with units')
        elif how == 'array_exponent':
            a3 = mk_obj(Pm, 'Scalar', ua, (2,), 1)
            ex = S([2., 3.])
            res = guarded(lambda: a3 ** ex)
            if ra is None or ra.e == (0, 0, 0):
                expect_units(res, None, 'unitless ** array')
            else:
                expect_error(res, 'united base ** array exponent')
        else:
            res = guarded(lambda: a ** 0.3)
            if ra is None:
                expect_units(res, None, 'a**0.3')
            elif ra.e == (0, 0, 0):
                # a pure number that carries a Units object: the result is a pure number or the
                # power is refused; the property does not choose
                if res[0] == 'ok':
                    expect_units(res, None if ra.f == 1.0 else RU(ra.e, None, 0, ra.f ** 0.3), 'a**0.3')
                else:
                    expect_error(res, 'a**0.3')
            else:
                expect_error(res, 'united base ** 0.3')
    elif op == 'sqrt':
        res = guarded(lambda: a.sqrt())
        rr = None if ra is None else r_sqrt(ra)
        if ra is not None and rr is None:
            expect_error(res, 'sqrt with odd dimension', kop='OSqrt')
        else:
            expect_units(res, rr, 'sqrt', 'OSqrt')
    elif op == 'reciprocal':
        res = guarded((lambda: a.reciprocal()) if cls != 'Matrix' else (lambda: a.inverse()))
        expect_units(res, None if ra is None else r_ipow(ra, -1), op, '(OPow %s)' % cZ(-2))
    elif op == 'norm':
        expect_units(guarded(lambda: a.norm()), ra, 'norm', 'OKeep')
    elif op == 'norm_sq':
        expect_units(guarded(lambda: a.norm_sq()), ref_mulu(ra, ra) if ra is not None else None, 'norm_sq')
    elif op in ('abs', 'neg', 'sum', 'mean', 'getitem'):
        a4 = mk_obj(Pm, cls, ua, (3,), 1)
        fn = {'abs': lambda: abs(a4), 'neg': lambda: -a4, 'sum': lambda: a4.sum(), 'mean': lambda: a4.mean(),
              'getitem': lambda: a4[1]}[op]
        expect_units(guarded(fn), ra, op, 'OKeep')
    elif op in ANGLE_FN:
        res = guarded(lambda: getattr(a, op)())
        ok = ra is None or ra.e in ((0, 0, 0), (0, 0, 1))
        if ok:
            expect_units(res, None, op, 'OAngleFn')
        else:
            expect_error(res, op + ' of a non-angle', kop='OAngleFn')
    elif op in PURE_FN:
        a5 = mk_obj(Pm, 'Scalar', ua, shape, 1, scale=0.25)
        res = guarded(lambda: getattr(a5, op)())
        ok = ra is None or ra.e == (0, 0, 0)
        if ok:
            expect_units(res, None, op, 'OPureFn')
        else:
            expect_error(res, op + ' of a dimensioned value', kop='OPureFn')
    elif op == 'arctan2':
        b = mk_obj(Pm, 'Scalar', ub, shape, 2)
        res = guarded(lambda: a.arctan2(b))
        if can_match_ref(ra, rb):
            expect_units(res, None, op, 'OAtan2')
        else:
            expect_error(res, 'arctan2 of incompatible units', kop='OAtan2')
    elif op in ('stack', 'from_scalars'):
        b = mk_obj(Pm, 'Scalar', ub, shape, 2)
        uc = impl_eval(c.get('uc'), U)
        rc = ref_eval(c.get('uc'))
        cc = mk_obj(Pm, 'Scalar', uc, shape, 3)
        if op == 'stack':
            res = guarded(lambda: Pm.Qube.stack(a, b, cc))
        else:
            res = guarded(lambda: Pm.Vector3.from_scalars(a, b, cc))
        rs = [r for r in (ra, rb, rc) if r is not None]
        if all(r.e == rs[0].e for r in rs):
            r1 = expect_units(res, rs[0] if rs else None, op)
            if r1 is not None:
                # stored values are stacked unchanged
                want = np.stack([np.broadcast_to(x._values_, shape) for x in (a, b, cc)],
                                axis=0 if op == 'stack' else -1)
                if not np.array_equal(np.asarray(r1._values_), want):
                    fails.append('%s changed stored values' % op)
        else:
            expect_error(res, op + ' of incompatible units')
    elif op == 'set_units':
        a6 = mk_obj(Pm, cls, ua, shape, 1, derivs=c.get('derivs', False) or bool(c.get('warm')))
        before = np.array(a6._values_, copy=True)
        if c.get('warm'):
            # the derivative-free twin and the other cached views exist before the units change: afterwards they
            # must show the new units too (seeded change C12-E: set_units kept the cached wod)
            hist.warm(a6)
        res = guarded(lambda: a6.set_units(ub))
        if can_match_ref(ra, rb):
            if res[0] != 'ok':
                fails.append('set_units raised %s' % res[1])
            else:
                check_units(obs_units(a6._units_), rb, 'set_units', fails, strict_none=True)
                if c.get('warm'):
                    check_units(obs_units(a6.wod._units_), rb, 'wod after set_units', fails, strict_none=True)
                    check_units(obs_units(a6.without_derivs()._units_), rb, 'without_derivs() after set_units', fails,
                                strict_none=True)
        else:
            expect_error(res, 'set_units to another dimension')
            check_units(obs_units(a6._units_), ra, 'units after failed set_units', fails)
        if not np.array_equal(before, np.asarray(a6._values_)):
            fails.append('set_units changed stored values')
    elif op == 'without_units':
        res = guarded(lambda: a.without_units())
        r1 = expect_units(res, None, 'without_units')
        if r1 is not None:
            if r1._units_ is not None:
                fails.append('without_units left units')
            if not np.array_equal(vals_a, np.asarray(r1._values_)):
                fails.append('without_units changed stored values')
            for k, d in r1._derivs_.items():
                if not np.array_equal(np.asarray(d._values_), np.asarray(a._derivs_[k]._values_)):
                    fails.append('without_units changed derivative values')
    elif op == 'ctor':
        arr = mk_values(cls, shape, 1)
        plain = getattr(Pm, cls)(arr if arr.shape else float(arr))
        res = guarded(lambda: getattr(Pm, cls)(arr if arr.shape else float(arr), units=ua))
        r1 = expect_units(res, ra, 'constructor with units=')
        if r1 is not None and not np.array_equal(np.asarray(plain._values_), np.asarray(r1._values_)):
            fails.append('constructing with units= changed stored values')
        res = guarded(lambda: getattr(Pm, cls)(a, units=ub))
        r2 = expect_units(res, rb if rb is not None else ra, 'constructor from object with units=')
        if r2 is not None and not np.array_equal(vals_a, np.asarray(r2._values_)):
            fails.append('re-constructing with units= changed stored values')
    elif op == 'convert':
        # into_units / from_units
        d = bool(c.get('derivs'))
        res = guarded(lambda: a.into_units())
        r1 = expect_units(res, ra, 'into_units')
        if r1 is not None:
            f = ra.f if ra is not None else 1.0
            want = vals_a / f
            if not np.allclose(np.asarray(r1._values_), want, rtol=4 * 2.3e-16, atol=0):
                fails.append('into_units values: %s, expected %s' % (np.asarray(r1._values_).ravel()[:3], want.ravel()[:3]))
            back = guarded(lambda: r1.from_units())
            r2 = expect_units(back, ra, 'from_units')
            if r2 is not None:
                if not np.allclose(np.asarray(r2._values_), vals_a, rtol=4 * 2.3e-16, atol=0):
                    fails.append('from_units(into_units(x)) != x')
                if d:
                    d0 = np.asarray(a.d_dt._values_)
                    d1 = np.asarray(r1.d_dt._values_)
                    d2 = np.asarray(r2.d_dt._values_)
                    if not np.allclose(d1, d0 / f, rtol=4 * 2.3e-16, atol=0):
                        fails.append('into_units did not scale the derivative by the same factor')
                    if not np.allclose(d2, d0, rtol=4 * 2.3e-16, atol=0):
                        fails.append('from_units(into_units(x)) derivative != original')
            # the other order
            res3 = guarded(lambda: a.from_units().into_units())
            r3 = expect_units(res3, ra, 'into_units(from_units)')
            if r3 is not None and not np.allclose(np.asarray(r3._values_), vals_a, rtol=4 * 2.3e-16, atol=0):
                fails.append('into_units(from_units(x)) != x')
        if not np.array_equal(vals_a, np.asarray(a._values_)):
            fails.append('into_units/from_units changed the operand')
    elif op == 'convert_dunits':
        # the derivative carries units of its own (seeded change C12-B): the two conversions stay mutually
        # inverse on the object and on the derivative, in both orders
        dobj = getattr(Pm, cls)(mk_values(cls, shape, 6), units=ub)
        a.insert_deriv('t', dobj)
        d0 = np.array(a.d_dt._values_, copy=True)
        for nm, fn in (('from_units(into_units(x))', lambda: a.into_units().from_units()),
                       ('into_units(from_units(x))', lambda: a.from_units().into_units())):
            res = guarded(fn)
            r1 = expect_units(res, ra, nm)
            if r1 is not None:
                if not np.allclose(np.asarray(r1._values_), vals_a, rtol=8 * 2.3e-16, atol=0):
                    fails.append('%s != x' % nm)
                if 't' not in r1._derivs_:
                    fails.append('%s lost the derivative' % nm)
                elif not np.allclose(np.asarray(r1.d_dt._values_), d0, rtol=8 * 2.3e-16, atol=0):
                    fails.append('%s derivative != original (derivative with units of its own)' % nm)
        if not np.array_equal(vals_a, np.asarray(a._values_)) or not np.array_equal(d0, np.asarray(a.d_dt._values_)):
            fails.append('into_units/from_units changed the operand')
    elif op == 'boolean':
        how = c['how']
        if how == 'ctor':
            res = guarded(lambda: Pm.Boolean(True, units=ua))
        elif how == 'set_units':
            res = guarded(lambda: Pm.Boolean(True).set_units(ua))
        else:
            res = guarded(lambda: Pm.Boolean([True, False], units=ua))
        if ra is None:
            if res[0] != 'ok':
                fails.append('Boolean without units raised %s' % res[1])
            add_coq('ONoUnits', ('none',) if res[0] == 'ok' else ('exc', res[1]))
        else:
            expect_error(res, 'Boolean with units', ('TypeError', 'ValueError'), kop='ONoUnits')
    else:
        raise ValueError(op)
    if not np.array_equal(vals_a, np.asarray(a._values_)):
        fails.append('%s changed stored values of its operand' % op)
    return out


# ---------------------------------------------------------------------------
# case generation
# ---------------------------------------------------------------------------
def gen_cases(rng, tier, names):
    quick = tier == 'quick'
    cases = []
    N = lambda n: ['n', n]      # noqa
    known = [n for n in names if n in SI]
    # -- corpus: past findings first
    cases.append({'kind': 'U', 'op': 'static', 'fn': 'mul_units', 'a': N('KM'), 'b': None})
    cases.append({'kind': 'U', 'op': 'static', 'fn': 'div_units', 'a': N('KM'), 'b': None})
    cases.append({'kind': 'O', 'op': 'mul', 'cls': 'Scalar', 'ua': N('KM'), 'ub': None})
    cases.append({'kind': 'U', 'op': 'sqrt_sq', 'a': ['pow', N('MM'), 2]})
    cases.append({'kind': 'U', 'op': 'sqrt', 'a': ['mul', N('DEG'), N('RAD')]})
    cases.append({'kind': 'O', 'op': 'from_scalars', 'ua': N('KM'), 'ub': None, 'uc': None})
    cases.append({'kind': 'O', 'op': 'pow', 'cls': 'Scalar', 'ua': ['div', N('M'), N('KM')], 'p2': -4, 'shape': [2]})
    cases.append({'kind': 'O', 'op': 'log', 'cls': 'Scalar', 'ua': N('KM')})
    cases.append({'kind': 'U', 'op': 'mul', 'a': N('RADIAN'), 'b': ['pow', N('MICRON'), 0]})
    # -- named table
    for n in names:
        cases.append({'kind': 'U', 'op': 'named', 'name': n})
        cases.append({'kind': 'U', 'op': 'copy', 'a': N(n)})
    # -- all pairs of named units
    pair_names = known if not quick else DISTINCT
    for a in pair_names:
        for b in pair_names:
            if quick and rng.random() < 0.5:
                continue
            cases.append({'kind': 'U', 'op': 'mul', 'a': N(a), 'b': N(b)})
            cases.append({'kind': 'U', 'op': 'div', 'a': N(a), 'b': N(b)})
            cases.append({'kind': 'U', 'op': 'cancel', 'a': N(a), 'b': N(b)})
            cases.append({'kind': 'U', 'op': 'convert', 'a': N(a), 'b': N(b), 'value': 7.25})
            for wv in (3.0, 7.0, 11.0, 13.0):       # whole numbers: the conversion is exact (correctly rounded)
                cases.append({'kind': 'U', 'op': 'convert', 'a': N(a), 'b': N(b), 'value': wv})
    for a in [None] + DISTINCT:
        for b in [None] + DISTINCT:
            cases.append({'kind': 'U', 'op': 'match', 'a': N(a) if a else None, 'b': N(b) if b else None})
            for fn in ('mul_units', 'div_units'):
                cases.append({'kind': 'U', 'op': 'static', 'fn': fn, 'a': N(a) if a else None, 'b': N(b) if b else None})
    # -- every named unit: powers, roots, scaling
    for a in [None] + (DISTINCT if quick else known):
        for p2 in POWERS2:
            cases.append({'kind': 'U', 'op': 'static', 'fn': 'units_power', 'a': N(a) if a else None, 'b': None, 'p2': p2})
        cases.append({'kind': 'U', 'op': 'static', 'fn': 'sqrt_units', 'a': N(a) if a else None, 'b': None})
        if a is None:
            continue
        for p2 in POWERS2:
            cases.append({'kind': 'U', 'op': 'pow', 'a': N(a), 'p2': p2})
        cases.append({'kind': 'U', 'op': 'badpow', 'a': N(a), 'p': 0.3})
        cases.append({'kind': 'U', 'op': 'sqrt', 'a': N(a)})
        cases.append({'kind': 'U', 'op': 'sqrt_sq', 'a': N(a)})
        for x in REALS:
            cases.append({'kind': 'U', 'op': 'scale', 'a': N(a), 'x': x})
        for p in range(-3, 4):
            for q in range(-3, 4):
                if abs(p + q) <= 3 and (not quick or rng.random() < 0.3):
                    cases.append({'kind': 'U', 'op': 'pow_add', 'a': N(a), 'p': p, 'q': q})
    # -- triples of distinct named units
    trip = list(itertools.product(DISTINCT, repeat=3))
    if quick:
        trip = rng.sample(trip, 400)
    for a, b, c3 in trip:
        cases.append({'kind': 'U', 'op': 'assoc', 'a': N(a), 'b': N(b), 'c': N(c3)})
    # -- raw constructor
    for t in [(2, 4, 0), (10, 4, 1), (1000, 1, 0), (6, 9, -1), (0.5, 1, 0), (2.5, 0.25, 0), (1, 0.125, 2),
              (0.001, 1, 0), (1, 3, 0), (7, 7, 0), (-3, 6, 0), (256, 1, 0), (1, 256, 0), (3.0, 1.5, 0),
              (0.1, 0.3, 0), (10 ** 20, 10 ** 18, 0)]:
        cases.append({'kind': 'U', 'op': 'init', 'e': (1, -1, 0), 't': t})
    # -- random products / quotients / powers
    nrand = 500 if quick else 6000
    for _ in range(nrand):
        a = gen_uexpr(rng, known)
        b = gen_uexpr(rng, known)
        r = rng.random()
        if r < 0.12:
            cases.append({'kind': 'U', 'op': rng.choice(['mul', 'div']), 'a': a, 'b': b})
        elif r < 0.22:
            cases.append({'kind': 'U', 'op': 'cancel', 'a': a, 'b': b})
        elif r < 0.32:
            cases.append({'kind': 'U', 'op': 'assoc', 'a': a, 'b': b, 'c': gen_uexpr(rng, known, 1)})
        elif r < 0.42:
            cases.append({'kind': 'U', 'op': 'pow', 'a': a, 'p2': rng.choice(POWERS2)})
        elif r < 0.50:
            cases.append({'kind': 'U', 'op': 'sqrt', 'a': a})
        elif r < 0.58:
            cases.append({'kind': 'U', 'op': 'sqrt_sq', 'a': a})
        elif r < 0.66:
            p = rng.randint(-3, 3)
            cases.append({'kind': 'U', 'op': 'pow_add', 'a': a, 'p': p, 'q': rng.randint(-3, 3)})
        elif r < 0.74:
            cases.append({'kind': 'U', 'op': 'convert', 'a': a, 'b': b if rng.random() < 0.3 else
                          ['mul', a, ['div', ['n', rng.choice(known)], ['n', rng.choice(known)]]],
                          'value': rng.choice([1.0, -2.5, 1e-7, 3.0e9, 3.0, 7.0, 11.0, 13.0])})
        elif r < 0.82:
            cases.append({'kind': 'U', 'op': 'match', 'a': a if rng.random() < 0.85 else None,
                          'b': b if rng.random() < 0.85 else None})
        elif r < 0.92:
            fn = rng.choice(['mul_units', 'div_units', 'units_power', 'sqrt_units'])
            cases.append({'kind': 'U', 'op': 'static', 'fn': fn, 'a': a if rng.random() < 0.85 else None,
                          'b': b if rng.random() < 0.85 else None, 'p2': rng.choice(POWERS2)})
        else:
            cases.append({'kind': 'U', 'op': 'scale', 'a': a, 'x': rng.choice(REALS)})
    # -- object level
    dims = [None, N('UNITLESS'), N('KM'), N('M'), N('SEC'), N('DEG'), N('RAD'), N('STER'),
            ['div', N('KM'), N('S')], ['pow', N('M'), 2], ['mul', N('DEG'), N('RAD')],
            ['div', N('CM'), ['pow', N('MIN'), 2]], ['pow', N('MSEC'), -1], ['div', N('M'), N('KM')]]
    allcls = ['Scalar', 'Vector', 'Vector3', 'Pair', 'Matrix']

    def pick_units():
        return rng.choice(dims) if rng.random() < 0.7 else gen_uexpr(rng, known)

    obj_cases = []
    for ua in dims:
        for ub in dims:
            for cls in allcls:
                for op in ADDITIVE + ['eq', 'ne']:
                    obj_cases.append({'kind': 'O', 'op': op, 'cls': cls, 'ua': ua, 'ub': ub})
                sib = {'Vector3': 'Vector', 'Vector': 'Vector3'}.get(cls)
                if sib:
                    for op in ('eq', 'ne'):
                        obj_cases.append({'kind': 'O', 'op': op, 'cls': cls, 'bcls': sib, 'ua': ua, 'ub': ub})
                obj_cases.append({'kind': 'O', 'op': 'set_units', 'cls': cls, 'ua': ua, 'ub': ub})
                obj_cases.append({'kind': 'O', 'op': 'set_units', 'cls': cls, 'ua': ua, 'ub': ub, 'warm': True})
                obj_cases.append({'kind': 'O', 'op': 'convert_dunits', 'cls': cls, 'ua': ua, 'ub': ub})
                obj_cases.append({'kind': 'O', 'op': 'ctor', 'cls': cls, 'ua': ua, 'ub': ub})
                for op in ('mul', 'rmul', 'imul', 'div', 'idiv'):
                    obj_cases.append({'kind': 'O', 'op': op, 'cls': cls, 'ua': ua, 'ub': ub})
            for op in ORDER + ['floordiv', 'mod', 'rdiv', 'arctan2']:
                obj_cases.append({'kind': 'O', 'op': op, 'cls': 'Scalar', 'ua': ua, 'ub': ub})
            for cls in ('Vector', 'Vector3', 'Pair'):
                for op in ('dot', 'cross', 'outer', 'element_mul', 'element_div'):
                    if op == 'cross' and cls == 'Vector':
                        pass
                    obj_cases.append({'kind': 'O', 'op': op, 'cls': cls, 'ua': ua, 'ub': ub})
            obj_cases.append({'kind': 'O', 'op': 'matmul', 'cls': 'Matrix', 'ua': ua, 'ub': ub})
            obj_cases.append({'kind': 'O', 'op': 'matvec', 'cls': 'Matrix', 'ua': ua, 'ub': ub})
            obj_cases.append({'kind': 'O', 'op': 'pow_bad', 'how': 'united_exponent', 'ua': ua, 'ub': ub})
            for uc in (None, ua, ub):
                for op in ('stack', 'from_scalars'):
                    obj_cases.append({'kind': 'O', 'op': op, 'ua': ua, 'ub': ub, 'uc': uc})
            # components WITHOUT units in front of or between the dimensioned ones (seeded change C12-C: each
            # component compared with the first instead of with the units found so far)
            for op in ('stack', 'from_scalars'):
                obj_cases.append({'kind': 'O', 'op': op, 'ua': None, 'ub': ua, 'uc': ub})
                obj_cases.append({'kind': 'O', 'op': op, 'ua': ua, 'ub': None, 'uc': ub})
        for p2 in POWERS2:
            obj_cases.append({'kind': 'O', 'op': 'pow', 'cls': 'Scalar', 'ua': ua, 'p2': p2})
        for how in ('array_exponent', 'fraction'):
            obj_cases.append({'kind': 'O', 'op': 'pow_bad', 'how': how, 'ua': ua})
        for op in ANGLE_FN + PURE_FN + ['sqrt']:
            obj_cases.append({'kind': 'O', 'op': op, 'cls': 'Scalar', 'ua': ua})
        for cls in allcls:
            for op in ('without_units', 'convert', 'abs', 'neg', 'sum', 'mean', 'getitem'):
                if op == 'abs' and cls != 'Scalar':
                    continue
                for d in (False, True):
                    obj_cases.append({'kind': 'O', 'op': op, 'cls': cls, 'ua': ua, 'derivs': d})
            obj_cases.append({'kind': 'O', 'op': 'reciprocal', 'cls': cls, 'ua': ua}) if cls in ('Scalar', 'Matrix') else None
        for cls in ('Vector', 'Vector3', 'Pair'):
            obj_cases.append({'kind': 'O', 'op': 'norm', 'cls': cls, 'ua': ua})
            obj_cases.append({'kind': 'O', 'op': 'norm_sq', 'cls': cls, 'ua': ua})
        for how in ('ctor', 'set_units', 'ctor_array'):
            obj_cases.append({'kind': 'O', 'op': 'boolean', 'how': how, 'ua': ua})
    if quick:
        core = [c for c in obj_cases if c.get('cls', 'Scalar') == 'Scalar' and rng.random() < 0.6]
        rest = [c for c in obj_cases if c.get('cls', 'Scalar') != 'Scalar']
        obj_cases = core + rng.sample(rest, min(len(rest), 1500))
    # shapes: most shapeless, some with a leading axis
    for c in obj_cases:
        c['shape'] = [2] if rng.random() < 0.3 else []
    cases.extend(obj_cases)
    # random object-level cases with random unit expressions
    nrand_o = 300 if quick else 4000
    proto = [c for c in obj_cases]
    for _ in range(nrand_o):
        c = dict(rng.choice(proto))
        c['ua'] = pick_units()
        if 'ub' in c:
            c['ub'] = pick_units() if rng.random() < 0.6 or c['ua'] is None else (
                c['ua'] if rng.random() < 0.5 else ['mul', c['ua'], ['div', N('M'), N('KM')]])
        if 'uc' in c:
            c['uc'] = rng.choice([None, c['ua'], c.get('ub')])
        cases.append(c)
    return cases


# ---------------------------------------------------------------------------
# running
# ---------------------------------------------------------------------------
_PRISTINE = {}


def run_case(c, Pm):
    U = Pm.Units
    if not _PRISTINE:
        for n in dir(U):
            v = getattr(U, n)
            if isinstance(v, U):
                _PRISTINE[n] = (v.exponents, v.triple, v.factor, v.factor_inv, v.name)
        _PRISTINE['#snap'] = snapshot_constants(U)
    snap0 = _PRISTINE['#snap']
    try:
        res = run_ucase(c, Pm) if c['kind'] == 'U' else run_ocase(c, Pm)
    except Exception as e:      # the reference/harness could not handle the case: report, never hide
        name, site = lib.exc_family(e)
        res = {'fails': ['harness: %s: %s (%s)' % (name, str(e)[:200], site)], 'coq': [], 'exc': (name, site)}
    snap1 = snapshot_constants(U)
    if snap1 != snap0:
        changed = sorted(k for k in snap0 if snap0[k] != snap1.get(k)) + sorted(k for k in snap1 if k not in snap0)
        res['fails'].append('named constants changed by the call: ' + ', '.join(changed[:6]))
        res['const_changed'] = changed
        restore_constants(U, snap0, {k: v for k, v in _PRISTINE.items() if not k.startswith('#')})
    return res


def signature(c, res):
    sig = {'kind': c['kind'], 'op': c['op']}
    for k in ('fn', 'cls', 'how'):
        if k in c:
            sig[k] = c[k]
    if res.get('bad_exc'):
        sig['exc'] = res['bad_exc'][0]
        sig['site'] = res['bad_exc'][1]
    sig['first'] = res['fails'][0].split(':')[0] if res['fails'] else ''
    sig['const_changed'] = bool(res.get('const_changed'))
    # structured conditions used by the known-finding matchers
    if c['kind'] == 'O':
        ra, rb = ref_eval(c.get('ua')), ref_eval(c.get('ub'))
        sig['a_has_units'] = ra is not None
        sig['b_has_units'] = rb is not None
        sig['a_dimensionless'] = ra is None or ra.e == (0, 0, 0)
        sig['a_pure_scaled'] = ra is not None and ra.e == (0, 0, 0) and ra.f != 1.0
        sig['shaped'] = bool(c.get('shape'))
        sig['array_path'] = bool(c.get('shape')) or c.get('how') == 'array_exponent'
    return sig


def nontrivial(c):
    if c['kind'] == 'U':
        return c['op'] not in ('named', 'copy')
    return c.get('ua') is not None or c.get('ub') is not None


def short(c):
    return c if len(str(c)) < 500 else {'kind': c['kind'], 'op': c['op']}


def regenerate(ctx):
    """stage R; returns True when coq/gen/Gen_units.v was produced from the current source"""
    sys.path.insert(0, os.path.join(lib.VERIF, 'tools', 'regen'))
    import importlib
    import units_ast
    importlib.reload(units_ast)
    os.makedirs(GEN_DIR, exist_ok=True)
    src = os.path.join(lib.REPO, 'polymath', 'units.py')
    out = os.path.join(GEN_DIR, 'Gen_units.v')
    try:
        info = units_ast.translate_file(src, out)
    except units_ast.TranslateError as e:
        try:
            os.remove(out)
        except OSError:
            pass
        ctx.log('REGENERATION FAILED (fail closed): %s' % e)
        ctx.obligations.append(('regenerate-units.py', False, str(e)))
        ctx.broken_tie('regeneration', 'units_ast', 'polymath/units.py is outside the translated subset: %s' % e)
        return False
    ctx.obligations.append(('regenerate-units.py', True, '%d functions, %d named units' %
                            (info['functions'], info['named'])))
    ctx.cov['regenerated'] = info
    ctx.log('regenerated Gen_units.v: %(functions)d functions, %(named)d named units' % info)
    return True


def compile_chain(ctx):
    """stage P for everything that depends on the regenerated file"""
    extra = ('-R', GEN_DIR, 'PMGen')
    chain = [(os.path.join(GEN_DIR, 'Gen_units.v'), 'gen/Gen_units.v'),
             (os.path.join(lib.COQ, 'theories', 'C12Model.v'), 'theories/C12Model.v'),
             (os.path.join(lib.COQ, 'theories', 'C12Lemmas.v'), 'theories/C12Lemmas.v')]
    for path, rel in chain:
        rc, out, err, dt = lib.run_coqc(path, timeout=900, extra=extra)
        if rc != 0:
            msg = (err or out)[-2500:]
            ctx.log('PROOF BROKEN %s\n%s' % (rel, msg))
            ctx.obligations.append((rel, False, msg))
            ctx.broken_tie('proof', rel, msg)
            return rel
        ctx.obligations.append((rel, True, '%.1fs' % dt))
        ctx.log('compiled %s in %.1fs' % (rel, dt))
    return None


def run(ctx):
    Pm = P()
    names = named_units(Pm)
    ctx.rule = ('named table (every Units.* constant) + all pairs (thorough: all names; quick: half of the pairs of 19 '
                'distinct values) and triples (thorough: all 6859 of the distinct values; quick: 400) + seeded random '
                'products/quotients/powers with every exponent in -3..3, for mul div cancel assoc pow pow_add sqrt '
                'sqrt_sq convert match static-helpers scale init copy; object level: 14 unit dimensions (incl. None) '
                'squared x {Scalar,Vector,Vector3,Pair,Matrix,Boolean} x every unit-aware operation; '
                'non-trivial = at least one operand carries units')
    ctx.assumptions = ['unit records are exact (integer numerator/denominator); float-fallback units are compared on '
                       'their factor within 8 ulp by the direct oracle and are outside the Coq model (OInexact)',
                       'np.sqrt of an exactly representable perfect square is exact (IEEE sqrt)',
                       'values of objects are small positive floats; masks and derivatives other than d_dt are not varied']
    # the files that import the regenerated model are compiled with -R coq/gen PMGen
    lib.COQFLAGS = list(lib.COQFLAGS) + ['-R', GEN_DIR, 'PMGen']
    import fcntl
    os.makedirs(lib.BUILD, exist_ok=True)
    lock = open(os.path.join(lib.LOCKDIR, '.c12gen.lock'), 'w')
    fcntl.flock(lock, fcntl.LOCK_EX)
    coq_ok = False
    if ctx.ensure_library():
        if regenerate(ctx):
            broken = compile_chain(ctx)
            if broken is None:
                ctx.prove(['theories/Props/C12.v'])
            # the correspondence needs Gen_units.v and C12Model.v only
            coq_ok = broken in (None, 'theories/C12Lemmas.v')
    cases = gen_cases(ctx.rng, ctx.tier, names)
    terms, owner = [], []
    bad = {}
    seen = {}
    for i, c in enumerate(cases):
        res = run_case(c, Pm)
        if res.get('skipped'):
            continue
        ctx.note_case(short(c), nontrivial(c))
        ctx.count('kind:' + c['kind'])
        ctx.count('op:' + c['op'] + (':' + c['fn'] if 'fn' in c else ''))
        if 'cls' in c:
            ctx.count('cls:' + c['cls'])
        if res.get('exc'):
            ctx.count('exc:' + res['exc'][0])
        for t in res.get('tags', ()):
            ctx.count(t)
        if res['fails']:
            bad[i] = res
            sig = signature(c, res)
            if lib.finding_for(ctx.prop, sig, ctx.findings) is not None:
                ctx.fail(sig, c, {'failures': res['fails'][:8]})         # counted as known
            else:
                # at most three replay files per (operation, exception) class
                key = lib.canon([sig.get(k) for k in ('kind', 'op', 'fn', 'how', 'cls', 'exc', 'site', 'const_changed')])
                seen[key] = seen.get(key, 0) + 1
                if seen[key] <= 3:
                    ctx.fail(sig, c, {'failures': res['fails'][:8]})
                else:
                    ctx.count('violations-not-reported-separately')
        for term, o in res['coq']:
            terms.append('(%s, %s)' % (term, o))
            owner.append(i)
    ctx.traces = len(terms)
    ctx.cov['cases_failing_direct_oracle'] = len(bad)
    if coq_ok:
        mism = ctx.coq_eval_shards('cases', HEADER, terms, lambda x: 'mismatches %s' % x, shard=400)
        if mism:
            unexplained = [j for j in mism if owner[j] not in bad]
            ctx.cov['correspondence_mismatches'] = len(mism)
            if unexplained:
                j = unexplained[0]
                c = cases[owner[j]]
                shown = ctx.coq_show(HEADER, 'run12 (fst %s)' % terms[j])
                ctx.broken_tie('correspondence', 'model-vs-impl-unexplained',
                               {'n_mismatch': len(unexplained), 'first_case': c, 'term': terms[j], 'model': shown})
        else:
            ctx.cov['correspondence_mismatches'] = 0 if mism is not None else None
    ctx.exhaustive = ctx.tier == 'thorough'
    lock.close()
    if ctx.violations:
        # concrete failing inputs were found: a proof / correspondence that broke in the same run
        # is reported through them, not as `no-failing-input-found`
        for kind, name, detail in ctx.broken:
            if kind in ('proof', 'correspondence'):
                ctx.concrete_found.add(name)
    return ctx.finish()


def replay(path):
    Pm = P()
    d = json.load(open(path))
    if 'case' not in d:
        print(json.dumps(d, indent=1)[:4000])
        return 1
    res = run_case(d['case'], Pm)
    print('case      :', d['case'])
    if d['case']['kind'] == 'U':
        for k in ('a', 'b', 'c'):
            if d['case'].get(k) is not None:
                print('reference %s:' % k, ref_eval(d['case'][k]))
    else:
        for k in ('ua', 'ub', 'uc'):
            if d['case'].get(k) is not None:
                print('reference %s:' % k, ref_eval(d['case'][k]))
    print('raised    :', res.get('exc'))
    for f in res['fails']:
        print('FAIL      :', f)
    print('property holds on this case' if not res['fails'] else 'property FAILS on this case')
    return 0 if not res['fails'] else 1
