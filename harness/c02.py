"""C02 - undefined results are masked, never NaN, pole infinity, warning or exception.

Same operation table and Coq model as C01 (harness/c01_common.py, C01Model.v). The
case space puts poles at every position: for each restricted-domain operation, every
assignment of {undefined, boundary, interior} values to arrays of length <= 3 and
(2,2), shape (), size 0, int and float kinds, masked poles, scalar/array layouts on
either side, with and without derivatives. The implementation runs under
warnings.simplefilter('error'); the direct oracle demands: no exception (ValueError
only on the check=False / nozeros=True paths when a pole is present), no escaping
warning, mask = operand masks OR undefined, no NaN / inf among unmasked values and
among derivative values at elements where result and derivative are unmasked."""
import itertools
import math

import numpy as np

from . import lib
from . import c01
from . import c01_common as cm

PROP = 'C02'

Z3 = [0., 0., 0.]
# op -> (index of the operand that carries the poles, undefined items, boundary items, interior items)
POLES = {
    'sqrt': (0, [[-1.], [-0.5], [-2.]], [[0.]], [[0.5], [1.], [2.]]),
    'log': (0, [[-1.], [0.], [-0.5]], [[0.5]], [[1.], [2.], [3.]]),
    'arcsin': (0, [[-2.], [1.5], [-1.5], [3.]], [[-1.], [1.]], [[0.], [0.5], [-0.5]]),
    'arccos': (0, [[-2.], [1.5], [-1.5], [3.]], [[-1.], [1.]], [[0.], [0.5], [-0.5]]),
    'reciprocal': (0, [[0.]], [[0.5], [-0.5]], [[1.], [-2.], [3.]]),
    'pow_num': (0, [[0.], [-1.], [-2.]], [[1.]], [[2.], [0.5], [3.]]),
    'pow': (0, [[0.], [-1.], [-2.]], [[1.]], [[2.], [0.5], [3.]]),
    'unit': (0, [Z3], [[1., 0., 0.], [0., 0., 1.]], [[1., 2., -1.], [2., 2., 1.]]),
    'with_norm': (0, [Z3], [[1., 0., 0.]], [[1., 2., -1.]]),
    'qrecip': (0, [[0.] * 4], [[1., 0., 0., 0.]], [[1., 2., -1., 0.], [0., 0., 2., 1.]]),
    'to_matrix3': (0, [[0.] * 4], [[1., 0., 0., 0.]], [[1., 2., -1., 0.], [0., 0., 2., 1.]]),
    'qpow': (0, [[0.] * 4], [[1., 0., 0., 0.]], [[1., 2., -1., 0.]]),
    'inverse': (0, [[0.] * 4, [1., 2., 2., 4.], [1., 1., 0., 0.]], [[1., 0., 0., 1.]], [[1., 2., 3., 4.], [2., 0., 1., 1.]]),
    'mrecip': (0, [[0.] * 4, [1., 2., 2., 4.]], [[1., 0., 0., 1.]], [[1., 2., 3., 4.]]),
    'mpow': (0, [[0.] * 4, [1., 2., 2., 4.]], [[1., 0., 0., 1.]], [[1., 2., 3., 4.]]),
    'matdiv': (1, [[0.] * 4, [1., 2., 2., 4.]], [[1., 0., 0., 1.]], [[1., 2., 3., 4.]]),
    'perp': (1, [Z3], [[1., 0., 0.]], [[1., 2., -1.]]),
    'proj': (1, [Z3], [[1., 0., 0.]], [[1., 2., -1.]]),
    'sep': (1, [Z3], [[1., 0., 0.], [-1., 0., 0.]], [[1., 2., -1.]]),
    'element_div': (1, [Z3, [0., 1., 2.], [1., 0., 1.]], [[0.5, 1., 1.]], [[1., 2., -1.]]),
    'qdiv': (1, [[0.] * 4], [[1., 0., 0., 0.]], [[1., 2., -1., 0.]]),
    'from_rotation': (1, [Z3], [[1., 0., 0.]], [[1., 2., -1.]]),
    'rdiv_num': (0, [[0.]], [[0.5], [-0.5]], [[1.], [-2.], [3.]]),
    'rdiv_arr': (0, [[0.]], [[0.5], [-0.5]], [[1.], [-2.], [3.]]),
    'rfloordiv_num': (0, [[0.]], [[1.]], [[2.], [-2.], [3.]]),
    'rmod_num': (0, [[0.]], [[1.]], [[2.], [-2.], [3.]]),
}
for _n in ['div', 'div_num', 'div_arr', 'idiv', 'idiv_num', 'floordiv', 'mod', 'floordiv_num', 'mod_num',
           'ifloordiv', 'imod', 'ifloordiv_num', 'imod_num']:
    POLES[_n] = (1, [[0.]], [[0.5], [-0.5], [1.]], [[2.], [-2.], [3.]])
for _n, _b in [('sqrt_nocheck', 'sqrt'), ('log_nocheck', 'log'), ('arcsin_nocheck', 'arcsin'),
               ('arccos_nocheck', 'arccos'), ('reciprocal_nozeros', 'reciprocal'), ('inverse_nozeros', 'inverse')]:
    POLES[_n] = POLES[_b]
# pair-dependent poles (parallel vectors) are reached by seeded sampling with many special items
SAMPLED = ['ucross', 'twovec01', 'twovec20', 'sep', 'perp', 'proj', 'element_div', 'qdiv', 'matdiv', 'pow',
           'inverse', 'mrecip', 'unit', 'from_rotation']

ENUM_SHAPES = [(), (1,), (2,), (3,), (2, 2), (0,), (1, 2), (2, 1)]


def integral(item):
    return all(float(x).is_integer() for x in item)


def pole_cases(rng, ops, name, shapes, limit=None):
    o = ops[name]
    pidx, und, bnd, itr = POLES[name]
    out = []
    for classes in o['cls']:
        if cm.ITEM.get(classes[pidx], ()) != () and len(und[0]) != int(np.prod(cm.ITEM[classes[pidx]])):
            continue                        # alphabet written for another item size
        num_pole = classes[pidx] == 'number'
        for kind in ('float', 'int'):
            if kind == 'int' and (classes[pidx] in ('Quaternion', 'Matrix3') or o.get('kinds')):
                continue
            alph = [[x for x in cl if kind == 'float' or integral(x)] for cl in (und, bnd, itr)]
            if any(not cl for cl in alph):
                alph = [cl or alph[2] or alph[0] for cl in alph]
            for shape in shapes:
                if num_pole and shape != ():
                    continue
                n = int(np.prod(shape))
                for assign in itertools.product(range(3), repeat=n):
                    for mv in ('none', 'poles', 'first'):
                        if mv == 'first' and n == 0:
                            continue
                        for deriv in (False, True):
                            if deriv and (name not in cm.DERIV_OPS or kind == 'int'):
                                continue
                            out.append((classes, kind, shape, assign, mv, deriv, alph))
    if limit is not None and len(out) > limit:
        out = rng.sample(out, limit)
    cases = []
    for (classes, kind, shape, assign, mv, deriv, alph) in out:
        pidx = POLES[name][0]
        n = int(np.prod(shape))
        vals = [list(rng.choice(alph[a])) for a in assign]
        if mv == 'none':
            mask = False
        elif mv == 'poles':
            mask = [a == 0 for a in assign]
        else:
            mask = [k == 0 for k in range(n)]
        # the other operands: same shape or shapeless (scalar vs array layout on either side)
        oshapes = [tuple(shape) if rng.random() < 0.6 else rng.choice([(), (2,) if shape == () else ()])
                   for _ in classes]
        oshapes[pidx] = tuple(shape)
        if o.get('inplace'):
            oshapes[0] = cm.bshape(*oshapes) or oshapes[0]
            if pidx == 0:
                oshapes = [tuple(shape)] * len(classes)
            elif 1 in shape and rng.random() < 0.7:
                # the operand broadcasts INTO the target along a length-one axis of the same rank (seeded C02-E)
                oshapes[0] = tuple(3 if x == 1 else x for x in shape)
        c = c01.gen_case(rng, name, ops, classes, oshapes, deriv=deriv, special=0.15)
        d = c['operands'][pidx]
        if classes[pidx] == 'number':
            v = vals[0][0] if vals else 1.
            d['vals'] = [[int(v) if kind == 'int' else float(v)]]
            d['kind'] = kind
        else:
            d['kind'] = kind if classes[pidx] != 'Boolean' else 'bool'
            if tuple(shape) == () and classes[pidx] == 'Scalar' and kind == 'float' and not deriv and rng.random() < 0.5:
                d['npscalar'] = True
            d['vals'] = [[(int(x) if kind == 'int' else float(x)) for x in it] for it in vals]
            if classes[pidx] == 'Boolean':
                d['vals'] = [[bool(it[0])] for it in vals]
            if classes[pidx] != 'ndarray':
                d['mask'] = mask
                d['mrep'] = 'F' if mask is False else 'mix'
            if deriv and classes[pidx] not in ('Boolean', 'ndarray'):
                d['kind'] = 'float'
                d['vals'] = [[float(x) for x in it] for it in vals]
                d['deriv'] = [[rng.choice([-1., 0.5, 1., 2.]) for _ in it] for it in vals]
            else:
                d.pop('deriv', None)
        if o.get('samekind'):
            for e in c['operands']:
                if e is not d and e['kind'] != d['kind'] and e['cls'] != 'Boolean':
                    e['kind'] = d['kind']
                    e['vals'] = [[(int(x) if d['kind'] == 'int' else float(x)) for x in it] for it in e['vals']]
        c['pole_layout'] = {'assign': list(assign), 'masked': mv}
        cases.append(c)
    return cases


def corpus_cases():
    return [c for c in c01.corpus_cases() if c['op'] in ('mpow', 'to_matrix3', 'pow', 'pow_num')]


def gen_cases(rng, tier, ops):
    cases = corpus_cases()
    names = [n for n in cm.RESTRICTED if n in POLES]
    if tier == 'quick':
        for n in names:
            cases += pole_cases(rng, ops, n, [(), (1,), (2,), (0,)], limit=120)
            cases += pole_cases(rng, ops, n, [(3,), (2, 2)], limit=120)
        for _ in range(4000):
            n = rng.choice(SAMPLED)
            cases.append(c01.gen_case(rng, n, ops, deriv=(rng.random() < 0.5 and n in cm.DERIV_OPS), special=0.5))
        for _ in range(1500):      # total functions with derivatives: formulas must stay finite
            n = rng.choice([x for x in cm.DERIV_OPS if x not in POLES])
            cases.append(c01.gen_case(rng, n, ops, deriv=True, special=0.4))
        return cases
    for n in names:
        cases += pole_cases(rng, ops, n, ENUM_SHAPES)
    for n in SAMPLED:
        for _ in range(2500):
            cases.append(c01.gen_case(rng, n, ops, deriv=(rng.random() < 0.5 and n in cm.DERIV_OPS), special=0.5))
    for n in [x for x in cm.DERIV_OPS if x not in POLES]:
        for _ in range(600):
            cases.append(c01.gen_case(rng, n, ops, deriv=True, special=0.4))
    return cases


# ---------------------------------------------------------------------------
# validation of the special-value class algebra against the real NumPy kernels
# ---------------------------------------------------------------------------
REPS = {'Nan': [float('nan')], 'NInf': [-float('inf')], 'NBig': [-2., -1e100, -1.0000000000000002],
        'NOne': [-1.], 'NSmall': [-0.5, -1e-100, -0.9999999999999999], 'Zero': [0., -0.],
        'PSmall': [0.5, 1e-100, 0.9999999999999999], 'POne': [1.], 'PBig': [1.5, 1e100, 1.0000000000000002],
        'PInf': [float('inf')]}


def classify(x):
    if math.isnan(x):
        return 'Nan'
    if math.isinf(x):
        return 'PInf' if x > 0 else 'NInf'
    if x < -1:
        return 'NBig'
    if x == -1:
        return 'NOne'
    if x < 0:
        return 'NSmall'
    if x == 0:
        return 'Zero'
    if x < 1:
        return 'PSmall'
    if x == 1:
        return 'POne'
    return 'PBig'


def kernel_terms():
    unary = {'KSqrt': np.sqrt, 'KLog': np.log, 'KArcsin': np.arcsin, 'KArccos': np.arccos,
             'KRecip': lambda x: np.float64(1.) / x}
    binary = {'KDiv': np.true_divide, 'KFloordiv': np.floor_divide, 'KMod': np.mod}
    terms = []
    seen = set()
    with np.errstate(all='ignore'):
        for k, fn in unary.items():
            for cx, xs in REPS.items():
                for x in xs:
                    cy = classify(float(fn(np.float64(x))))
                    if (k, cx, cy) not in seen:
                        seen.add((k, cx, cy))
                        terms.append('(CK %s %s Zero %s, OMask [] [true])' % (k, cx, cy))
        for k, fn in binary.items():
            for cx, xs in REPS.items():
                for cyn, ys in REPS.items():
                    for x in xs:
                        for y in ys:
                            for arr in (False, True):
                                if arr:
                                    r = float(fn(np.array([x]), np.array([y]))[0])
                                else:
                                    r = float(fn(np.float64(x), np.float64(y)))
                                cr = classify(r)
                                if (k, cx, cyn, cr) not in seen:
                                    seen.add((k, cx, cyn, cr))
                                    terms.append('(CK %s %s %s %s, OMask [] [true])' % (k, cx, cyn, cr))
    return terms


# ---- dividends with a denominator (derivative-like objects, drank >= 1) --------------------------------------------
DENOM_OPS = ['div_scalar', 'div_number', 'element_div', 'idiv_scalar']


def denom_cases(rng, tier):
    """a Vector / Scalar with denominator axes divided by something with exact zeros: the quotient is masked exactly
    where the divisor is zero (any component, for element_div) or an operand is masked, and holds no NaN / infinity
    (seeded change C02-N: element_div raised for a dividend with a denominator once a divisor component was zero)"""
    out = []
    for op in DENOM_OPS:
        for shape in [(), (1,), (3,), (2, 2)]:
            for denom in [(2,), (3,), (2, 2)]:
                for zeros in ('none', 'some', 'all'):
                    for masked in (False, True):
                        out.append({'kind': 'denom', 'op': op, 'shape': list(shape), 'denom': list(denom), 'zeros': zeros,
                                    'masked': masked, 'seed': rng.randrange(2 ** 31)})
    return out if tier != 'quick' else rng.sample(out, 120)


def denom_check(c, Pm):
    import warnings
    r = np.random.RandomState(c['seed'])
    shape, denom = tuple(c['shape']), tuple(c['denom'])
    n = int(np.prod(shape))
    A = np.round(r.uniform(-4, 4, shape + (3,) + denom), 2)
    ma = (r.uniform(0, 1, shape) < 0.3) if c['masked'] and shape else False
    a = Pm.Vector(A.copy(), ma, drank=len(denom))
    op = c['op']
    if op == 'element_div':
        B = np.round(r.uniform(1, 3, shape + (3,)), 2) * r.choice([-1, 1], shape + (3,))
        if c['zeros'] == 'some':
            B[r.uniform(0, 1, B.shape) < 0.3] = 0.
            B[..., 1] = np.where(np.arange(n).reshape(shape) % 2 == 0, 0., B[..., 1]) if shape else 0.
        elif c['zeros'] == 'all':
            B[...] = 0.
        zero = (B == 0).any(axis=-1)
        b = Pm.Vector(B.copy())
        Bx = B.reshape(shape + (3,) + (1,) * len(denom))
    else:
        B = np.round(r.uniform(1, 3, shape), 2) * r.choice([-1, 1], shape)
        if c['zeros'] == 'some':
            B = np.where(np.arange(n).reshape(shape) % 2 == 0, 0., B) if shape else np.float64(0.)
        elif c['zeros'] == 'all':
            B = np.zeros(shape)
        zero = (B == 0)
        if op == 'div_number' and shape:
            return None, 'skipped'
        b = float(B) if op == 'div_number' else Pm.Scalar(np.array(B).copy() if shape else float(B))
        Bx = np.asarray(B).reshape(shape + (1,) * (1 + len(denom)))
    want_mask = np.asarray(ma | zero)
    try:
        with warnings.catch_warnings(record=True) as w:
            warnings.simplefilter('always')
            if op == 'element_div':
                q = a.element_div(b)
            elif op == 'idiv_scalar':
                q = a.copy()
                q /= b
            else:
                q = a / b
        if w:
            return 'warning: %s' % str(w[0].message)[:80], 'warning'
    except Exception as e:      # noqa
        return 'raised %s: %s' % (type(e).__name__, str(e)[:100]), 'exception'
    got_mask = np.broadcast_to(q.mask, shape)
    if not np.array_equal(got_mask, np.broadcast_to(want_mask, shape)):
        return 'mask %s, expected %s' % (got_mask.tolist(), np.broadcast_to(want_mask, shape).tolist()), 'mask'
    vals = np.asarray(q.values, float)
    if vals.shape != A.shape:
        return 'values shape %s' % (vals.shape,), 'shape'
    if not np.all(np.isfinite(vals)):
        return 'non-finite value in the result', 'nonfinite'
    with np.errstate(all='ignore'):
        ref = A / np.where(Bx == 0, 1., Bx)
    sel = ~np.broadcast_to(want_mask, shape)
    if not np.allclose(vals[sel], ref[sel], rtol=1e-13, atol=0):
        return 'unmasked quotient differs from the NumPy quotient', 'value'
    return None, 'masked' if want_mask.any() else 'plain'


def denom_part(ctx):
    Pm = cm.P() if hasattr(cm, 'P') else None
    for c in denom_cases(ctx.rng, ctx.tier):
        prob, how = denom_check(c, Pm)
        if how == 'skipped':
            continue
        ctx.note_case({k: c[k] for k in c if k != 'seed'}, how == 'masked')
        ctx.count('denom_dividend:' + c['op'])
        if prob:
            ctx.fail({'kind': 'denom', 'op': c['op'], 'how': how}, c, {'problem': prob})


def run(ctx):
    c01.kernel_terms = kernel_terms
    rule = ('restricted-domain operations (%d) x operand class tuples x {int, float} x every assignment of '
            '{undefined, boundary, interior} values to shapes (), (1,), (2,), (3,), (2,2), (0,) x {no mask, poles '
            'masked, first element masked} x {without, with derivatives} x scalar/array layout of the other '
            'operand; plus seeded samples of pair-dependent poles (parallel vectors, singular matrices) and of '
            'total functions with derivatives; quick samples 240 layouts per operation, thorough enumerates all; '
            'non-trivial = result partially masked' % len([n for n in cm.RESTRICTED if n in POLES]))
    return c01.run(ctx, prop=PROP, check_values=True, gen=gen_cases, rule=rule, extra=denom_part)


def replay(path):
    import json
    d = json.load(open(path))
    if isinstance(d.get('case'), dict) and d['case'].get('kind') == 'denom':
        prob, how = denom_check(d['case'], cm.P())
        print({k: v for k, v in d['case'].items()}, '->', prob or 'ok')
        print('property FAILS on this case' if prob else 'property holds on this case')
        return 1 if prob else 0
    return c01.replay(path, check_values=True)
