"""Shared machinery of the C01 / C02 checks: operand descriptions, the operation
table (how to call the implementation, where the operation is mathematically
undefined, what the Coq model calls it), observation of results and the Python
reference (direct oracle).

Values are small multiples of 1/2 so that every domain test (== 0, < 0, <= 0,
|x| > 1, det == 0, integer exponent) is exact both in floats and in the Coq model,
which stores 2*value as Z."""
import itertools
import warnings
from fractions import Fraction

import numpy as np

from . import lib
from .lib import cbool, cnat, cZ, clist, cshape

HEADER = ('From Coq Require Import List ZArith Bool.\nFrom PM Require Import Base Mask C01Model.\n'
          'Import ListNotations.\nOpen Scope Z_scope.\n')

SHAPES = [(), (0,), (1,), (2,), (3,), (1, 3), (2, 1), (2, 3), (2, 0), (3, 1, 2)]
MREPS = ['F', 'T', 'aF', 'aT', 'mix', 'bview']


def P():
    lib.setup_impl_path()
    import polymath
    return polymath


def bshape(*shapes):
    try:
        return tuple(np.broadcast_shapes(*[tuple(s) for s in shapes]))
    except ValueError:
        return None


def compatible_pairs():
    out = []
    for a in SHAPES:
        for b in SHAPES:
            if bshape(a, b) is not None:
                out.append((a, b))
    return out


BPAIRS = compatible_pairs()
BAD_PAIRS = [(a, b) for a in SHAPES for b in SHAPES if bshape(a, b) is None]

ITEM = {'Scalar': (), 'Boolean': (), 'Vector': (3,), 'Vector3': (3,), 'Pair': (2,), 'Vector2': (2,),
        'Quaternion': (4,), 'Matrix': (2, 2), 'Matrix33': (3, 3), 'Matrix3': (3, 3), 'marray': ()}
PMCLS = {'Vector2': 'Vector', 'Matrix33': 'Matrix'}

SPOOL_F = [-2., -1.5, -1., -0.5, 0., 0., 0.5, 1., 1.5, 2., 3.]
SPOOL_I = [-2, -1, 0, 0, 1, 2, 3]
VPOOL = [-1., 0., 0., 1., 2.]
ROT = [[1, 0, 0, 0, 1, 0, 0, 0, 1], [0, 1, 0, -1, 0, 0, 0, 0, 1], [1, 0, 0, 0, 0, 1, 0, -1, 0],
       [0, 0, 1, 0, 1, 0, -1, 0, 0], [-1, 0, 0, 0, -1, 0, 0, 0, 1]]


# ---------------------------------------------------------------------------
# operand descriptions
# ---------------------------------------------------------------------------
def gen_mask(rng, shape, rep):
    n = int(np.prod(shape))
    if rep == 'F':
        return False
    if rep == 'T':
        return True
    if rep == 'aF':
        return [False] * n
    if rep == 'aT':
        return [True] * n
    if rep == 'bview':
        if not shape:
            return [rng.random() < 0.5]
        last = [rng.random() < 0.5 for _ in range(shape[-1])]
        return [last[i % shape[-1]] for i in range(n)] if shape[-1] else []
    return [rng.random() < 0.4 for _ in range(n)]


def gen_item(rng, cls, kind, special=0.3):
    """one item (flattened) of class cls; `special` = probability of a boundary item"""
    item = ITEM[cls]
    isz = int(np.prod(item))
    if cls == 'Boolean':
        return [rng.random() < 0.5]
    if cls in ('Scalar', 'marray'):
        return [rng.choice(SPOOL_I if kind == 'int' else SPOOL_F)]
    if cls == 'Matrix3':
        return [float(x) for x in rng.choice(ROT)]
    if rng.random() < special:
        if cls in ('Matrix', 'Matrix33'):      # singular matrices
            n = item[0]
            rows = [[rng.choice([-1., 0., 1., 2.]) for _ in range(n)] for _ in range(n - 1)]
            k = rng.randrange(n - 1)
            c = rng.choice([0., 1., 2., -1.])
            rows.insert(rng.randrange(n), [c * x for x in rows[k]])
            return [x for r in rows for x in r]
        return [0.] * isz
    pool = [-1, 0, 0, 1, 2] if kind == 'int' else VPOOL
    return [rng.choice(pool) for _ in range(isz)]


def gen_operand(rng, cls, shape, kind=None, rep=None, deriv=False, special=0.3):
    if kind is None:
        kind = 'bool' if cls == 'Boolean' else rng.choice(['float', 'float', 'int'])
    if cls in ('Matrix3', 'Quaternion') and kind == 'int':
        kind = 'float'
    rep = rep or rng.choice(MREPS)
    n = int(np.prod(shape))
    d = {'cls': cls, 'shape': list(shape), 'kind': kind,
         'vals': [gen_item(rng, cls, kind, special) for _ in range(n)],
         'mask': gen_mask(rng, shape, rep), 'mrep': rep}
    if deriv and cls != 'Boolean':
        isz = int(np.prod(ITEM[cls]))
        d['kind'] = 'float'
        d['vals'] = [[float(x) for x in it] for it in d['vals']]
        d['deriv'] = [[rng.choice([-1., 0.5, 1., 2.]) for _ in range(isz)] for _ in range(n)]
    if tuple(shape) == () and cls == 'Scalar' and d['kind'] == 'float' and d.get('deriv') is None and rng.random() < 0.35:
        d['npscalar'] = True        # built as x[0]: the value is a NumPy scalar, not a Python float
    return d


def gen_number(rng, kind=None, pool=None):
    kind = kind or rng.choice(['float', 'int'])
    v = rng.choice(pool or (SPOOL_I if kind == 'int' else SPOOL_F))
    return {'cls': 'number', 'shape': [], 'kind': kind, 'vals': [[v]], 'mask': False, 'mrep': 'F'}


def gen_ndarray(rng, shape, item=(), kind=None):
    kind = kind or rng.choice(['float', 'int'])
    n = int(np.prod(shape))
    isz = int(np.prod(item))
    return {'cls': 'ndarray', 'shape': list(shape), 'item': list(item), 'kind': kind,
            'vals': [[rng.choice(SPOOL_I if kind == 'int' else SPOOL_F) for _ in range(isz)] for _ in range(n)],
            'mask': False, 'mrep': 'F'}


def item_of(d):
    if d['cls'] == 'ndarray':
        return tuple(d.get('item', ()))
    if d['cls'] == 'number':
        return ()
    return ITEM[d['cls']]


def build(d, Pm):
    """descriptor -> implementation object (through the public constructor)"""
    cls = d['cls']
    shape = tuple(d['shape'])
    dt = {'float': float, 'int': int, 'bool': bool}[d['kind']]
    if cls == 'number':
        v = d['vals'][0][0]
        return dt(v)
    item = item_of(d)
    arr = np.array(d['vals'], dtype=dt).reshape(shape + item)
    if cls == 'ndarray':
        return arr
    m = d['mask']
    if isinstance(m, bool):
        mask = m
    else:
        mask = np.array(m, bool).reshape(shape)
        if d.get('mrep') == 'bview':
            if shape:
                mask = np.broadcast_to(mask[(0,) * (len(shape) - 1)].copy(), shape)
            else:
                mask = np.broadcast_to(np.array(bool(mask)), ())
    if cls == 'marray':         # numpy.ma.MaskedArray operand
        return np.ma.MaskedArray(arr, mask=np.broadcast_to(np.asarray(mask, bool), shape).copy())
    if shape + item == ():
        arr = arr.item()
    klass = getattr(Pm, PMCLS.get(cls, cls))
    obj = klass(arr, mask)
    if d.get('npscalar') and shape + item == () and d['kind'] == 'float' and d.get('deriv') is None:
        # a shapeless object whose value came out of NumPy (as x[0], x.sum() ... give): the arithmetic of
        # Python numbers and of NumPy scalars differs exactly at the undefined points (seeded change C02-F)
        obj = klass(np.array([arr, arr]), mask)[0]
    if d.get('deriv') is not None:
        darr = np.array(d['deriv'], dtype=float).reshape(shape + item)
        if shape + item == ():
            darr = darr.item()
        obj.insert_deriv('t', klass(darr))
    return obj


def expanded_mask(d):
    shape = tuple(d['shape'])
    m = d['mask']
    if isinstance(m, bool):
        return np.full(shape, m, bool)
    return np.array(m, bool).reshape(shape)


def items_array(d):
    """object array of item tuples (exact Fractions), shape = leading shape"""
    shape = tuple(d['shape'])
    out = np.empty(shape, dtype=object)
    flat = [tuple(Fraction(x) for x in it) for it in d['vals']]
    for k, idx in enumerate(np.ndindex(*shape)):
        out[idx] = flat[k]
    return out


# ---------------------------------------------------------------------------
# undefinedness predicates (mathematics, on exact item tuples)
# ---------------------------------------------------------------------------
def zero(t):
    return all(x == 0 for x in t)


def det(t):
    n = {4: 2, 9: 3}[len(t)]
    if n == 2:
        return t[0] * t[3] - t[1] * t[2]
    a, b, c, d, e, f, g, h, i = t
    return a * (e * i - f * h) - b * (d * i - f * g) + c * (d * h - e * g)


def crossz(a, b):
    if len(a) == 2:
        return a[0] * b[1] - a[1] * b[0] == 0
    return (a[1] * b[2] - a[2] * b[1] == 0 and a[2] * b[0] - a[0] * b[2] == 0
            and a[0] * b[1] - a[1] * b[0] == 0)


def pow_undef(x, p):
    return (x == 0 and p < 0) or (x < 0 and p.denominator != 1)


U_NONE = lambda *a: False                                            # noqa: E731
UNDEF = {
    'none': U_NONE,
    'bzero': lambda a, b: b[0] == 0,
    'bzero_all': lambda a, b: zero(b),
    'bzero_any': lambda a, b: any(x == 0 for x in b),
    'azero': lambda a, *r: zero(a),
    'abzero': lambda a, b: zero(a) or zero(b),
    'neg': lambda a: a[0] < 0,
    'nonpos': lambda a: a[0] <= 0,
    'outside1': lambda a: a[0] < -1 or a[0] > 1,
    'pow': lambda a, b: pow_undef(a[0], b[0]),
    'det': lambda a: det(a) == 0,
    'bdet': lambda a, b: det(b) == 0,
    'cross0': lambda a, b: crossz(a, b),
    'twovec': lambda a, b: zero(a) or crossz(a, b),
    'negpow_det': lambda a, b: b[0] < 0 and det(a) == 0,
    'negpow_zero': lambda a, b: b[0] < 0 and zero(a),
}


# ---------------------------------------------------------------------------
# the operation table
#   call    : objs -> result (implementation)
#   undef   : key of UNDEF
#   coq     : (family, op constructor) in C01Model.v, or None if outside the model
#   cls     : list of admissible operand-class tuples
#   inplace : first operand is modified and returned (needs result shape == its shape)
#   kinds   : optional restriction of operand kinds
# ---------------------------------------------------------------------------
def _inplace(fn):
    def g(a, b):
        a = a.copy()
        return fn(a, b)
    return g


def _iadd(a, b):
    a += b
    return a


def _isub(a, b):
    a -= b
    return a


def _imul(a, b):
    a *= b
    return a


def _idiv(a, b):
    a /= b
    return a


def _ifloordiv(a, b):
    a //= b
    return a


def _imod(a, b):
    a %= b
    return a


XS = ['Scalar', 'Vector', 'Pair', 'Vector3', 'Quaternion', 'Matrix', 'Matrix33']
VS = ['Vector', 'Vector3', 'Pair']
NUMS = ['number']


def same_pairs(classes):
    return [(c, c) for c in classes]


def with_scalar(classes, extra=('Scalar', 'Boolean')):
    return [(c, s) for c in classes for s in extra]


OPS = {}


def op(name, call, undef, coq, cls, **kw):
    d = {'name': name, 'call': call, 'undef': undef, 'coq': coq, 'cls': cls}
    d.update(kw)
    OPS[name] = d


def build_ops(Pm):
    if OPS:
        return OPS
    S, M3, Q = Pm.Scalar, Pm.Matrix3, Pm.Quaternion
    # ---- + - (same class; number; ndarray; Boolean as number) ----
    addcls = same_pairs(XS) + [('Scalar', 'Boolean'), ('Boolean', 'Scalar'), ('Boolean', 'Boolean')]
    op('add', lambda a, b: a + b, 'none', ('E2', 'OAdd'), addcls)
    op('sub', lambda a, b: a - b, 'none', ('E2', 'OSub'), addcls)
    op('add_num', lambda a, b: a + b, 'none', ('E2', 'OAddNum'), with_scalar(['Scalar', 'Boolean'], NUMS))
    op('sub_num', lambda a, b: a - b, 'none', ('E2', 'OAddNum'), with_scalar(['Scalar', 'Boolean'], NUMS))
    op('radd_num', lambda a, b: b + a, 'none', ('E2', 'OAddNum'), with_scalar(['Scalar', 'Boolean'], NUMS))
    op('rsub_num', lambda a, b: b - a, 'none', ('E2', 'OAddNum'), with_scalar(['Scalar', 'Boolean'], NUMS))
    op('add_arr', lambda a, b: a + b, 'none', ('E2', 'OAdd'), [(c, 'ndarray') for c in ['Scalar', 'Vector', 'Pair']])
    op('radd_arr', lambda a, b: b + a, 'none', ('E2', 'OAdd'), [(c, 'ndarray') for c in ['Scalar', 'Vector', 'Pair']])
    op('rsub_arr', lambda a, b: b - a, 'none', ('E2', 'OAdd'), [(c, 'ndarray') for c in ['Scalar', 'Vector', 'Pair']])
    op('add_ma', lambda a, b: a + b, 'none', ('E2', 'OAdd'), [('Scalar', 'marray')])
    op('mul_ma', lambda a, b: a * b, 'none', ('E2', 'OMul'), [('Scalar', 'marray'), ('Vector', 'marray')])
    op('div_ma', lambda a, b: a / b, 'bzero', ('E2', 'ODiv'), [('Scalar', 'marray'), ('Vector', 'marray')])
    op('iadd', _inplace(_iadd), 'none', ('E2', 'OAdd'), same_pairs(XS), inplace=True, samekind=True)
    op('isub', _inplace(_isub), 'none', ('E2', 'OSub'), same_pairs(XS), inplace=True, samekind=True)
    op('iadd_num', _inplace(_iadd), 'none', ('E2', 'OAddNum'), [('Scalar', 'number')], inplace=True, samekind=True)
    # ---- * ----
    op('mul', lambda a, b: a * b, 'none', ('E2', 'OMul'), with_scalar(XS + ['Boolean']))
    op('rmul', lambda a, b: b * a, 'none', ('E2', 'OMul'), with_scalar(VS + ['Matrix', 'Quaternion']))
    op('mul_num', lambda a, b: a * b, 'none', ('E2', 'OMulNum'), with_scalar(XS + ['Boolean'], NUMS))
    op('rmul_num', lambda a, b: b * a, 'none', ('E2', 'OMulNum'), with_scalar(XS + ['Boolean'], NUMS))
    op('mul_arr', lambda a, b: a * b, 'none', ('E2', 'OMul'), [(c, 'ndarray') for c in ['Scalar', 'Vector']], arr_scalar=True)
    op('rmul_arr', lambda a, b: b * a, 'none', ('E2', 'OMul'), [(c, 'ndarray') for c in ['Scalar', 'Vector']], arr_scalar=True)
    op('imul', _inplace(_imul), 'none', ('E2', 'OMul'), with_scalar(XS, ['Scalar']), inplace=True, samekind=True)
    op('imul_num', _inplace(_imul), 'none', ('E2', 'OMulNum'), with_scalar(XS, NUMS), inplace=True, samekind=True)
    # ---- / // % ----
    divl = ['Scalar', 'Vector', 'Pair', 'Vector3', 'Matrix', 'Quaternion', 'Boolean']
    op('div', lambda a, b: a / b, 'bzero', ('E2', 'ODiv'), with_scalar(divl))
    op('div_num', lambda a, b: a / b, 'bzero', ('E2', 'ODivNum'), with_scalar(divl, NUMS))
    op('rdiv_num', lambda a, b: b / a, 'azero', ('E1', 'ORecip'), with_scalar(['Scalar', 'Boolean'], NUMS), coq_args=[0])
    op('div_arr', lambda a, b: a / b, 'bzero', ('E2', 'ODiv'), [(c, 'ndarray') for c in ['Scalar', 'Vector']], arr_scalar=True)
    op('rdiv_arr', lambda a, b: b / a, 'azero', ('E2', 'ODiv'), [('Scalar', 'ndarray')], coq_args=[1, 0])
    op('idiv', _inplace(_idiv), 'bzero', ('E2', 'ODiv'), with_scalar(['Scalar', 'Vector', 'Pair'], ['Scalar']),
       inplace=True, kinds=('float', None))
    op('idiv_num', _inplace(_idiv), 'bzero', ('E2', 'ODivNum'), with_scalar(['Scalar', 'Vector'], NUMS),
       inplace=True, kinds=('float', None))
    fl = ['Scalar', 'Vector', 'Pair', 'Boolean']
    op('floordiv', lambda a, b: a // b, 'bzero', ('E2', 'OFloordiv'), with_scalar(fl))
    op('mod', lambda a, b: a % b, 'bzero', ('E2', 'OFloordiv'), with_scalar(fl))
    op('floordiv_num', lambda a, b: a // b, 'bzero', ('E2', 'OFloordiv'), with_scalar(fl, NUMS))
    op('mod_num', lambda a, b: a % b, 'bzero', ('E2', 'ODivNum'), with_scalar(fl, NUMS))
    op('rfloordiv_num', lambda a, b: b // a, 'azero', ('E2', 'OFloordiv'), with_scalar(['Scalar', 'Boolean'], NUMS), coq_args=[1, 0])
    op('rmod_num', lambda a, b: b % a, 'azero', ('E2', 'OFloordiv'), with_scalar(['Scalar', 'Boolean'], NUMS), coq_args=[1, 0])
    op('ifloordiv', _inplace(_ifloordiv), 'bzero', ('E2', 'OFloordiv'), with_scalar(['Scalar', 'Vector'], ['Scalar']),
       inplace=True, samekind=True)
    op('imod', _inplace(_imod), 'bzero', ('E2', 'OFloordiv'), with_scalar(['Scalar', 'Vector'], ['Scalar']),
       inplace=True, samekind=True)
    op('ifloordiv_num', _inplace(_ifloordiv), 'bzero', ('E2', 'ODivNum'), with_scalar(['Scalar'], NUMS),
       inplace=True, samekind=True)
    op('imod_num', _inplace(_imod), 'bzero', ('E2', 'ODivNum'), with_scalar(['Scalar'], NUMS),
       inplace=True, samekind=True)
    # ---- ** ----
    op('pow_num', lambda a, b: a ** b, 'pow', ('E2', 'OPowNum'), with_scalar(['Scalar', 'Boolean'], NUMS),
       numpool=[-2, -1, -1.5, -0.5, 0, 0.5, 1, 1.5, 2, 3, 4, 5, -3, 2.0, -1.0])
    op('pow', lambda a, b: a ** b, 'pow', ('E2', 'OPow'), [('Scalar', 'Scalar'), ('Boolean', 'Scalar')])
    # integer exponents given as a Scalar (the negative ones are converted to float on the way: seeded change C01-J)
    op('pow_intexp', lambda a, b: a ** b, 'pow', ('E2', 'OPow'), [('Scalar', 'Scalar')], kinds=[None, 'int'])
    op('mpow', lambda a, b: a ** b, 'negpow_det', ('E2', 'OXPowM'), [('Matrix', 'number'), ('Matrix33', 'number')],
       numpool=[-2, -1, 0, 1, 2, 3, -3], numkind='int')
    op('qpow', lambda a, b: a ** b, 'negpow_zero', ('E2', 'OXPowQ'), [('Quaternion', 'number')],
       numpool=[-2, -1, 0, 1, 2, 3, 5], numkind='int')
    op('m3pow', lambda a, b: a ** b, 'none', ('E2', 'OXPowR'), [('Matrix3', 'number')],
       numpool=[-2, -1, 0, 1, 2, 3], numkind='int')
    # ---- unary ----
    for nm, fn in [('neg', lambda a: -a), ('pos', lambda a: +a)]:
        op(nm, fn, 'none', ('E1', 'OPass'), [(c,) for c in XS + ['Boolean', 'Matrix3']])
    op('abs', lambda a: abs(a), 'none', ('E1', 'OPass'), [(c,) for c in ['Scalar', 'Boolean'] + VS])
    for nm in ['sin', 'cos', 'tan', 'arctan', 'exp', 'sign', 'int', 'frac']:
        op(nm, (lambda nm: lambda a: getattr(a, nm)())(nm), 'none', ('E1', 'OPass'), [('Scalar',)],
           builtins=(nm in ('sign', 'int')))
    # Vector3.spin replaces degenerate poles / perpendiculars through mask_where(..., remask=False): whatever it
    # decides about them, an element masked in an operand stays masked (only that direction is judged; no Coq model)
    op('spin', lambda a, b, c: a.spin(b, c), 'none', None, [('Vector3', 'Vector3', 'Scalar')], only_in_out=True)
    op('int_clip', lambda a: a.int(top=2, clip=True), 'none', ('E1', 'OPass'), [('Scalar',)])
    op('int_top', lambda a: a.int(top=2), 'none', ('E1', 'OPass'), [('Scalar',)])
    op('clip_noremask', lambda a: a.clip(0, 1, remask=False), 'none', ('E1', 'OPass'), [('Scalar',)])
    op('mask_where_replace_keep', lambda a: a.mask_where_le(0, replace=7, remask=False), 'none', ('E1', 'OPass'), [('Scalar',)])
    op('round1', lambda a: round(a, 1), 'none', ('E1', 'OPass'), [('Scalar',)])
    op('sign_nozeros', lambda a: a.sign(zeros=False), 'none', ('E1', 'OPass'), [('Scalar',)])
    op('sqrt', lambda a: a.sqrt(), 'neg', ('E1', 'OSqrt'), [('Scalar',)])
    op('log', lambda a: a.log(), 'nonpos', ('E1', 'OLog'), [('Scalar',)])
    op('arcsin', lambda a: a.arcsin(), 'outside1', ('E1', 'OArc'), [('Scalar',)])
    op('arccos', lambda a: a.arccos(), 'outside1', ('E1', 'OArc'), [('Scalar',)])
    op('reciprocal', lambda a: a.reciprocal(), 'azero', ('E1', 'ORecip'), [('Scalar',)])
    op('arctan2', lambda a, b: a.arctan2(b), 'none', ('E2', 'OAdd'), [('Scalar', 'Scalar')])
    op('norm', lambda a: a.norm(), 'none', ('E1', 'OPass'), [(c,) for c in VS + ['Quaternion']])
    op('norm_sq', lambda a: a.norm_sq(), 'none', ('E1', 'OPass'), [(c,) for c in VS + ['Quaternion']])
    op('unit', lambda a: a.unit(), 'azero', ('E1', 'OUnit'), [(c,) for c in VS + ['Quaternion']])
    op('with_norm', lambda a: a.with_norm(2.), 'azero', ('E1', 'OUnit'), [(c,) for c in VS])
    op('conj', lambda a: a.conj(), 'none', ('E1', 'OPass'), [('Quaternion',)])
    op('qrecip', lambda a: a.reciprocal(), 'azero', ('E1', 'OUnit'), [('Quaternion',)])
    op('to_matrix3', lambda a: a.to_matrix3(), 'azero', ('E1', 'OToMat3'), [('Quaternion',)])
    op('inverse', lambda a: a.inverse(), 'det', ('E1', 'OInverse'), [('Matrix',), ('Matrix33',)])
    op('mrecip', lambda a: a.reciprocal(), 'det', ('E1', 'OInverse'), [('Matrix',), ('Matrix33',)])
    op('unitary', lambda a: a.unitary(), 'det', ('E1', 'OInverse'), [('Matrix33',)])
    op('m3recip', lambda a: a.reciprocal(), 'none', ('E1', 'OPass'), [('Matrix3',)])
    op('transpose', lambda a: a.transpose(), 'none', ('E1', 'OPass'), [('Matrix',), ('Matrix3',)])
    for nm in ['x_rotation', 'y_rotation', 'z_rotation']:
        op(nm, (lambda nm: lambda a: getattr(M3, nm)(a))(nm), 'none', ('E1', 'OPass'), [('Scalar',), ('Boolean',)])
    for ax in (0, 1, 2):
        op('axis_rotation%d' % ax, (lambda ax: lambda a: M3.axis_rotation(a, ax))(ax), 'none', ('E1', 'OPass'),
           [('Scalar',)])
    # ---- constructors of vectors from angles and lengths (every argument's mask reaches the result) ----
    V3 = Pm.Vector3
    op('from_ra_dec_length', lambda a, b, c: V3.from_ra_dec_length(a, b, c), 'none', ('E3', 'OEuler'), [('Scalar', 'Scalar', 'Scalar')])
    # ... with a length whose numbers are all exactly one, also under its mask (seeded change C01-I)
    op('from_ra_dec_unit_length', lambda a, b, c: V3.from_ra_dec_length(a, b, S(np.ones(c.shape) if c.shape else 1., c._mask_)),
       'none', ('E3', 'OEuler'), [('Scalar', 'Scalar', 'Scalar')])
    op('from_ra_dec', lambda a, b: V3.from_ra_dec_length(a, b), 'none', ('E2', 'OAdd'), [('Scalar', 'Scalar')])
    op('from_cylindrical', lambda a, b, c: V3.from_cylindrical(a, b, c), 'none', ('E3', 'OEuler'), [('Scalar', 'Scalar', 'Scalar')])
    op('longitude', lambda a: a.longitude(), 'none', ('E1', 'OPass'), [('Vector3',)])
    op('latitude', lambda a: a.latitude(), 'azero', ('E1', 'OUnit'), [('Vector3',)])
    op('pair_rot90', lambda a: a.rot90(), 'none', ('E1', 'OPass'), [('Pair',)])
    op('pair_angle', lambda a: a.angle(), 'none', ('E1', 'OPass'), [('Pair',)])
    op('pair_swapxy', lambda a: a.swapxy(), 'none', ('E1', 'OPass'), [('Pair',)])
    # ---- products / contractions ----
    vv = same_pairs(VS)
    op('dot', lambda a, b: a.dot(b), 'none', ('E2', 'ODot'), vv)
    op('cross', lambda a, b: a.cross(b), 'none', ('E2', 'ODot'), vv)
    op('outer', lambda a, b: a.outer(b), 'none', ('E2', 'ODot'), vv)
    op('ucross', lambda a, b: a.ucross(b), 'cross0', ('E2', 'OUcross'), [('Vector', 'Vector'), ('Vector3', 'Vector3')])
    op('perp', lambda a, b: a.perp(b), 'bzero_all', ('E2', 'OPerp'), vv)
    op('proj', lambda a, b: a.proj(b), 'bzero_all', ('E2', 'OProj'), vv)
    op('sep', lambda a, b: a.sep(b), 'abzero', ('E2', 'OSep'), vv)
    op('element_mul', lambda a, b: a.element_mul(b), 'none', ('E2', 'ODot'), vv)
    op('element_div', lambda a, b: a.element_div(b), 'bzero_any', ('E2', 'OElDiv'), vv)
    op('matmul', lambda a, b: a * b, 'none', ('E2', 'ODot'),
       [('Matrix', 'Matrix'), ('Matrix', 'Pair'), ('Matrix33', 'Matrix33'), ('Matrix33', 'Vector'),
        ('Matrix33', 'Vector3'), ('Matrix3', 'Matrix3'), ('Matrix3', 'Vector3'), ('Matrix3', 'Matrix33')])
    op('imatmul', _inplace(_imul), 'none', ('E2', 'ODot'), [('Matrix', 'Matrix'), ('Matrix33', 'Matrix33')],
       inplace=True, kinds=('float', None))
    op('matdiv', lambda a, b: a / b, 'bdet', ('E2', 'OMatDiv'), [('Matrix', 'Matrix'), ('Matrix33', 'Matrix33')])
    op('rotate', lambda a, b: a.rotate(b), 'none', ('E2', 'ODot'), [('Matrix3', 'Vector3'), ('Matrix3', 'Matrix33')])
    op('unrotate', lambda a, b: a.unrotate(b), 'none', ('E2', 'ODot'), [('Matrix3', 'Vector3')])
    op('m3_mul_scalar', lambda a, b: a * b, 'none', ('E2', 'OMul'), [('Matrix3', 'Scalar')])
    op('qmul', lambda a, b: a * b, 'none', ('E2', 'ODot'), [('Quaternion', 'Quaternion'), ('Quaternion', 'Vector3')])
    op('qdiv', lambda a, b: a / b, 'bzero_all', ('E2', 'OQDiv'), [('Quaternion', 'Quaternion')])
    op('pole_rotation', lambda a, b: M3.pole_rotation(a, b), 'none', ('E2', 'ODot'), [('Scalar', 'Scalar')])
    op('from_rotation', lambda a, b: Q.from_rotation(a, b), 'bzero_all', ('E2', 'OFromRot'), [('Scalar', 'Vector3')])
    for (a1, a2) in [(0, 1), (1, 2), (2, 0), (0, 2), (2, 1)]:
        op('twovec%d%d' % (a1, a2), (lambda a1, a2: lambda a, b: M3.twovec(a, a1, b, a2))(a1, a2), 'twovec',
           ('E2', 'OTwovec'), [('Vector3', 'Vector3')])
    for axes in ['rzxz', 'sxyz', 'ryxz', 'szyx']:
        op('m3_from_euler_' + axes, (lambda axes: lambda a, b, c: M3.from_euler(a, b, c, axes))(axes), 'none',
           ('E3', 'OEuler'), [('Scalar', 'Scalar', 'Scalar')])
        op('q_from_euler_' + axes, (lambda axes: lambda a, b, c: Q.from_euler(a, b, c, axes))(axes), 'none',
           ('E3', 'OEuler'), [('Scalar', 'Scalar', 'Scalar')])
    # ---- explicit fast paths that may raise ValueError (C02) ----
    op('sqrt_nocheck', lambda a: a.sqrt(check=False), 'neg', None, [('Scalar',)], fast=True)
    op('log_nocheck', lambda a: a.log(check=False), 'nonpos', None, [('Scalar',)], fast=True)
    op('arcsin_nocheck', lambda a: a.arcsin(check=False), 'outside1', None, [('Scalar',)], fast=True)
    op('arccos_nocheck', lambda a: a.arccos(check=False), 'outside1', None, [('Scalar',)], fast=True)
    op('reciprocal_nozeros', lambda a: a.reciprocal(nozeros=True), 'azero', None, [('Scalar',)], fast=True)
    op('inverse_nozeros', lambda a: a.inverse(nozeros=True), 'det', None, [('Matrix',), ('Matrix33',)], fast=True)
    return OPS


RESTRICTED = ['div', 'div_num', 'rdiv_num', 'div_arr', 'rdiv_arr', 'idiv', 'idiv_num', 'floordiv', 'mod',
              'floordiv_num', 'mod_num', 'rfloordiv_num', 'rmod_num', 'ifloordiv', 'imod', 'ifloordiv_num',
              'imod_num', 'pow_num', 'pow', 'pow_intexp', 'mpow', 'qpow', 'sqrt', 'log', 'arcsin', 'arccos', 'reciprocal',
              'unit', 'with_norm', 'latitude', 'qrecip', 'to_matrix3', 'inverse', 'mrecip', 'unitary', 'ucross', 'perp', 'proj', 'sep',
              'element_div', 'matdiv', 'qdiv', 'from_rotation', 'twovec01', 'twovec20',
              'sqrt_nocheck', 'log_nocheck', 'arcsin_nocheck', 'arccos_nocheck', 'reciprocal_nozeros',
              'inverse_nozeros']
# operations whose derivative formulas divide again (C02 "derivatives at unmasked elements are finite")
DERIV_OPS = ['div', 'div_num', 'rdiv_num', 'sqrt', 'log', 'arcsin', 'arccos', 'reciprocal', 'pow_num', 'unit',
             'norm', 'tan', 'arctan', 'arctan2', 'element_div', 'inverse', 'qrecip', 'to_matrix3', 'sep', 'perp',
             'proj', 'mul', 'exp', 'idiv', 'with_norm', 'ucross', 'qdiv', 'matdiv', 'mpow', 'from_rotation',
             'twovec01', 'x_rotation', 'abs']


# ---------------------------------------------------------------------------
# running one case
# ---------------------------------------------------------------------------
def ref_mask(case, ops):
    """The property's statement: result leading shape and mask, from the operand
    descriptions only. Returns ('ok', shape, flat mask list, flat undef list) or ('err',)."""
    o = ops[case['op']]
    opnds = case['operands']
    shape = bshape(*[d['shape'] for d in opnds])
    if shape is None:
        return ('err',)
    if o.get('inplace') and tuple(shape) != tuple(opnds[0]['shape']):
        return ('err',)
    masks = [np.broadcast_to(expanded_mask(d), shape) for d in opnds]
    items = [np.broadcast_to(items_array(d), shape) for d in opnds]
    und = UNDEF[o['undef']]
    out, undl, raw = [], [], []
    for idx in np.ndindex(*shape):
        m = any(bool(mm[idx]) for mm in masks)
        u = bool(und(*[it[idx] for it in items]))
        out.append(m or u)
        undl.append(u and not m)
        raw.append(u)
    return ('ok', list(shape), out, undl, raw)


def finite_unmasked(obj, Pm):
    """(number of NaN, number of +-inf) among unmasked values of obj"""
    vals = np.asarray(obj._values_, dtype=float)
    lead = obj._shape_
    am = np.broadcast_to(~np.broadcast_to(np.asarray(obj._mask_, bool), lead), lead)
    if vals.shape != lead + obj._item_:
        vals = np.broadcast_to(vals, lead + obj._item_)
    sel = vals[am] if lead else (vals.reshape((1,) + vals.shape)[np.array([bool(am)])])
    return int(np.isnan(sel).sum()), int(np.isinf(sel).sum())


def observe(res, Pm):
    if isinstance(res, (bool, int, float, np.number, np.bool_)):
        v = float(res)
        return {'kind': 'builtin', 'shape': [], 'mask': [False], 'nan': int(np.isnan(v)), 'inf': int(np.isinf(v)),
                'dnan': 0, 'dinf': 0}
    if not isinstance(res, Pm.Qube):
        return {'kind': 'other', 'repr': repr(res)[:200]}
    lead = res._shape_
    if np.shape(res._mask_) not in ((), tuple(lead)):
        return {'kind': 'malformed', 'repr': 'mask of shape %s on an object of shape %s' % (np.shape(res._mask_), tuple(lead))}
    m = np.broadcast_to(np.asarray(res._mask_, bool), lead)
    nan, inf = finite_unmasked(res, Pm)
    dnan = dinf = 0
    for key, dv in res._derivs_.items():
        # derivative values at elements where neither the result nor the derivative is masked
        dm = np.broadcast_to(np.asarray(dv._mask_, bool), lead) | m
        vals = np.broadcast_to(np.asarray(dv._values_, dtype=float), lead + dv._item_)
        sel = vals[~dm] if lead else vals.reshape((1,) + vals.shape)[np.array([not bool(dm)])]
        dnan += int(np.isnan(sel).sum())
        dinf += int(np.isinf(sel).sum())
    return {'kind': 'qube', 'cls': type(res).__name__, 'shape': list(lead), 'mask': [bool(x) for x in m.ravel()],
            'nan': nan, 'inf': inf, 'dnan': dnan, 'dinf': dinf, 'nderivs': len(res._derivs_),
            'mrep': type(res._mask_).__name__}


def run_impl(case, Pm, ops):
    o = ops[case['op']]
    with warnings.catch_warnings():
        warnings.simplefilter('error')
        try:
            if case.get('alias') == 'views':
                a, b = case['operands']
                parent = dict(a)
                parent['shape'] = [a['shape'][0] + 1]
                parent['vals'] = [list(v) for v in a['vals']] + [list(b['vals'][-1])]
                parent['mask'] = list(a['mask']) + [b['mask'][-1]]
                if a.get('deriv') is not None:
                    parent['deriv'] = None
                pobj = build(parent, Pm)
                objs = [pobj[:-1], pobj[1:]]
            else:
                objs = [build(d, Pm) for d in case['operands']]
        except Exception as e:      # noqa
            return {'kind': 'build-exc', 'exc': lib.exc_family(e), 'msg': str(e)[:200]}
        try:
            res = o['call'](*objs)
            return observe(res, Pm)
        except Warning as w:
            return {'kind': 'warning', 'exc': (type(w).__name__, ''), 'msg': str(w)[:200]}
        except Exception as e:      # noqa
            name, site = lib.exc_family(e)
            return {'kind': 'exc', 'exc': (name, site), 'msg': str(e)[:200],
                    'value_error': isinstance(e, ValueError)}


def judge(case, impl, ref, ops, check_values):
    """list of failure tags (empty = the property holds on this case)"""
    o = ops[case['op']]
    bad = []
    if impl['kind'] == 'build-exc':
        return ['harness-build']
    if ref[0] == 'err':
        # which exception class is raised is C19's business; C01 only needs a refusal
        if impl['kind'] not in ('exc',):
            bad.append('no-error-on-incompatible-shapes')
        return bad
    if impl['kind'] == 'warning':
        return ['warning-escaped']
    if impl['kind'] == 'exc':
        if o.get('fast') and impl.get('value_error') and any(ref[4]):
            return []           # a pole (masked or not) on an explicit fast path: ValueError is allowed
        return ['exception']
    if impl['kind'] == 'other':
        return ['not-a-qube']
    if impl['kind'] == 'malformed':
        return ['malformed-result']
    if o.get('fast') and any(ref[4]):
        # fast path used outside its contract without an error: nothing is promised
        return []
    if impl['kind'] == 'builtin' and ref[1] == [] and not ref[2][0]:
        pass
    elif list(impl['shape']) != list(ref[1]):
        bad.append('shape')
    elif list(impl['mask']) != list(ref[2]):
        extra = any(i and not r for i, r in zip(impl['mask'], ref[2]))
        missing = any(r and not i for i, r in zip(impl['mask'], ref[2]))
        und_missing = any(u and not i for i, u in zip(impl['mask'], ref[3]))
        if missing:
            bad.append('undefined-not-masked' if und_missing else 'masked-operand-not-masked')
        if extra and not o.get('only_in_out'):
            bad.append('defined-element-masked')
    if check_values:
        if impl.get('nan') or impl.get('inf'):
            bad.append('nan-or-inf-unmasked')
        if impl.get('dnan') or impl.get('dinf'):
            bad.append('nan-or-inf-in-derivative')
    return bad


def signature(case, impl, tags):
    d = case['operands']
    sig = {'op': case['op'], 'fail': tags[0] if tags else '', 'tags': sorted(tags),
           'classes': '/'.join(x['cls'] for x in d),
           'shapeless': all(x['shape'] == [] for x in d),
           'any_shapeless': any(x['shape'] == [] and x['cls'] not in ('number',) for x in d),
           'zero_size': any(0 in x['shape'] for x in d),
           'has_deriv': any(x.get('deriv') is not None for x in d),
           'kinds': '/'.join(x['kind'] for x in d)}
    if case['op'] in ('inverse', 'mrecip', 'mpow', 'matdiv', 'unitary'):
        m = d[1] if case['op'] == 'matdiv' else d[0]
        n = ITEM[m['cls']][0]
        sig['lapack_det_residue'] = any(
            det(tuple(Fraction(x) for x in it)) == 0 and np.linalg.det(np.array(it, float).reshape(n, n)) != 0
            for it in m['vals'])
    if impl.get('kind') in ('exc', 'warning'):
        sig['exc'] = impl['exc'][0]
        sig['site'] = impl['exc'][1]
    return sig


# ---------------------------------------------------------------------------
# Coq terms
# ---------------------------------------------------------------------------
def z2(x):
    f = Fraction(x) * 2
    assert f.denominator == 1, x
    return cZ(int(f))


def coq_operand(d):
    if d['cls'] == 'number':
        return '(mkoL %s %s (LS false) true)' % (cshape([]), clist([clist([z2(d['vals'][0][0])], 'Z')], '(list Z)'))
    shape = d['shape']
    m = d['mask']
    if isinstance(m, bool):
        mm = 'LS %s' % cbool(m)
    else:
        mm = 'LA %s' % clist([cbool(x) for x in m], 'bool')
    items = [clist([z2(x) for x in it], 'Z') for it in d['vals']]
    return '(mkoL %s %s (%s) false)' % (cshape(shape), clist(items, '(list Z)'), mm)


def coq_case(case, ops):
    o = ops[case['op']]
    if o['coq'] is None:
        return None
    fam, ctor = o['coq']
    sel = o.get('coq_args')
    ds = case['operands'] if sel is None else [case['operands'][k] for k in sel]
    if fam == 'E1':
        ds = ds[:1]
    opnds = ' '.join(coq_operand(d) for d in ds)
    if fam == 'E1':
        return '(C1 %s %s)' % (ctor, opnds)
    if fam == 'E2':
        return '(C2 %s %s %s)' % (ctor, cbool(bool(o.get('inplace'))), opnds)
    return '(C3 %s)' % opnds


def coq_obs(impl):
    if impl['kind'] in ('qube', 'builtin'):
        return '(OMask %s %s)' % (cshape(impl['shape']), clist([cbool(x) for x in impl['mask']], 'bool'))
    return 'OErr'
