"""C10 - item assignment writes exactly the selected elements and nothing else.

Cases: a target (every class, three mask representations, 0-2 derivatives, optionally
sharing its mask array with another object) and a sequence of 1-3 assignments
(index tuple as in C09, right-hand side = number / ndarray / object with scalar or
array mask and its own derivative keys, broadcastable to the selection or not).
After every assignment the full expanded state of the target, of the object sharing
its mask and of the right-hand side is compared with the reference (ref_index.py
selection + last-write-wins); a duplicate-free index is also read back.
The Coq specification C10Model.setitems is evaluated on the same cases."""
import json
import warnings

import numpy as np

from . import lib
from . import idx_gen as G
from .ref_index import ref_getitem
from .lib import clist, cbool

HEADER = ('From Coq Require Import List ZArith Bool.\nFrom PM Require Import Base Mask C09Model C10Model.\n'
          'Import ListNotations.\nOpen Scope Z_scope.\n')
DENOM = dict(G.DERIV_KEYS)


def P():
    lib.setup_impl_path()
    import polymath
    return polymath


# ---------------------------------------------------------------------------
# case generation
# ---------------------------------------------------------------------------
SIBLINGS = {('Vector', (3,)): 'Vector3', ('Vector3', (3,)): 'Vector', ('Pair', (2,)): 'Vector',
            ('Matrix', (3, 3)): 'Matrix3', ('Quaternion', (4,)): 'Vector'}


def gen_rhs(rng, target, out_shape, step):
    """A right-hand side record for a selection of shape out_shape."""
    cls, item = target['cls'], tuple(target['item'])
    out_shape = list(out_shape) if out_shape is not None else [2]
    r = rng.random()
    if r < 0.25 or not out_shape:
        rshape = []
    elif r < 0.40:
        rshape = out_shape[rng.randrange(len(out_shape)):]
    elif r < 0.50:
        rshape = [1 if rng.random() < 0.4 else x for x in out_shape]
    elif r < 0.56:
        rshape = [x + 1 if x > 1 else 3 for x in out_shape[-1:]]          # usually not broadcastable
    else:
        rshape = out_shape
    base = 1000 * (step + 1)
    form = rng.choice(['number', 'ndarray', 'object', 'object', 'object'])
    if form == 'number' and (rshape or item):
        form = 'ndarray'
    if cls == 'Boolean' and form == 'ndarray' and not rshape:
        form = 'number'
    if form in ('number', 'ndarray'):
        return {'form': form, 'cls': cls, 'item': list(item), 'shape': rshape, 'mrep': 'F',
                'mask': [False] * int(np.prod(rshape)), 'base': base, 'int': rng.random() < 0.5, 'derivs': {}}
    d = G.gen_object(rng, tuple(rshape), classes=[(cls, item)], base=base)
    d['form'] = 'object'
    # a right-hand side of another class with the same item shape (Vector3 into Vector, Matrix3 into Matrix ...):
    # __setitem__ converts it with as_this_type and must keep its derivatives (seeded change C10-C)
    sib = SIBLINGS.get((cls, item))
    if sib and rng.random() < 0.3:
        d['cls'] = sib
        if sib in ('Vector3', 'Matrix3'):
            d['int'] = False
        if rng.random() < 0.6:
            d['dcls'] = cls          # ... whose derivatives already have the class of the target
    # overlap of derivative key sets with the target: keep, drop or add
    return d


def build_rhs(d, Pm):
    if d['form'] == 'object':
        return G.build_object(d, Pm)
    shape, item = tuple(d['shape']), tuple(d['item'])
    n, isz = int(np.prod(shape)), int(np.prod(item))
    if d['cls'] == 'Boolean':
        v = (np.arange(n) % 2 == (d['base'] % 2)).reshape(shape)
        return bool(v) if d['form'] == 'number' else v
    v = (d['base'] + np.arange(n * isz)).astype(int if d['int'] else float).reshape(shape + item)
    return v.item() if d['form'] == 'number' else v


def rhs_obs(d, Pm):
    """what the right-hand side is, as an observed object of the target's class"""
    if d['form'] == 'object':
        return G.observe(G.build_object(d, Pm))
    shape, item = tuple(d['shape']), tuple(d['item'])
    n, isz = int(np.prod(shape)), int(np.prod(item))
    if d['cls'] == 'Boolean':
        vals = [[int(i % 2 == d['base'] % 2)] for i in range(n)]
    else:
        vals = [[d['base'] + i * isz + j for j in range(isz)] for i in range(n)]
    return {'main': (list(shape), [False] * n, vals), 'derivs': {}}


def gen_cases(rng, tier):
    cases = []
    nrand = 6000 if tier == 'quick' else 60000
    from .c09 import exhaustive_core
    core = []
    for shape, maxent in ([((3,), 1), ((2, 3), 2)] if tier == 'quick' else [((3,), 2), ((2, 3), 2), ((2, 2, 2), 2), ((2, 0), 1)]):
        core += [(shape, e) for e in exhaustive_core(shape, maxent)]
    for shape, ents in core:
        t = G.gen_object(rng, shape, nderiv=rng.choice([0, 0, 1]))
        ref = ref_getitem(shape, ents)
        cases.append({'target': t, 'shared': False, 'src': 'core', 'via': rng.choice([None, None, 'pickle', 'copy']),
                      'steps': [{'index': ents, 'rhs': gen_rhs(rng, t, None if ref == ('err',) else ref[0], 0)}]})
    for _ in range(nrand):
        shape = rng.choice(G.LEAD_SHAPES)
        t = G.gen_object(rng, shape)
        steps = []
        for k in range(rng.choice([1, 1, 2, 3])):
            r = rng.random()
            ents = G.gen_bad_index(rng, shape) if r < 0.05 else \
                (G.gen_focus_index(rng, shape) if (r < 0.35 and len(shape) >= 1) else G.gen_index(rng, shape))
            ref = ref_getitem(shape, ents)
            steps.append({'index': ents, 'rhs': gen_rhs(rng, t, None if ref == ('err',) else ref[0], k)})
        cases.append({'target': t, 'shared': t['mrep'] == 'arr' and rng.random() < 0.5, 'src': 'random',
                      'via': rng.choice([None, None, None, 'pickle', 'copy']),
                      'steps': steps})
    return cases


# ---------------------------------------------------------------------------
# reference
# ---------------------------------------------------------------------------
def bmap(rshape, out_shape):
    """flat rhs index feeding each (row-major) element of out_shape, or None if not broadcastable"""
    try:
        rn = int(np.prod(rshape))
        return [int(x) for x in np.broadcast_to(np.arange(rn).reshape(rshape), out_shape).ravel()]
    except ValueError:
        return None


def zero_plain(shape, mask, width):
    n = int(np.prod(shape))
    return (list(shape), list(mask), [[0] * width for _ in range(n)])


def set_plain(tp, src, bm, rp):
    shape, mask, vals = tp
    mask, vals = list(mask), list(vals)
    for o, (s, mk) in enumerate(src):
        if not mk:
            mask[s] = bool(rp[1][bm[o]])
            vals[s] = rp[2][bm[o]]
    return (list(shape), mask, vals)


def expect_set(state, shape, ents, rhs):
    """-> ('err', kind) or new state; kind in IndexError / ValueError / ValueError?"""
    ref = ref_getitem(tuple(shape), ents)
    if ref == ('err',):
        return ('err', 'IndexError')
    out_shape, src = ref
    bm = bmap(rhs['main'][0], out_shape)
    if bm is None:
        nothing = all(mk for _, mk in src)
        return ('err', 'ValueError?' if nothing else 'ValueError')
    isz = max(len(v) for v in state['main'][2] + rhs['main'][2] + [[0]])
    new = {'main': set_plain(state['main'], src, bm, rhs['main']), 'derivs': {}}
    for key in sorted(set(state['derivs']) | set(rhs['derivs'])):
        width = isz * int(np.prod(DENOM[key]))
        tp = state['derivs'].get(key) or zero_plain(shape, new['main'][1], width)
        rp = rhs['derivs'].get(key) or zero_plain(rhs['main'][0], rhs['main'][1], width)
        new['derivs'][key] = set_plain(tp, src, bm, rp)
    return new


HIDE_DMASK = False


def hide(o):
    """projection: a derivative that is absent counts as zero carrying the object's mask; a
    derivative that is present shows its own mask state (HIDE_DMASK=True is the weaker historic
    projection that ORs the object's mask in)"""
    shape, mm, vals = o['main']
    isz = max([len(v) for v in vals if v is not None] + [1])
    out = {'main': o['main'], 'derivs': {}}
    for k in sorted(DENOM):
        p = o['derivs'].get(k)
        if p is None:
            p = zero_plain(shape, list(mm) if not HIDE_DMASK else [False] * len(mm), isz * int(np.prod(DENOM[k])))
        out['derivs'][k] = (p[0], ([a or b for a, b in zip(p[1], mm)] if len(p[1]) == len(mm) else p[1]) if HIDE_DMASK else p[1], p[2])
    return out


def same_plain(impl, exp):
    if list(impl[0]) != list(exp[0]) or list(impl[1]) != list(exp[1]):
        return False
    return all(m or list(a) == list(b) for m, a, b in zip(exp[1], impl[2], exp[2]))


def same_obj(impl, exp):
    impl, exp = hide(impl), hide(exp)
    if sorted(impl['derivs']) != sorted(exp['derivs']):
        return False
    return same_plain(impl['main'], exp['main']) and all(same_plain(impl['derivs'][k], exp['derivs'][k])
                                                         for k in exp['derivs'])


def readback_expect(new_state, shape, ents, rhs):
    """for a duplicate-free index: what t[idx] must be after t[idx] = rhs"""
    out_shape, src = ref_getitem(tuple(shape), ents)
    sel = [s for s, mk in src if not mk]
    if len(set(sel)) != len(sel):
        return None
    bm = bmap(rhs['main'][0], out_shape)
    isz = max(len(v) for v in new_state['main'][2] + rhs['main'][2] + [[0]])

    def rb(rp):
        return (list(out_shape), [True if mk else bool(rp[1][bm[o]]) for o, (s, mk) in enumerate(src)],
                [None if mk else rp[2][bm[o]] for o, (s, mk) in enumerate(src)])
    out = {'main': rb(rhs['main']), 'derivs': {}}
    for key in new_state['derivs']:
        width = isz * int(np.prod(DENOM[key]))
        out['derivs'][key] = rb(rhs['derivs'].get(key) or zero_plain(rhs['main'][0], rhs['main'][1], width))
    return out


# ---------------------------------------------------------------------------
# one case
# ---------------------------------------------------------------------------
def coq_state(o, reps):
    keys = sorted(o['derivs'])
    return '(mkobj %s %s)' % (G.coq_plain(o['main'], reps.get(None, 'arr')),
                              clist(['(%d%%nat, %s)' % (G.DKEY_NUM[k], G.coq_plain(o['derivs'][k], reps.get(k, 'arr')))
                                     for k in keys], '(nat * plain V)'))


def coq_oobs(o):
    o = hide(o)
    return '(%s, %s)' % (G.coq_eobs(o['main']), clist([G.coq_eobs(o['derivs'][k]) for k in sorted(DENOM)], 'eobs'))


def run_case(c, Pm):
    t = c['target']
    shape = tuple(t['shape'])
    q = G.build_object(t, Pm)
    via = c.get('via')
    if via and not t.get('ro') and not q.readonly:
        # the target is the result of an earlier public call on an equal object: unpickled, copied, sliced out of a
        # larger copy ... (seeded change C10-H: an unpickled integer object kept a read-only buffer while writable)
        import pickle
        q0 = q
        if via == 'pickle':
            q = pickle.loads(pickle.dumps(q0))
        elif via == 'copy':
            q = q0.copy()
        if G.observe(q) != G.observe(q0):
            q = q0
    other = None
    if c.get('shared') and isinstance(q._mask_, np.ndarray):
        other = Pm.Scalar(np.arange(q.size, dtype=float).reshape(shape) + 7000, q._mask_)
        if other._mask_ is not q._mask_:
            other = None
    other_before = G.observe(other) if other is not None else None
    state = G.observe(q)
    reps = {None: t['mrep']}
    reps.update({k: t['derivs'][k]['mrep'] for k in t['derivs']})
    res = {'fail': None, 'steps': [], 'coq': None}
    coq_steps, coq_out = [], []
    start = coq_state(state, reps)
    for k, st in enumerate(c['steps']):
        rd = st['rhs']
        robs = rhs_obs(rd, Pm)
        exp = expect_set(state, shape, st['index'], robs)
        info = {'expect': exp if isinstance(exp, tuple) else 'ok', 'expected_state': None if isinstance(exp, tuple) else exp}
        rreps = {None: rd['mrep']}
        rreps.update({kk: rd['derivs'][kk]['mrep'] for kk in rd['derivs']})
        coq_steps.append('(%s, %s)' % (G.coq_entries(st['index']), coq_state(robs, rreps)))
        idx_snap = None
        with warnings.catch_warnings():
            warnings.simplefilter('error')
            try:
                idx = G.to_impl(st['index'], Pm)
                idx_snap = G.index_snapshot(idx)
                rhs = build_rhs(rd, Pm)
                rhs_before = G.observe(rhs) if isinstance(rhs, Pm.Qube) else None
                q[idx] = rhs
                info['impl'] = 'ok'
            except Exception as e:      # noqa
                info['impl'] = ('exc',) + lib.exc_family(e)
                rhs_before = None
        after = G.observe(q)
        info['after'] = after
        fail = None
        coq_out.append(cbool(info['impl'] == 'ok'))
        if isinstance(exp, tuple):
            if not same_obj(after, state):
                fail = 'target_changed_on_error'
            elif info['impl'] == 'ok':
                fail = None if exp[1] == 'ValueError?' else 'should_raise'
            elif exp[1] == 'IndexError' and info['impl'][1] != 'IndexError':
                fail = 'wrong_exception'
            elif exp[1] != 'IndexError' and info['impl'][1] not in ('ValueError', 'TypeError'):
                fail = 'wrong_exception'
            new_state = state
        else:
            if info['impl'] != 'ok':
                fail = 'exception'
                if not same_obj(after, state):
                    fail = 'exception_and_changed'
                new_state = state
            else:
                new_state = exp
                if not same_obj(after, exp):
                    fail = 'content' if same_plain(after['main'], exp['main']) is False else 'derivs'
                else:
                    # read back through the same index
                    rb = readback_expect(exp, shape, st['index'], robs)
                    if rb is not None:
                        try:
                            with warnings.catch_warnings():
                                warnings.simplefilter('error')
                                got = G.observe(q[idx])
                            if not same_obj(got, rb):
                                fail = 'readback'
                                info['readback'] = (got, rb)
                        except Exception as e:      # noqa
                            fail = 'readback'
                            info['readback'] = ('exc',) + lib.exc_family(e)
                if rhs_before is not None and not same_obj(G.observe(rhs), rhs_before):
                    fail = fail or 'rhs_changed'
                # the target keeps arrays of its own: a later change of the assigned object (or of whatever it is a
                # view of) must not reach the target (seeded change C10-M: copy() of a shapeless object with array
                # items returned the same arrays)
                if rhs_before is not None and isinstance(rhs._values_, np.ndarray) and isinstance(q._values_, np.ndarray) \
                        and rhs._values_.size and np.shares_memory(q._values_, rhs._values_):
                    fail = fail or 'target_shares_storage_with_assigned_object'
        if other is not None and not same_obj(G.observe(other), other_before):
            fail = fail or 'mask_sharer_changed'
        if idx_snap is not None and G.index_snapshot(idx) != idx_snap:
            fail = fail or 'index_object_modified'     # assigning through an index object must not alter it
        # the public attribute d_d<key> is the derivative held in .derivs (seeded change C10-L: after the first
        # assignment to a target whose derivative was a broadcast view the attribute still named the old object)
        if any(getattr(q, 'd_d' + kk, None) is not dd for kk, dd in q._derivs_.items()):
            fail = fail or 'd_d_attribute_is_not_the_derivative' 
        info['fail'] = fail
        res['steps'].append(info)
        if fail:
            res['fail'] = fail
            res['fail_step'] = k
            res['state_before'] = state
            break
        state = new_state
    # Coq: the sequence as far as executed; observed = per-step acceptance + final state
    nsteps = len(res['steps'])
    isz = int(np.prod(t['item']))
    zeros = clist(['(%d%%nat, %s)' % (G.DKEY_NUM[k], clist(['0'] * (isz * int(np.prod(DENOM[k]))), 'Z'))
                   for k in sorted(DENOM)], '(nat * V)')
    res['coq'] = '(mkcase10 %s %s %s)' % (start, clist(coq_steps[:nsteps], '(list entry * obj V)'), zeros)
    res['coq_obs'] = '(%s, %s)' % (clist(coq_out[:nsteps], 'bool'), coq_oobs(G.observe(q)))
    return res


def signature(c, res):
    t = c['target']
    k = res.get('fail_step', 0)
    st = c['steps'][k]
    info = res['steps'][k]
    sig = {'op': 'setitem', 'fail': res['fail'], 'cls': t['cls'], 'mrep': t['mrep'], 'zero_size': 0 in t['shape'],
           'shapeless': not t['shape'], 'exc': None, 'site': None, 'step': k, 'rhs_form': st['rhs']['form'],
           'rhs_rank_gt_target': len(st['rhs']['shape']) > len(t['shape']),
           'expect': info['expect'] if isinstance(info['expect'], str) else info['expect'][1]}
    if isinstance(info.get('impl'), tuple):
        sig['exc'], sig['site'] = info['impl'][1], info['impl'][2]
    sig.update(G.features(t['shape'], st['index']))
    if not t['shape']:
        sig['shapeless_form'] = True
    sig['item_rank'] = len(t['item'])
    sig['rhs_rank'] = len(st['rhs']['shape'])
    return sig


def nontrivial(c):
    for st in c['steps']:
        f = G.features(c['target']['shape'], st['index'])
        if f['n_arr'] > 0 or f['masked_entry']:
            return True
    return len(c['steps']) > 1


def slim(c):
    s = json.dumps(c, default=str)
    return c if len(s) < 1200 else {'shape': c['target']['shape'], 'cls': c['target']['cls'], 'nsteps': len(c['steps'])}


def run(ctx):
    Pm = P()
    ctx.rule = ('every index tuple of <= 2 entries from the C09 entry pool on fixed shapes with one generated '
                'right-hand side each + seeded sample: 20 leading shapes, 9 class/item combinations, 3 mask '
                'representations, 0-2 derivatives on either side, mask array shared with a second object in half '
                'of the array-mask cases, sequences of 1-3 assignments, right-hand sides number/ndarray/object, '
                'broadcastable (several ways) or not, 5%% malformed indices; non-trivial = array or masked entry, '
                'or a sequence')
    ctx.assumptions = ['a derivative shows its own mask state; its elements are compared where it is unmasked; an absent derivative counts as zero carrying the mask of the object',
                       'a non-broadcastable right-hand side may be accepted silently when no element is selected',
                       'values are identifier tags; derivative denominators agree per key']
    if ctx.ensure_library():
        ctx.prove(['theories/Props/C10.v'])
        ctx.loops_obligations()        # regenerated from the current source: see coq/obl/Lp_C10.v
    cases = gen_cases(ctx.rng, ctx.tier)
    ctx.log('%d cases' % len(cases))
    terms, idx, bad = [], [], []
    for i, c in enumerate(cases):
        res = run_case(c, Pm)
        ctx.note_case(slim(c), nontrivial(c))
        ctx.count('src:' + c['src'])
        ctx.count('cls:' + c['target']['cls'])
        ctx.count('mrep:' + c['target']['mrep'])
        ctx.count('nsteps:%d' % len(c['steps']))
        ctx.count('shared_mask:%s' % bool(c.get('shared')))
        for st, info in zip(c['steps'], res['steps']):
            ctx.count('rhs:' + st['rhs']['form'])
            ctx.count('expect:' + (info['expect'] if isinstance(info['expect'], str) else info['expect'][1]))
            ctx.count('derivkeys:%s' % ('none' if not (c['target']['derivs'] or st['rhs']['derivs']) else
                                        'same' if sorted(c['target']['derivs']) == sorted(st['rhs']['derivs']) else 'differ'))
        if res['fail']:
            bad.append((i, c, res))
        if res['coq'] is not None:
            terms.append('(%s, %s)' % (res['coq'], res['coq_obs']))
            idx.append(i)
    ctx.traces = len(terms)
    badset = set()
    for i, c, res in bad:
        badset.add(i)
        k = res['fail_step']
        ctx.fail(signature(c, res), c, {'step': k, 'impl': res['steps'][k].get('impl'),
                                        'after': res['steps'][k]['after'], 'expected': res['steps'][k]['expected_state'] or res['steps'][k]['expect'],
                                        'readback': res['steps'][k].get('readback')}, tie='spec-vs-impl')
    mism = ctx.coq_eval_shards('cases', HEADER, terms, lambda x: 'mismatches10 %s' % x, shard=200)
    if mism:
        unexplained = [j for j in mism if idx[j] not in badset]
        if unexplained:
            c = cases[idx[unexplained[0]]]
            res = run_case(c, Pm)
            shown = ctx.coq_show(HEADER, 'run10 %s' % res['coq'])
            ctx.broken_tie('correspondence', 'spec-vs-impl-unexplained',
                           {'n_mismatch': len(unexplained), 'first_case': c,
                            'impl': [s.get('impl') for s in res['steps']], 'impl_obs': res['coq_obs'], 'model': shown})
    if mism is not None:
        mset = set(idx[j] for j in mism)
        weak = ('readback', 'rhs_changed', 'mask_sharer_changed', 'wrong_exception', 'should_raise')
        missed = [i for i, c, res in bad if i not in mset and res['fail'] not in weak]
        if missed:
            ctx.broken_tie('correspondence', 'python-reference-vs-coq-spec',
                           {'n': len(missed), 'first_case': cases[missed[0]]})
    ctx.cov['correspondence_mismatches'] = len(mism or [])
    ctx.exhaustive = True
    return ctx.finish()


def replay(path):
    Pm = P()
    d = json.load(open(path))
    if 'case' not in d:
        print(json.dumps(d, indent=1)[:3000])
        return 1
    res = run_case(d['case'], Pm)
    print('case      :', json.dumps(d['case']))
    for k, info in enumerate(res['steps']):
        print('step %d impl     :' % k, info.get('impl'))
        print('step %d after    :' % k, info['after'])
        print('step %d expected :' % k, info['expect'] if isinstance(info['expect'], tuple) else 'assignment accepted')
        if info.get('readback'):
            print('step %d readback :' % k, info['readback'])
    print('property holds on this case' if not res['fail'] else 'property FAILS on this case (%s)' % res['fail'])
    return 1 if res['fail'] else 0
