"""C01 - masks propagate exactly through arithmetic: masked in, masked out, nothing more.

Stages: prove Props/C01.v; generate cases over (operation x operand classes x
leading-shape pairs x 6x6 mask representations x boundary values); run the
implementation; compare its mask with (a) the Python reference
  mask(r) = OR of the operand masks at the elements that broadcast onto r, OR undefined(r)
(direct oracle) and (b) the Coq model evaluated by vm_compute (correspondence)."""
import json

from . import lib
from . import c01_common as cm

PROP = 'C01'


def pick_shapes(rng, arity, o, bad=0.03):
    if arity == 1:
        return [rng.choice(cm.SHAPES)]
    if arity == 2:
        if rng.random() < bad:
            return list(rng.choice(cm.BAD_PAIRS))
        return list(rng.choice(cm.BPAIRS))
    while True:
        t = [rng.choice(cm.SHAPES) for _ in range(3)]
        if cm.bshape(*t) is not None:
            return t


def gen_case(rng, name, ops, classes=None, shapes=None, reps=None, deriv=False, special=0.3):
    o = ops[name]
    classes = classes or rng.choice(o['cls'])
    arity = len(classes)
    shapes = shapes or pick_shapes(rng, arity, o)
    if o.get('inplace') and rng.random() < 0.85 and cm.bshape(*shapes) is not None:
        shapes = [cm.bshape(*shapes)] + list(shapes[1:])      # mostly legal in-place shapes
    reps = reps or [rng.choice(cm.MREPS) for _ in classes]
    kinds = list(o.get('kinds') or [None] * arity)
    opnds = []
    for k, cls in enumerate(classes):
        kind = kinds[k] if k < len(kinds) else None
        if o.get('samekind') and k > 0:
            kind = opnds[0]['kind'] if opnds[0]['kind'] != 'bool' else None
        if cls == 'number':
            d = cm.gen_number(rng, kind or o.get('numkind'), o.get('numpool'))
            if o.get('numkind') == 'int' or (o.get('samekind') and opnds[0]['kind'] == 'int'):
                d['kind'] = 'int'
                d['vals'] = [[int(d['vals'][0][0])]] if float(d['vals'][0][0]).is_integer() else [[1]]
            elif isinstance(d['vals'][0][0], float) and not float(d['vals'][0][0]).is_integer():
                d['kind'] = 'float'
        elif cls == 'ndarray':
            d = cm.gen_ndarray(rng, tuple(shapes[k]), () if o.get('arr_scalar') else cm.ITEM[classes[0]], kind)
        else:
            d = cm.gen_operand(rng, cls, tuple(shapes[k]), kind, reps[k], deriv=deriv, special=special)
        opnds.append(d)
    if classes[0] in ('Matrix3',) and name in ('neg',):
        pass
    return {'op': name, 'operands': opnds}


def gen_alias_case(rng, name, ops, classes):
    """both operands are overlapping views of ONE parent object: operand 0 = parent[:-1],
    operand 1 = parent[1:] (their mask arrays share memory without being the same object)"""
    n = rng.choice([2, 3, 4])
    c = gen_case(rng, name, ops, classes, [(n,), (n,)], ['mix', 'mix'])
    a, b = c['operands']
    if a['cls'] != b['cls'] or a['kind'] != b['kind'] or isinstance(a['mask'], bool) or isinstance(b['mask'], bool):
        return None
    extra = b['vals'][-1]
    b['vals'] = [list(v) for v in a['vals'][1:]] + [extra]
    b['mask'] = list(a['mask'][1:]) + [b['mask'][-1]]
    a['mrep'] = b['mrep'] = 'mix'
    c['alias'] = 'views'
    return c


def corpus_cases():
    """hand-written regression cases (earlier defects of this family)"""
    S = lambda v, m, shape=(): {'cls': 'Scalar', 'shape': list(shape), 'kind': 'float',      # noqa: E731
                                'vals': [[x] for x in v], 'mask': m, 'mrep': 'T' if m is True else 'F'}
    B = lambda v, m: {'cls': 'Boolean', 'shape': [], 'kind': 'bool', 'vals': [[v]], 'mask': m,   # noqa: E731
                      'mrep': 'T' if m else 'F'}
    N = lambda v: {'cls': 'number', 'shape': [], 'kind': 'float' if isinstance(v, float) else 'int',  # noqa: E731
                   'vals': [[v]], 'mask': False, 'mrep': 'F'}
    out = [
        {'op': 'add_num', 'operands': [B(True, True), N(1)]},
        {'op': 'pow', 'operands': [S([2.], True), S([2.], False)]},
        {'op': 'pow', 'operands': [S([2.], False), S([1.5], True)]},
        {'op': 'pow_num', 'operands': [S([2.], True), N(1.5)]},
        {'op': 'x_rotation', 'operands': [S([0.5], True)]},
        {'op': 'z_rotation', 'operands': [S([0.5, 1.], [True, False], (2,))]},
        {'op': 'pole_rotation', 'operands': [S([0.5, 1.], [True, False], (2,)), S([1.], False)]},
        {'op': 'mpow', 'operands': [{'cls': 'Matrix', 'shape': [], 'kind': 'float', 'vals': [[1., 2., 2., 4.]],
                                     'mask': False, 'mrep': 'F'}, N(-1)]},
        {'op': 'to_matrix3', 'operands': [{'cls': 'Quaternion', 'shape': [], 'kind': 'float',
                                           'vals': [[0., 0., 0., 0.]], 'mask': False, 'mrep': 'F'}]},
    ]
    return out


def gen_cases(rng, tier, ops):
    cases = corpus_cases()
    names = sorted(n for n, o in ops.items() if not o.get('fast'))
    if tier == 'quick':
        # small exhaustive core: every operation x every class tuple x the 6x6 mask representations
        # on one broadcasting shape pair
        for n in names:
            for classes in ops[n]['cls']:
                sh = {1: [(2,)], 2: [(2, 1), (2, 3)], 3: [(2,), (), (2,)]}[len(classes)]
                if ops[n].get('inplace'):
                    sh = [(2, 3), (2, 1)][:len(classes)]
                cases.append(gen_case(rng, n, ops, classes, [tuple(s) for s in sh]))
                if len(classes) == 2 and not ops[n].get('inplace'):
                    # a shapeless operand next to one with axes, the shapeless one masked as a whole; several draws
                    # of the numbers where undefinedness depends on them
                    for _rep in range(6 if n in cm.RESTRICTED else 1):
                        cases.append(gen_case(rng, n, ops, classes, [(3,), ()], ['F', 'T']))
                        cases.append(gen_case(rng, n, ops, classes, [(), (3,)], ['T', 'mix']))
        for _ in range(12000):
            cases.append(gen_case(rng, rng.choice(names), ops))
        cases.extend(alias_cases(rng, ops, names, 2))
        return cases
    # thorough: per (operation, class tuple): every leading-shape pair with seeded mask representations,
    # and every pair of mask representations on four shape pairs
    rep_pairs = [((2,), (2,)), ((2, 1), (2, 3)), ((), (3,)), ((3,), ())]
    for n in names:
        o = ops[n]
        for classes in o['cls']:
            ar = len(classes)
            if ar == 1:
                for s in cm.SHAPES:
                    for r in cm.MREPS:
                        cases.append(gen_case(rng, n, ops, classes, [s], [r]))
            elif ar == 2:
                for (sa, sb) in cm.BPAIRS:
                    if o.get('inplace') and cm.bshape(sa, sb) != tuple(sa) and rng.random() < 0.8:
                        continue
                    for ra in cm.MREPS:
                        cases.append(gen_case(rng, n, ops, classes, [sa, sb], [ra, rng.choice(cm.MREPS)]))
                for (sa, sb) in rep_pairs:
                    if o.get('inplace') and cm.bshape(sa, sb) != tuple(sa):
                        continue
                    for ra in cm.MREPS:
                        for rb in cm.MREPS:
                            cases.append(gen_case(rng, n, ops, classes, [sa, sb], [ra, rb]))
                for (sa, sb) in cm.BAD_PAIRS[::4]:
                    cases.append(gen_case(rng, n, ops, classes, [sa, sb]))
            else:
                for _ in range(300):
                    cases.append(gen_case(rng, n, ops, classes))
    cases.extend(alias_cases(rng, ops, names, 12))
    return cases


def alias_cases(rng, ops, names, per):
    out = []
    for n in names:
        o = ops[n]
        for classes in o['cls']:
            if len(classes) == 2 and classes[0] == classes[1] and classes[0] not in ('number', 'ndarray', 'marray') \
                    and not o.get('inplace'):
                for _ in range(per):
                    c = gen_alias_case(rng, n, ops, classes)
                    if c is not None:
                        out.append(c)
    return out


def nontrivial(case, ref):
    return ref[0] == 'ok' and any(ref[2]) and not all(ref[2])


def run(ctx, prop=PROP, check_values=False, gen=None, rule=None, extra=None):
    Pm = cm.P()
    ops = cm.build_ops(Pm)
    ctx.rule = rule or (
        'operations (%d incl. reflected, in-place, number/ndarray operand forms, Boolean operands, products, '
        'rotation constructors) x operand class tuples x leading-shape pairs from the 10-shape pool (incl. (), '
        'zero-length axes, incompatible pairs) x 6x6 mask representations x boundary value pools; quick = '
        'corpus + one case per (operation, class tuple) + 12000 seeded samples; thorough = every shape pair x '
        '6 representations and 36 representation pairs on 4 shape pairs per (operation, class tuple); '
        'non-trivial = result partially masked' % len(ops))
    ctx.assumptions = [
        'values are multiples of 1/2 in [-2, 3] so that every domain test is exact; overflow, NaN operands and '
        'subnormal effects are outside the case space',
        'LAPACK det of the generated singular matrices is exactly 0 (they are integer matrices of rank < n)',
        'the Coq model computes masks only; numeric results are not compared here']
    if ctx.ensure_library():
        ctx.prove(['theories/Props/%s.v' % prop])
        if prop == 'C01':
            ctx.logic_obligations()        # regenerated from the current source: see coq/obl/Lgc_C01.v
    if extra is not None:
        extra(ctx)
    cases = (gen or gen_cases)(ctx.rng, ctx.tier, ops)
    terms, idx, bad, nsig = [], [], set(), {}
    for i, c in enumerate(cases):
        ref = cm.ref_mask(c, ops)
        impl = cm.run_impl(c, Pm, ops)
        small = c if len(str(c)) < 700 else {'op': c['op'], 'classes': [d['cls'] for d in c['operands']],
                                             'shapes': [d['shape'] for d in c['operands']]}
        ctx.note_case(small, nontrivial(c, ref))
        ctx.count('op:' + c['op'])
        ctx.count('classes:' + '/'.join(d['cls'] for d in c['operands']))
        ctx.count('mreps:' + '/'.join(d['mrep'] for d in c['operands'] if d['cls'] not in ('number', 'ndarray')))
        ctx.count('shapes:' + '/'.join(str(tuple(d['shape'])) for d in c['operands']))
        ctx.count('outcome:' + (impl['exc'][0] if impl['kind'] in ('exc', 'warning', 'build-exc') else impl['kind']))
        if ref[0] == 'ok':
            ctx.count('undefined_elements', sum(ref[3]))
            ctx.count('masked_result_elements', sum(ref[2]))
        tags = cm.judge(c, impl, ref, ops, check_values)
        if tags:
            bad.add(i)
            sig = cm.signature(c, impl, tags)
            known = lib.finding_for(ctx.prop, sig, ctx.findings) is not None
            key = (sig['op'], sig['fail'])
            nsig[key] = nsig.get(key, 0) + (0 if known else 1)
            if known or nsig[key] <= 2:     # at most two replay files per (operation, failure kind)
                ctx.fail(sig, c, {'impl': impl, 'reference': ref, 'failed': tags})
            ctx.count('failing_cases')
        t = cm.coq_case(c, ops)
        if t is not None and impl['kind'] != 'build-exc':
            terms.append('(%s, %s)' % (t, cm.coq_obs(impl)))
            idx.append(i)
    kern_terms = kernel_terms() if check_values else []
    nk = len(terms)
    terms += kern_terms
    ctx.traces = len(terms)
    mism = ctx.coq_eval_shards('cases', cm.HEADER, terms, lambda x: 'mismatches %s' % x, shard=250)
    if mism:
        unexplained = []
        for j in mism:
            if j < nk and idx[j] in bad:
                ctx.concrete_found.add('model-vs-impl')
            else:
                unexplained.append(j)
        if unexplained:
            j = unexplained[0]
            if j < nk:
                c = cases[idx[j]]
                shown = ctx.coq_show(cm.HEADER, 'run01 %s' % cm.coq_case(c, ops))
                detail = {'n_mismatch': len(unexplained), 'first_case': c, 'impl': cm.run_impl(c, Pm, ops),
                          'model': shown}
            else:
                detail = {'n_mismatch': len(unexplained), 'kernel_case': terms[j]}
            # a distinct name: explained mismatches must never hide unexplained ones in finish()
            ctx.broken_tie('correspondence', 'model-vs-impl-unexplained', detail)
    ctx.cov['correspondence_mismatches'] = len(mism or [])
    ctx.cov['kernel_class_observations'] = len(kern_terms)
    ctx.exhaustive = (ctx.tier == 'thorough')
    return ctx.finish()


def kernel_terms():
    return []


def replay(path, check_values=False):
    Pm = cm.P()
    ops = cm.build_ops(Pm)
    d = json.load(open(path))
    if 'case' not in d:
        print(json.dumps(d, indent=1)[:3000])
        return 1
    c = d['case']
    ref = cm.ref_mask(c, ops)
    impl = cm.run_impl(c, Pm, ops)
    tags = cm.judge(c, impl, ref, ops, check_values)
    print('case      :', json.dumps(c))
    print('impl      :', impl)
    print('reference :', ref[:3])
    print('property holds on this case' if not tags else 'property FAILS on this case: %s' % tags)
    return 0 if not tags else 1
