"""C18 - cached views never go stale.

Part A (model alphabet): histories of queries and mutators on small integer Scalars; the
implementation's answers and the set of cache keys present after every step are compared
with the Coq machine (correspondence) - this ties "which mutator clears what" to the code.
Part B (wide alphabet, every class): the direct oracle of the property - the same history
with the cache enabled and disabled must give the same answers, and every cached entry must
equal what is recomputed from the current arrays after every step."""
import itertools
import warnings

import numpy as np

from . import lib
from .lib import cbool, cnat, cZ, clist, copt

HEADER = 'From Coq Require Import List ZArith Bool.\nFrom PM Require Import C18Model.\nImport ListNotations.\n'


def P():
    lib.setup_impl_path()
    import polymath
    return polymath


# ---------------------------------------------------------------------------
# Part A: model alphabet
# ---------------------------------------------------------------------------
def model_alphabet(n):
    ops = [('QAnti',), ('QCorn',), ('QWod',)]
    if n is not None:
        ops.append(('QSlic',))
        ops += [('MSetInt', 0, 9, False), ('MSetInt', n - 1, 8, True), ('MSetInt', n, 1, False)]
        ops += [('MAddObj', [1] * n, [False] + [True] * (n - 1)), ('MAddObj', [2] * n, [False] * n)]
    else:
        ops += [('MAddObj', [1], [True]), ('MAddObj', [2], [False])]
    ops += [('MSetAll', 7, False), ('MSetAll', 5, True), ('MAddNum', 1), ('MMulNum', 2),
            ('MInsDeriv', 0, [3] * (n or 1)), ('MInsDeriv', 1, list(range(1, (n or 1) + 1))),
            ('MDelDeriv', 0), ('MDelDerivs',), ('MSetUnits', 0), ('MSetUnits', None), ('MReadonly',)]
    return ops


INITS = [
    {'n': 3, 'vals': [1, 2, 3], 'mask': [False, True, False], 'mrep': 'arr', 'derivs': {}, 'units': None},
    {'n': 3, 'vals': [4, 5, 6], 'mask': [False, False, False], 'mrep': 'F', 'derivs': {0: [1, 1, 1]}, 'units': None},
    {'n': 2, 'vals': [4, 5], 'mask': [True, True], 'mrep': 'T', 'derivs': {}, 'units': 0},
    {'n': None, 'vals': [7], 'mask': [False], 'mrep': 'F', 'derivs': {1: [2]}, 'units': None},
    {'n': None, 'vals': [7], 'mask': [True], 'mrep': 'T', 'derivs': {}, 'units': None},
    {'n': 4, 'vals': [0, 1, 2, 3], 'mask': [True, False, False, True], 'mrep': 'arr', 'derivs': {0: [1, 2, 3, 4], 1: [0, 0, 0, 1]}, 'units': None},
]


def build(init, Pm):
    n = init['n']
    if n is None:
        x = Pm.Scalar(init['vals'][0], init['mask'][0])
    else:
        rep = init['mrep']
        mask = {'F': False, 'T': True}.get(rep)
        if mask is None:
            mask = np.array(init['mask'], bool)
        x = Pm.Scalar(np.array(init['vals'], dtype=int), mask)
    for k, d in sorted(init['derivs'].items()):
        dv = float(d[0]) if n is None else np.array(d, dtype=float)
        x.insert_deriv('k%d' % k, Pm.Scalar(dv))
    if init['units'] is not None:
        x.set_units(Pm.Units.KM)
    x._cache_.clear()
    return x


def exp_mask(x):
    return [bool(b) for b in np.broadcast_to(np.asarray(x._mask_), x.shape).ravel()]


def exp_vals(x):
    return [int(round(float(v))) for v in np.broadcast_to(np.asarray(x._values_), x.shape).ravel()]


def corners_of(c):
    if c is None:
        return None
    return (int(c[0][0]), int(c[1][0]))


def apply_op(x, op, Pm):
    """-> answer tuple"""
    k = op[0]
    try:
        if k == 'QAnti':
            a = x.antimask
            return ('bools', [bool(b) for b in np.broadcast_to(np.asarray(a), x.shape).ravel()])
        if k == 'QCorn':
            return ('corn', corners_of(x.corners))
        if k == 'QSlic':
            s = x._slicer
            return ('corn', (int(s[0].start), int(s[0].stop)))
        if k == 'QWod':
            w = x.wod
            if w is x:
                return ('self',)
            return ('wod', exp_vals(w), exp_mask(w), None if w.units is None else 0, bool(w.readonly),
                    sorted(w.derivs.keys()))
        if k == 'MSetInt':
            x[op[1]] = Pm.Scalar(op[2], op[3])
        elif k == 'MSetAll':
            x[...] = Pm.Scalar(op[1], op[2])
        elif k == 'MAddNum':
            x += op[1]
        elif k == 'MMulNum':
            x *= op[1]
        elif k == 'MAddObj':
            if x.shape == ():
                x += Pm.Scalar(op[1][0], op[2][0])
            else:
                x += Pm.Scalar(np.array(op[1], dtype=int), np.array(op[2], bool))
        elif k == 'MInsDeriv':
            d = float(op[2][0]) if x.shape == () else np.array(op[2], dtype=float)
            x.insert_deriv('k%d' % op[1], Pm.Scalar(d))
        elif k == 'MDelDeriv':
            x.delete_deriv('k%d' % op[1])
        elif k == 'MDelDerivs':
            x.delete_derivs()
        elif k == 'MSetUnits':
            x.set_units(None if op[1] is None else Pm.Units.KM)
        elif k == 'MReadonly':
            x.as_readonly()
        else:
            raise RuntimeError(k)
        return ('ok',)
    except (ValueError, TypeError, IndexError) as e:
        return ('err', type(e).__name__)
    except Exception as e:
        name, site = lib.exc_family(e)
        return ('exc', name, site)


def keys_of(x):
    c = x._cache_
    return [k in c for k in ('antimask', 'corners', 'slicer', 'wod')]


def recompute_check(x, Pm):
    """white box: every cached entry equals what is recomputed from the current fields"""
    bad = []
    c = x._cache_
    if 'antimask' in c:
        if not np.array_equal(np.broadcast_to(np.asarray(c['antimask']), x.shape),
                              np.logical_not(np.broadcast_to(np.asarray(x._mask_), x.shape))):
            bad.append('antimask')
    if 'corners' in c and x.shape:
        if c['corners'] != x._find_corners() and corners_of(c['corners']) != corners_of(x._find_corners()):
            bad.append('corners')
    if 'slicer' in c and x.shape:
        cc = x._find_corners()
        if (c['slicer'][0].start, c['slicer'][0].stop) != (cc[0][0], cc[1][0]):
            bad.append('slicer')
    if 'wod' in c:
        w = c['wod']
        ok = (list(w.shape) == list(x.shape) and exp_mask(w) == exp_mask(x) and not w.derivs
              and w.units == x.units and w.readonly == x.readonly
              and all(m or a == b for a, b, m in zip(
                  np.broadcast_to(np.asarray(w._values_), x.shape + x.item).reshape(len(exp_mask(x)), -1).tolist() if x.size else [],
                  np.broadcast_to(np.asarray(x._values_), x.shape + x.item).reshape(len(exp_mask(x)), -1).tolist() if x.size else [],
                  exp_mask(x))))
        if not ok:
            bad.append('wod')
    return bad


def run_history(init, ops, Pm, disable_cache=False):
    old = Pm.Qube.DISABLE_CACHE
    Pm.Qube.DISABLE_CACHE = disable_cache
    try:
        x = build(init, Pm)
        out = []
        stale = []
        for i, op in enumerate(ops):
            a = apply_op(x, op, Pm)
            out.append((a, keys_of(x)))
            if not disable_cache:
                b = recompute_check(x, Pm)
                if b:
                    stale.append((i, b))
        final = (exp_vals(x), exp_mask(x), sorted(x.derivs.keys()), x.units is not None, bool(x.readonly))
        return out, stale, final
    finally:
        Pm.Qube.DISABLE_CACHE = old


def coq_op(op):
    k = op[0]
    if k in ('QAnti', 'QCorn', 'QSlic', 'QWod', 'MDelDerivs', 'MReadonly'):
        return k
    if k == 'MSetInt':
        return '(MSetInt %s %s %s)' % (cnat(op[1]), cZ(op[2]), cbool(op[3]))
    if k == 'MSetAll':
        return '(MSetAll %s %s)' % (cZ(op[1]), cbool(op[2]))
    if k in ('MAddNum', 'MMulNum'):
        return '(%s %s)' % (k, cZ(op[1]))
    if k == 'MAddObj':
        return '(MAddObj %s %s)' % (clist([cZ(v) for v in op[1]], 'Z'), clist([cbool(b) for b in op[2]], 'bool'))
    if k == 'MInsDeriv':
        return '(MInsDeriv %s %s)' % (cnat(op[1]), clist([cZ(v) for v in op[2]], 'Z'))
    if k == 'MDelDeriv':
        return '(MDelDeriv %s)' % cnat(op[1])
    if k == 'MSetUnits':
        return '(MSetUnits %s)' % copt(None if op[1] is None else cnat(op[1]), 'nat')
    raise ValueError(k)


def coq_ans(a):
    if a[0] == 'bools':
        return '(ABools %s)' % clist([cbool(b) for b in a[1]], 'bool')
    if a[0] == 'corn':
        return '(ACorn %s)' % copt(None if a[1] is None else '(%s, %s)' % (cnat(a[1][0]), cnat(a[1][1])), '(nat*nat)')
    if a[0] == 'wod':
        return '(AWod (mkw %s %s %s %s))' % (clist([cZ(v) for v in a[1]], 'Z'), clist([cbool(b) for b in a[2]], 'bool'),
                                             copt(None if a[3] is None else cnat(a[3]), 'nat'), cbool(a[4]))
    if a[0] == 'self':
        return 'ASelf'
    if a[0] == 'ok':
        return 'AOk'
    return 'AErr'


def coq_case(init, ops, trace):
    d = clist(['(%s, %s)' % (cnat(k), clist([cZ(v) for v in vs], 'Z')) for k, vs in sorted(init['derivs'].items(), reverse=True)],
              '(nat * list Z)')
    o = '(mk_obj %s %s %s %s %s %s false)' % (cbool(init['n'] is not None), clist([cZ(v) for v in init['vals']], 'Z'),
                                           clist([cbool(b) for b in init['mask']], 'bool'),
                                           cbool(init['mrep'] == 'arr' and init['n'] is not None), d,
                                           copt(None if init['units'] is None else cnat(0), 'nat'))
    t = clist(['(%s, %s)' % (coq_ans(a), clist([cbool(b) for b in ks], 'bool')) for a, ks in trace],
              '(ans * list bool)')
    return '((%s, %s), %s)' % (o, clist([coq_op(p) for p in ops], 'op'), t)


def gen_model_histories(rng, tier):
    out = []
    depth = 2 if tier == 'quick' else 3
    for init in INITS:
        alpha = model_alphabet(init['n'])
        for h in itertools.product(alpha, repeat=depth):
            out.append((init, list(h)))
    # the property's depth-4 bound: every history query-mutator-query-query / m-q-m-q shapes
    if tier == 'thorough':
        for init in INITS[:2]:
            alpha = model_alphabet(init['n'])
            for h in itertools.product(alpha, repeat=4):
                out.append((init, list(h)))
    nrand = 600 if tier == 'quick' else 4000
    for _ in range(nrand):
        init = rng.choice(INITS)
        alpha = model_alphabet(init['n'])
        L = rng.randrange(4, 31)
        out.append((init, [rng.choice(alpha) for _ in range(L)]))
    return out


# ---------------------------------------------------------------------------
# Part B: wide alphabet, oracle only
# ---------------------------------------------------------------------------
def wide_objects(Pm):
    A = np.array
    def S(v, m=False):
        return Pm.Scalar(A(v, dtype=float), A(m) if not isinstance(m, bool) else m)
    objs = {
        'scalar_f': lambda: S([1., 2., 0., 4.], [False, True, False, False]),
        'scalar_2d': lambda: Pm.Scalar(np.arange(6.).reshape(2, 3), A([[True, False, False], [True, False, True]])),
        'bool': lambda: Pm.Boolean(A([True, False, True]), A([False, False, True])),
        'vector': lambda: Pm.Vector(np.arange(6.).reshape(2, 3), A([False, True])),
        'pair_d': lambda: _with_deriv(Pm.Pair(np.arange(6.).reshape(3, 2), A([False, True, False])), Pm),
        'scalar0_d': lambda: _with_deriv(Pm.Scalar(2.5), Pm),
        'matrix': lambda: Pm.Matrix(np.arange(8.).reshape(2, 2, 2) + 1., A([False, True])),
        # objects that are the result of shrink(): their cache holds the un-shrunk original (seeded change C18-B)
        'shrunk': lambda: S([1., 2., 0., 4.], [False, True, False, False]).shrink(A(SHRUNK_AM)),
        'shrunk_d': lambda: _with_deriv(S([1., 2., 0., 4.], [False, False, False, True]), Pm).shrink(A(SHRUNK_AM)),
        # ... whose derivative is masked at an element of its own
        'shrunk_dm': lambda: _with_masked_deriv(S([1., 2., 0., 4.], [False, False, True, False]), Pm).shrink(A(SHRUNK_AM)),
        # ... with units: a unit-less copy must not un-shrink to the original WITH units (seeded change C18-F)
        'shrunk_u': lambda: Pm.Scalar(A([1., 2., 0., 4.]), A([False, True, False, False]), units=Pm.Units.KM).shrink(A(SHRUNK_AM)),
        # a Polynomial made by the quick conversion from a Vector shares that Vector's arrays; each must keep a cache of
        # its own (seeded change C18-E: queries on the partner re-filled a shared cache dictionary)
        'poly_alias': lambda: _poly_alias(Pm),
    }
    return objs


def _poly_alias(Pm):
    v = Pm.Vector(np.arange(9.).reshape(3, 3) + 1., np.array([False, True, False]))
    p = Pm.Polynomial(v)
    p.__dict__['_c18_partner'] = v
    return p


SHRUNK_AM = [True, False, True, True]


def _with_deriv(x, Pm):
    x.insert_deriv('t', x.wod * 0.5)
    return x


def _with_masked_deriv(x, Pm):
    x.insert_deriv('t', Pm.Scalar(np.arange(4.) + 10., np.array([True, False, False, True])))
    return x


def _wide_am(x):
    base = (np.arange(int(np.prod(x.shape))).reshape(x.shape) % 3 != 1)
    return np.stack([base, np.logical_not(base)])


def wide_alphabet(name, Pm):
    A = np.array
    q = [('q', 'antimask', lambda x: x.antimask), ('q', 'corners', lambda x: x.corners),
         ('q', 'wod', lambda x: x.wod), ('q', 'mask', lambda x: x.mask),
         ('q', 'shrink', lambda x: x.shrink(x.antimask) if x.shape else x),
         ('q', 'count', lambda x: int(np.sum(np.broadcast_to(x.mask, x.shape)))),
         ('q', 'str', lambda x: str(x)),
         # an antimask with one more axis than the object (shrink broadcasts the object first) and the way back:
         # the cached un-shrunk original must be the broadcast object (seeded change C18-H)
         ('q', 'shrink_wide_rt', lambda x: x.shrink(_wide_am(x)).unshrink(_wide_am(x)).copy() if x.shape else x),
         ('q', 'shrink_wide', lambda x: x.shrink(_wide_am(x)).copy() if x.shape else x)]
    if name in ('scalar_f', 'scalar_2d', 'shrunk', 'shrunk_u'):
        # pure queries in which the object is the SECOND operand of an element-wise selection: they read its cached
        # antimask and must not write into it (seeded change C18-L: maximum / minimum merged masks in place)
        q += [('q', 'maximum_as_second', lambda x: Pm.Scalar.maximum(Pm.Scalar(np.full(x.shape, 1.5)), x.without_units())),
              ('q', 'minimum_as_second', lambda x: Pm.Scalar.minimum(Pm.Scalar(np.full(x.shape, 1.5)), x.without_units())),
              ('q', 'maximum_as_third', lambda x: Pm.Scalar.maximum(Pm.Scalar(np.full(x.shape, 1.5)), Pm.Scalar(np.full(x.shape, 0.5)), x.without_units()))]
    if name == 'poly_alias':
        q += [('q', 'partner_antimask', lambda x: x.__dict__['_c18_partner'].antimask),
              ('q', 'partner_corners', lambda x: x.__dict__['_c18_partner'].corners),
              ('q', 'partner_wod', lambda x: x.__dict__['_c18_partner'].wod.mask)]
    if name == 'shrunk_u':
        q += [('q', 'unshrink_without_units', lambda x: x.without_units().unshrink(A(SHRUNK_AM)).copy()),
              ('q', 'unshrink_clone', lambda x: x.clone().unshrink(A(SHRUNK_AM)).copy())]
    if name.startswith('shrunk'):
        # the property asks that the un-shrunk original reflect current values, mask and derivatives; whether it
        # is the (writable) source object itself or a rebuilt read-only one is not part of that: compare a copy
        q += [('q', 'unshrink', lambda x: x.unshrink(A(SHRUNK_AM)).copy()),
              ('q', 'unshrink_wod', lambda x: x.wod.unshrink(A(SHRUNK_AM)).copy())]
    def setitem(idx, val):
        def f(x):
            x[idx] = val
        return f
    def inplace(opname, arg):
        def f(x):
            return getattr(x, opname)(arg)
        return f
    m = []
    if name == 'bool':
        other = lambda: Pm.Boolean(A([True, True, False]), A([False, True, False]))
        m += [('m', 'iand', lambda x: x.__iand__(other())), ('m', 'ior', lambda x: x.__ior__(other())),
              ('m', 'ixor', lambda x: x.__ixor__(other())), ('m', 'set0', setitem(0, Pm.Boolean(False, True))),
              ('m', 'setmask', setitem(A([True, False, True]), Pm.Boolean(True)))]
    else:
        m += [('m', 'iadd_num', inplace('__iadd__', 1.)), ('m', 'isub_num', inplace('__isub__', 1.)),
              ('m', 'imul_num', inplace('__imul__', 2.)), ('m', 'idiv_num', inplace('__itruediv__', 2.)),
              ('m', 'idiv_zero', inplace('__itruediv__', 0.)),
              ('m', 'imul_masked', lambda x: x.__imul__(Pm.Scalar(2., True))),
              ('m', 'idiv_scalar0', lambda x: x.__itruediv__(Pm.Scalar(0.))),
              ('m', 'ifloordiv', inplace('__ifloordiv__', 2.)), ('m', 'imod', inplace('__imod__', 2.)),
              ('m', 'set_first', lambda x: x.__setitem__(0, x[-1] if x.shape else x)),
              ('m', 'set_masked', lambda x: x.__setitem__(0, x.masked_single())),
              ('m', 'set_ellipsis', lambda x: x.__setitem__(Ellipsis, x.copy() * 3.)),
              ('m', 'ins_deriv', lambda x: x.insert_deriv('u', x.wod * 2.)),
              ('m', 'del_deriv', lambda x: x.delete_deriv('t')),
              ('m', 'del_derivs', lambda x: x.delete_derivs()),
              ('m', 'set_units', lambda x: x.set_units(Pm.Units.KM)),
              ('m', 'iadd_self', lambda x: x.__iadd__(x.copy())),
              # NumPy scalars as operands: a shapeless target then holds a NumPy scalar, not a Python number
              # (seeded change C18-G: the cached wod was kept for "array" values, and np.int64 is not a Python int)
              ('m', 'iadd_npint', inplace('__iadd__', np.int64(1))), ('m', 'isub_npint', inplace('__isub__', np.int32(1))),
              ('m', 'iadd_npf32', inplace('__iadd__', np.float32(1.))), ('m', 'imod_npint', inplace('__imod__', np.int64(5))),
              ('m', 'iadd_int', inplace('__iadd__', 1)), ('m', 'isub_int', inplace('__isub__', 1))]
        # object operands whose mask adds a masked element (seeded change C03-A: __isub__ kept the cached antimask)
        def partly_masked(x):
            m = np.zeros(x.shape, bool)
            if x.shape:
                m.reshape(-1)[-1] = True
            return Pm.Scalar(np.ones(x.shape) * 2., m if x.shape else False)
        m += [('m', 'iadd_obj', lambda x: x.__iadd__(partly_masked(x))), ('m', 'isub_obj', lambda x: x.__isub__(partly_masked(x))),
              ('m', 'imul_obj', lambda x: x.__imul__(partly_masked(x))), ('m', 'idiv_obj', lambda x: x.__itruediv__(partly_masked(x))),
              ('m', 'ifloordiv_obj', lambda x: x.__ifloordiv__(partly_masked(x))), ('m', 'imod_obj', lambda x: x.__imod__(partly_masked(x)))]
    m += [('m', 'readonly', lambda x: x.as_readonly())]
    return q + m


def obs_any(r, Pm, _depth=0):
    """canonical observable form of a query answer"""
    if isinstance(r, Pm.Qube):
        sh = r.shape
        msk = np.broadcast_to(np.asarray(r._mask_), sh)
        vals = np.broadcast_to(np.asarray(r._values_), sh + r.item)
        flat = vals.reshape((-1,) + (r.item if r.item else ())) if r.size else vals.reshape((0,))
        vis = [None if m else np.asarray(v).tolist() for v, m in zip(flat, msk.ravel())] if r.size else []
        ders = []
        if _depth == 0:
            # the derivatives with their own masks (seeded change C18-J: the cached route of unshrink() replaced them)
            for k in sorted(r.derivs):
                ders.append((k, obs_any(r.derivs[k], Pm, 1)))
        return ('q', type(r).__name__, list(sh), vis, sorted(r.derivs.keys()), str(r.units), bool(r.readonly), ders)
    if isinstance(r, np.ndarray):
        return ('a', r.shape, r.tolist())
    if isinstance(r, tuple):
        return ('t',) + tuple(obs_any(v, Pm) for v in r)
    if isinstance(r, slice):
        return ('s', r.start, r.stop, r.step)
    if isinstance(r, (np.bool_, np.integer, np.floating)):
        return r.item()
    return r


def run_wide(name, hist, Pm, disable):
    old = Pm.Qube.DISABLE_CACHE
    Pm.Qube.DISABLE_CACHE = disable
    try:
        x = wide_objects(Pm)[name]()
        answers, stale = [], []
        for i, (kind, nm, f) in enumerate(hist):
            try:
                with warnings.catch_warnings():
                    warnings.simplefilter('ignore')
                    r = f(x)
                answers.append(obs_any(r, Pm) if kind == 'q' else 'ok')
            except (ValueError, TypeError, IndexError) as e:
                answers.append(('err', type(e).__name__))
            except Exception as e:
                answers.append(('exc',) + lib.exc_family(e))
            if not disable:
                b = recompute_check(x, Pm)
                if b:
                    stale.append((i, nm, b))
        answers.append(obs_any(x, Pm))
        return answers, stale
    finally:
        Pm.Qube.DISABLE_CACHE = old


def gen_wide(rng, tier, Pm):
    out = []
    for name in wide_objects(Pm):
        alpha = wide_alphabet(name, Pm)
        depth = 2 if tier == 'quick' else 3
        for idxs in itertools.product(range(len(alpha)), repeat=depth):
            out.append((name, list(idxs)))
        for _ in range(60 if tier == 'quick' else 500):
            L = rng.randrange(4, 31)
            out.append((name, [rng.randrange(len(alpha)) for _ in range(L)]))
    return out


def run(ctx):
    Pm = P()
    ctx.rule = ('Part A: all histories of depth 2 (quick) / 3 and 4 (thorough) + random histories of length 4-30 over a '
                '21-symbol alphabet of cached queries and mutators on 6 small integer Scalars, compared step by step '
                '(answer + cache keys present) with the Coq machine; Part B: all histories of depth 2/3 + random to 30 '
                'over wider alphabets on 7 objects of other classes, cache enabled vs disabled + recomputation of every '
                'cached entry after every step; non-trivial = at least one mutator followed by a query')
    ctx.assumptions = ['cache keys are observed through the public `cache` dictionary',
                       'Part A objects hold integers; derivative values are integer-valued floats']
    if ctx.ensure_library():
        ctx.prove(['theories/Props/C18.v'])
        ctx.effects_obligations()      # regenerated from the current source: see coq/obl/Eff_C18.v
    # ---- Part A
    hists = gen_model_histories(ctx.rng, ctx.tier)
    terms, keep = [], []
    for init, ops in hists:
        on, stale, fin_on = run_history(init, ops, Pm, False)
        off, _, fin_off = run_history(init, ops, Pm, True)
        nontriv = any(o[0].startswith('M') for o in ops[:-1]) and ops[-1][0].startswith('Q')
        ctx.note_case({'init': init, 'ops': [list(o) for o in ops]}, nontriv)
        ctx.count('A:len%02d' % min(len(ops), 30))
        for a, _ in on:
            ctx.count('A:ans:' + a[0])
        case = {'part': 'A', 'init': init, 'ops': [list(o) for o in ops]}
        if stale:
            ctx.fail({'part': 'A', 'what': 'stale-cache', 'key': stale[0][1][0], 'after': ops[stale[0][0]][0]},
                     case, {'stale_entries': stale})
        a_on = [a for a, _ in on]
        a_off = [a for a, _ in off]
        if a_on != a_off or fin_on != fin_off:
            first = next((i for i, (p, q) in enumerate(zip(a_on, a_off)) if p != q), None)
            ctx.fail({'part': 'A', 'what': 'cache-dependent-answer',
                      'query': ops[first][0] if first is not None else 'final'},
                     case, {'cache_on': a_on, 'cache_off': a_off, 'final_on': fin_on, 'final_off': fin_off})
        if any(a[0] == 'exc' for a in a_on):
            ctx.count('A:unexpected-exception')
        terms.append(coq_case(init, ops, on))
        keep.append(case)
    ctx.traces = len(terms)
    mism = ctx.coq_eval_shards('hist', HEADER, terms, lambda x: 'mismatches %s' % x, shard=300)
    if mism:
        j = mism[0]
        init, ops = hists[j]
        on, _, _ = run_history(init, ops, Pm, False)
        shown = ctx.coq_show(HEADER, 'trace %s' % coq_case(init, ops, on).split(', ', 1)[0].lstrip('(') if False else
                             'let c := %s in trace (fst (fst c)) (snd (fst c))' % coq_case(init, ops, on))
        ctx.broken_tie('correspondence', 'cache-machine-vs-impl',
                       {'n_mismatch': len(mism), 'first_case': keep[j], 'impl_trace': on, 'model_trace': shown})
    ctx.cov['correspondence_mismatches'] = len(mism or [])
    # ---- Part B
    wide = gen_wide(ctx.rng, ctx.tier, Pm)
    for name, idxs in wide:
        alpha = wide_alphabet(name, Pm)
        hist = [alpha[i] for i in idxs]
        names = [h[1] for h in hist]
        on, stale = run_wide(name, hist, Pm, False)
        off, _ = run_wide(name, hist, Pm, True)
        nontriv = any(h[0] == 'm' for h in hist[:-1]) and hist[-1][0] == 'q'
        case = {'part': 'B', 'object': name, 'ops': names, 'idxs': idxs}
        ctx.note_case(case, nontriv)
        ctx.count('B:' + name)
        if stale:
            ctx.fail({'part': 'B', 'what': 'stale-cache', 'object': name, 'key': stale[0][2][0], 'after': stale[0][1]},
                     case, {'stale_entries': stale})
        if on != off:
            first = next((i for i, (p, q) in enumerate(zip(on, off)) if p != q), None)
            ctx.fail({'part': 'B', 'what': 'cache-dependent-answer', 'object': name,
                      'query': names[first] if first is not None and first < len(names) else 'final'},
                     case, {'first_difference_at': first, 'cache_on': str(on[first])[:500] if first is not None else None,
                            'cache_off': str(off[first])[:500] if first is not None else None})
    ctx.exhaustive = True
    return ctx.finish()


def replay(path):
    import json
    Pm = P()
    d = json.load(open(path))
    if 'case' not in d:
        print(json.dumps(d, indent=1)[:3000])
        return 1
    c = d['case']
    if c['part'] == 'A':
        ops = [tuple(o) for o in c['ops']]
        init = dict(c['init'])
        init['derivs'] = {int(k): v for k, v in init['derivs'].items()}
        on, stale, f1 = run_history(init, ops, Pm, False)
        off, _, f2 = run_history(init, ops, Pm, True)
        a_on, a_off = [a for a, _ in on], [a for a, _ in off]
    else:
        alpha = wide_alphabet(c['object'], Pm)
        hist = [alpha[i] for i in c['idxs']]
        a_on, stale = run_wide(c['object'], hist, Pm, False)
        a_off, _ = run_wide(c['object'], hist, Pm, True)
        f1 = f2 = None
    print('ops          :', c['ops'])
    print('cache on     :', a_on)
    print('cache off    :', a_off)
    print('stale entries:', stale)
    ok = (a_on == a_off and not stale and f1 == f2)
    print('property holds on this history' if ok else 'property FAILS on this history')
    return 0 if ok else 1
