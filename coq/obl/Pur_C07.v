(* C07 - regenerated obligation: in the CURRENT source, outside the documented in-place methods, every array store
   whose target may alias storage of an operand (a parameter, or an array attribute of an object that was not built
   in the function) is one of the listed, individually justified sites (tools/regen/purity_ast.ALLOWED).  By the
   frame theorem PurLemmas.fresh_stores_leave_operands a call all of whose stores go to buffers it allocated itself
   leaves every operand bit for bit unchanged. *)
From Coq Require Import List String Bool Arith ZArith.
From PM Require Import PurModel PurLemmas.
From PMGen Require Import Gen_purity.
Import ListNotations.

Theorem C07_gen_functions_analysed : enough_functions gen_functions_analysed = true.
Proof. vm_compute. reflexivity. Qed.

Theorem C07_gen_no_store_into_operand_storage : stores_ok gen_stores = true.
Proof. vm_compute. reflexivity. Qed.

Theorem C07_gen_every_listed_store_is_allowed :
  forall s, In s gen_stores -> s_allowed s = true.
Proof. apply forallb_forall. exact C07_gen_no_store_into_operand_storage. Qed.

Theorem C07_fresh_stores_leave_operands :
  forall acts h, stores_fresh acts [] h = true ->
  forall m v, h m = Some v -> fst (run acts h []) m = Some v.
Proof. exact fresh_stores_leave_operands. Qed.

Print Assumptions C07_gen_functions_analysed.
Print Assumptions C07_gen_no_store_into_operand_storage.
Print Assumptions C07_gen_every_listed_store_is_allowed.
Print Assumptions C07_fresh_stores_leave_operands.
