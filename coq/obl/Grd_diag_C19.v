(* diagnostic (run only when an obligation failed): small inputs on which a regenerated guard differs from its
   specification *)
From Coq Require Import List ZArith Bool String.
From PMGen Require Import Gen_guards.
Import ListNotations.
Local Open Scope string_scope.
Local Open Scope list_scope.
Definition shapes : list (list Z) := [[]; [1]; [3]; [1; 3]; [2; 3]; [0]]%Z.
Definition first5 {A} (l : list A) := firstn 5 l.
Definition pairs := flat_map (fun a => map (fun b => (a, b)) shapes) shapes.
Definition bools := [true; false].
Eval vm_compute in ("_require_inplace_shape (arg_shape, self_shape) differs from: raises iff arg has axes and self has none",
  first5 (filter (fun p => negb (Bool.eqb (gen_require_inplace_shape (fst p) (snd p)) (nonnil (fst p) && negb (nonnil (snd p))))) pairs)).
Eval vm_compute in ("_require_inplace_kind (values_shape, is_int, arg_float) differs",
  first5 (filter (fun t => match t with (v, i, f) => negb (Bool.eqb (gen_require_inplace_kind v i f) (negb (nonnil v) && i && f)) end)
     (flat_map (fun v => flat_map (fun i => map (fun f => (v, i, f)) bools) bools) shapes))).
Eval vm_compute in ("_require_inplace_units (units_ok, unitless) differs",
  first5 (filter (fun t => negb (Bool.eqb (gen_require_inplace_units (fst t) (snd t)) (negb (fst t) && negb (snd t))))
     (flat_map (fun a => map (fun b => (a, b)) bools) bools))).
Eval vm_compute in ("_merged_mask (or_result, self_shape) neither a bool nor the shape",
  first5 (filter (fun p => negb (shape_eqb (gen_merged_mask (fst p) (snd p)) [] || shape_eqb (gen_merged_mask (fst p) (snd p)) (snd p))) pairs)).
