(* diagnostic (run only when an obligation failed): which methods / paths fail which analysis *)
From Coq Require Import List String Bool.
From PM Require Import EffModel.
From PMGen Require Import Gen_effects.
Import ListNotations.
Definition bad (ok : fn -> bool) (names : list string) :=
  map (fun f => (fqname f, filter (fun p => negb (ok (mkfn (fcls f) (fname f) [p]))) (fpaths f)))
      (filter (fun f => negb (ok f)) (filter (name_in names) gen_table)).
Eval vm_compute in ("missing", filter (fun n => Nat.eqb (List.length (fns_named gen_table n)) 0) PUBLIC_MUTATORS).
Eval vm_compute in ("cache", bad (fn_cache_ok gen_table) PUBLIC_MUTATORS).
Eval vm_compute in ("atomic", bad fn_atomic INPLACE_OPS).
Eval vm_compute in ("wfirst", bad (fn_wfirst gen_table) INPLACE_OPS).
Eval vm_compute in ("derived", map (fun f => (fname f, filter (fun p => negb (no_stale (apath (acall gen_table FUEL) p dirty))) (filter returns (fpaths f))))
                                   (filter (fun f => negb (fn_derived_ok gen_table f)) (filter is_derived gen_table))).
