(* diagnostic (run only when the obligation failed): index entry lists of length <= 3 on which the regenerated
   _prep_scalar_index and the reference disagree *)
From Coq Require Import List Arith ZArith Bool String.
From PM Require Import Base Mask LoopModel C09Model.
From PMGen Require Import Gen_loops.
Import ListNotations.
Local Open Scope string_scope.
Local Open Scope list_scope.
Definition items : list item :=
  [ItBool true; ItBool false; ItQube false true true false; ItQube false true false true; ItQube false true false false;
   ItQube true true false false; ItQube false false false false; ItEll; ItNone; ItSlice true; ItSlice false; ItOther].
Definition entry_of (i : item) : entry :=
  match i with
  | ItBool b => EBool b false | ItQube false true m v => EBool v m | ItQube false false m _ => EInt 0 m
  | ItQube true _ _ _ => EIArr [1] [0%Z] [] | ItEll => EEll | ItNone => ENone
  | ItSlice true => ESlice None None None | ItSlice false => ESlice (Some 0%Z) None None | ItOther => EBad
  end.
Definition new_dims (ps : list piece) : list Z := flat_map (fun p => match p with PNew n => [Z.of_nat n] | _ => [] end) ps.
Definition masked_ps (ps : list piece) : bool := existsb (fun p => match p with PFixed None => true | _ => false end) ps.
Definition zero_ps (ps : list piece) : bool := existsb (fun p => match p with PNew 0 => true | _ => false end) ps.
Definition zl_eqb := fix go (a b : list Z) : bool :=
  match a, b with [], [] => true | x :: a', y :: b' => Z.eqb x y && go a' b' | _, _ => false end.
Definition agree (l : list item) : bool :=
  match gen_psi l, ref_pieces [] (map entry_of l) with
  | None, None => true
  | Some (m, z, bf, af), Some ps => Bool.eqb m (masked_ps ps) && Bool.eqb z (zero_ps ps) && zl_eqb (bf ++ af) (new_dims ps)
  | _, _ => false
  end.
Definition lists : list (list item) :=
  [[]] ++ map (fun a => [a]) items ++ flat_map (fun a => map (fun b => [a; b]) items) items
  ++ flat_map (fun a => flat_map (fun b => map (fun c => [a; b; c]) [ItNone; ItEll; ItBool false; ItQube false true true false]) items) [ItNone; ItEll; ItBool true; ItSlice true].
Eval vm_compute in ("_prep_scalar_index (index items)", firstn 5 (filter (fun l => negb (agree l)) lists)).
