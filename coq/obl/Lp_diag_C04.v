(* diagnostic (run only when an obligation failed): small inputs on which a regenerated loop differs from the model *)
From Coq Require Import List Arith ZArith Bool String.
From PM Require Import Base Mask LoopModel C04Model.
From PMGen Require Import Gen_loops.
Import ListNotations.
Local Open Scope string_scope.
Local Open Scope list_scope.

Definition zl (l : list nat) : list Z := map Z.of_nat l.
Definition zlist_eqb := fix go (a b : list Z) : bool :=
  match a, b with [], [] => true | x :: a', y :: b' => Z.eqb x y && go a' b' | _, _ => false end.
Definition blist_eqb := fix go (a b : list bool) : bool :=
  match a, b with [], [] => true | x :: a', y :: b' => Bool.eqb x y && go a' b' | _, _ => false end.
Definition oeq {A} (e : A -> A -> bool) (x y : option A) : bool :=
  match x, y with Some a, Some b => e a b | None, None => true | _, _ => false end.
Definition shapes1 : list (list nat) := [[]; [1]; [2]; [3]; [1; 2]; [2; 1]; [2; 3]; [3; 1]; [1; 1; 2]; [0]; [0; 1]].
Definition first5 {A} (l : list A) := firstn 5 l.
Eval vm_compute in ("broadcasted_shape (shapes)",
  first5 (filter (fun l => negb (oeq zlist_eqb (gen_bs (map zl l) [7%Z]) (option_map (fun s => zl s ++ [7%Z]) (broadcasted_shape l))))
     ([[]] ++ map (fun a => [a]) shapes1 ++ flat_map (fun a => map (fun b => [a; b]) shapes1) shapes1
      ++ flat_map (fun a => flat_map (fun b => map (fun c => [a; b; c]) [[]; [2]; [1; 2]; [3; 1]; [0]]) shapes1) [[]; [1]; [2; 1]; [3]]))).
