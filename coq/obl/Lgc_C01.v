(* C01 - regenerated obligation: the two-argument ladder of Qube.or_ in the CURRENT source (Gen_logic.v, written by
   tools/regen/logic_ast.py on this run) is the `or_m` of Mask.v on which every C01 theorem about the mask of a binary
   operation rests - same representation (one bool / an array) and same elements - and, element by element, the
   disjunction of the operands' mask elements that broadcast onto the result element. *)
From Coq Require Import List Bool.
From PM Require Import Base Mask C14Model.
From PMGen Require Import Gen_logic.
Import ListNotations.

Definition to_gm (m : mrep) (s : shape) : gm :=
  match m with MS b => GS b | MA f => GA (fun r => f (bproj s r)) end.
Definition same_rep (g : gm) (m : mrep) : Prop :=
  match g, m with
  | GS a, MS b => a = b
  | GA f, MA h => forall r, f r = h r
  | _, _ => False
  end.

Theorem C01_gen_or2_is_or_m : forall m1 m2 s1 s2,
  same_rep (gen_or2 (to_gm m1 s1) (to_gm m2 s2)) (or_m m1 m2 s1 s2).
Proof.
  intros [[|]|f] [[|]|g] s1 s2; cbn; try reflexivity; intros r; reflexivity.
Qed.

Theorem C01_gen_or2_elementwise : forall m1 m2 s1 s2 r,
  gget (gen_or2 (to_gm m1 s1) (to_gm m2 s2)) r = mget m1 (bproj s1 r) || mget m2 (bproj s2 r).
Proof.
  intros [[|]|f] [[|]|g] s1 s2 r; cbn; try reflexivity; try (rewrite orb_true_r; reflexivity);
    try (rewrite orb_false_r; reflexivity).
Qed.

Theorem C01_gen_and2_is_and_m : forall m1 m2 s1 s2,
  same_rep (gen_and2 (to_gm m1 s1) (to_gm m2 s2)) (and_m m1 m2 s1 s2).
Proof.
  intros [[|]|f] [[|]|g] s1 s2; cbn; try reflexivity; intros r; reflexivity.
Qed.

Print Assumptions C01_gen_or2_is_or_m.
Print Assumptions C01_gen_or2_elementwise.
Print Assumptions C01_gen_and2_is_and_m.
