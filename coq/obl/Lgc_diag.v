(* diagnostic (run only when an obligation failed): the regenerated ladders on every pair of representations *)
From Coq Require Import List Bool String.
From PM Require Import Base Mask C14Model.
From PMGen Require Import Gen_logic.
Import ListNotations.
Local Open Scope string_scope.
Definition reps : list gm := [GS true; GS false; GA (fun _ => true); GA (fun _ => false)].
Definition show (g : gm) : string * bool := match g with GS b => ("one bool", b) | GA f => ("array", f []) end.
Eval vm_compute in ("or_", map (fun a => map (fun b => show (gen_or2 a b)) reps) reps).
Eval vm_compute in ("and_", map (fun a => map (fun b => show (gen_and2 a b)) reps) reps).
