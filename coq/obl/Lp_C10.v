(* C10 (shared with C09) - regenerated obligation: indexer._prep_scalar_index (how an index applied to a SHAPELESS object is
   read; used by __getitem__ and __setitem__) in the CURRENT source, translated by tools/regen/loops_ast.py into a
   state-monad program over index items, agrees with the reference C09Model.ref_pieces [] for every list of index
   entries, whether an entry is given as a Python value or as a polymath object: it raises exactly when the reference
   has no answer (two Ellipses, two booleans, any entry that is not True / False / a shapeless Boolean / None /
   Ellipsis / a full slice) and otherwise reports "masked" exactly when the index holds a masked Boolean, "size zero"
   exactly when it holds an unmasked False, and the new axes (1 per None, 0 for False) in the order of the entries. *)
From Coq Require Import List Arith ZArith Bool Lia.
From PM Require Import Base Mask LoopModel LoopLemmas C09Model.
From PMGen Require Import Gen_loops.
Import ListNotations.

(* an index entry of the model as the item the code sees; asobj: given as a polymath object where that is possible *)
Definition full_slice (a b c : option Z) : bool :=
  match a, b, c with None, None, None => true | _, _, _ => false end.
Definition item_of (asobj : bool) (e : entry) : item :=
  match e with
  | EBool v m => if asobj || m then ItQube false true m v else ItBool v
  | ENone => ItNone
  | EEll => ItEll
  | ESlice a b c => ItSlice (full_slice a b c)
  | EInt _ m => if asobj || m then ItQube false false m false else ItOther
  | EIArr _ _ _ => if asobj then ItQube true false false false else ItOther
  | EBArr _ _ _ => if asobj then ItQube true true false false else ItOther
  | EVec _ _ _ _ => if asobj then ItQube true false false false else ItOther
  | EBad => ItOther
  end.
Fixpoint items_of (reps : list bool) (ents : list entry) : list item :=
  match ents with
  | [] => []
  | e :: t => item_of (hd false reps) e :: items_of (tl reps) t
  end.

(* one step of the loop on a state given by its fields *)
Definition mk (indx : list item) (he hb m z : bool) (F T : list Z) (it : item) : st_psi := mk_psi indx he hb m z F T it.
Definition step_spec (he hb m z : bool) (F T : list Z) (e : entry) : option (bool * bool * bool * bool * list Z * list Z) :=
  match e with
  | EBool v mk_ =>
      if hb then None
      else let z' := if mk_ then false else negb v in
           Some (he, true, m || mk_, z', if z' then (if he then F else F ++ [0%Z]) else F,
                                          if z' then (if he then T ++ [0%Z] else T) else T)
  | EEll => if he then None else Some (true, hb, m, z, F, T)
  | ENone => Some (he, hb, m, z, if he then F else F ++ [1%Z], if he then T ++ [1%Z] else T)
  | ESlice None None None => Some (he, hb, m, z, F, T)
  | _ => None
  end.

Lemma loop0_psi_step indx he hb m z F T it0 asobj e :
  match loop0_psi (Some (mk indx he hb m z F T it0)) (item_of asobj e), step_spec he hb m z F T e with
  | None, None => True
  | Some s, Some (he', hb', m', z', F', T') =>
      v_psi_indx s = indx /\ v_psi_has_ellipsis s = he' /\ v_psi_has_bool s = hb' /\ v_psi_masked s = m' /\
      v_psi_size_zero s = z' /\ v_psi_shapes_f s = F' /\ v_psi_shapes_t s = T'
  | _, _ => False
  end.
Proof.
  unfold loop0_psi, seq_, mk, step_spec.
  destruct e as [v mm|a b c| | |v mm|sh v mm|sh v mm|n sh v mm|]; destruct asobj; cbn;
    try (destruct mm); try (destruct v); try (destruct a); try (destruct b); try (destruct c);
    destruct he; destruct hb; cbn; repeat split; try reflexivity; try exact I; destruct m; reflexivity.
Qed.

(* the loop as a fold of step_spec *)
Fixpoint run_spec (he hb m z : bool) (F T : list Z) (ents : list entry) : option (bool * bool * list Z * list Z) :=
  match ents with
  | [] => Some (m, z, F, T)
  | e :: t => match step_spec he hb m z F T e with
              | None => None
              | Some (he', hb', m', z', F', T') => run_spec he' hb' m' z' F' T' t
              end
  end.

Lemma fold_psi_run : forall ents reps indx he hb m z F T it0,
  match fold_left loop0_psi (items_of reps ents) (Some (mk indx he hb m z F T it0)) with
  | None => run_spec he hb m z F T ents = None
  | Some s => run_spec he hb m z F T ents = Some (v_psi_masked s, v_psi_size_zero s, v_psi_shapes_f s, v_psi_shapes_t s)
  end.
Proof.
  induction ents as [|e ents IH]; intros reps indx he hb m z F T it0; [reflexivity|].
  cbn [items_of fold_left run_spec].
  pose proof (loop0_psi_step indx he hb m z F T it0 (hd false reps) e) as H.
  destruct (loop0_psi (Some (mk indx he hb m z F T it0)) (item_of (hd false reps) e)) as [s|];
    destruct (step_spec he hb m z F T e) as [[[[[[he' hb'] m'] z'] F'] T']|]; try contradiction.
  - destruct H as [H0 [H1 [H2 [H3 [H4 [H5 H6]]]]]].
    destruct s as [i1 a1 a2 a3 a4 a5 a6 a7]. cbn in H0, H1, H2, H3, H4, H5, H6. subst.
    apply (IH (tl reps) indx he' hb' m' z' F' T' a7).
  - rewrite fold_none by reflexivity. reflexivity.
Qed.

Theorem gen_psi_run reps ents : gen_psi (items_of reps ents) = run_spec false false false false [] [] ents.
Proof.
  unfold gen_psi, body_psi, seq_. cbn.
  pose proof (fold_psi_run ents reps (items_of reps ents) false false false false [] [] ItOther) as H. unfold mk in H.
  destruct (fold_left loop0_psi (items_of reps ents) _) as [s|]; rewrite H; reflexivity.
Qed.

(* what the reference's pieces say *)
Definition new_dims (ps : list piece) : list Z :=
  flat_map (fun p => match p with PNew n => [Z.of_nat n] | _ => [] end) ps.
Definition masked_ps (ps : list piece) : bool :=
  existsb (fun p => match p with PFixed None => true | _ => false end) ps.
Definition zero_ps (ps : list piece) : bool :=
  existsb (fun p => match p with PNew 0 => true | _ => false end) ps.
Definition nbool (ents : list entry) : nat := length (filter is_boole ents).
Definition b2n (b : bool) : nat := if b then 1 else 0.

Lemma run_rel : forall ents he hb m z F T,
  match run_spec he hb m z F T ents with
  | None => 2 <= b2n he + count_ell ents \/ 2 <= b2n hb + nbool ents \/ scalar_pieces ents = None
  | Some (m', z', F', T') =>
      b2n he + count_ell ents <= 1 /\ b2n hb + nbool ents <= 1 /\
      exists ps d1 d2, scalar_pieces ents = Some ps /\ m' = m || masked_ps ps /\
        z' = (if Nat.eqb (nbool ents) 0 then z else zero_ps ps) /\ (Nat.eqb (nbool ents) 0 = true -> zero_ps ps = false) /\
        F' = F ++ d1 /\ T' = T ++ d2 /\ d1 ++ d2 = new_dims ps /\ (he = true -> d1 = [])
  end.
Proof.
  induction ents as [|e ents IH]; intros he hb m z F T.
  - cbn. repeat split; try (destruct he; cbn; lia); try (destruct hb; cbn; lia).
    exists [], [], []. cbn. rewrite orb_false_r, !app_nil_r. repeat split; reflexivity.
  - cbn [run_spec]. unfold count_ell, nbool in *.
    destruct e as [v mm|a b c| | |v mm|sh v mm|sh v mm|n sh v mm|]; cbn [step_spec filter is_ell is_boole length scalar_pieces];
      try (right; right; reflexivity).
    + (* slice *) destruct a; [right; right; reflexivity|]. destruct b; [right; right; reflexivity|].
      destruct c; [right; right; reflexivity|]. exact (IH he hb m z F T).
    + (* None *)
      specialize (IH he hb m z (if he then F else F ++ [1%Z]) (if he then T ++ [1%Z] else T)).
      destruct (run_spec he hb m z _ _ ents) as [[[[m' z'] F'] T']|].
      * destruct IH as [H1 [H2 [ps [d1 [d2 [Hp [Hm [Hz [Hz0 [HF [HT [Hd Hh]]]]]]]]]]]]. split; [exact H1|]. split; [exact H2|].
        rewrite Hp. cbn [option_map].
        destruct he.
        -- exists (PNew 1 :: ps), d1, (1%Z :: d2). cbn [masked_ps zero_ps existsb orb new_dims flat_map app Z.of_nat].
           repeat split; try assumption. ++ rewrite HT, <- app_assoc. reflexivity.
           ++ rewrite (Hh eq_refl) in *. cbn [app] in *. cbn. f_equal. exact Hd.
        -- exists (PNew 1 :: ps), (1%Z :: d1), d2. cbn [masked_ps zero_ps existsb orb new_dims flat_map app Z.of_nat].
           repeat split; try assumption. ++ rewrite HF, <- app_assoc. reflexivity. ++ cbn. f_equal. exact Hd. ++ discriminate.
      * destruct IH as [H|[H|H]]; [left; exact H|right; left; exact H|right; right; rewrite H; reflexivity].
    + (* Ellipsis *)
      destruct he; [left; cbn; lia|]. specialize (IH true hb m z F T).
      destruct (run_spec true hb m z F T ents) as [[[[m' z'] F'] T']|].
      * destruct IH as [H1 [H2 [ps [d1 [d2 [Hp [Hm [Hz [Hz0 [HF [HT [Hd Hh]]]]]]]]]]]]. cbn [b2n] in *. split; [cbn; lia|]. split; [exact H2|].
        exists ps, d1, d2. repeat split; try assumption. discriminate.
      * cbn [b2n] in *. destruct IH as [H|[H|H]]; [left; cbn; lia|right; left; exact H|right; right; exact H].
    + (* boolean *)
      destruct hb; [right; left; cbn; lia|]. cbv zeta.
      set (z1 := if mm then false else negb v).
      specialize (IH he true (m || mm) z1 (if z1 then if he then F else F ++ [0%Z] else F) (if z1 then if he then T ++ [0%Z] else T else T)).
      destruct (run_spec he true (m || mm) z1 _ _ ents) as [[[[m' z'] F'] T']|].
      * destruct IH as [H1 [H2 [ps [d1 [d2 [Hp [Hm [Hz [Hz0 [HF [HT [Hd Hh]]]]]]]]]]]]. cbn [b2n] in *.
        assert (Hnb : length (filter is_boole ents) = 0) by lia. rewrite Hnb in *. cbn [Nat.eqb] in *.
        split; [exact H1|]. split; [cbn; lia|]. rewrite Hp. cbn [option_map].
        specialize (Hz0 eq_refl).
        destruct mm.
        -- (* masked *) subst z1. exists (PFixed None :: ps), d1, d2. cbn [masked_ps zero_ps existsb new_dims flat_map app].
           repeat split; try assumption.
           ++ rewrite Hm. destruct m; reflexivity. ++ rewrite Hz. symmetry. exact Hz0. ++ discriminate.
        -- destruct v; subst z1; cbn [negb] in *.
           ++ exists ps, d1, d2. repeat split; try assumption. ** rewrite Hm, orb_false_r. reflexivity. ** rewrite Hz. symmetry. exact Hz0. ** discriminate.
           ++ destruct he.
              ** exists (PNew 0 :: ps), d1, (0%Z :: d2). cbn [masked_ps zero_ps existsb orb new_dims flat_map app Z.of_nat].
                 repeat split; try assumption. --- rewrite Hm, orb_false_r. reflexivity. --- discriminate.
                 --- rewrite HT, <- app_assoc. reflexivity. --- rewrite (Hh eq_refl) in *. cbn [app] in *. cbn. f_equal. exact Hd.
              ** exists (PNew 0 :: ps), (0%Z :: d1), d2. cbn [masked_ps zero_ps existsb orb new_dims flat_map app Z.of_nat].
                 repeat split; try assumption. --- rewrite Hm, orb_false_r. reflexivity. --- discriminate.
                 --- rewrite HF, <- app_assoc. reflexivity. --- cbn. f_equal. exact Hd. --- discriminate.
      * cbn [b2n] in *. destruct IH as [H|[H|H]]; [left; exact H|right; left; cbn; lia|right; right; rewrite H; reflexivity].
Qed.

Theorem C10_gen_prep_scalar_index : forall reps ents,
  match gen_psi (items_of reps ents), ref_pieces [] ents with
  | None, None => True
  | Some (m, z, bf, af), Some ps => m = masked_ps ps /\ z = zero_ps ps /\ bf ++ af = new_dims ps
  | _, _ => False
  end.
Proof.
  intros reps ents. rewrite gen_psi_run. pose proof (run_rel ents false false false false [] []) as H.
  unfold ref_pieces. fold (nbool ents).
  destruct (run_spec false false false false [] [] ents) as [[[[m z] bf] af]|].
  - destruct H as [H1 [H2 [ps [d1 [d2 [Hp [Hm [Hz [Hz0 [HF [HT [Hd _]]]]]]]]]]]]. cbn [b2n Nat.add] in *.
    destruct (Nat.ltb_spec 1 (count_ell ents)); [lia|]. destruct (Nat.ltb_spec 1 (nbool ents)); [lia|]. cbn [orb].
    rewrite Hp. cbn [app] in *. subst bf af. split; [exact Hm|]. split; [|exact Hd].
    rewrite Hz. destruct (Nat.eqb_spec (nbool ents) 0) as [E|E]; [|reflexivity].
    symmetry. apply Hz0. reflexivity.
  - cbn [b2n Nat.add] in *. destruct H as [H|[H|H]].
    + destruct (Nat.ltb_spec 1 (count_ell ents)); [exact I|lia].
    + destruct (Nat.ltb_spec 1 (count_ell ents)); [exact I|]. destruct (Nat.ltb_spec 1 (nbool ents)); [exact I|lia].
    + destruct ((1 <? count_ell ents) || (1 <? nbool ents)); [exact I|]. rewrite H. exact I.
Qed.

(* non-vacuity: q[None, ..., False] and a masked Boolean, on the regenerated function *)
Example C10_gen_prep_scalar_index_ex :
  gen_psi [ItNone; ItEll; ItBool false] = Some (false, true, [1%Z], [0%Z])
  /\ gen_psi [ItQube false true true false; ItNone] = Some (true, false, [1%Z], [])
  /\ gen_psi [ItBool true; ItBool true] = None /\ gen_psi [ItOther] = None.
Proof. vm_compute. repeat split; reflexivity. Qed.

Print Assumptions C10_gen_prep_scalar_index.
