(* C19 - obligations on the guard helpers of the in-place operators, re-proved in every run against
   Gen_guards.v as regenerated from the current polymath/qube.py (tools/regen/guards_ast.py).
   true = the helper raises.  A mask is modelled by its shape ([] = a single bool). *)
From Coq Require Import List ZArith Bool Lia.
From PMGen Require Import Gen_guards.
Import ListNotations.

Lemma nonnil_true l : nonnil l = true <-> l <> [].
Proof. destruct l; simpl; split; intros H; congruence. Qed.
Lemma nonnil_false l : nonnil l = false <-> l = [].
Proof. destruct l; simpl; split; intros H; congruence. Qed.
Lemma shape_eqb_refl s : shape_eqb s s = true.
Proof. induction s as [|x s IH]; simpl; [reflexivity|]. rewrite Z.eqb_refl, IH. reflexivity. Qed.
Lemma shape_eqb_eq a : forall b, shape_eqb a b = true -> a = b.
Proof.
  induction a as [|x a IH]; intros [|y b] H; simpl in H; try congruence.
  apply andb_true_iff in H. destruct H as [H1 H2]. apply Z.eqb_eq in H1. f_equal; [exact H1|apply IH; exact H2].
Qed.

(* the shape guard raises exactly when an operand with axes meets a shapeless target - the one case NumPy
   does not reject by itself (a Python scalar value would silently become an array) *)
Theorem C19_gen_require_inplace_shape : forall a s,
  gen_require_inplace_shape a s = true <-> (a <> [] /\ s = []).
Proof.
  intros a s. unfold gen_require_inplace_shape.
  destruct a as [|x a]; destruct s as [|y s]; simpl; split; intros H; try congruence; try tauto;
    try (destruct H as [H1 H2]; congruence).
  split; congruence.
Qed.

(* the kind guard raises exactly for a float operand applied to an integer held as a Python scalar *)
Theorem C19_gen_require_inplace_kind : forall vs i f,
  gen_require_inplace_kind vs i f = true <-> (vs = [] /\ i = true /\ f = true).
Proof.
  intros vs i f. unfold gen_require_inplace_kind.
  destruct vs; destruct i; destruct f; simpl; split; intros H; try congruence; try tauto;
    destruct H as [H1 [H2 H3]]; congruence.
Qed.

(* the units guard raises exactly when units would be given to a class that disallows them *)
Theorem C19_gen_require_inplace_units : forall ok ul,
  gen_require_inplace_units ok ul = true <-> (ok = false /\ ul = false).
Proof.
  intros ok ul. unfold gen_require_inplace_units.
  destruct ok; destruct ul; simpl; split; intros H; try congruence; try tauto; destruct H; congruence.
Qed.

(* the mask stored by an in-place operator is a single bool or has exactly the target's shape, whatever the
   shape of the or-ed masks; a mask that already has the shape is kept *)
Theorem C19_gen_merged_mask_wf : forall o s, gen_merged_mask o s = [] \/ gen_merged_mask o s = s.
Proof.
  intros o s. unfold gen_merged_mask.
  destruct (nonnil o) eqn:Ho; simpl.
  - destruct (shape_eqb o s) eqn:He; simpl; [right; apply shape_eqb_eq; exact He|right; reflexivity].
  - left. apply nonnil_false. exact Ho.
Qed.

Theorem C19_gen_merged_mask_keeps : forall s, gen_merged_mask s s = s.
Proof.
  intros s. unfold gen_merged_mask. rewrite shape_eqb_refl. simpl. rewrite andb_false_r. reflexivity.
Qed.

Print Assumptions C19_gen_require_inplace_shape.
Print Assumptions C19_gen_require_inplace_kind.
Print Assumptions C19_gen_require_inplace_units.
Print Assumptions C19_gen_merged_mask_wf.
Print Assumptions C19_gen_merged_mask_keeps.
