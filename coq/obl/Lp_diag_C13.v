(* diagnostic (run only when an obligation failed): small inputs on which a regenerated loop differs from the model *)
From Coq Require Import List Arith ZArith Bool String.
From PM Require Import Base Mask LoopModel C13Model.
From PMGen Require Import Gen_loops.
Import ListNotations.
Local Open Scope string_scope.
Local Open Scope list_scope.

Definition zl (l : list nat) : list Z := map Z.of_nat l.
Definition zlist_eqb := fix go (a b : list Z) : bool :=
  match a, b with [], [] => true | x :: a', y :: b' => Z.eqb x y && go a' b' | _, _ => false end.
Definition blist_eqb := fix go (a b : list bool) : bool :=
  match a, b with [], [] => true | x :: a', y :: b' => Bool.eqb x y && go a' b' | _, _ => false end.
Definition oeq {A} (e : A -> A -> bool) (x y : option A) : bool :=
  match x, y with Some a, Some b => e a b | None, None => true | _, _ => false end.
Definition first5 {A} (l : list A) := firstn 5 l.
Definition axs : list Z := [-3; -2; -1; 0; 1; 2; 3]%Z.
Eval vm_compute in ("_check_axis (rank, axis)",
  first5 (filter (fun t => match t with (r, l) => negb (oeq blist_eqb (gen_ca (Z.of_nat r) l) (check_list r l (repeat false r))) end)
     (flat_map (fun r => map (fun l => (r, l))
        ([[]] ++ map (fun a => [a]) axs ++ flat_map (fun a => map (fun b => [a; b]) axs) axs
         ++ flat_map (fun a => flat_map (fun b => map (fun c => [a; b; c]) [-1; 0; 2]%Z) [-2; 0; 1]%Z) [-1; 0; 1]%Z)) [0; 1; 2; 3]))).
