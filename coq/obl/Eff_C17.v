(* C17 - regenerated obligation: shrink() stores the un-shrunk original in the cache of its result under the key
   "unshrunk", and unshrink() returns it when present.  A computed result must therefore never carry the "unshrunk"
   entry of an operand.  The number fast paths build their result from clone(retain_cache=True): on the event paths
   read from the CURRENT source the abstract interpretation shows that the returned object has no possibly-stale
   entry (in particular not "unshrunk"), and in-place mutators drop it (cache adequacy). *)
From Coq Require Import List String Bool.
From PM Require Import EffModel EffLemmas.
From PMGen Require Import Gen_effects.
Import ListNotations.

Theorem C17_gen_table_complete : table_complete gen_table = true.
Proof. vm_compute. reflexivity. Qed.

Theorem C17_gen_fast_paths_drop_unshrunk : table_derived_ok gen_table = true.
Proof. vm_compute. reflexivity. Qed.

Theorem C17_gen_mutators_drop_unshrunk : table_cache_ok gen_table = true.
Proof. vm_compute. reflexivity. Qed.

Theorem C17_gen_fast_path_results_coherent :
  forall (X V : Type) (view : key -> (field -> X) -> V),
    (forall k a b, (forall f, dep k f = true -> a f = b f) -> view k a = view k b) ->
    forall f p (s s' : cstate X V),
      In f gen_table -> is_derived f = true -> In p (fpaths f) -> returns p = true ->
      cpath X V view (callrel X V view gen_table FUEL) p s s' -> coherent X V view s'.
Proof.
  intros X V view Hd f p s s' Hf Hn Hp Hr Hrun.
  eapply derived_adequate; try eassumption.
  pose proof C17_gen_fast_paths_drop_unshrunk as H. unfold table_derived_ok in H.
  apply andb_prop in H. destruct H as [H _]. rewrite forallb_forall in H.
  apply H. apply filter_In. split; assumption.
Qed.

Print Assumptions C17_gen_table_complete.
Print Assumptions C17_gen_fast_paths_drop_unshrunk.
Print Assumptions C17_gen_mutators_drop_unshrunk.
Print Assumptions C17_gen_fast_path_results_coherent.
