(* Obligations over the REGENERATED boolean formulas (coq/gen/Gen_logic.v, written on every
   run by tools/regen/logic_ast.py from the current tvl.py and qube.py).  If the source
   changes meaning, the generated terms change and these stop compiling - for all inputs. *)
From Coq Require Import List Bool.
From PM Require Import Base Mask C14Model.
From PMGen Require Import Gen_logic.
Import ListNotations.

Definition tv_of (v m : bool) : tv := if m then M else if v then T else F.

(* the regenerated tvl_and / tvl_or are Kleene conjunction / disjunction at every element,
   for every pair of mask representations *)
Theorem C14_gen_kleene_and : forall a b r,
  tv_of (gen_tvl_and_val a b r) (gen_tvl_and_mask a b r)
  = kand (tv_at a (bproj (bsh a) r)) (tv_at b (bproj (bsh b) r)).
Proof.
  intros a b r. unfold gen_tvl_and_val, gen_tvl_and_mask, tv_of, tv_at.
  destruct (bmask a) as [[|]|f]; destruct (bmask b) as [[|]|g]; simpl;
    repeat match goal with
           | |- context [bval ?x ?i] => destruct (bval x i); simpl
           | |- context [f ?i] => destruct (f i); simpl
           | |- context [g ?i] => destruct (g i); simpl
           end; reflexivity.
Qed.
Theorem C14_gen_kleene_or : forall a b r,
  tv_of (gen_tvl_or_val a b r) (gen_tvl_or_mask a b r)
  = kor (tv_at a (bproj (bsh a) r)) (tv_at b (bproj (bsh b) r)).
Proof.
  intros a b r. unfold gen_tvl_or_val, gen_tvl_or_mask, tv_of, tv_at.
  destruct (bmask a) as [[|]|f]; destruct (bmask b) as [[|]|g]; simpl;
    repeat match goal with
           | |- context [bval ?x ?i] => destruct (bval x i); simpl
           | |- context [f ?i] => destruct (f i); simpl
           | |- context [g ?i] => destruct (g i); simpl
           end; reflexivity.
Qed.

(* the hand-written model used by the other C14 theorems and by the correspondence is
   observably the regenerated code *)
Theorem C14_gen_model_and : forall a b o r, tvl_and a b = Some o ->
  tv_at o r = tv_of (gen_tvl_and_val a b r) (gen_tvl_and_mask a b r).
Proof.
  intros a b o r H. rewrite C14_gen_kleene_and.
  unfold tvl_and in H. destruct (bshape (bsh a) (bsh b)); [|discriminate].
  inversion H; subst o; clear H.
  unfold tv_at, is_true, is_not_false; simpl.
  destruct (bmask a) as [[|]|f]; destruct (bmask b) as [[|]|g]; simpl;
    repeat match goal with
           | |- context [bval ?x ?i] => destruct (bval x i); simpl
           | |- context [f ?i] => destruct (f i); simpl
           | |- context [g ?i] => destruct (g i); simpl
           end; reflexivity.
Qed.
Theorem C14_gen_model_or : forall a b o r, tvl_or a b = Some o ->
  tv_at o r = tv_of (gen_tvl_or_val a b r) (gen_tvl_or_mask a b r).
Proof.
  intros a b o r H. rewrite C14_gen_kleene_or.
  unfold tvl_or in H. destruct (bshape (bsh a) (bsh b)); [|discriminate].
  inversion H; subst o; clear H.
  unfold tv_at, is_true, is_not_false; simpl.
  destruct (bmask a) as [[|]|f]; destruct (bmask b) as [[|]|g]; simpl;
    repeat match goal with
           | |- context [bval ?x ?i] => destruct (bval x i); simpl
           | |- context [f ?i] => destruct (f i); simpl
           | |- context [g ?i] => destruct (g i); simpl
           end; reflexivity.
Qed.

(* the regenerated two-argument ladders of Qube.or_ / Qube.and_ are the element-wise
   or / and of the two masks, whatever their representations *)
Theorem C14_gen_or2 : forall m0 m1 r, gget (gen_or2 m0 m1) r = gget m0 r || gget m1 r.
Proof.
  intros [[|]|f] [[|]|g] r; simpl; auto; try (destruct (f r); reflexivity);
    try (rewrite orb_false_r; reflexivity).
Qed.
Theorem C14_gen_and2 : forall m0 m1 r, gget (gen_and2 m0 m1) r = gget m0 r && gget m1 r.
Proof.
  intros [[|]|f] [[|]|g] r; simpl; auto; try (destruct (f r); reflexivity);
    try (rewrite andb_true_r; reflexivity); try (rewrite andb_false_r; reflexivity).
Qed.

Print Assumptions C14_gen_kleene_and.
Print Assumptions C14_gen_kleene_or.
Print Assumptions C14_gen_model_and.
Print Assumptions C14_gen_model_or.
Print Assumptions C14_gen_or2.
Print Assumptions C14_gen_and2.
