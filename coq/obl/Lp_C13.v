(* C13 - regenerated obligation: math_ops._check_axis in the CURRENT source (Gen_loops.v, written by
   tools/regen/loops_ast.py on this run) is C13Model.check_list: it raises exactly on an out-of-range or repeated
   axis, and otherwise marks exactly the axes a % rank. *)
From Coq Require Import List Arith ZArith Bool Lia.
From PM Require Import Base Mask LoopModel C13Model.
From PMGen Require Import Gen_loops.
Import ListNotations.

Lemma lset_true k l : lset k true l = set_true k l.
Proof. revert k. induction l as [|x l IH]; intros k; destruct k; cbn; try reflexivity. rewrite IH. reflexivity. Qed.
Lemma set_true_length k l : length (set_true k l) = length l.
Proof. revert k. induction l as [|x l IH]; intros k; destruct k; cbn; try reflexivity. rewrite IH. reflexivity. Qed.
Lemma norm_ax_py rank a : norm_ax rank a = if pyok rank a then Some (pyidx rank a) else None.
Proof. reflexivity. Qed.

Theorem C13_gen_check_axis : forall rank l,
  gen_ca (Z.of_nat rank) l = check_list rank l (repeat false rank).
Proof.
  intros rank l. unfold gen_ca, body_ca, seq_.
  cbn [set_ca_selections v_ca_rank v_ca_axis v_ca_selections v_ca_i]. rewrite Nat2Z.id.
  set (F := loop0_ca).
  assert (HN : forall l0, fold_left F l0 None = None) by (induction l0 as [|a l0 IH]; [reflexivity|exact IH]).
  assert (HS : forall ax sel i a, F (Some (mk_ca (Z.of_nat rank) ax sel i)) a =
     if pyok (length sel) a
     then if nth (pyidx (length sel) a) sel false then None
          else Some (mk_ca (Z.of_nat rank) ax (lset (pyidx (length sel) a) true sel) a)
     else None).
  { intros ax sel i a. unfold F, loop0_ca, seq_, set_ca_i, set_ca_selections. cbn [v_ca_rank v_ca_axis v_ca_selections v_ca_i].
    destruct (pyok (length sel) a) eqn:E1; cbn [negb]; [|reflexivity]. cbv iota. cbn [v_ca_rank v_ca_axis v_ca_selections v_ca_i]. rewrite E1. cbn [negb].
    destruct (nth (pyidx (length sel) a) sel false) eqn:E2; cbv iota; [reflexivity|]. cbn [v_ca_rank v_ca_axis v_ca_selections v_ca_i]. rewrite E1. reflexivity. }
  assert (H : forall l0 ax sel i, length sel = rank ->
     match fold_left F l0 (Some (mk_ca (Z.of_nat rank) ax sel i)) with None => None | Some s => Some (v_ca_selections s) end
     = check_list rank l0 sel).
  { induction l0 as [|a l0 IH]; intros ax sel i Hlen; [reflexivity|].
    cbn [fold_left check_list]. rewrite norm_ax_py, HS, Hlen.
    destruct (pyok rank a); [|rewrite HN; reflexivity].
    destruct (nth (pyidx rank a) sel false); [rewrite HN; reflexivity|].
    rewrite lset_true. apply IH. rewrite set_true_length. exact Hlen. }
  apply H. apply repeat_length.
Qed.
Print Assumptions C13_gen_check_axis.
