(* C04 - regenerated obligation: the loop of Qube.broadcasted_shape in the CURRENT source (Gen_loops.v, written by
   tools/regen/loops_ast.py on this run: a state monad over the locals new_shape, len_broadcast, shape, len_shape, i)
   computes, for every list of shapes, what C04Model.broadcasted_shape computes - which C04_bshape_spec proves to be
   NumPy's broadcasting rule folded over the shapes - and raises exactly when that rule rejects; the item shape is
   appended.  Proved by induction over the shapes (outer loop) and over the axes (inner loop, invariant: the
   processed prefix is final, the rest untouched). *)
From Coq Require Import List Arith ZArith Bool Lia.
From PM Require Import Base Mask LoopModel LoopLemmas C04Model.
From PMGen Require Import Gen_loops.
Import ListNotations.

Definition zl (l : list nat) : list Z := map Z.of_nat l.

(* upd, head first *)
Definition comb (n s : nat) : option nat :=
  if n =? 1 then Some s else if s =? 1 then Some n else if s =? n then Some n else None.
Lemma upd_cons n N s S :
  upd (n :: N) (s :: S) = match comb n s, upd N S with Some v, Some r => Some (v :: r) | _, _ => None end.
Proof.
  cbn [upd]. unfold comb. destruct (upd N S); destruct (n =? 1); try reflexivity;
    destruct (s =? 1); try reflexivity; destruct (s =? n); reflexivity.
Qed.

Ltac proj := cbn [v_bs_shapes v_bs_item v_bs_new_shape v_bs_len_broadcast v_bs_shape v_bs_len_shape v_bs_i].

(* one step of the inner loop: axis j of a state whose lists are long enough *)
Lemma loop0_step shapes item new lb shape ls i0 j :
  j < length new -> j < length shape ->
  loop0_bs (Some (mk_bs shapes item new lb shape ls i0)) (Z.of_nat j) =
  let n := nth j new 0%Z in let s := nth j shape 0%Z in
  if (n =? 1)%Z then Some (mk_bs shapes item (lset j s new) lb shape ls (Z.of_nat j))
  else if (s =? 1)%Z then Some (mk_bs shapes item new lb shape ls (Z.of_nat j))
  else if (s =? n)%Z then Some (mk_bs shapes item new lb shape ls (Z.of_nat j)) else None.
Proof.
  intros H1 H2. unfold loop0_bs, set_bs_i, set_bs_new_shape. proj. cbv zeta.
  rewrite !pyok_nat by assumption. rewrite !pyidx_nat. cbn [negb andb].
  destruct (nth j new 0 =? 1)%Z; [reflexivity|].
  destruct (nth j shape 0 =? 1)%Z; [reflexivity|].
  destruct (nth j shape 0 =? nth j new 0)%Z; reflexivity.
Qed.

Lemma loop0_none x : loop0_bs None x = None.
Proof. reflexivity. Qed.

(* the inner loop over the remaining axes is upd on the remaining entries *)
Lemma loop0_fold shapes item lb ls : forall N Ss P SP i0, length P = length SP -> length N = length Ss ->
  exists i1,
  fold_left loop0_bs (map Z.of_nat (seq (length P) (length N)))
     (Some (mk_bs shapes item (zl P ++ zl N) lb (zl SP ++ zl Ss) ls i0)) =
  match upd N Ss with
  | None => None
  | Some r => Some (mk_bs shapes item (zl P ++ zl r) lb (zl SP ++ zl Ss) ls i1)
  end.
Proof.
  induction N as [|n N IH]; intros Ss P SP i0 HP HN; destruct Ss as [|s Ss]; try discriminate HN.
  - exists i0. reflexivity.
  - cbn [length seq map fold_left]. rewrite upd_cons.
    assert (Hl1 : length P < length (zl P ++ zl (n :: N))) by (unfold zl; rewrite app_length, !map_length; cbn [length]; lia).
    assert (Hl2 : length P < length (zl SP ++ zl (s :: Ss))) by (unfold zl; rewrite app_length, !map_length; cbn [length]; lia).
    rewrite loop0_step by assumption. cbv zeta.
    assert (E1 : nth (length P) (zl P ++ zl (n :: N)) 0%Z = Z.of_nat n).
    { unfold zl. cbn [map]. rewrite <- (map_length Z.of_nat P). apply nth_app_here. }
    assert (E2 : nth (length P) (zl SP ++ zl (s :: Ss)) 0%Z = Z.of_nat s).
    { unfold zl. cbn [map]. rewrite HP, <- (map_length Z.of_nat SP). apply nth_app_here. }
    rewrite E1, E2. change 1%Z with (Z.of_nat 1). rewrite !zeqb_nat. unfold comb.
    assert (Hset : forall v, lset (length P) (Z.of_nat v) (zl P ++ zl (n :: N)) = zl (P ++ [v]) ++ zl N).
    { intros v. unfold zl. cbn [map]. rewrite <- (map_length Z.of_nat P), lset_app, map_app. cbn [map]. rewrite <- app_assoc. reflexivity. }
    assert (Hsame : zl P ++ zl (n :: N) = zl (P ++ [n]) ++ zl N).
    { unfold zl. rewrite map_app. cbn [map]. rewrite <- app_assoc. reflexivity. }
    assert (Hsh : zl SP ++ zl (s :: Ss) = zl (SP ++ [s]) ++ zl Ss).
    { unfold zl. rewrite map_app. cbn [map]. rewrite <- app_assoc. reflexivity. }
    assert (Hlen : length (P ++ [n]) = S (length P)) by (rewrite app_length; cbn; lia).
    assert (HlenS : forall v, length (P ++ [v]) = length (SP ++ [s])) by (intros; rewrite !app_length; cbn; lia).
    injection HN as HN.
    destruct (n =? 1) eqn:En.
    + rewrite Hset, Hsh. destruct (IH Ss (P ++ [s]) (SP ++ [s]) (Z.of_nat (length P)) (HlenS s) HN) as [i1 Hi].
      rewrite app_length in Hi. cbn [length] in Hi. replace (length P + 1) with (S (length P)) in Hi by lia.
      rewrite Hi. exists i1. destruct (upd N Ss); [|reflexivity]. unfold zl. rewrite map_app. cbn [map]. rewrite <- app_assoc. reflexivity.
    + destruct (s =? 1) eqn:Es.
      * rewrite Hsame, Hsh. destruct (IH Ss (P ++ [n]) (SP ++ [s]) (Z.of_nat (length P)) (HlenS n) HN) as [i1 Hi].
        rewrite app_length in Hi. cbn [length] in Hi. replace (length P + 1) with (S (length P)) in Hi by lia.
        rewrite Hi. exists i1. destruct (upd N Ss); [|reflexivity]. unfold zl. rewrite map_app. cbn [map]. rewrite <- app_assoc. reflexivity.
      * destruct (s =? n) eqn:Esn.
        -- rewrite Hsame, Hsh. destruct (IH Ss (P ++ [n]) (SP ++ [s]) (Z.of_nat (length P)) (HlenS n) HN) as [i1 Hi].
           rewrite app_length in Hi. cbn [length] in Hi. replace (length P + 1) with (S (length P)) in Hi by lia.
           rewrite Hi. exists i1. destruct (upd N Ss); [|reflexivity]. unfold zl. rewrite map_app. cbn [map]. rewrite <- app_assoc. reflexivity.
        -- exists i0. rewrite fold_none by exact loop0_none. reflexivity.
Qed.

Lemma upd_length : forall N Ss r, upd N Ss = Some r -> length r = length N.
Proof.
  induction N as [|n N IH]; intros Ss r H; destruct Ss as [|s Ss]; try discriminate H.
  - injection H as <-. reflexivity.
  - rewrite upd_cons in H. destruct (comb n s); [|discriminate H]. destruct (upd N Ss) eqn:E; [|discriminate H].
    injection H as <-. cbn [length]. f_equal. eapply IH. exact E.
Qed.
Lemma zl_pad k s : zl (pad k s) = repeat 1%Z k ++ zl s.
Proof. unfold zl, pad. rewrite map_app, map_repeat. reflexivity. Qed.
Lemma pad_length k s : length (pad k s) = k + length s.
Proof. unfold pad. rewrite app_length, repeat_length. reflexivity. Qed.

Lemma loop1_step shapes item ns sh sh0 ls0 i0 :
  exists sh' ls' i',
  loop1_bs (Some (mk_bs shapes item (zl ns) (Z.of_nat (length ns)) sh0 ls0 i0)) (zl sh) =
  match bstep ns sh with
  | None => None
  | Some r => Some (mk_bs shapes item (zl r) (Z.of_nat (length r)) sh' ls' i')
  end.
Proof.
  unfold loop1_bs, seq_, set_bs_shape, set_bs_len_shape, set_bs_new_shape, set_bs_len_broadcast. proj.
  unfold bstep. cbv zeta.
  assert (Hzl : forall l, length (zl l) = length l) by (intros; apply map_length). rewrite !Hzl.
  set (a := length ns). set (b := length sh).
  assert (Hp0 : forall l, pad 0 l = l) by reflexivity.
  destruct (Z.gtb_spec (Z.of_nat b) (Z.of_nat a)) as [Hgt|Hle]; proj.
  - (* the new shape is longer: the accumulated one is padded *)
    destruct (Z.gtb_spec (Z.of_nat b) (Z.of_nat b)) as [Hx|_]; [lia|]. proj.
    replace (Nat.max a b) with b by lia. replace (b - b) with 0 by lia.
    replace (Z.to_nat (Z.of_nat b - Z.of_nat a)) with (b - a) by lia. rewrite <- zl_pad.
    rewrite zrange_nat, ?Hp0.
    destruct (loop0_fold shapes item (Z.of_nat b) (Z.of_nat b) (pad (b - a) ns) (pad 0 sh) [] [] i0 eq_refl) as [i1 Hi].
    { rewrite !pad_length. unfold a, b. lia. }
    cbn [length app zl map] in Hi. rewrite pad_length in Hi. replace (b - a + length ns) with b in Hi by (unfold a, b in *; lia).
    change (pad 0 sh) with sh in Hi. fold (zl sh) in Hi. rewrite Hi.
    destruct (upd (pad (b - a) ns) sh) as [r|] eqn:E; [|exists sh0, ls0, i0; reflexivity].
    apply upd_length in E. rewrite pad_length in E. exists (zl sh), (Z.of_nat b), i1. rewrite E.
    replace (b - a + length ns) with b by (unfold a, b in *; lia). reflexivity.
  - destruct (Z.gtb_spec (Z.of_nat a) (Z.of_nat b)) as [Hgt|Hle2]; proj.
    + (* the new shape is shorter: it is padded *)
      replace (Nat.max a b) with a by lia. replace (a - a) with 0 by lia.
      replace (Z.to_nat (Z.of_nat a - Z.of_nat b)) with (a - b) by lia. rewrite <- zl_pad.
      rewrite zrange_nat, ?Hp0.
      destruct (loop0_fold shapes item (Z.of_nat a) (Z.of_nat a) (pad 0 ns) (pad (a - b) sh) [] [] i0 eq_refl) as [i1 Hi].
      { rewrite !pad_length. unfold a, b. lia. }
      cbn [length app zl map] in Hi. rewrite pad_length in Hi. cbn [Nat.add] in Hi. fold a in Hi.
      change (pad 0 ns) with ns in Hi. fold (zl ns) in Hi. fold (zl (pad (a - b) sh)) in Hi. rewrite Hi.
      destruct (upd ns (pad (a - b) sh)) as [r|] eqn:E; [|exists sh0, ls0, i0; reflexivity].
      apply upd_length in E. exists (zl (pad (a - b) sh)), (Z.of_nat a), i1. rewrite E. reflexivity.
    + (* same length *)
      assert (Hab : a = b) by lia. replace (Nat.max a b) with a by lia. replace (a - a) with 0 by lia.
      replace (a - b) with 0 by lia. rewrite zrange_nat, ?Hp0. rewrite <- Hab.
      destruct (loop0_fold shapes item (Z.of_nat a) (Z.of_nat a) ns sh [] [] i0 eq_refl) as [i1 Hi].
      { unfold a, b in *. lia. }
      cbn [length app zl map] in Hi. fold a in Hi. fold (zl ns) in Hi. fold (zl sh) in Hi. rewrite Hi.
      destruct (upd ns sh) as [r|] eqn:E; [|exists sh0, ls0, i0; reflexivity].
      apply upd_length in E. exists (zl sh), (Z.of_nat a), i1. rewrite E. reflexivity.
Qed.

Lemma loop1_none x : loop1_bs None x = None.
Proof. reflexivity. Qed.

Lemma loop1_fold shapes item : forall l ns sh0 ls0 i0,
  exists sh' ls' i',
  fold_left loop1_bs (map zl l) (Some (mk_bs shapes item (zl ns) (Z.of_nat (length ns)) sh0 ls0 i0)) =
  match fold_left (fun acc s => match acc with None => None | Some n => bstep n s end) l (Some ns) with
  | None => None
  | Some r => Some (mk_bs shapes item (zl r) (Z.of_nat (length r)) sh' ls' i')
  end.
Proof.
  induction l as [|sh l IH]; intros ns sh0 ls0 i0.
  - exists sh0, ls0, i0. reflexivity.
  - cbn [map fold_left]. destruct (loop1_step shapes item ns sh sh0 ls0 i0) as [sh1 [ls1 [i1 H1]]]. rewrite H1.
    destruct (bstep ns sh) as [r|].
    + apply IH.
    + exists sh0, ls0, i0. rewrite fold_none by exact loop1_none.
      assert (HN : forall l0, fold_left (fun acc s => match acc with None => None | Some n => bstep n s end) l0 None = None)
        by (induction l0 as [|x l0 IHl]; [reflexivity|exact IHl]).
      rewrite HN. reflexivity.
Qed.

(* Qube.broadcasted_shape, as written in the current source, is the loop of C04Model (which C04_bshape_spec shows
   to be NumPy's broadcasting rule folded over the shapes), with the item shape appended *)
Theorem C04_gen_broadcasted_shape : forall l item,
  gen_bs (map zl l) item = option_map (fun s => zl s ++ item) (broadcasted_shape l).
Proof.
  intros l item. unfold gen_bs, body_bs, seq_, set_bs_new_shape, set_bs_len_broadcast. proj.
  destruct (loop1_fold (map zl l) item l [] [] 0%Z 0%Z) as [sh' [ls' [i' H]]].
  cbn [zl map length Z.of_nat] in H. rewrite H. unfold broadcasted_shape.
  match goal with |- context [fold_left ?f l (Some [])] => destruct (fold_left f l (Some [])) end; reflexivity.
Qed.

(* non-vacuity: a concrete call *)
Example C04_gen_broadcasted_shape_ex :
  gen_bs [[3; 1]; [2]; []; [4; 1; 1]]%Z [7]%Z = Some [4; 3; 2; 7]%Z /\ gen_bs [[3]; [2]]%Z [] = None.
Proof. vm_compute. split; reflexivity. Qed.

Print Assumptions C04_gen_broadcasted_shape.
