From Coq Require Import List String Bool.
From PM Require Import PurModel.
From PMGen Require Import Gen_purity.
Import ListNotations.
Eval vm_compute in ("functions", gen_functions_analysed).
Eval vm_compute in ("unlisted operand stores", map (fun s => (s_file s, s_fn s, s_target s, s_roots s)) (filter (fun s => negb (s_allowed s)) gen_stores)).
