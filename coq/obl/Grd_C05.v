(* C05 - obligation on Qube._merged_mask (the mask every in-place operator stores), re-proved in every run
   against Gen_guards.v as regenerated from the current polymath/qube.py (tools/regen/guards_ast.py).
   A mask is modelled by its shape ([] = a single bool): invariant 2 of C05Model.cl_mask. *)
From Coq Require Import List ZArith Bool.
From PMGen Require Import Gen_guards.
Import ListNotations.

Lemma shape_eqb_eq a : forall b, shape_eqb a b = true -> a = b.
Proof.
  induction a as [|x a IH]; intros [|y b] H; simpl in H; try congruence.
  apply andb_true_iff in H. destruct H as [H1 H2]. apply Z.eqb_eq in H1. f_equal; [exact H1|apply IH; exact H2].
Qed.

Theorem C05_gen_merged_mask_wf : forall o s, gen_merged_mask o s = [] \/ gen_merged_mask o s = s.
Proof.
  intros o s. unfold gen_merged_mask.
  destruct o as [|x o]; [left; reflexivity|].
  cbn [nonnil andb]. destruct (shape_eqb (x :: o) s) eqn:He; cbn [negb].
  - right. apply shape_eqb_eq. exact He.
  - right. reflexivity.
Qed.

Print Assumptions C05_gen_merged_mask_wf.
