(* diagnostic (run only when an obligation failed): small inputs on which a regenerated guard differs from its
   specification *)
From Coq Require Import List ZArith Bool String.
From PMGen Require Import Gen_guards.
Import ListNotations.
Local Open Scope string_scope.
Local Open Scope list_scope.
Definition shapes : list (list Z) := [[]; [1]; [3]; [1; 3]; [2; 3]; [0]]%Z.
Definition first5 {A} (l : list A) := firstn 5 l.
Definition pairs := flat_map (fun a => map (fun b => (a, b)) shapes) shapes.
Eval vm_compute in ("_merged_mask (or_result, self_shape) neither a bool nor the shape",
  first5 (filter (fun p => negb (shape_eqb (gen_merged_mask (fst p) (snd p)) [] || shape_eqb (gen_merged_mask (fst p) (snd p)) (snd p))) pairs)).
