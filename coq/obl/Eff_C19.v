(* C19 - regenerated obligation: in the CURRENT source, no in-place operator and no item assignment performs one
   of its own checks (require_writable, the _require_ helpers, raise, the _raise_ helpers) after its first mutation of the receiver;
   consequence by EffLemmas.atomic_failure: when such a check raises, no field has been written. *)
From Coq Require Import List String Bool.
From PM Require Import EffModel EffLemmas.
From PMGen Require Import Gen_effects.
Import ListNotations.

Theorem C19_gen_table_complete : table_complete gen_table = true.
Proof. vm_compute. reflexivity. Qed.

Theorem C19_gen_checks_precede_mutations : table_atomic gen_table = true.
Proof. vm_compute. reflexivity. Qed.

Theorem C19_gen_failed_check_leaves_fields :
  forall (X V : Type) (view : key -> (field -> X) -> V) (cr : string -> cstate X V -> cstate X V -> Prop)
         f p p1 e p2 (s s' : cstate X V),
    In f gen_table -> name_in INPLACE_OPS f = true -> In p (fpaths f) ->
    p = (p1 ++ e :: p2)%list -> may_raise e = true ->
    cpath X V view cr p1 s s' -> flds X V s' = flds X V s.
Proof.
  intros X V view cr f p p1 e p2 s s' Hf Hn Hp Heq Hr Hrun.
  eapply atomic_failure; try eassumption.
  apply (table_atomic_spec gen_table); [exact C19_gen_checks_precede_mutations | exact Hf | exact Hn].
Qed.

Print Assumptions C19_gen_table_complete.
Print Assumptions C19_gen_checks_precede_mutations.
Print Assumptions C19_gen_failed_check_leaves_fields.
