(* C15 - regenerated obligations: the axis arithmetic of swap_axes / roll_axis / move_axis / transpose_numer /
   transpose_denom in the CURRENT source (Gen_shape.v, written by tools/regen/shape_ast.py on this run) is the
   relabeling C15Model specifies, for every leading rank, every axis argument (negative, out of range, repeated) and
   every rank= value:

     * the method raises exactly when the specification raises;
     * otherwise values and mask get the same NumPy permutation, with axis numbers that address leading axes only
       (lead_plan demands it; by ShpLemmas.swapP_frame / rollP_frame the item axes of the values array then stay where
       they are), and that permutation is the specified one;
     * the derivatives are given the same method with arguments that produce the same permutation.

   The `*_cases` lemmas put each regenerated function into a canonical form by case analysis alone, so a rewrite of
   the Python that keeps the decisions keeps the proofs. *)
From Coq Require Import List Arith ZArith Bool Lia.
From PM Require Import Base Mask C15Model ShpModel ShpLemmas.
From PMGen Require Import Gen_shape.
Import ListNotations.

(* ---------------------------------------------------------------- swap_axes *)
Lemma swap_cases n a b :
  let a1 := (if (a <? 0)%Z then (a + n)%Z else a) in
  let a2 := (if (b <? 0)%Z then (b + n)%Z else b) in
  gen_swap_axes n a b =
  if ((a1 <? 0)%Z || (a1 >=? n)%Z) || ((a2 <? 0)%Z || (a2 >=? n)%Z) then PErr
  else if (a1 =? a2)%Z then PSelf else PRel 0 (NSwap a1 a2) (NSwap a1 a2) [[a1]; [a2]].
Proof. unfold gen_swap_axes. cbv zeta. zb; reflexivity. Qed.

Lemma lead_swap_inrange n a1 a2 d : (0 <= a1 < Z.of_nat n)%Z -> (0 <= a2 < Z.of_nat n)%Z ->
  lead_plan (PRel 0 (NSwap a1 a2) (NSwap a1 a2) d) n = RPerm 0 (swapP (Z.to_nat a1) (Z.to_nat a2) n).
Proof.
  intros H1 H2. cbn [lead_plan]. destruct (Z.ltb_spec 0 0); [lia|]. rewrite nop_eqb_refl.
  replace (n + Z.to_nat 0) with n by (cbn; lia). cbn [nop_inrange nop_perm andb].
  rewrite (proj2 (zin_true n a1) H1), (proj2 (zin_true n a2) H2). cbn [andb].
  unfold swap_perm. rewrite !norm_axis_nonneg by assumption. reflexivity.
Qed.

Theorem C15_gen_swap_axes : forall n a b, lead_plan (gen_swap_axes (Z.of_nat n) a b) n = spec_swap a b n.
Proof.
  intros n a b. rewrite swap_cases. cbv zeta. unfold spec_swap, swap_perm. rewrite !norm_axis_norm. cbv zeta.
  set (a1 := (if (a <? 0)%Z then (a + Z.of_nat n)%Z else a)).
  set (a2 := (if (b <? 0)%Z then (b + Z.of_nat n)%Z else b)).
  destruct ((a1 <? 0)%Z || (a1 >=? Z.of_nat n)%Z) eqn:E1; cbn [orb]; [reflexivity|].
  destruct ((a2 <? 0)%Z || (a2 >=? Z.of_nat n)%Z) eqn:E2; [reflexivity|].
  apply orb_false_elim in E1. apply orb_false_elim in E2. destruct E1 as [E1 E1']. destruct E2 as [E2 E2'].
  apply Z.ltb_ge in E1. apply Z.ltb_ge in E2. rewrite Z.geb_leb in E1', E2'. apply Z.leb_gt in E1'. apply Z.leb_gt in E2'.
  destruct (Z.eqb_spec a1 a2) as [Heq|Hne].
  - cbn [lead_plan]. rewrite Heq, swapP_same. reflexivity.
  - apply lead_swap_inrange; lia.
Qed.

Theorem C15_gen_swap_axes_derivs : forall n a b,
  match gen_swap_axes (Z.of_nat n) a b with
  | PRel pad v m [[x]; [y]] =>
      pad = 0%Z /\ perm_of (lead_plan (PRel pad v m []) n) <> None /\
      perm_of (lead_plan (gen_swap_axes (Z.of_nat n) x y) n) = perm_of (lead_plan (PRel pad v m []) n)
  | PRel _ _ _ _ => False
  | _ => True
  end.
Proof.
  intros n a b. rewrite swap_cases. cbv zeta.
  set (a1 := (if (a <? 0)%Z then (a + Z.of_nat n)%Z else a)).
  set (a2 := (if (b <? 0)%Z then (b + Z.of_nat n)%Z else b)).
  destruct ((a1 <? 0)%Z || (a1 >=? Z.of_nat n)%Z) eqn:E1; cbn [orb]; [exact I|].
  destruct ((a2 <? 0)%Z || (a2 >=? Z.of_nat n)%Z) eqn:E2; [exact I|].
  apply orb_false_elim in E1. apply orb_false_elim in E2. destruct E1 as [E1 E1']. destruct E2 as [E2 E2'].
  apply Z.ltb_ge in E1. apply Z.ltb_ge in E2. rewrite Z.geb_leb in E1', E2'. apply Z.leb_gt in E1'. apply Z.leb_gt in E2'.
  destruct (Z.eqb_spec a1 a2) as [Heq|Hne]; [exact I|].
  split; [reflexivity|]. rewrite lead_swap_inrange by lia. split; [discriminate|].
  rewrite swap_cases. cbv zeta. generalize dependent a2. generalize dependent a1. intros a1 E1 E1' a2 E2 E2' Hne.
  destruct (Z.ltb_spec a1 0); [lia|]. destruct (Z.ltb_spec a2 0); [lia|].
  destruct (Z.ltb_spec a1 0); [lia|]. destruct (Z.ltb_spec a2 0); [lia|].
  destruct (Z.geb_spec a1 (Z.of_nat n)); [lia|]. destruct (Z.geb_spec a2 (Z.of_nat n)); [lia|]. cbn [orb].
  destruct (Z.eqb_spec a1 a2); [lia|]. rewrite lead_swap_inrange by lia. reflexivity.
Qed.

(* ---------------------------------------------------------------- roll_axis *)
Lemma roll_cases n axis start rank :
  gen_roll_axis n axis start rank =
  match zrank n rank with
  | None => PErr
  | Some r =>
      let a1 := (if axis <? 0 then axis + r else axis)%Z in
      let a2 := (if start <? 0 then start + r else start)%Z in
      if ((a1 <? 0) || (a1 >=? r) || ((a2 <? 0) || (a2 >=? r + 1)))%Z then PErr
      else if (n =? 0)%Z then PSelf
      else PRel (if n <? r then r - n else 0)%Z (NRoll a1 a2) (NRoll a1 a2) [[a1]; [a2]; [r]]
  end.
Proof. unfold gen_roll_axis, zrank. cbv zeta. zb; reflexivity. Qed.

Lemma lead_roll_inrange r a1 a2 d : (0 <= a1 < Z.of_nat r)%Z -> (0 <= a2 <= Z.of_nat r)%Z ->
  perm_of (lead_plan (PRel 0 (NRoll a1 a2) (NRoll a1 a2) d) r) =
  Some (rollP (Z.to_nat a1) (if Nat.ltb (Z.to_nat a1) (Z.to_nat a2) then Z.to_nat a2 - 1 else Z.to_nat a2) r).
Proof.
  intros H1 H2. cbn [lead_plan]. destruct (Z.ltb_spec 0 0); [lia|]. rewrite nop_eqb_refl.
  replace (r + Z.to_nat 0) with r by (cbn; lia). cbn [nop_inrange nop_perm andb].
  rewrite (proj2 (zin_true r a1) H1). destruct (Z.leb_spec 0 a2); [|lia]. destruct (Z.leb_spec a2 (Z.of_nat r)); [|lia].
  cbn [andb]. unfold roll_perm. rewrite norm_axis_nonneg by assumption. rewrite roll_start_norm. cbv zeta.
  destruct (Z.ltb_spec a2 0); [lia|]. destruct (Z.ltb_spec a2 0); [lia|].
  destruct (Z.geb_spec a2 (Z.of_nat r + 1)); [lia|]. reflexivity.
Qed.

Lemma pad_value (n r : nat) : n <= r ->
  Z.to_nat (if (Z.of_nat n <? Z.of_nat r)%Z then (Z.of_nat r - Z.of_nat n)%Z else 0%Z) = r - n
  /\ (0 <= (if (Z.of_nat n <? Z.of_nat r)%Z then (Z.of_nat r - Z.of_nat n)%Z else 0%Z))%Z.
Proof. intros H. destruct (Z.ltb_spec (Z.of_nat n) (Z.of_nat r)); split; lia. Qed.

Lemma match_pos (n : nat) (A : Type) (x y : A) : n <> 0 -> match n with 0 => x | S _ => y end = y.
Proof. destruct n; [congruence|reflexivity]. Qed.

Theorem C15_gen_roll_axis : forall n axis start rank,
  lead_plan (gen_roll_axis (Z.of_nat n) axis start (Z.of_nat rank)) n = spec_ranked (roll_perm axis start) rank n.
Proof.
  intros n axis start rank. rewrite roll_cases. unfold spec_ranked. rewrite <- eff_rank_z.
  destruct (eff_rank n rank) as [r|] eqn:Er; cbn [option_map]; [|reflexivity].
  destruct (eff_rank_bounds _ _ _ Er) as [Hnr Hr1]. clear Er.
  cbv zeta. unfold roll_perm. rewrite norm_axis_norm. cbv zeta.
  set (a1 := (if (axis <? 0)%Z then (axis + Z.of_nat r)%Z else axis)).
  set (a2 := (if (start <? 0)%Z then (start + Z.of_nat r)%Z else start)).
  destruct ((a1 <? 0)%Z || (a1 >=? Z.of_nat r)%Z) eqn:E1; cbn [orb]; [reflexivity|].
  rewrite roll_start_norm. cbv zeta. fold a2.
  destruct ((a2 <? 0)%Z || (a2 >=? Z.of_nat r + 1)%Z) eqn:E2; [reflexivity|].
  apply orb_false_elim in E1. apply orb_false_elim in E2. destruct E1 as [E1 E1']. destruct E2 as [E2 E2'].
  apply Z.ltb_ge in E1. apply Z.ltb_ge in E2. rewrite Z.geb_leb in E1', E2'. apply Z.leb_gt in E1'. apply Z.leb_gt in E2'.
  destruct (Nat.eq_dec n 0) as [->|Hn0]; [reflexivity|].
  destruct (Z.eqb_spec (Z.of_nat n) 0); [lia|]. rewrite match_pos by exact Hn0.
  destruct (pad_value n r Hnr) as [Hpad Hpos].
  pose proof (lead_plan_pad _ (NRoll a1 a2) (NRoll a1 a2) [[a1]; [a2]; [Z.of_nat r]] [] n Hpos) as Hp.
  rewrite Hpad in Hp. replace (n + (r - n)) with r in Hp by lia.
  rewrite lead_roll_inrange in Hp by lia.
  cbn [lead_plan] in Hp |- *. destruct (Z.ltb_spec (if (Z.of_nat n <? Z.of_nat r)%Z then (Z.of_nat r - Z.of_nat n)%Z else 0%Z) 0); [lia|].
  rewrite Hpad in Hp |- *.
  destruct (nop_eqb (NRoll a1 a2) (NRoll a1 a2) && nop_inrange (NRoll a1 a2) (n + (r - n))); [|discriminate Hp].
  destruct (nop_perm (NRoll a1 a2) (n + (r - n))); [|discriminate Hp]. cbn [perm_of] in Hp. injection Hp as ->. reflexivity.
Qed.

Theorem C15_gen_roll_axis_derivs : forall n axis start rank,
  match gen_roll_axis (Z.of_nat n) axis start (Z.of_nat rank) with
  | PRel pad v m [[x]; [y]; [r]] =>
      (0 <= pad)%Z /\ r = (Z.of_nat n + pad)%Z /\ perm_of (lead_plan (PRel pad v m []) n) <> None /\
      perm_of (lead_plan (gen_roll_axis r x y r) (n + Z.to_nat pad)) = perm_of (lead_plan (PRel pad v m []) n)
  | PRel _ _ _ _ => False
  | _ => True
  end.
Proof.
  intros n axis start rank. rewrite roll_cases. rewrite <- eff_rank_z.
  destruct (eff_rank n rank) as [r|] eqn:Er; cbn [option_map]; [|exact I].
  destruct (eff_rank_bounds _ _ _ Er) as [Hnr Hr1]. clear Er. cbv zeta.
  set (a1 := (if (axis <? 0)%Z then (axis + Z.of_nat r)%Z else axis)).
  set (a2 := (if (start <? 0)%Z then (start + Z.of_nat r)%Z else start)).
  destruct ((a1 <? 0)%Z || (a1 >=? Z.of_nat r)%Z) eqn:E1; cbn [orb]; [exact I|].
  destruct ((a2 <? 0)%Z || (a2 >=? Z.of_nat r + 1)%Z) eqn:E2; [exact I|].
  apply orb_false_elim in E1. apply orb_false_elim in E2. destruct E1 as [E1 E1']. destruct E2 as [E2 E2'].
  apply Z.ltb_ge in E1. apply Z.ltb_ge in E2. rewrite Z.geb_leb in E1', E2'. apply Z.leb_gt in E1'. apply Z.leb_gt in E2'.
  destruct (Z.eqb_spec (Z.of_nat n) 0); [exact I|].
  destruct (pad_value n r Hnr) as [Hpad Hpos].
  split; [exact Hpos|]. split; [destruct (Z.ltb_spec (Z.of_nat n) (Z.of_nat r)); lia|].
  rewrite (lead_plan_pad _ _ _ [] [] n Hpos). rewrite Hpad. replace (n + (r - n)) with r by lia.
  rewrite lead_roll_inrange by lia. split; [discriminate|].
  rewrite roll_cases, zrank_self by lia. cbv zeta. generalize dependent a2. generalize dependent a1.
  intros a1 E1 E1' a2 E2 E2'.
  destruct (Z.ltb_spec a1 0); [lia|]. destruct (Z.ltb_spec a2 0); [lia|].
  destruct (Z.ltb_spec a1 0); [lia|]. destruct (Z.ltb_spec a2 0); [lia|].
  destruct (Z.geb_spec a1 (Z.of_nat r)); [lia|]. destruct (Z.geb_spec a2 (Z.of_nat r + 1)); [lia|]. cbn [orb].
  destruct (Z.eqb_spec (Z.of_nat r) 0); [lia|]. rewrite Z.ltb_irrefl.
  apply lead_roll_inrange; lia.
Qed.

(* ---------------------------------------------------------------- move_axis *)
Lemma move_cases n src dst rank :
  gen_move_axis n src dst rank =
  match zrank n rank with
  | None => PErr
  | Some r =>
      if existsb (zout r) src then PErr else if existsb (zout r) dst then PErr else
      let s := map (fun x => x mod r)%Z src in
      let d := map (fun x => x mod r)%Z dst in
      if negb (Nat.eqb (length s) (length d)) then PErr
      else if negb (Nat.eqb (length (zdistinct s)) (length s)) || negb (Nat.eqb (length (zdistinct d)) (length d)) then PErr
      else if (n =? 0)%Z then PSelf
      else PRel (if n <? r then r - n else 0)%Z (NMove s d) (NMove s d) [s; d; [r]]
  end.
Proof. unfold gen_move_axis, zrank, zout. cbv zeta. zb; reflexivity. Qed.

Lemma lead_move_inrange r s d dd : forallb (zin r) s = true -> forallb (zin r) d = true ->
  Nat.eqb (length s) (length d) = true -> Nat.eqb (length (zdistinct s)) (length s) = true ->
  Nat.eqb (length (zdistinct d)) (length d) = true ->
  perm_of (lead_plan (PRel 0 (NMove s d) (NMove s d) dd) r) = Some (moveP (map Z.to_nat s) (map Z.to_nat d) r).
Proof.
  intros Hs Hd E1 E2 E3. cbn [lead_plan]. destruct (Z.ltb_spec 0 0); [lia|]. rewrite nop_eqb_refl.
  replace (r + Z.to_nat 0) with r by (cbn; lia). cbn [nop_inrange nop_perm andb]. rewrite Hs, Hd. cbn [andb].
  unfold move_perm. rewrite !norm_axes_inrange by assumption.
  rewrite !nodupb_zdistinct by (eapply zin_nonneg; eassumption). rewrite !map_length, E1, E2, E3. reflexivity.
Qed.

Theorem C15_gen_move_axis : forall n src dst rank,
  lead_plan (gen_move_axis (Z.of_nat n) src dst (Z.of_nat rank)) n = spec_ranked (move_perm src dst) rank n.
Proof.
  intros n src dst rank. rewrite move_cases. unfold spec_ranked. rewrite <- eff_rank_z.
  destruct (eff_rank n rank) as [r|] eqn:Er; cbn [option_map]; [|reflexivity].
  destruct (eff_rank_bounds _ _ _ Er) as [Hnr Hr1]. clear Er.
  unfold move_perm. rewrite !norm_axes_zmod by exact Hr1.
  destruct (existsb (zout (Z.of_nat r)) src); [reflexivity|].
  destruct (existsb (zout (Z.of_nat r)) dst); [reflexivity|]. cbv zeta.
  set (s := map (fun x => (x mod Z.of_nat r)%Z) src). set (d := map (fun x => (x mod Z.of_nat r)%Z) dst).
  assert (Hs : forallb (zin r) s = true) by (apply mod_inrange; exact Hr1).
  assert (Hd : forallb (zin r) d = true) by (apply mod_inrange; exact Hr1).
  replace (map (fun x => Z.to_nat (x mod Z.of_nat r)) src) with (map Z.to_nat s) by (unfold s; rewrite map_map; reflexivity).
  replace (map (fun x => Z.to_nat (x mod Z.of_nat r)) dst) with (map Z.to_nat d) by (unfold d; rewrite map_map; reflexivity).
  rewrite !nodupb_zdistinct by (eapply zin_nonneg; eassumption). rewrite !map_length.
  destruct (Nat.eqb (length s) (length d)) eqn:E1; cbn [negb andb]; [|rewrite !andb_false_r; reflexivity].
  rewrite andb_true_r.
  destruct (Nat.eqb (length (zdistinct s)) (length s)) eqn:E2; cbn [negb andb orb]; [|reflexivity].
  destruct (Nat.eqb (length (zdistinct d)) (length d)) eqn:E3; cbn [negb]; [|reflexivity].
  destruct (Nat.eq_dec n 0) as [->|Hn0]; [reflexivity|].
  destruct (Z.eqb_spec (Z.of_nat n) 0); [lia|]. rewrite match_pos by exact Hn0.
  destruct (pad_value n r Hnr) as [Hpad Hpos].
  pose proof (lead_plan_pad _ (NMove s d) (NMove s d) [s; d; [Z.of_nat r]] [] n Hpos) as Hp.
  rewrite Hpad in Hp. replace (n + (r - n)) with r in Hp by lia.
  rewrite lead_move_inrange in Hp by assumption.
  cbn [lead_plan] in Hp |- *. destruct (Z.ltb_spec (if (Z.of_nat n <? Z.of_nat r)%Z then (Z.of_nat r - Z.of_nat n)%Z else 0%Z) 0); [lia|].
  rewrite Hpad in Hp |- *.
  destruct (nop_eqb (NMove s d) (NMove s d) && nop_inrange (NMove s d) (n + (r - n))); [|discriminate Hp].
  destruct (nop_perm (NMove s d) (n + (r - n))); [|discriminate Hp]. cbn [perm_of] in Hp. injection Hp as ->. reflexivity.
Qed.

Lemma map_mod_id r l : forallb (zin r) l = true -> map (fun x => (x mod Z.of_nat r)%Z) l = l.
Proof.
  intros H. transitivity (map (fun x : Z => x) l); [|apply map_id]. apply map_ext_in. intros x Hx.
  apply (proj1 (forallb_forall _ _) H) in Hx. apply zin_true in Hx. apply Z.mod_small. exact Hx.
Qed.
Lemma inrange_not_out r l : forallb (zin r) l = true -> existsb (zout (Z.of_nat r)) l = false.
Proof.
  intros H. induction l as [|x l IH]; [reflexivity|]. cbn [forallb existsb] in *. apply andb_true_iff in H.
  destruct H as [Hx Hl]. rewrite IH by exact Hl. apply zin_true in Hx. unfold zout.
  destruct (Z.ltb_spec x (- Z.of_nat r)); [lia|]. destruct (Z.geb_spec x (Z.of_nat r)); [lia|]. reflexivity.
Qed.

Theorem C15_gen_move_axis_derivs : forall n src dst rank,
  match gen_move_axis (Z.of_nat n) src dst (Z.of_nat rank) with
  | PRel pad v m [x; y; [r]] =>
      (0 <= pad)%Z /\ r = (Z.of_nat n + pad)%Z /\ perm_of (lead_plan (PRel pad v m []) n) <> None /\
      perm_of (lead_plan (gen_move_axis r x y r) (n + Z.to_nat pad)) = perm_of (lead_plan (PRel pad v m []) n)
  | PRel _ _ _ _ => False
  | _ => True
  end.
Proof.
  intros n src dst rank. rewrite move_cases. rewrite <- eff_rank_z.
  destruct (eff_rank n rank) as [r|] eqn:Er; cbn [option_map]; [|exact I].
  destruct (eff_rank_bounds _ _ _ Er) as [Hnr Hr1]. clear Er.
  destruct (existsb (zout (Z.of_nat r)) src); [exact I|].
  destruct (existsb (zout (Z.of_nat r)) dst); [exact I|]. cbv zeta.
  set (s := map (fun x => (x mod Z.of_nat r)%Z) src). set (d := map (fun x => (x mod Z.of_nat r)%Z) dst).
  assert (Hs : forallb (zin r) s = true) by (apply mod_inrange; exact Hr1).
  assert (Hd : forallb (zin r) d = true) by (apply mod_inrange; exact Hr1).
  destruct (Nat.eqb (length s) (length d)) eqn:E1; cbn [negb]; [|exact I].
  destruct (Nat.eqb (length (zdistinct s)) (length s)) eqn:E2; cbn [negb orb]; [|exact I].
  destruct (Nat.eqb (length (zdistinct d)) (length d)) eqn:E3; cbn [negb]; [|exact I].
  destruct (Z.eqb_spec (Z.of_nat n) 0); [exact I|].
  destruct (pad_value n r Hnr) as [Hpad Hpos].
  split; [exact Hpos|]. split; [destruct (Z.ltb_spec (Z.of_nat n) (Z.of_nat r)); lia|].
  rewrite (lead_plan_pad _ _ _ [] [] n Hpos). rewrite Hpad. replace (n + (r - n)) with r by lia.
  rewrite lead_move_inrange by assumption. split; [discriminate|].
  rewrite move_cases, zrank_self by lia. rewrite !inrange_not_out by assumption. cbv zeta.
  rewrite !map_mod_id by assumption. rewrite E1, E2, E3. cbn [negb orb].
  destruct (Z.eqb_spec (Z.of_nat r) 0); [lia|]. rewrite Z.ltb_irrefl.
  apply lead_move_inrange; assumption.
Qed.

(* ---------------------------------------------------------------- transpose_numer / transpose_denom *)
Lemma tn_cases n nr a b :
  let a1 := (if (a >=? 0)%Z then a else (a + nr)%Z) in
  let a2 := (if (b >=? 0)%Z then b else (b + nr)%Z) in
  gen_transpose_numer n nr a b =
  if ((a1 <? 0)%Z || (a1 >=? nr)%Z) || ((a2 <? 0)%Z || (a2 >=? nr)%Z) then PErr
  else PRel 0 (NSwap (n + a1) (n + a2)) NId [[a1]; [a2]].
Proof. unfold gen_transpose_numer. cbv zeta. zb; reflexivity. Qed.
Lemma td_cases n nr dr a b :
  let a1 := (if (a >=? 0)%Z then a else (a + dr)%Z) in
  let a2 := (if (b >=? 0)%Z then b else (b + dr)%Z) in
  gen_transpose_denom n nr dr a b =
  if ((a1 <? 0)%Z || (a1 >=? dr)%Z) || ((a2 <? 0)%Z || (a2 >=? dr)%Z) then PErr
  else PRel 0 (NSwap (n + nr + a1) (n + nr + a2)) NId [].
Proof. unfold gen_transpose_denom. cbv zeta. zb; reflexivity. Qed.

Lemma norm_axis_ge n a :
  norm_axis n a =
  let a' := (if Z.geb a 0 then a else a + Z.of_nat n)%Z in
  if (Z.ltb a' 0 || Z.geb a' (Z.of_nat n))%bool then None else Some (Z.to_nat a').
Proof. rewrite norm_axis_norm. cbv zeta. zb; reflexivity. Qed.

Lemma item_swap n off k tail a1 a2 d : (0 <= a1 < Z.of_nat k)%Z -> (0 <= a2 < Z.of_nat k)%Z ->
  item_plan (PRel 0 (NSwap (Z.of_nat (n + off) + a1) (Z.of_nat (n + off) + a2)) NId d) n (off + k) tail =
  RPerm 0 (seq 0 (n + off) ++ map (fun x => n + off + x) (swapP (Z.to_nat a1) (Z.to_nat a2) k) ++ seq (n + off + k) tail).
Proof.
  intros H1 H2. cbn [item_plan Z.eqb negb nop_perm]. unfold swap_perm.
  rewrite !norm_axis_nonneg by lia.
  replace (Z.to_nat (Z.of_nat (n + off) + a1)) with (n + off + Z.to_nat a1) by lia.
  replace (Z.to_nat (Z.of_nat (n + off) + a2)) with (n + off + Z.to_nat a2) by lia.
  replace (n + (off + k) + tail) with (n + off + k + tail) by lia.
  rewrite swapP_block by lia. reflexivity.
Qed.

Theorem C15_gen_transpose_numer : forall n nr dr a b,
  item_plan (gen_transpose_numer (Z.of_nat n) (Z.of_nat nr) a b) n nr dr = spec_item_swap a b n 0 nr dr.
Proof.
  intros n nr dr a b. rewrite tn_cases. cbv zeta. unfold spec_item_swap. rewrite !norm_axis_ge. cbv zeta.
  set (a1 := (if (a >=? 0)%Z then a else (a + Z.of_nat nr)%Z)).
  set (a2 := (if (b >=? 0)%Z then b else (b + Z.of_nat nr)%Z)).
  destruct ((a1 <? 0)%Z || (a1 >=? Z.of_nat nr)%Z) eqn:E1; cbn [orb]; [reflexivity|].
  destruct ((a2 <? 0)%Z || (a2 >=? Z.of_nat nr)%Z) eqn:E2; [reflexivity|].
  apply orb_false_elim in E1. apply orb_false_elim in E2. destruct E1 as [E1 E1']. destruct E2 as [E2 E2'].
  apply Z.ltb_ge in E1. apply Z.ltb_ge in E2. rewrite Z.geb_leb in E1', E2'. apply Z.leb_gt in E1'. apply Z.leb_gt in E2'.
  pose proof (item_swap n 0 nr dr a1 a2 [[a1]; [a2]]) as H. rewrite !Nat.add_0_r in H. cbn [Nat.add] in H.
  rewrite !Nat.add_0_r. apply H; lia.
Qed.

Theorem C15_gen_transpose_denom : forall n nr dr a b,
  item_plan (gen_transpose_denom (Z.of_nat n) (Z.of_nat nr) (Z.of_nat dr) a b) n (nr + dr) 0 = spec_item_swap a b n nr dr 0.
Proof.
  intros n nr dr a b. rewrite td_cases. cbv zeta. unfold spec_item_swap. rewrite !norm_axis_ge. cbv zeta.
  set (a1 := (if (a >=? 0)%Z then a else (a + Z.of_nat dr)%Z)).
  set (a2 := (if (b >=? 0)%Z then b else (b + Z.of_nat dr)%Z)).
  destruct ((a1 <? 0)%Z || (a1 >=? Z.of_nat dr)%Z) eqn:E1; cbn [orb]; [reflexivity|].
  destruct ((a2 <? 0)%Z || (a2 >=? Z.of_nat dr)%Z) eqn:E2; [reflexivity|].
  apply orb_false_elim in E1. apply orb_false_elim in E2. destruct E1 as [E1 E1']. destruct E2 as [E2 E2'].
  apply Z.ltb_ge in E1. apply Z.ltb_ge in E2. rewrite Z.geb_leb in E1', E2'. apply Z.leb_gt in E1'. apply Z.leb_gt in E2'.
  pose proof (item_swap n nr dr 0 a1 a2 []) as H. rewrite Nat2Z.inj_add in H. apply H; lia.
Qed.

(* the derivative of a transposed numerator is transposed by the same call: same axes, same plan *)
Theorem C15_gen_transpose_numer_derivs : forall n nr a b,
  match gen_transpose_numer (Z.of_nat n) (Z.of_nat nr) a b with
  | PRel pad v m [[x]; [y]] => gen_transpose_numer (Z.of_nat n) (Z.of_nat nr) x y = PRel pad v m [[x]; [y]]
  | PRel _ _ _ _ => False
  | _ => True
  end.
Proof.
  intros n nr a b. rewrite tn_cases. cbv zeta.
  set (a1 := (if (a >=? 0)%Z then a else (a + Z.of_nat nr)%Z)).
  set (a2 := (if (b >=? 0)%Z then b else (b + Z.of_nat nr)%Z)).
  destruct ((a1 <? 0)%Z || (a1 >=? Z.of_nat nr)%Z) eqn:E1; cbn [orb]; [exact I|].
  destruct ((a2 <? 0)%Z || (a2 >=? Z.of_nat nr)%Z) eqn:E2; [exact I|].
  apply orb_false_elim in E1. apply orb_false_elim in E2. destruct E1 as [E1 E1']. destruct E2 as [E2 E2'].
  apply Z.ltb_ge in E1. apply Z.ltb_ge in E2. rewrite Z.geb_leb in E1', E2'. apply Z.leb_gt in E1'. apply Z.leb_gt in E2'.
  rewrite tn_cases. cbv zeta. generalize dependent a2. generalize dependent a1. intros a1 E1 E1' a2 E2 E2'.
  destruct (Z.geb_spec a1 0); [|lia]. destruct (Z.geb_spec a2 0); [|lia].
  destruct (Z.ltb_spec a1 0); [lia|]. destruct (Z.ltb_spec a2 0); [lia|].
  destruct (Z.geb_spec a1 (Z.of_nat nr)); [lia|]. destruct (Z.geb_spec a2 (Z.of_nat nr)); [lia|]. reflexivity.
Qed.

Print Assumptions C15_gen_swap_axes.
Print Assumptions C15_gen_swap_axes_derivs.
Print Assumptions C15_gen_roll_axis.
Print Assumptions C15_gen_roll_axis_derivs.
Print Assumptions C15_gen_move_axis.
Print Assumptions C15_gen_move_axis_derivs.
Print Assumptions C15_gen_transpose_numer.
Print Assumptions C15_gen_transpose_denom.
Print Assumptions C15_gen_transpose_numer_derivs.
