(* C18 - regenerated obligation: the cache effects of every public mutator, read from the CURRENT source
   (coq/gen/.../Gen_effects.v, written by tools/regen/effects_ast.py), are adequate; consequence by
   EffLemmas.cache_adequate: whatever values are stored and whichever paths the called methods take, a public
   mutator maps a coherent cache to a coherent cache. *)
From Coq Require Import List String Bool.
From PM Require Import EffModel EffLemmas.
From PMGen Require Import Gen_effects.
Import ListNotations.

Theorem C18_gen_table_complete : table_complete gen_table = true.
Proof. vm_compute. reflexivity. Qed.

Theorem C18_gen_cache_effects_adequate : table_cache_ok gen_table = true.
Proof. vm_compute. reflexivity. Qed.

Theorem C18_gen_mutators_keep_cache_coherent :
  forall (X V : Type) (view : key -> (field -> X) -> V),
    (forall k a b, (forall f, dep k f = true -> a f = b f) -> view k a = view k b) ->
    forall f p (s s' : cstate X V),
      In f gen_table -> name_in PUBLIC_MUTATORS f = true -> In p (fpaths f) ->
      cpath X V view (callrel X V view gen_table FUEL) p s s' ->
      coherent X V view s -> coherent X V view s'.
Proof.
  intros X V view Hd f p s s' Hf Hn Hp Hrun Hc.
  eapply cache_adequate; try eassumption.
  apply table_cache_ok_spec; [exact C18_gen_cache_effects_adequate | exact Hf | exact Hn].
Qed.

(* the number fast paths (x + 2., x - 2., x * 2., x / 2., x // 2., x % 2.) build their result as a clone that keeps the
   cache of x and then replace its values: whatever they do, the returned object's cache is coherent *)
Theorem C18_gen_derived_effects_adequate : table_derived_ok gen_table = true.
Proof. vm_compute. reflexivity. Qed.

Theorem C18_gen_fast_path_results_coherent :
  forall (X V : Type) (view : key -> (field -> X) -> V),
    (forall k a b, (forall f, dep k f = true -> a f = b f) -> view k a = view k b) ->
    forall f p (s s' : cstate X V),
      In f gen_table -> is_derived f = true -> In p (fpaths f) -> returns p = true ->
      cpath X V view (callrel X V view gen_table FUEL) p s s' -> coherent X V view s'.
Proof.
  intros X V view Hd f p s s' Hf Hn Hp Hr Hrun.
  eapply derived_adequate; try eassumption.
  pose proof C18_gen_derived_effects_adequate as H. unfold table_derived_ok in H.
  apply andb_prop in H. destruct H as [H _]. rewrite forallb_forall in H.
  apply H. apply filter_In. split; assumption.
Qed.

Print Assumptions C18_gen_table_complete.
Print Assumptions C18_gen_cache_effects_adequate.
Print Assumptions C18_gen_mutators_keep_cache_coherent.
Print Assumptions C18_gen_derived_effects_adequate.
Print Assumptions C18_gen_fast_path_results_coherent.
