(* diagnostic (run only when an obligation failed): the arguments, on a small grid (leading rank <= 3, axes and
   rank= in -4..4, lists of at most two axes), on which a regenerated plan differs from the specification.
   Each line is a concrete input the search replays on the implementation. *)
From Coq Require Import List Arith ZArith Bool String.
From PM Require Import Base Mask C15Model ShpModel.
From PMGen Require Import Gen_shape.
Import ListNotations.
Local Open Scope string_scope.
Local Open Scope list_scope.

Definition nat_list_eqb := fix go (a b : list nat) : bool :=
  match a, b with [], [] => true | x :: a', y :: b' => Nat.eqb x y && go a' b' | _, _ => false end.
Definition pres_eqb (x y : pres) : bool :=
  match x, y with
  | RRaise, RRaise => true
  | RPerm p P, RPerm q Q => Nat.eqb p q && nat_list_eqb P Q
  | _, _ => false
  end.
Definition popt_eqb (x y : option (list nat)) : bool :=
  match x, y with Some a, Some b => nat_list_eqb a b | None, None => true | _, _ => false end.
Definition zs : list Z := [-4; -3; -2; -1; 0; 1; 2; 3; 4]%Z.
Definition ns : list nat := [0; 1; 2; 3].
Definition ls : list (list Z) := [] :: map (fun x => [x]) zs ++ flat_map (fun x => map (fun y => [x; y]) [-3; -1; 0; 1; 2]%Z) [-2; -1; 0; 1; 2; 3]%Z.
Definition first5 {A} (l : list A) := firstn 5 l.

Eval vm_compute in ("swap_axes (n, axis1, axis2)",
  first5 (filter (fun t => match t with (n, a, b) => negb (pres_eqb (lead_plan (gen_swap_axes (Z.of_nat n) a b) n) (spec_swap a b n)) end)
     (flat_map (fun n => flat_map (fun a => map (fun b => (n, a, b)) zs) zs) ns))).
Eval vm_compute in ("roll_axis (n, axis, start, rank)",
  first5 (filter (fun t => match t with (n, a, b, r) =>
        negb (pres_eqb (lead_plan (gen_roll_axis (Z.of_nat n) a b (Z.of_nat r)) n) (spec_ranked (roll_perm a b) r n)) end)
     (flat_map (fun n => flat_map (fun a => flat_map (fun b => map (fun r => (n, a, b, r)) [0; 1; 2; 3; 4]) zs) zs) ns))).
Eval vm_compute in ("move_axis (n, source, destination, rank)",
  first5 (filter (fun t => match t with (n, a, b, r) =>
        negb (pres_eqb (lead_plan (gen_move_axis (Z.of_nat n) a b (Z.of_nat r)) n) (spec_ranked (move_perm a b) r n)) end)
     (flat_map (fun n => flat_map (fun a => flat_map (fun b => map (fun r => (n, a, b, r)) [0; 1; 2; 3; 4]) ls) ls) ns))).
Eval vm_compute in ("transpose_numer (n, nrank, drank, axis1, axis2)",
  first5 (filter (fun t => match t with (n, nr, dr, a, b) =>
        negb (pres_eqb (item_plan (gen_transpose_numer (Z.of_nat n) (Z.of_nat nr) a b) n nr dr) (spec_item_swap a b n 0 nr dr)) end)
     (flat_map (fun n => flat_map (fun nr => flat_map (fun dr => flat_map (fun a => map (fun b => (n, nr, dr, a, b)) zs) zs) [0; 1; 2]) [0; 1; 2; 3]) [0; 1; 2]))).
Eval vm_compute in ("transpose_denom (n, nrank, drank, axis1, axis2)",
  first5 (filter (fun t => match t with (n, nr, dr, a, b) =>
        negb (pres_eqb (item_plan (gen_transpose_denom (Z.of_nat n) (Z.of_nat nr) (Z.of_nat dr) a b) n (nr + dr) 0) (spec_item_swap a b n nr dr 0)) end)
     (flat_map (fun n => flat_map (fun nr => flat_map (fun dr => flat_map (fun a => map (fun b => (n, nr, dr, a, b)) zs) zs) [0; 1; 2]) [0; 1; 2]) [0; 1; 2]))).
(* derivative calls that do not reproduce the permutation *)
Eval vm_compute in ("derivative call of swap_axes (n, axis1, axis2)",
  first5 (filter (fun t => match t with (n, a, b) =>
        match gen_swap_axes (Z.of_nat n) a b with
        | PRel pad v m [[x]; [y]] => negb (popt_eqb (perm_of (lead_plan (gen_swap_axes (Z.of_nat n) x y) n)) (perm_of (lead_plan (PRel pad v m []) n)))
        | PRel _ _ _ _ => true
        | _ => false
        end end)
     (flat_map (fun n => flat_map (fun a => map (fun b => (n, a, b)) zs) zs) ns))).
Eval vm_compute in ("derivative call of roll_axis (n, axis, start, rank)",
  first5 (filter (fun t => match t with (n, a, b, r) =>
        match gen_roll_axis (Z.of_nat n) a b (Z.of_nat r) with
        | PRel pad v m [[x]; [y]; [r']] =>
            negb (popt_eqb (perm_of (lead_plan (gen_roll_axis r' x y r') (n + Z.to_nat pad))) (perm_of (lead_plan (PRel pad v m []) n)))
        | PRel _ _ _ _ => true
        | _ => false
        end end)
     (flat_map (fun n => flat_map (fun a => flat_map (fun b => map (fun r => (n, a, b, r)) [0; 1; 2; 3; 4]) zs) zs) ns))).
Eval vm_compute in ("derivative call of move_axis (n, source, destination, rank)",
  first5 (filter (fun t => match t with (n, a, b, r) =>
        match gen_move_axis (Z.of_nat n) a b (Z.of_nat r) with
        | PRel pad v m [x; y; [r']] =>
            negb (popt_eqb (perm_of (lead_plan (gen_move_axis r' x y r') (n + Z.to_nat pad))) (perm_of (lead_plan (PRel pad v m []) n)))
        | PRel _ _ _ _ => true
        | _ => false
        end end)
     (flat_map (fun n => flat_map (fun a => flat_map (fun b => map (fun r => (n, a, b, r)) [0; 1; 2; 3; 4]) ls) ls) ns))).
