(* C08 - regenerated obligation: in the CURRENT source, every path of every in-place operator and of item
   assignment reaches require_writable() before it mutates the receiver, directly or through a called method;
   consequence by EffLemmas.writable_first: on a read-only receiver no such path reaches a mutation. *)
From Coq Require Import List String Bool.
From PM Require Import EffModel EffLemmas.
From PMGen Require Import Gen_effects.
Import ListNotations.

Theorem C08_gen_table_complete : table_complete gen_table = true.
Proof. vm_compute. reflexivity. Qed.

Theorem C08_gen_require_writable_first : table_wfirst gen_table = true.
Proof. vm_compute. reflexivity. Qed.

Theorem C08_gen_readonly_receiver_never_mutated :
  forall f p, In f gen_table -> name_in INPLACE_OPS f = true -> In p (fpaths f) ->
              ~ reaches (reachcall gen_table FUEL) p.
Proof.
  intros f p Hf Hn Hp. eapply writable_first; [|exact Hp].
  apply table_wfirst_spec; [exact C08_gen_require_writable_first | exact Hf | exact Hn].
Qed.

Print Assumptions C08_gen_table_complete.
Print Assumptions C08_gen_require_writable_first.
Print Assumptions C08_gen_readonly_receiver_never_mutated.
