(* Soundness of the three path analyses of EffModel.v with respect to a concrete machine:
   an object = five abstract fields + a cache of views that are functions of some of the fields.

     cache_adequate      a path whose abstract result has no Stale key maps a coherent cache to a coherent cache,
                         whatever values the mutations store, whichever path the called methods take
     atomic_failure      on a path that is `atomic`, when one of the method's own checks raises, no field of
                         the receiver has been changed
     writable_first      on a read-only receiver (require_writable() raises) a `wfirst` path never reaches a
                         mutation, neither directly nor through the methods it calls

   The event tables these theorems are applied to are regenerated from the source on every run. *)
From Coq Require Import List String Bool.
From PM Require Import EffModel.
Import ListNotations.

Definition field_eqb (a b : field) : bool :=
  match a, b with
  | FValues, FValues | FMask, FMask | FUnits, FUnits | FDerivs, FDerivs | FReadonly, FReadonly => true
  | _, _ => false
  end.
Lemma field_eqb_eq a b : field_eqb a b = true <-> a = b.
Proof. destruct a, b; simpl; split; intro H; try reflexivity; try discriminate. Qed.
Lemma key_eqb_eq a b : key_eqb a b = true <-> a = b.
Proof. destruct a, b; simpl; split; intro H; try reflexivity; try discriminate. Qed.

Definition inert (e : event) : bool :=
  match e with
  | EReq | EChk | ERaise | EPure false | ECallFailed _ | ERet => true
  | _ => false
  end.

Section Sound.
Variables X V : Type.
Variable view : key -> (field -> X) -> V.
Hypothesis view_dep : forall k a b, (forall f, dep k f = true -> a f = b f) -> view k a = view k b.

Record cstate := mkcs { flds : field -> X; cch : key -> option V }.
Definition upd (a : field -> X) (f : field) (x : X) : field -> X :=
  fun g => if field_eqb g f then x else a g.

Definition coherent (s : cstate) : Prop := forall k v, cch s k = Some v -> v = view k (flds s).

(* what an abstract value claims about one cached key *)
Definition claim (t : tri) (s : cstate) (k : key) : Prop :=
  match t with
  | Absent => cch s k = None
  | Fresh => forall v, cch s k = Some v -> v = view k (flds s)
  | Stale => True
  end.
Definition coh (a : st) (s : cstate) : Prop := forall k, claim (a k) s k.

(* concrete steps; `cr` is the behaviour of a call *)
Inductive cev (cr : string -> cstate -> cstate -> Prop) : event -> cstate -> cstate -> Prop :=
| c_mut f x s : cev cr (EMut f) s (mkcs (upd (flds s) f x) (cch s))
| c_full s : cev cr EInvFull s (mkcs (flds s) (fun _ => None))
| c_vals s : cev cr EInvVals s
                 (mkcs (flds s) (fun k => match k with KWod | KUnsh => None | _ => cch s k end))
| c_key k0 s : cev cr (EInvKey k0) s (mkcs (flds s) (fun k => if key_eqb k k0 then None else cch s k))
| c_query s c' :
    (forall k, c' k = cch s k \/ (cch s k = None /\ c' k = Some (view k (flds s)))) ->
    cev cr (EPure true) s (mkcs (flds s) c')
| c_inherit s c' : (forall k v, c' k = Some v -> v = view k (flds s)) -> cev cr EInherit s (mkcs (flds s) c')
| c_call n s s' : cr n s s' -> cev cr (ECall n) s s'
| c_skip e s : inert e = true -> cev cr e s s.

Inductive cpath (cr : string -> cstate -> cstate -> Prop) : list event -> cstate -> cstate -> Prop :=
| cp_nil s : cpath cr [] s s
| cp_cons e p s s1 s2 : cev cr e s s1 -> cpath cr p s1 s2 -> cpath cr (e :: p) s s2.

(* a call runs some returning path of some analysed method of that name, to a bounded call depth *)
Fixpoint callrel (tbl : list fn) (n : nat) : string -> cstate -> cstate -> Prop :=
  match n with
  | 0 => fun _ _ _ => False
  | S m => fun name s s' => exists p, In p (ret_paths tbl name) /\ cpath (callrel tbl m) p s s'
  end.

Definition tri_le (a b : tri) : Prop :=
  match a, b with
  | Absent, _ => True
  | Fresh, Absent => False
  | Fresh, _ => True
  | Stale, Stale => True
  | Stale, _ => False
  end.
Lemma claim_mono a b s k : tri_le a b -> claim a s k -> claim b s k.
Proof.
  destruct a, b; simpl; intros H C; try exact C; try exact I; try contradiction.
  intros v Hv. rewrite C in Hv. discriminate.
Qed.
Lemma coh_weaken a b s : (forall k, tri_le (a k) (b k)) -> coh a s -> coh b s.
Proof. intros H C k. eapply claim_mono; [apply H | apply C]. Qed.
Lemma tri_le_join_l a b : tri_le a (tri_join a b).
Proof. destruct a, b; simpl; exact I. Qed.
Lemma tri_le_join_r a b : tri_le b (tri_join a b).
Proof. destruct a, b; simpl; exact I. Qed.

Lemma ev_sound (cr : string -> cstate -> cstate -> Prop) ac :
  (forall n a s s', cr n s s' -> coh a s -> coh (ac n a) s') ->
  forall e s s' a, cev cr e s s' -> coh a s -> coh (aev ac e a) s'.
Proof.
  intros Hc e s s' a Hev Hcoh.
  destruct Hev as [f x s | s | s | k0 s | s c' Hq | s c' Hi | n s s' Hcall | e s Hin]; simpl.
  - (* mutation of field f *)
    intro k. specialize (Hcoh k). unfold claim in *. simpl.
    destruct (a k) eqn:Ea; simpl; try exact Hcoh; try exact I.
    destruct (dep k f) eqn:Ed; simpl; [exact I|].
    intros v Hv. rewrite (Hcoh v Hv). apply view_dep.
    intros g Hg. unfold upd. destruct (field_eqb g f) eqn:Eg; [|reflexivity].
    apply field_eqb_eq in Eg. subst g. rewrite Hg in Ed. discriminate.
  - intro k. simpl. reflexivity.
  - intro k. specialize (Hcoh k). destruct k; simpl; try reflexivity; exact Hcoh.
  - intro k. specialize (Hcoh k). simpl. destruct (key_eqb k k0) eqn:E; simpl.
    + rewrite E. reflexivity.
    + destruct (a k); simpl in *; try rewrite E; exact Hcoh.
  - (* a query may fill absent entries with fresh views *)
    intro k. specialize (Hcoh k). specialize (Hq k). simpl.
    destruct (a k) eqn:Ea; simpl in *.
    + intros v Hv. destruct Hq as [Hq | [_ Hq]]; rewrite Hq in Hv.
      * rewrite Hcoh in Hv. discriminate.
      * inversion Hv. reflexivity.
    + intros v Hv. destruct Hq as [Hq | [_ Hq]]; rewrite Hq in Hv.
      * apply Hcoh. exact Hv.
      * inversion Hv. reflexivity.
    + exact I.
  - intro k. simpl. apply Hi.
  - eapply Hc; eassumption.
  - destruct e; simpl in Hin; try discriminate; try exact Hcoh.
    destruct c; [discriminate | exact Hcoh].
Qed.

Lemma path_sound (cr : string -> cstate -> cstate -> Prop) ac :
  (forall n a s s', cr n s s' -> coh a s -> coh (ac n a) s') ->
  forall p s s' a, cpath cr p s s' -> coh a s -> coh (apath ac p a) s'.
Proof.
  intros Hc p s s' a Hp. revert a.
  induction Hp as [s | e p s s1 s2 Hev Hp IH]; intros a Hcoh; simpl.
  - exact Hcoh.
  - apply IH. eapply ev_sound; eassumption.
Qed.

Lemma coh_fold_join (F : list event -> st) l p s :
  In p l -> coh (F p) s -> coh (fold_right (fun q acc => join (F q) acc) empty_st l) s.
Proof.
  induction l as [|x l IH]; intros Hin Hc; [destruct Hin|].
  simpl. destruct Hin as [-> | Hin].
  - eapply coh_weaken; [|exact Hc]. intro k. apply tri_le_join_l.
  - eapply coh_weaken; [|apply IH; assumption]. intro k. apply tri_le_join_r.
Qed.

Lemma ret_paths_nil tbl m : fns_named tbl m = [] -> ret_paths tbl m = [].
Proof. unfold ret_paths. intros ->. reflexivity. Qed.

Lemma call_sound tbl n :
  forall m a s s', callrel tbl n m s s' -> coh a s -> coh (acall tbl n m a) s'.
Proof.
  induction n as [|n IH]; intros m a s s' Hcall Hcoh; simpl in *.
  - destruct Hcall.
  - destruct Hcall as [p [Hin Hp]].
    destruct (fns_named tbl m) eqn:Efn.
    + rewrite (ret_paths_nil _ _ Efn) in Hin. destruct Hin.
    + apply (coh_fold_join (fun q => apath (acall tbl n) q a) _ p); [exact Hin|].
      eapply path_sound; [exact IH | exact Hp | exact Hcoh].
Qed.

Lemma no_stale_spec a : no_stale a = true -> forall k, a k <> Stale.
Proof.
  unfold no_stale, all_keys. simpl. intros H k Hk.
  repeat (apply andb_prop in H; destruct H as [?H H]).
  destruct k; rewrite Hk in *; simpl in *; discriminate.
Qed.

Lemma coherent_coh s : coherent s -> coh coherent_st s.
Proof. intros H k. simpl. apply H. Qed.

(* C18: every path of a method that passes the cache obligation keeps the cache coherent *)
Theorem cache_adequate tbl f p s s' :
  fn_cache_ok tbl f = true -> In p (fpaths f) ->
  cpath (callrel tbl FUEL) p s s' -> coherent s -> coherent s'.
Proof.
  intros Hok Hin Hp Hc. unfold fn_cache_ok in Hok.
  rewrite forallb_forall in Hok. specialize (Hok p Hin). unfold path_cache_ok in Hok.
  pose proof (path_sound _ _ (call_sound tbl FUEL) p s s' coherent_st Hp (coherent_coh s Hc)) as Hs.
  intros k v Hv. specialize (Hs k). pose proof (no_stale_spec _ Hok k) as Hk.
  destruct (apath (acall tbl FUEL) p coherent_st k); simpl in Hs.
  - rewrite Hs in Hv. discriminate.
  - apply Hs. exact Hv.
  - exfalso. apply Hk. reflexivity.
Qed.

Lemma coh_dirty s : coh dirty s.
Proof. intro k. exact I. Qed.

(* C18 / C17: the object a number fast path returns has a coherent cache, whatever state it started from *)
Theorem derived_adequate tbl f p s s' :
  fn_derived_ok tbl f = true -> In p (fpaths f) -> returns p = true ->
  cpath (callrel tbl FUEL) p s s' -> coherent s'.
Proof.
  intros Hok Hin Hret Hp. unfold fn_derived_ok in Hok.
  rewrite forallb_forall in Hok.
  assert (Hf : In p (filter returns (fpaths f))) by (apply filter_In; split; assumption).
  specialize (Hok p Hf).
  pose proof (path_sound _ _ (call_sound tbl FUEL) p s s' dirty Hp (coh_dirty s)) as Hs.
  intros k v Hv. specialize (Hs k). pose proof (no_stale_spec _ Hok k) as Hk.
  destruct (apath (acall tbl FUEL) p dirty k); simpl in Hs.
  - rewrite Hs in Hv. discriminate.
  - apply Hs. exact Hv.
  - exfalso. apply Hk. reflexivity.
Qed.

(* ---- atomicity ---- *)
Lemma raise_not_mutating e : may_raise e = true -> mutating e = false.
Proof. destruct e; simpl; intro H; try discriminate; reflexivity. Qed.

Lemma atomic_prefix p1 : forall m e p2,
  atomic_from m (p1 ++ e :: p2) = true -> may_raise e = true -> m || existsb mutating p1 = false.
Proof.
  induction p1 as [|x p1 IH]; intros m e p2 H Hr; simpl in *.
  - rewrite Hr in H. apply andb_prop in H. destruct H as [H _].
    destruct m; [discriminate | reflexivity].
  - destruct (may_raise x) eqn:Ex.
    + apply andb_prop in H. destruct H as [Hm H].
      rewrite (raise_not_mutating _ Ex). simpl. eapply IH; eassumption.
    + specialize (IH _ _ _ H Hr). rewrite orb_assoc. exact IH.
Qed.

Lemma nonmut_fields (cr : string -> cstate -> cstate -> Prop) p : forall s s',
  existsb mutating p = false -> cpath cr p s s' -> flds s' = flds s.
Proof.
  induction p as [|e p IH]; intros s s' Hn Hp; inversion Hp; subst; [reflexivity|].
  simpl in Hn. apply orb_false_elim in Hn. destruct Hn as [He Hn].
  match goal with H : cev _ _ _ _ |- _ => inversion H; subst end; simpl in He; try discriminate;
    (etransitivity; [eapply IH; eassumption | reflexivity]).
Qed.

(* C19: when one of the method's own checks raises, nothing has been written yet *)
Theorem atomic_failure (cr : string -> cstate -> cstate -> Prop) f p p1 e p2 s s' :
  fn_atomic f = true -> In p (fpaths f) -> p = p1 ++ e :: p2 -> may_raise e = true ->
  cpath cr p1 s s' -> flds s' = flds s.
Proof.
  intros Hf Hin -> Hr Hp. unfold fn_atomic in Hf. rewrite forallb_forall in Hf.
  specialize (Hf _ Hin). unfold atomic in Hf.
  pose proof (atomic_prefix _ _ _ _ Hf Hr) as H. simpl in H.
  eapply nonmut_fields; eassumption.
Qed.

End Sound.

(* ---- writable first: executions on a read-only receiver, where require_writable() raises ---- *)
Inductive reaches (rc : string -> Prop) : list event -> Prop :=
| r_mut f t : reaches rc (EMut f :: t)
| r_call n t : rc n -> reaches rc (ECall n :: t)
| r_step e t : e <> EReq -> reaches rc t -> reaches rc (e :: t).

Fixpoint reachcall (tbl : list fn) (n : nat) (name : string) : Prop :=
  match n with
  | 0 => True
  | S m => exists f p, In f (fns_named tbl name) /\ In p (fpaths f) /\ reaches (reachcall tbl m) p
  end.

Lemma wfirst_sound (callok : string -> bool) (rc : string -> Prop) :
  (forall n, callok n = true -> ~ rc n) ->
  forall p, wfirst callok p = true -> ~ reaches rc p.
Proof.
  intros Hc p. induction p as [|e p IH]; intros Hw Hr; inversion Hr; subst; simpl in Hw.
  - discriminate.
  - apply andb_prop in Hw. destruct Hw as [Hk _]. eapply Hc; eassumption.
  - destruct e; try (apply IH; assumption); try discriminate.
    + match goal with H : EReq <> EReq |- _ => apply H; reflexivity end.
    + apply andb_prop in Hw. destruct Hw as [_ Hw]. apply IH; assumption.
Qed.

Lemma wcall_sound tbl n : forall name, wcall tbl n name = true -> ~ reachcall tbl n name.
Proof.
  induction n as [|n IH]; intros name Hw Hr; [simpl in Hw; discriminate|].
  simpl in Hr. destruct Hr as [f [p [Hf [Hp Hr]]]].
  change (wcall tbl (S n) name) with
    (match fns_named tbl name with
     | [] => false
     | fs => forallb (fun f => forallb (wfirst (wcall tbl n)) (fpaths f)) fs
     end) in Hw.
  remember (fns_named tbl name) as l eqn:E.
  destruct l as [|f0 fs]; [destruct Hf|].
  assert (Hw1 : forallb (wfirst (wcall tbl n)) (fpaths f) = true).
  { pose proof (proj1 (forallb_forall _ _) Hw) as Hw'. apply Hw'. exact Hf. }
  rewrite forallb_forall in Hw1. specialize (Hw1 p Hp).
  eapply wfirst_sound; [exact IH | exact Hw1 | exact Hr].
Qed.

(* C08: a path that passes the obligation cannot reach a mutation on a read-only receiver *)
Theorem writable_first tbl f p :
  fn_wfirst tbl f = true -> In p (fpaths f) -> ~ reaches (reachcall tbl FUEL) p.
Proof.
  intros Hf Hin. unfold fn_wfirst in Hf. rewrite forallb_forall in Hf.
  eapply wfirst_sound; [apply wcall_sound | apply Hf; exact Hin].
Qed.

(* lifting the table-level obligations (what the regenerated file proves by computation) *)
Lemma table_cache_ok_spec tbl f :
  table_cache_ok tbl = true -> In f tbl -> name_in PUBLIC_MUTATORS f = true -> fn_cache_ok tbl f = true.
Proof.
  unfold table_cache_ok. rewrite forallb_forall. intros H Hin Hn. apply H. apply filter_In. split; assumption.
Qed.
Lemma table_atomic_spec tbl f :
  table_atomic tbl = true -> In f tbl -> name_in INPLACE_OPS f = true -> fn_atomic f = true.
Proof.
  unfold table_atomic. rewrite forallb_forall. intros H Hin Hn. apply H. apply filter_In. split; assumption.
Qed.
Lemma table_wfirst_spec tbl f :
  table_wfirst tbl = true -> In f tbl -> name_in INPLACE_OPS f = true -> fn_wfirst tbl f = true.
Proof.
  unfold table_wfirst. rewrite forallb_forall. intros H Hin Hn. apply H. apply filter_In. split; assumption.
Qed.
