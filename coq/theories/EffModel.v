(* Effects of the self-mutating methods of polymath as event paths (regenerated from the source on every run by
   tools/regen/effects_ast.py -> coq/gen/Gen_effects.v), and the three computable path properties that the
   regenerated table must satisfy:

     cache adequacy   (C18)  every path of a public mutator that starts with a coherent cache ends with one
     atomicity        (C19)  no check / raise of a mutator comes after its first mutation
     writable first   (C08)  no in-place operator or item assignment mutates before require_writable()

   Proof-free; the soundness theorems are in EffLemmas.v. *)
From Coq Require Import List String Bool.
Import ListNotations.

Inductive field := FValues | FMask | FUnits | FDerivs | FReadonly.
Inductive key := KAnti | KCorn | KSlic | KWod | KUnsh.
Inductive event :=
| EReq | EChk | ERaise | EPure (c : bool) | EMut (f : field) | EInvFull | EInvVals | EInvKey (k : key)
| ECall (n : string) | ECallFailed (n : string) | ERet | EInherit.
Record fn := mkfn { fcls : string; fname : string; fpaths : list (list event) }.

Definition all_keys := [KAnti; KCorn; KSlic; KWod; KUnsh].
Definition key_eqb (a b : key) : bool :=
  match a, b with
  | KAnti, KAnti | KCorn, KCorn | KSlic, KSlic | KWod, KWod | KUnsh, KUnsh => true
  | _, _ => false
  end.

(* which cached view is computed from which field (qube.py: antimask, corners, _slicer read the mask; the cached
   derivative-free twin wod shares values, mask and units; the un-shrunk original stands for the whole object).
   The read-only flag has no dependants here: as_readonly() itself converts the cached objects. *)
Definition dep (k : key) (f : field) : bool :=
  match k, f with
  | KAnti, FMask | KCorn, FMask | KSlic, FMask => true
  | KWod, FValues | KWod, FMask | KWod, FUnits => true
  | KUnsh, FValues | KUnsh, FMask | KUnsh, FUnits | KUnsh, FDerivs => true
  | _, _ => false
  end.

(* ---- abstract interpretation: per cached key, is an entry absent / present and fresh / possibly stale ---- *)
Inductive tri := Absent | Fresh | Stale.
Definition tri_join (a b : tri) : tri :=
  match a, b with
  | Stale, _ | _, Stale => Stale
  | Fresh, _ | _, Fresh => Fresh
  | Absent, Absent => Absent
  end.
Definition st := key -> tri.
Definition coherent_st : st := fun _ => Fresh.       (* every entry that is present is fresh *)
Definition empty_st : st := fun _ => Absent.
Definition dirty : st := fun _ => Stale.
Definition join (a b : st) : st := fun k => tri_join (a k) (b k).
Definition is_stale (t : tri) : bool := match t with Stale => true | _ => false end.
Definition no_stale (s : st) : bool := forallb (fun k => negb (is_stale (s k))) all_keys.

Definition aev (call : string -> st -> st) (e : event) (s : st) : st :=
  match e with
  | EMut f => fun k => match s k with Fresh => if dep k f then Stale else Fresh | t => t end
  | EInvFull => empty_st
  | EInvVals => fun k => match k with KWod | KUnsh => Absent | _ => s k end
  | EInvKey k0 => fun k => if key_eqb k k0 then Absent else s k
  | EPure true => fun k => match s k with Absent => Fresh | t => t end   (* a query may fill the cache *)
  | EInherit => coherent_st           (* the cache of an object with the same fields, itself coherent *)
  | ECall n => call n s
  | _ => s
  end.
Fixpoint apath (call : string -> st -> st) (p : list event) (s : st) : st :=
  match p with [] => s | e :: t => apath call t (aev call e s) end.

(* a call names its target either by method name alone (self.m(...): the class of the receiver decides, so every
   analysed class's version may run) or qualified "Class.m" (super(...).m(...), Class.m(self, ...)) *)
Definition fqname (f : fn) : string := String.append (fcls f) (String.append "." (fname f)).
Definition fns_named (tbl : list fn) (n : string) : list fn :=
  filter (fun f => String.eqb (fname f) n || String.eqb (fqname f) n) tbl.
Definition returns (p : list event) : bool :=
  match rev p with ERet :: _ => true | _ => false end.
Definition ret_paths (tbl : list fn) (n : string) : list (list event) :=
  filter returns (List.concat (map fpaths (fns_named tbl n))).

(* summary of a call: the join over every returning path of every analysed method of that name;
   unknown method or no fuel: everything may be stale *)
Fixpoint acall (tbl : list fn) (fuel : nat) (n : string) (s : st) : st :=
  match fuel with
  | 0 => dirty
  | S m =>
      match fns_named tbl n with
      | [] => dirty
      | _ => fold_right (fun p acc => join (apath (acall tbl m) p s) acc) empty_st (ret_paths tbl n)
      end
  end.

Definition FUEL := 6.
Definition path_cache_ok (tbl : list fn) (p : list event) : bool := no_stale (apath (acall tbl FUEL) p coherent_st).
Definition fn_cache_ok (tbl : list fn) (f : fn) : bool := forallb (path_cache_ok tbl) (fpaths f).

(* ---- atomicity: the method's own checks precede its first mutation ---- *)
Definition mutating (e : event) : bool := match e with EMut _ | ECall _ => true | _ => false end.
Definition may_raise (e : event) : bool :=
  match e with EReq | EChk | ERaise | ECallFailed _ => true | _ => false end.
Fixpoint atomic_from (mutated : bool) (p : list event) : bool :=
  match p with
  | [] => true
  | e :: t => if may_raise e then negb mutated && atomic_from mutated t
              else atomic_from (mutated || mutating e) t
  end.
Definition atomic (p : list event) : bool := atomic_from false p.
Definition fn_atomic (f : fn) : bool := forallb atomic (fpaths f).

(* ---- writable first: on a read-only receiver require_writable() stops the path before any mutation ---- *)
Fixpoint wfirst (callok : string -> bool) (p : list event) : bool :=
  match p with
  | [] => true
  | EReq :: _ => true                         (* everything after it is guarded *)
  | EMut _ :: _ => false
  | ECall n :: t => callok n && wfirst callok t
  | _ :: t => wfirst callok t
  end.
Fixpoint wcall (tbl : list fn) (fuel : nat) (n : string) : bool :=
  match fuel with
  | 0 => false
  | S m => match fns_named tbl n with
           | [] => false
           | fs => forallb (fun f => forallb (wfirst (wcall tbl m)) (fpaths f)) fs
           end
  end.
Definition fn_wfirst (tbl : list fn) (f : fn) : bool := forallb (wfirst (wcall tbl FUEL)) (fpaths f).

(* which methods each property is demanded of *)
Definition name_in (l : list string) (f : fn) : bool := existsb (String.eqb (fname f)) l.
Local Open Scope string_scope.
Definition INPLACE_OPS : list string :=
  ["__iadd__"; "__isub__"; "__imul__"; "__itruediv__"; "__idiv__"; "__ifloordiv__"; "__imod__";
   "__iand__"; "__ior__"; "__ixor__"; "__setitem__"].
Definition PUBLIC_MUTATORS : list string :=
  List.app INPLACE_OPS ["set_units"; "insert_deriv"; "insert_derivs"; "delete_deriv"; "delete_derivs";
                        "as_readonly"; "match_readonly"].
Local Close Scope string_scope.

Definition table_cache_ok (tbl : list fn) : bool := forallb (fn_cache_ok tbl) (filter (name_in PUBLIC_MUTATORS) tbl).
Definition table_atomic (tbl : list fn) : bool := forallb fn_atomic (filter (name_in INPLACE_OPS) tbl).
Definition table_wfirst (tbl : list fn) : bool := forallb (fn_wfirst tbl) (filter (name_in INPLACE_OPS) tbl).

(* objects derived from a clone that keeps the cache of its source (the number fast paths x + 2., x * 2. ...):
   whatever existed before, the object the path returns has no possibly-stale entry *)
Definition is_derived (f : fn) : bool := String.prefix "derived:" (fname f).
Definition fn_derived_ok (tbl : list fn) (f : fn) : bool :=
  forallb (fun p => no_stale (apath (acall tbl FUEL) p dirty)) (filter returns (fpaths f)).
Definition table_derived_ok (tbl : list fn) : bool :=
  forallb (fn_derived_ok tbl) (filter is_derived tbl) && negb (Nat.eqb (List.length (filter is_derived tbl)) 0).

(* every public mutator must be present (a renamed or deleted method must not make the obligations vacuous) *)
Definition table_complete (tbl : list fn) : bool :=
  forallb (fun n => negb (Nat.eqb (List.length (fns_named tbl n)) 0)) PUBLIC_MUTATORS.
