(* Property C07 - non-in-place operations never modify operands or shared constants; copy() is
   independent of its source.  Statements over the heap model of C07Model.v (buffers, array
   objects = views with a WRITEABLE flag, polymath objects = tagged array references + units +
   read-only flag; the derivative map is the set of TDVals/TDMask tags).  U = unbounded: any
   state, any operand identities (aliased arguments included: the statements quantify over the
   state, not over distinct arguments), any list of steps.  Only [exact] + Print Assumptions. *)
From Coq Require Import List ZArith Bool.
From PM Require Import C07Model C07Lemmas.
Import ListNotations.

(* U: every non-mutating step (constructor, any n-ary operation - whatever it computes -, view/
   clone/slice, broadcast, copy, a call that raises) leaves every pre-existing buffer unchanged and
   every pre-existing object's fields unchanged; array objects keep buffer/offset/length; WRITEABLE
   only goes true -> false, and only for the arrays of a broadcast source, whose object is then
   marked read-only (the one documented side effect) *)
Theorem C07_frame : forall st c, nonmut c = true ->
  nbuf st <= nbuf (step st c) /\ narr st <= narr (step st c) /\ nobj st <= nobj (step st c) /\
  (forall l, l < nbuf st -> bufs (step st c) l = bufs st l) /\
  (forall o, o < nobj st -> objs (step st c) o = objs st o \/
                            (c = CBroadcast o /\ objs (step st c) o = set_ro (objs st o))) /\
  (forall a, a < narr st ->
     v_buf (arrs (step st c) a) = v_buf (arrs st a) /\ v_off (arrs (step st c) a) = v_off (arrs st a) /\
     v_len (arrs (step st c) a) = v_len (arrs st a) /\
     (v_wr (arrs (step st c) a) = v_wr (arrs st a) \/
      (v_wr (arrs (step st c) a) = false /\ exists src, c = CBroadcast src /\ In a (owned_arrs st src)))).
Proof. exact frame. Qed.

(* U: in terms of observations (values, mask, units, set and contents of derivatives, flags) *)
Theorem C07_frame_obs : forall st c o, wf_state st -> nonmut c = true -> o < nobj st ->
  (forall src, c <> CBroadcast src) -> obs (step st c) o = obs st o.
Proof. exact frame_obs. Qed.

(* U: after b := copy(a), for every sequence of mutator steps applied to one of them the observable
   content of the other is unchanged (buffer-disjointness invariant preserved by every step) *)
Theorem C07_copy_independent : forall st a, wf_state st -> a < nobj st ->
  let st1 := step st (CCopy a) in
  let b := nobj st in
  (forall ms, Forall (fun c => target c = Some b) ms -> obs (run st1 ms) a = obs st1 a) /\
  (forall ms, Forall (fun c => target c = Some a) ms -> obs (run st1 ms) b = obs st1 b).
Proof. exact copy_independent. Qed.

(* U: copy() reproduces tags and contents of its source, in fresh storage disjoint from it *)
Theorem C07_copy_content : forall st a, wf_state st -> a < nobj st ->
  let st1 := step st (CCopy a) in
  wf_state st1 /\ nobj st1 = S (nobj st) /\ sep st1 a (nobj st) /\
  map (fun s => (fst (fst s), snd (fst s))) (ob_slots (obs st1 (nobj st))) =
  map (fun s => (fst (fst s), snd (fst s))) (ob_slots (obs st a)).
Proof. exact copy_state. Qed.

(* U: the hypothesis wf_state holds of every state reachable from the empty heap *)
Theorem C07_reachable_wf : forall l, wf_state (run init l).
Proof. exact reachable_wf. Qed.

(* ---------- non-vacuity ---------- *)
Definition ex_hist : list call :=
  [CNew [(TVals, [1; 2; 3]%Z); (TMask, [0; 1; 0]%Z); (TDVals 0, [5; 6; 7]%Z)] false (Some 7);
   CView 0 1 2; COp [0; 0] f_add; CCopy 0; CBroadcast 0].
(* an aliased operation, a view, a copy and a broadcast on a masked object with a derivative *)
Example ex_objects : nobj (run init ex_hist) = 5.
Proof. vm_compute. reflexivity. Qed.
Example ex_view_shares : (* writing through the view shows in the source ... *)
  vals_of (obs (run init (firstn 4 ex_hist ++ [MSet 1 TVals 0 9%Z])) 0) = [1; 9; 3]%Z
  (* ... and never in the copy; writing into the copy never shows in the source *)
  /\ vals_of (obs (run init (firstn 4 ex_hist ++ [MSet 1 TVals 0 9%Z])) 3) = [1; 2; 3]%Z
  /\ vals_of (obs (run init (firstn 4 ex_hist ++ [MSet 3 TVals 0 9%Z; MIadd 3 1%Z])) 0) = [1; 2; 3]%Z
  /\ vals_of (obs (run init (firstn 4 ex_hist ++ [MSet 3 TVals 0 9%Z; MIadd 3 1%Z])) 3) = [10; 3; 4]%Z.
Proof. vm_compute. repeat split; reflexivity. Qed.
Example ex_broadcast_freezes_source :
  ob_ro (obs (run init ex_hist) 0) = true /\ ob_ro (obs (run init (firstn 4 ex_hist)) 0) = false
  /\ vals_of (obs (run init (ex_hist ++ [MSet 0 TVals 0 9%Z])) 0) = [1; 2; 3]%Z.
Proof. vm_compute. repeat split; reflexivity. Qed.
Example ex_mutators_target : Forall (fun c => target c = Some 3) [MSet 3 TVals 0 9%Z; MIadd 3 1%Z; MFreeze 3; MDelDeriv 3 0].
Proof. repeat constructor. Qed.

Print Assumptions C07_frame.
Print Assumptions C07_frame_obs.
Print Assumptions C07_copy_independent.
Print Assumptions C07_copy_content.
Print Assumptions C07_reachable_wf.
