(* Property C13 - reductions and ordering operations see only unmasked elements.
   Only statements, closed by [exact], with Print Assumptions.
   U = unbounded (every rank, axis length, axis argument, mask representation);
   R = refuted on the code as it stands (a recorded known finding).
   Vocabulary: [cpairs a keep o] = the (value, masked) pairs of the elements that
   contribute to output element [o], row-major over the reduced axes; [um l] = the
   values of the unmasked ones, in order.  [red_ok R a sel x] says: x is a result
   whose shape is the operand's shape without the reduced axes (NumPy's), whose
   element o is masked iff every contributor is masked, and whose unmasked elements
   are related by R to their contributors. *)
From Coq Require Import List ZArith Bool Sorted Permutation.
From PM Require Import Base Mask C13Model C13Lemmas.
Import ListNotations.

(* ---- the axis argument (_check_axis and the a % rank normalisation) ---- *)
(* U: exactly the arguments with an entry outside [-rank, rank) or with two entries
   naming the same axis are rejected *)
Theorem C13_axis_legal : forall rank ax,
  axes_sel rank ax <> None <->
  (forall a, In a (ax_list ax) -> (- Z.of_nat rank <= a < Z.of_nat rank)%Z)
  /\ NoDup (map (norm_ax rank) (ax_list ax)).
Proof. exact axes_sel_legal. Qed.
(* U: a legal argument reduces all axes (None) or exactly the named axes *)
Theorem C13_axis_reduced : forall rank ax sel, axes_sel rank ax = Some sel ->
  length sel = rank /\
  forall j, nth j sel false = true <->
    match ax with
    | AxNone => j < rank
    | _ => exists a, In a (ax_list ax) /\ norm_ax rank a = Some j
    end.
Proof. exact axes_sel_some. Qed.
(* U: the named axis is a mod rank *)
Theorem C13_axis_mod : forall rank a k, norm_ax rank a = Some k ->
  (- Z.of_nat rank <= a < Z.of_nat rank)%Z /\ Z.of_nat k = (a mod Z.of_nat rank)%Z.
Proof. exact norm_ax_mod. Qed.
(* U: the result shape is the operand shape with the reduced axes deleted *)
Theorem C13_shape_numpy : forall s keep,
  out_shape s keep = map fst (filter snd (combine s keep)).
Proof. exact out_shape_spec. Qed.
(* U: an illegal axis argument is an error in every reduction *)
Theorem C13_illegal_axis : forall lo hi a ax, axes_sel (length (nsh a)) ax = None ->
  q_sum ax a = RErr /\ q_mean ax a = RErr /\ q_max lo ax a = RErr /\ q_min hi ax a = RErr /\
  q_argmax lo ax a = RErr /\ q_argmin hi ax a = RErr /\ q_median hi ax a = RErr /\
  q_sort hi ax a = RErr /\ (forall isall, q_anyall isall ax a = RErr).
Proof. exact illegal_axis_rejected. Qed.

(* ---- sum, mean (all five branches; any rank; any legal axis argument) ---- *)
Theorem C13_sum : forall a ax sel, nsh a <> [] -> size (nsh a) <> 0 ->
  axes_sel (length (nsh a)) ax = Some sel -> red_ok R_sum a sel (q_sum ax a).
Proof. exact q_sum_ok. Qed.
Theorem C13_mean : forall a ax sel, nsh a <> [] -> size (nsh a) <> 0 ->
  axes_sel (length (nsh a)) ax = Some sel -> red_ok R_mean a sel (q_mean ax a).
Proof. exact q_mean_ok. Qed.
(* U: Vector/Matrix items and derivative components reduce by the same rule *)
Theorem C13_itemwise : forall s m ax sel comps, s <> [] -> size s <> 0 ->
  axes_sel (length s) ax = Some sel ->
  Forall (fun v => red_ok R_sum (mknL s v m) sel (q_sum ax (mknL s v m))
                   /\ red_ok R_mean (mknL s v m) sel (q_mean ax (mknL s v m))) comps.
Proof. exact itemwise_sum. Qed.

(* ---- max, min, argmax, argmin: [lo]/[hi] are the fill values _minval/_maxval and
   bound the unmasked data (true of int64 min/max and of -inf/+inf) ---- *)
Theorem C13_max : forall lo a ax sel,
  (forall i, mget (nmask a) i = false -> (lo <= nval a i)%Z) ->
  nsh a <> [] -> size (nsh a) <> 0 ->
  axes_sel (length (nsh a)) ax = Some sel -> red_ok R_max a sel (q_max lo ax a).
Proof. exact q_max_ok. Qed.
Theorem C13_min : forall hi a ax sel,
  (forall i, mget (nmask a) i = false -> (nval a i <= hi)%Z) ->
  nsh a <> [] -> size (nsh a) <> 0 ->
  axes_sel (length (nsh a)) ax = Some sel -> red_ok R_min a sel (q_min hi ax a).
Proof. exact q_min_ok. Qed.
(* U: the index (along the axis / flattened) of the FIRST extreme unmasked contributor,
   including when an unmasked value equals the fill value *)
Theorem C13_argmax : forall lo a ax sel,
  (forall i, mget (nmask a) i = false -> (lo <= nval a i)%Z) ->
  (forall l, ax <> AxTup l) -> nsh a <> [] -> size (nsh a) <> 0 ->
  axes_sel (length (nsh a)) ax = Some sel -> red_ok R_argmax a sel (q_argmax lo ax a).
Proof. exact q_argmax_ok. Qed.
Theorem C13_argmin : forall hi a ax sel,
  (forall i, mget (nmask a) i = false -> (nval a i <= hi)%Z) ->
  (forall l, ax <> AxTup l) -> nsh a <> [] -> size (nsh a) <> 0 ->
  axes_sel (length (nsh a)) ax = Some sel -> red_ok R_argmin a sel (q_argmin hi ax a).
Proof. exact q_argmin_ok. Qed.

(* ---- median: the middle one or two of the sorted unmasked contributors ---- *)
Theorem C13_median : forall hi a ax sel,
  (forall i, mget (nmask a) i = false -> (nval a i <= hi)%Z) ->
  nsh a <> [] -> size (nsh a) <> 0 ->
  axes_sel (length (nsh a)) ax = Some sel -> red_ok R_median a sel (q_median hi ax a).
Proof. exact q_median_ok. Qed.

(* ---- sort: along the line through each result element, the unmasked values in
   ascending order first, masked slots after them ---- *)
Theorem C13_sort : forall hi a ax sel,
  (forall i, mget (nmask a) i = false -> (nval a i <= hi)%Z) ->
  (forall l, ax <> AxTup l) -> size (nsh a) <> 0 ->
  axes_sel (length (nsh a)) ax = Some sel ->
  exists r, q_sort hi ax a = ROk r /\
    rsh r = match ax with AxNone => [size (nsh a)] | _ => nsh a end /\
    forall i, inb (rsh r) i = true ->
      let L := sort_line a ax sel i in let k := sort_pos ax sel i in
      k < length L /\
      rmask r i = (count_um L <=? k) /\
      (rmask r i = false -> rval r i = unit (nthZ k (isort (um L)))).
Proof. exact q_sort_ok. Qed.
Theorem C13_sort_zero_sized : forall hi a ax sel, (forall l, ax <> AxTup l) -> size (nsh a) = 0 ->
  axes_sel (length (nsh a)) ax = Some sel ->
  exists r, q_sort hi ax a = ROk r /\
            rsh r = match ax with AxNone => [size (nsh a)] | _ => nsh a end.
Proof. exact q_sort_zero. Qed.
Theorem C13_sort_is_sorted : forall l, Sorted Z.le (isort l) /\ Permutation l (isort l).
Proof. intro l. split; [exact (isort_sorted l)|exact (isort_perm l)]. Qed.

(* ---- any, all ---- *)
Theorem C13_any_all : forall isall a ax sel, nsh a <> [] -> size (nsh a) <> 0 ->
  axes_sel (length (nsh a)) ax = Some sel ->
  red_ok (R_anyall isall) a sel (q_anyall isall ax a).
Proof. exact q_anyall_ok. Qed.
(* R: over a zero-length axis any()/all() leave an element without contributors
   unmasked (KF-C13-anyall-empty) *)
Theorem C13_any_all_empty_refuted :
  exists a ax r o, q_anyall false ax a = ROk r /\ inb (rsh r) o = true /\
    cpairs a (keep_of [false; true]) o = [] /\ rmask r o = false.
Proof. exact q_anyall_empty_refuted. Qed.

(* ---- zero-sized and shapeless operands ---- *)
(* U: NumPy's shape, everything masked, and no element has a contributor *)
Theorem C13_zero_sized : forall a ax sel, nsh a <> [] -> size (nsh a) = 0 ->
  axes_sel (length (nsh a)) ax = Some sel ->
  let z := ROk (zero_sized (nsh a) (keep_of sel)) in
  q_sum ax a = z /\ q_mean ax a = z /\
  (forall lo, q_max lo ax a = z) /\ (forall hi, q_min hi ax a = z /\ q_median hi ax a = z).
Proof. exact zero_sized_tuple. Qed.
Theorem C13_zero_sized_arg : forall lo hi a ax sel, nsh a <> [] -> size (nsh a) = 0 ->
  axes_sel (length (nsh a)) ax = Some sel -> (forall l, ax <> AxTup l) ->
  let z := ROk (zero_sized (nsh a) (keep_of sel)) in
  q_sum ax a = z /\ q_mean ax a = z /\ q_max lo ax a = z /\ q_min hi ax a = z /\
  q_argmax lo ax a = z /\ q_argmin hi ax a = z /\ q_median hi ax a = z.
Proof. exact zero_sized_results. Qed.
Theorem C13_zero_sized_masked : forall a sel o,
  length (keep_of sel) = length (nsh a) -> size (nsh a) = 0 ->
  rsh (zero_sized (nsh a) (keep_of sel)) = out_shape (nsh a) (keep_of sel) /\
  rmask (zero_sized (nsh a) (keep_of sel)) o = true /\
  (inb (out_shape (nsh a) (keep_of sel)) o = true -> cpairs a (keep_of sel) o = []).
Proof. exact zero_sized_spec. Qed.
(* U: an object of shape () is its own sum, mean, max, min, median, any, all *)
Theorem C13_shapeless : forall lo hi a ax sel, nsh a = [] -> axes_sel 0 ax = Some sel ->
  q_sum ax a = self_res a unit /\ q_mean ax a = self_res a unit /\
  q_max lo ax a = self_res a unit /\ q_min hi ax a = self_res a unit /\
  q_median hi ax a = self_res a unit /\
  (forall isall, q_anyall isall ax a = self_res a (fun v => bz (nz v))).
Proof. exact shapeless_results. Qed.

(* ---- Scalar.maximum / minimum: element-wise over the broadcast candidates, masked
   candidates ignored, masked iff all candidates are ---- *)
Theorem C13_maximum_minimum : forall ismin cs r, q_maxmin ismin cs = ROk r ->
  forall i, rmask r i = forallb snd (cands_at cs i) /\
            (rmask r i = false ->
             rval r i = unit ((if ismin then zmin_l else zmax_l) (um (cands_at cs i)))).
Proof. exact q_maxmin_ok. Qed.

(* ---- non-vacuity: concrete objects meeting the hypotheses ---- *)
Definition ex_a : nobj :=
  mknL [2; 3] [5; -7; 2; -7; 9; -7]%Z (LA [false; true; false; true; true; false]).
Example C13_ex_hyp :
  nsh ex_a <> [] /\ size (nsh ex_a) <> 0 /\
  axes_sel (length (nsh ex_a)) (AxInt (-2)) = Some [true; false] /\
  axes_sel (length (nsh ex_a)) (AxTup [1; -2]%Z) = Some [true; true] /\
  axes_sel (length (nsh ex_a)) (AxTup [0; -2]%Z) = None /\
  axes_sel (length (nsh ex_a)) (AxInt 2) = None.
Proof. repeat split; discriminate. Qed.
Example C13_ex_bound : forall i, mget (nmask ex_a) i = false -> (-7 <= nval ex_a i)%Z.
Proof.
  intros i _. change (nval ex_a i) with (nth (ravel [2; 3] i) [5; -7; 2; -7; 9; -7]%Z 0%Z).
  generalize (ravel [2; 3] i). intro k.
  do 6 (destruct k as [|k]; [apply Z.leb_le; reflexivity|]).
  destruct k; apply Z.leb_le; reflexivity.
Qed.
Example C13_ex_sum :
  obs_eqb (run13 (CSum false [2;3] (LA [false;true;false;true;true;false]) (AxInt 0) [[5;-7;2;-7;9;-7]%Z]))
    (OArr [3] [false;true;false] [[(5,1);(1,1);(-5,1)]%Z]) = true.
Proof. vm_compute. reflexivity. Qed.
(* the fill-value tie: the unmasked -7 equals lo, the masked slot before it must not win *)
Example C13_ex_argmax_tie :
  obs_eqb (run13 (CExt 2 (-7) 9 [2;3] (LA [false;true;false;true;true;false]) (AxInt 0) [5;-7;2;-7;9;-7]%Z))
    (OArr [3] [false;true;false] [[(0,1);(0,1);(0,1)]%Z]) = true /\
  obs_eqb (run13 (CExt 2 (-7) 9 [3] (LA [true;false;true]) AxNone [9;-7;9]%Z))
    (OArr [] [false] [[(1,1)]%Z]) = true.
Proof. split; vm_compute; reflexivity. Qed.
Example C13_ex_sort_median :
  obs_eqb (run13 (CExt 5 (-7) 9 [2;3] (LA [false;true;false;true;true;false]) (AxInt 1) [5;-7;2;-7;9;-7]%Z))
    (OArr [2;3] [false;false;true;false;true;true] [[(2,1);(5,1);(9,1);(-7,1);(9,1);(9,1)]%Z]) = true /\
  obs_eqb (run13 (CExt 4 (-7) 9 [2;3] (LA [false;true;false;true;true;false]) AxNone [5;-7;2;-7;9;-7]%Z))
    (OArr [] [false] [[(4,2)]%Z]) = true.
Proof. split; vm_compute; reflexivity. Qed.
Example C13_ex_maximum :
  obs_eqb (run13 (CMaxMin false [([3], [1;5;3]%Z, LA [false;true;false]); ([], [2]%Z, LS false);
                        ([3], [0;9;9]%Z, LA [false;false;true])]))
    (OArr [3] [false;false;false] [[(2,1);(9,1);(3,1)]%Z]) = true.
Proof. vm_compute. reflexivity. Qed.

Print Assumptions C13_axis_legal.
Print Assumptions C13_axis_reduced.
Print Assumptions C13_axis_mod.
Print Assumptions C13_shape_numpy.
Print Assumptions C13_illegal_axis.
Print Assumptions C13_sum.
Print Assumptions C13_mean.
Print Assumptions C13_itemwise.
Print Assumptions C13_max.
Print Assumptions C13_min.
Print Assumptions C13_argmax.
Print Assumptions C13_argmin.
Print Assumptions C13_median.
Print Assumptions C13_sort.
Print Assumptions C13_sort_zero_sized.
Print Assumptions C13_sort_is_sorted.
Print Assumptions C13_any_all.
Print Assumptions C13_any_all_empty_refuted.
Print Assumptions C13_zero_sized.
Print Assumptions C13_zero_sized_arg.
Print Assumptions C13_zero_sized_masked.
Print Assumptions C13_shapeless.
Print Assumptions C13_maximum_minimum.
