(* Property C01 - masks propagate exactly through arithmetic: masked in, masked out,
   nothing more. Only statements, closed by [exact], with Print Assumptions.
   U = unbounded (every rank, axis length, mask representation, value). *)
From Coq Require Import List ZArith Bool.
From PM Require Import Base Mask C01Model C01Lemmas.
Import ListNotations.
Open Scope Z_scope.

(* U: an in-bounds index of a broadcast result has its sources in bounds of both operands
   (NumPy broadcasting, any ranks and lengths) *)
Theorem C01_broadcast_sources_in_bounds : forall a b s r,
  bshape a b = Some s -> inb s r = true ->
  inb a (bproj a r) = true /\ inb b (bproj b r) = true.
Proof. exact bproj_inb. Qed.

(* U: Qube.or_ for two masks (Mask.v) and for any number of masks of one shape *)
Theorem C01_or_two : forall m1 m2 s1 s2 r,
  mget (or_m m1 m2 s1 s2) r = mget m1 (bproj s1 r) || mget m2 (bproj s2 r).
Proof. exact or_m_spec. Qed.
Theorem C01_or_nary : forall s ms r, inb s r = true ->
  (forall p, In p ms -> snd p = s) -> ms <> [] ->
  snd (or_ml ms) = s /\ mget (fst (or_ml ms)) r = any_masked ms r.
Proof. exact or_ml_spec_same. Qed.

(* U: mask_where / "or if any" / arcsin guard: every representation branch gives mask || condition *)
Theorem C01_mask_where : forall s m c i, inb s i = true ->
  mget (mask_where s m c) i = mget m i || c i.
Proof. exact mask_where_spec. Qed.
Theorem C01_or_if_any : forall s m c i, inb s i = true ->
  mget (or_if_any s m c) i = mget m i || c i.
Proof. exact or_if_any_spec. Qed.

(* U: every unary operation of the table: result mask = operand mask OR undefined *)
Theorem C01_ew1_mask : forall o a r, inb (osh a) r = true ->
  exists m, ew1 o a = ROk (osh a) m /\ mget m r = ref1 o a r.
Proof. exact ew1_mask. Qed.

(* U: every binary operation of the table on operands whose leading shapes broadcast, every
   pair of mask representations: result mask at r = mask of a at its source OR mask of b at
   its source OR undefined(values at the sources) *)
Theorem C01_ew2_mask : forall o a b s r,
  keeps_a_shape o = false -> bshape (osh a) (osh b) = Some s -> inb s r = true ->
  exists m, ew2 o false a b = ROk s m /\ mget m r = ref2 o a b r.
Proof. exact ew2_mask. Qed.
(* U: object (.) number / integer power: shape of the object, same equation *)
Theorem C01_ew2_number_mask : forall o ip a b r,
  keeps_a_shape o = true -> osh b = [] -> mget (omask b) [] = false -> inb (osh a) r = true ->
  exists m, ew2 o ip a b = ROk (osh a) m /\ mget m r = ref2 o a b r.
Proof. exact ew2_num_mask. Qed.
(* U: in-place forms give the same mask and are refused exactly when the shape would change *)
Theorem C01_inplace : forall o a b s,
  keeps_a_shape o = false -> bshape (osh a) (osh b) = Some s ->
  ew2 o true a b = (if shape_eqb s (osh a) then ew2 o false a b else RErr).
Proof. exact ew2_inplace. Qed.
(* U: three angle operands (from_euler) *)
Theorem C01_ew3_mask : forall a b c sbc s r,
  bshape (osh b) (osh c) = Some sbc -> bshape (osh a) sbc = Some s -> inb s r = true ->
  exists m, ew3 a b c = ROk s m /\ mget m r = ref3 a b c r.
Proof. exact ew3_mask. Qed.

(* U: contractions and products (dot cross outer element_mul, matrix and quaternion products,
   pole_rotation) add nothing to the operand masks *)
Theorem C01_contract_mask : forall a b s r,
  bshape (osh a) (osh b) = Some s -> inb s r = true ->
  exists m, ew2 ODot false a b = ROk s m /\
    mget m r = mget (omask a) (bproj (osh a) r) || mget (omask b) (bproj (osh b) r).
Proof. exact contract_mask. Qed.

(* U: the two directions of the property *)
Theorem C01_masked_in_masked_out : forall o a b r,
  mget (omask a) (bproj (osh a) r) = true \/ mget (omask b) (bproj (osh b) r) = true ->
  ref2 o a b r = true.
Proof. exact ref2_masked_in. Qed.
Theorem C01_nothing_more : forall o a b r,
  mget (omask a) (bproj (osh a) r) = false -> mget (omask b) (bproj (osh b) r) = false ->
  undef2 o (oval a (bproj (osh a) r)) (oval b (bproj (osh b) r)) = false ->
  ref2 o a b r = false.
Proof. exact ref2_nothing_more. Qed.
Theorem C01_unary_iff : forall o a r,
  ref1 o a r = true <-> mget (omask a) r = true \/ undef1 o (oval a r) = true.
Proof. exact ref1_iff. Qed.

(* ---- non-vacuity ---- *)
Definition exA := mkoL [2; 1]%nat [[2]; [-2]] (LA [false; true]) false.      (* Scalar shape (2,1), second masked *)
Definition exB := mkoL [3]%nat [[0]; [4]; [2]] (LS false) false.             (* Scalar shape (3,), a zero *)
Example C01_ex_div : run01 (C2 ODiv false exA exB)
  = OMask [2; 3]%nat [true; false; false; true; true; true].
Proof. vm_compute. reflexivity. Qed.
Example C01_ex_broadcast : bshape (osh exA) (osh exB) = Some [2; 3]%nat /\ inb [2; 3]%nat [1; 2]%nat = true.
Proof. split; reflexivity. Qed.
Example C01_ex_inplace_refused : run01 (C2 OAdd true exA exB) = OErr.
Proof. vm_compute. reflexivity. Qed.
Example C01_ex_number : run01 (C2 OPowNum false exB (mkoL [] [[-1]] (LS false) true))
  = OMask [3]%nat [true; false; false].        (* x ** -0.5 : zero masked *)
Proof. vm_compute. reflexivity. Qed.
Example C01_ex_euler : run01 (C3 exA exB exB)
  = OMask [2; 3]%nat [false; false; false; true; true; true].
Proof. vm_compute. reflexivity. Qed.

Print Assumptions C01_broadcast_sources_in_bounds.
Print Assumptions C01_or_two.
Print Assumptions C01_or_nary.
Print Assumptions C01_mask_where.
Print Assumptions C01_or_if_any.
Print Assumptions C01_ew1_mask.
Print Assumptions C01_ew2_mask.
Print Assumptions C01_ew2_number_mask.
Print Assumptions C01_inplace.
Print Assumptions C01_ew3_mask.
Print Assumptions C01_contract_mask.
Print Assumptions C01_masked_in_masked_out.
Print Assumptions C01_nothing_more.
Print Assumptions C01_unary_iff.
