(* C20 - polynomial arithmetic, evaluation, differentiation and roots.
   Coefficient lists in DECREASING order; peval = Horner (= numpy.polyval); padd psub pneg pmul
   ppow pderiv mirror Polynomial.__add__ __sub__ __neg__ __mul__ __pow__ deriv (C20Model.v,
   written over any ring, here at R).  U = unbounded, B = bounded-exhaustive. *)
From Coq Require Import List ZArith Bool Reals Lra.
From Coquelicot Require Import Coquelicot.
From PM Require Import C20Model C20Real C20Lemmas.
Import ListNotations.
Local Open Scope R_scope.

(* U: evaluating a sum / difference / product / power / negation = combining the evaluations,
   for coefficient lists of ANY (also different) lengths; leading zeros change nothing *)
Theorem C20_ring_hom : forall p q x n k,
  peval (padd p q) x = peval p x + peval q x /\
  peval (psub p q) x = peval p x - peval q x /\
  peval (pmul p q) x = peval p x * peval q x /\
  peval (ppow p n) x = peval p x ^ n /\
  peval (pneg p) x = - peval p x /\
  peval (ppad k p) x = peval p x.
Proof.
  intros. repeat split.
  - apply ring_hom_add. - apply ring_hom_sub. - apply ring_hom_mul.
  - apply ring_hom_pow. - apply ring_hom_neg. - apply pad_invariant.
Qed.

(* U: the order of a sum / product *)
Theorem C20_orders : forall p q : list R,
  length (padd p q) = Nat.max (length p) (length q) /\
  (q <> [] -> length (pmul p q) = (length p + length q - 1)%nat).
Proof. intros. split; [apply padd_order | apply pmul_order]. Qed.

(* U: the same homomorphism laws in the integer instance that the correspondence evaluates *)
Theorem C20_ring_hom_Z : forall p q x,
  (zpeval (zpadd p q) x = zpeval p x + zpeval q x /\ zpeval (zpsub p q) x = zpeval p x - zpeval q x /\
   zpeval (zpmul p q) x = zpeval p x * zpeval q x /\ zpeval (zpneg p) x = - zpeval p x)%Z.
Proof. exact ring_hom_Z. Qed.

(* U: the Horner value is the sum of c_i x^(n-i) *)
Theorem C20_horner : forall p x,
  peval p x = sumn (length p) (fun i => nth i p 0 * x ^ (length p - 1 - i)).
Proof. exact horner_sum. Qed.

(* U: deriv() is the derivative of eval (Coquelicot), and the formal derivative coefficientwise *)
Theorem C20_deriv : forall p x, is_derive (peval p) x (peval (pderiv p) x).
Proof. exact deriv_is_derivative. Qed.
Theorem C20_deriv_coeff : forall p i, (2 <= length p)%nat -> (i < length p - 1)%nat ->
  nth i (pderiv p) 0 = INR (length p - 1 - i) * nth i p 0.
Proof. exact pderiv_coeff. Qed.

(* U: order 1 *)
Theorem C20_linear : forall a b, a <> 0 ->
  exists r, lin_root a b = Some r /\ a * r + b = 0 /\ forall r', a * r' + b = 0 -> r' = r.
Proof. exact lin_root_spec. Qed.

(* U over R: order 2 through the model of Scalar.solve_quadratic (stable form) + mask duplicates + sort *)
Theorem C20_quadratic : forall a b c, a <> 0 ->
  (disc a b c < 0 -> quad_roots a b c = (None, None)) /\
  (disc a b c = 0 -> quad_roots a b c = (Some (- b / (2 * a)), None)) /\
  (0 < disc a b c -> exists u v, quad_roots a b c = (Some u, Some v) /\ u < v /\
                                 forall r, is_root2 a b c r <-> (r = u \/ r = v)) /\
  (forall r, fst (quad_roots a b c) = Some r \/ snd (quad_roots a b c) = Some r -> is_root2 a b c r) /\
  (forall u v, quad_roots a b c = (Some u, Some v) -> u < v) /\
  (forall v, quad_roots a b c <> (None, Some v)).
Proof.
  intros a b c Ha. repeat split.
  - apply quad_negative_disc.
  - apply quad_zero_disc; assumption.
  - apply quad_positive_disc; assumption.
  - intros r H. apply quad_roots_are_roots; assumption.
  - apply quad_roots_sorted.
  - apply quad_roots_masked_last.
Qed.

(* U relative to the eigenvalue stub (integer instance of the post-processing): whatever real
   eigenvalues survive the masking steps, roots() returns their distinct values in strictly
   increasing order, padded with masked entries to the order of the polynomial *)
Theorem C20_roots_post : forall pmask shifts l,
  let vals := somes Z (step_mask Z Z.leb Z.eqb pmask shifts l) in
  exists rs, zroots_post pmask shifts l = map Some rs ++ repeat None (length l - length rs) /\
             sorted_lt rs /\ (forall v, In v rs <-> In v vals) /\ (length rs <= length l)%nat.
Proof. exact roots_post_spec. Qed.

(* U: the masking steps only ever keep real parts of real eigenvalues of an unmasked polynomial *)
Theorem C20_roots_mask_sound : forall pmask shifts l v,
  In (Some v) (step_mask Z Z.leb Z.eqb pmask shifts l) ->
  pmask = false /\ exists e, In e l /\ e_cplx e = false /\ e_re e = v.
Proof. exact step_mask_sound. Qed.

(* B (n <= 4 eigenvalues, magnitudes 0..2, shifts 0..4): the leading-zero step masks exactly
   min(shifts, n) entries, none of them larger in magnitude than an unmasked one *)
Theorem C20_roots_shift_partial : forall s mags, In (s, mags) shift_space -> shift_ok s mags = true.
Proof. exact step_mask_smallest_B. Qed.

(* ---- non-vacuity / sanity examples ---- *)
Example ex_mul : forall x, peval (pmul [1; -1] [1; 1]) x = x ^ 2 - 1.
Proof. intros. c20_ring. Qed.
Example ex_mul_Z : zpmul [1; -4; 5; -2]%Z [1; 0; -1]%Z = [1; -4; 4; 2; -5; 2]%Z.
Proof. reflexivity. Qed.
Example ex_pow_Z : zppow [1; -1]%Z 3 = [1; -3; 3; -1]%Z /\ zppow [2; 5]%Z 0 = [1]%Z /\ zppow [2; 5]%Z 1 = [2; 5]%Z.
Proof. repeat split. Qed.
Example ex_deriv_Z : zpderiv [1; -4; 5; -2]%Z = [3; -8; 5]%Z /\ zpderiv [7]%Z = [0]%Z.
Proof. split; reflexivity. Qed.
Example ex_add_Z : zpadd [1; 2]%Z [1; 0; 0; 3]%Z = [1; 0; 1; 5]%Z /\ zpeval [1; -4; 5; -2]%Z 3 = 4%Z.
Proof. split; reflexivity. Qed.
Example ex_quadratic_hyp : (1 <> 0) /\ 0 < disc 1 (-3) 2 /\ disc 1 2 1 = 0 /\ disc 1 0 1 < 0.
Proof. unfold disc. repeat split; lra. Qed.
(* (x+1)(x-1)(x-2) with a complex pair and one leading zero: eigenvalues as LAPACK would order them *)
Example ex_roots_post :
  zroots_post false 1 [mkeig 2 false 2; mkeig 0 false 0; mkeig 5 true 5; mkeig (-1) false 1; mkeig 2 false 2]%Z
  = [Some (-1); Some 2; None; None; None]%Z.
Proof. reflexivity. Qed.
Example ex_roots_masked : zroots_post true 0 [mkeig 2 false 2; mkeig 1 false 1]%Z = [None; None].
Proof. reflexivity. Qed.
Example ex_shift_space :
  existsb (fun p => andb (Nat.eqb (fst p) 2) (list_eqb Z.eqb (snd p) [0; 2; 0; 1]%Z)) shift_space = true
  /\ length shift_space = 605%nat.
Proof. split; vm_compute; reflexivity. Qed.

Print Assumptions C20_ring_hom.
Print Assumptions C20_orders.
Print Assumptions C20_ring_hom_Z.
Print Assumptions C20_horner.
Print Assumptions C20_deriv.
Print Assumptions C20_deriv_coeff.
Print Assumptions C20_linear.
Print Assumptions C20_quadratic.
Print Assumptions C20_roots_post.
Print Assumptions C20_roots_mask_sound.
Print Assumptions C20_roots_shift_partial.
