(* Property C11 - pickling round-trips objects. Only statements closed by [exact], with
   Print Assumptions. U = unbounded (every class, shape, rank, mask, value list, width).
   The external compressors are not modelled: every theorem that needs them quantifies over a
   [codec] and assumes exactly the two round trips
     bz2:   decompress (compress b) = b            for byte strings b
     fpzip: decompress (compress l) = l            for arrays l of 64-bit patterns (precision 64)
   (validated on the real libraries in every run of the check, on that run's byte strings).
   np.packbits/unpackbits, the byte layout of integers, the antimask selection, the refill
   with the default and _find_corners are modelled concretely and proved. *)
From Coq Require Import List ZArith Bool Reals.
From PM Require Import Base Mask C11Model C11Lemmas C11Real.
Import ListNotations.

(* U: packed bits come back (np.unpackbits(np.packbits(l))[:len(l)] == l), every length *)
Theorem C11_packbits : forall l, firstn (length l) (unpackbits (packbits l)) = l.
Proof. exact unpack_pack. Qed.

(* U: _find_corners returns a box that contains every unmasked element, on every axis of a
   mask of any rank ... *)
Theorem C11_corners_contain : forall s m i a, inb s i = true -> m i = false -> a < length s ->
  nth a (fst (find_corners s m)) 0 <= nth a i 0 < nth a (snd (find_corners s m)) 0.
Proof. exact corners_bound. Qed.
(* ... and the box is tight: when some element is unmasked, each of its 2*rank faces holds one *)
Theorem C11_corners_tight : forall s m i0 a, inb s i0 = true -> m i0 = false -> a < length s ->
  (exists i, inb s i = true /\ m i = false /\ nth a i 0 = nth a (fst (find_corners s m)) 0) /\
  (exists i, inb s i = true /\ m i = false /\ S (nth a i 0) = nth a (snd (find_corners s m)) 0).
Proof. exact corners_tight. Qed.
(* U: crop to the corners and paste back into an all-True array: every mask of every shape *)
Theorem C11_crop_uncrop : forall s (l : list bool), length l = size s ->
  uncrop s (fst (find_corners s (mfun s l))) (snd (find_corners s (mfun s l)))
         (sub_mi (snd (find_corners s (mfun s l))) (fst (find_corners s (mfun s l))))
         (crop (mfun s l) (fst (find_corners s (mfun s l))) (snd (find_corners s (mfun s l)))) = l.
Proof. exact uncrop_crop. Qed.

(* U: the mask codec (corners when the box is smaller + packbits + bz2, decoded in reverse)
   returns every mask array of every shape, incl. > 4 axes, masked borders, one unmasked
   element, all masked *)
Theorem C11_mask_codec : forall cd,
  (forall b, Forall byte_ok b -> bz2d cd (bz2c cd b) = b) ->
  forall s l, length l = size s ->
  dec_mask cd s (fst (enc_mask cd s l)) (snd (enc_mask cd s l)) = DArr s l.
Proof. exact mask_codec. Qed.

(* U: integers of any byte width, signed or unsigned: decoding with the width that was
   recorded at encoding returns the array *)
Theorem C11_int_width : forall w sg (l : list Z), Forall (in_range w sg) l ->
  map (dec_int w sg) (chunk w (length l) (concat (map (enc_int w) l))) = l.
Proof. exact ints_roundtrip. Qed.
(* R (the pinned tree decoded every array with width 8): five int32 values do not come back *)
Theorem C11_int32_as_int64_refuted :
  map (dec_int 8 true) (chunk 8 5 (concat (map (enc_int 4) [1; 2; 3; 4; 5]%Z))) <> [1; 2; 3; 4; 5]%Z.
Proof. vm_compute. discriminate. Qed.

(* U: unpickling a pickled object. For every well-formed object (any class tag, shape, item,
   denominator, kind float / int of any width / bool, Python scalar or array values, mask
   False / True / array, units tag, read-only flag, any list of derivatives) and every codec
   with the two round trips: class, shape, numerator, denominator, kind, units, read-only flag
   and derivative keys are equal; the mask is equal element by element; every unmasked value is
   the same integer (= the same 64-bit pattern for floats, so -0.0, subnormals, infinities and NaN
   payloads are covered); every masked element of an array-valued object is the default; each
   derivative keeps class, shapes, units, is read-only iff it or its parent was, and its values
   are the same wherever parent and derivative are unmasked. Both sides of the 200-value cutoff
   and the literal fallback are inside [getstate] (no hypothesis on the size). *)
Theorem C11_roundtrip_default : forall cd,
  (forall b, Forall byte_ok b -> bz2d cd (bz2c cd b) = b) ->
  (forall l, Forall pat_ok l -> fpzd cd (fpzc cd l) = l) ->
  forall q, wf q -> roundtrip_ok q (setstate cd (getstate cd q)).
Proof. exact roundtrip_default. Qed.

(* U, by construction of the effect model: __getstate__ changes nothing of the pickled object
   but its cache *)
Theorem C11_pure : forall cd o,
  py_q (fst (getstate_eff cd o)) = py_q o /\ py_attrs (fst (getstate_eff cd o)) = py_attrs o /\
  snd (getstate_eff cd o) = getstate cd (py_q o).
Proof. exact getstate_pure. Qed.

(* ---- set_pickle_digits: the 'scaled' codec over the real numbers (C11Real.v) ----
   scale_factor = 256^n / span * (1 - eps), code k = trunc(scale_factor * (v - min)),
   decoded = k / scale_factor + min + 0.5 / scale_factor, as _encode_one_float_array and
   _decode_scaled_uints compute them.  The check compares, for every array it feeds to these two
   functions, the stored 1/scale_factor, offset and byte count with these formulas and the stored codes with
   floor(scale_factor * (v - min)) in exact rational arithmetic; float rounding is outside the
   theorem (the check allows 4 ulp of the largest magnitude).  R axioms of the standard library. *)
(* U: every value between min and max gets a code that fits n bytes (so keeping the low n bytes
   of the uint32/uint64 loses nothing) *)
Theorem C11_scaled_code_fits : forall n mn span eps v, (0 < span)%R -> (0 < eps < 1)%R ->
  (mn <= v <= mn + span)%R -> (0 <= enc_scaled n mn span eps v < B n)%Z.
Proof. exact scaled_code_range. Qed.

(* U: decoding lands within half a code step of the value *)
Theorem C11_scaled_error : forall n mn span eps v, (0 < span)%R -> (0 < eps < 1)%R ->
  (Rabs (dec_scaled n mn span eps (enc_scaled n mn span eps v) - v) <= /2 * / sfac n span eps)%R.
Proof. exact scaled_error. Qed.

(* U: with at most 6 bytes chosen so that 256^n >= span / precision + 1 and eps <= 256^-6 (the float
   epsilon is 2^-52 < 2^-48), the code fits, its n little-endian bytes give it back, and the
   restored value is within half the precision asked for *)
Theorem C11_scaled_roundtrip : forall n mn span eps prec v, n <= 6 -> (0 < span)%R -> (0 < prec)%R ->
  (0 < eps <= / W 6)%R -> (span / prec + 1 <= W n)%R -> (mn <= v <= mn + span)%R ->
  let k := enc_scaled n mn span eps v in
  (0 <= k < B n)%Z /\ le_val (le_bytes n k) = k /\
  (Rabs (dec_scaled n mn span eps k - v) <= /2 * prec)%R.
Proof. exact scaled_roundtrip. Qed.

(* U: the byte count the code computes, nbytes = ceil(ln(unique_values_needed) / ln 256), satisfies the premise
   256^n >= unique_values_needed of C11_scaled_roundtrip (any n at least the quotient does) *)
Theorem C11_scaled_nbytes : forall (n : nat) (U : R), (0 < U)%R -> (ln U / ln 256 <= INR n)%R -> (U <= W n)%R.
Proof. exact scaled_nbytes_ok. Qed.

(* non-vacuity: two bytes, range [0, 1], three digits *)
Example C11_ex_scaled : (2 <= 6) /\ (0 < 1)%R /\ (0 < /1000)%R /\ (0 < / W 6 <= / W 6)%R /\
  (1 / (/1000) + 1 <= W 2)%R /\ (0 <= /2 <= 0 + 1)%R.
Proof. exact ex_scaled_premises. Qed.

(* ---- non-vacuity ---- *)
(* the hypotheses on the codec are satisfiable (the executable model uses this instance) *)
Example C11_ex_codec :
  (forall b, Forall byte_ok b -> bz2d id_codec (bz2c id_codec b) = b) /\
  (forall l, Forall pat_ok l -> fpzd id_codec (fpzc id_codec l) = l).
Proof. exact id_codec_ok. Qed.

(* a 3x4 Vector (items of 2) whose first row and first and last columns are masked, holding
   -0.0, inf, a NaN with payload and a subnormal, with one derivative with a denominator *)
Definition ex_mask : list bool :=
  [true; true; true; true;  true; false; false; true;  true; false; true; true].
Definition ex_core : q0 :=
  mkq0 2 [3; 4] [2] [] KFloat false
       (map (fun k => [(9223372036854775808 + k)%Z; 9218868437227405312%Z])
            [0; 1; 2; 3; 4; 5; 6; 7; 8; 9; 10; 11]%Z)
       (LA ex_mask) [4607182418800017408; 4607182418800017408]%Z 1 true true.
Definition ex_deriv : q0 :=
  mkq0 2 [3; 4] [2] [3] KFloat false
       (map (fun k => [k; 9221120237041090561; 1; k; k; k]%Z) [0; 1; 2; 3; 4; 5; 6; 7; 8; 9; 10; 11]%Z)
       (LA ex_mask) [0; 0; 0; 0; 0; 0]%Z 0 false true.
Definition ex_q : qube := mkqube ex_core [(0, ex_deriv)].

Example C11_ex_wf : wf ex_q.
Proof.
  unfold wf, wf0, ex_q, ex_core, ex_deriv, row_ok, val_ok, pat_ok; cbn.
  repeat split; try discriminate;
    repeat (constructor; try (cbn; repeat split; try reflexivity; try discriminate)).
Qed.
(* corner cropping really happens on it: the box is rows 1..2, columns 1..2 *)
Example C11_ex_corners : find_corners [3; 4] (mfun [3; 4] ex_mask) = ([1; 1], [3; 3]).
Proof. vm_compute. reflexivity. Qed.
Example C11_ex_path :
  pmenc (pcore (getstate id_codec ex_q)) = [MCorners [1; 1] [3; 3]; MBool [2; 2] 4] /\
  map venc_tag (pvenc (pcore (getstate id_codec ex_q))) = [1; 2].
Proof. vm_compute. split; reflexivity. Qed.
(* an integer kind of width 2 satisfies the range hypothesis of C11_int_width *)
Example C11_ex_int16 : Forall (in_range 2 true) [-32768; -1; 0; 32767]%Z.
Proof. repeat (apply Forall_cons; [vm_compute; split; congruence|]). apply Forall_nil. Qed.

Print Assumptions C11_packbits.
Print Assumptions C11_corners_contain.
Print Assumptions C11_corners_tight.
Print Assumptions C11_crop_uncrop.
Print Assumptions C11_mask_codec.
Print Assumptions C11_int_width.
Print Assumptions C11_int32_as_int64_refuted.
Print Assumptions C11_roundtrip_default.
Print Assumptions C11_pure.
Print Assumptions C11_scaled_code_fits.
Print Assumptions C11_scaled_error.
Print Assumptions C11_scaled_roundtrip.
Print Assumptions C11_scaled_nbytes.
