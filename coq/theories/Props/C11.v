From PM Require Import Base Mask C11Model.
