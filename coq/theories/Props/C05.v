(* Property C05 - every object the API hands back is structurally well-formed.
   Only statements, closed by [exact], with Print Assumptions.  U = unbounded.
   [t] is ANY class table satisfying [table_ok]; the table regenerated from /repo's class bodies
   is checked against [table_ok] and the theorems are instantiated with it at every run
   (coq/gen/Gen_classes.v, coq/gen/C05_obl.v).  [wf] is the very predicate the sweep monitor
   evaluates on the records of real objects ([why t s = []] iff [wf t s = true]). *)
From Coq Require Import List ZArith Bool String.
From PM Require Import Base C05Model C05Lemmas.
Import ListNotations.
Close Scope string_scope.
Open Scope list_scope.

(* the monitor's diagnosis and the invariant are the same predicate *)
Theorem C05_why_is_wf : forall t s, why t s = [] <-> wf t s = true.
Proof. exact why_wf. Qed.
Theorem C05_monitor_is_forallb_wf : forall t l, bad_records t l = [] <-> forallb (wf t) l = true.
Proof. exact bad_records_nil. Qed.

(* U: the model of Qube.__init__'s shape split returns an error or a well-formed record, for every
   argument combination (class, array shape, kind, nrank, drank, mask form, units, writeable flag) *)
Theorem C05_ctor_wf : forall t, table_ok t = true -> forall a s,
  mk_qube t a = Some s -> wf t s = true.
Proof. exact mk_qube_wf. Qed.

(* U: insert_deriv (strip nested derivatives, float, broadcast to the parent's shape, match
   read-only, set the d_d attribute) keeps the parent well-formed, hence establishes every derivative
   clause (float, same leading shape and numerator, no derivatives of its own, reachable as
   d_d<key>, read-only under a read-only parent) - for EVERY well-formed derivative argument *)
Theorem C05_insert_deriv_wf : forall t p k d p',
  wf t p = true -> wf_core t (s_core d) = true ->
  insert_deriv t p k d = Some p' -> wf t p' = true /\ s_core p' = s_core p.
Proof. exact insert_deriv_wf. Qed.

(* U: clone, wod, delete_deriv, without_deriv, insert_deriv, as_readonly, copy, broadcast_to *)
Theorem C05_ops_preserve_wf : forall t s o s',
  wf t s = true -> op_guard t s o = true -> apply_op t s o = Some s' -> wf t s' = true.
Proof. exact apply_op_wf. Qed.

(* U: by induction over any list of modelled operations, starting from the constructor *)
Theorem C05_reachable_wf : forall t, table_ok t = true -> forall a l s0 s,
  mk_qube t a = Some s0 -> ops_guard t s0 l = true -> run_ops t s0 l = Some s -> wf t s = true.
Proof. exact reachable_wf. Qed.

(* ---------- non-vacuity ---------- *)
Definition ex_table (c : cls) : clsinfo :=
  match c with
  | CQube => mkinfo None None true true true true true None
  | CScalar => mkinfo (Some 0) (Some []) true true false true true (Some [])
  | CBoolean => mkinfo (Some 0) (Some []) false false true false false (Some [])
  | CVector3 => mkinfo (Some 1) (Some [3]) true false false true true (Some [3])
  | CMatrix3 => mkinfo (Some 2) (Some [3; 3]) true false false false true (Some [3; 3])
  | CPair => mkinfo (Some 1) (Some [2]) true true false true true (Some [2])
  | CQuaternion => mkinfo (Some 1) (Some [4]) true false false false true (Some [4])
  | CMatrix => mkinfo (Some 2) None true false false true true None
  | _ => mkinfo (Some 1) None true true false true true None
  end.
Example ex_table_ok : table_ok ex_table = true.
Proof. vm_compute. reflexivity. Qed.

(* a (2,) array of Vector3 with a (2,)-denominator, integer data coerced to float, array mask *)
Definition ex_args := mkargs CVector3 [2; 3; 2] KInt true None (Some 1) (MAArr [2] true false) true false.
Example ex_ctor_ok : exists s, mk_qube ex_table ex_args = Some s /\ c_shape (s_core s) = [2] /\
  c_numer (s_core s) = [3] /\ c_denom (s_core s) = [2] /\ vkind (c_vals (s_core s)) = KFloat.
Proof. eexists. split; [vm_compute; reflexivity|]. vm_compute. repeat split; reflexivity. Qed.
Example ex_ctor_rejects : mk_qube ex_table (mkargs CVector3 [2; 4] KFloat true None None (MABool false) false false) = None.
Proof. vm_compute. reflexivity. Qed.

Definition ex_parent :=
  match mk_qube ex_table (mkargs CScalar [3] KFloat false None None (MAArr [3] true false) true false) with
  | Some s => s | None => bare (mkcore CScalar [] [] [] [] 0 0 0 1 1 1 1 (VScalar KFloat) (MBool false) (VScalar KFloat) false false None None)
  end.
Definition ex_deriv :=     (* an int Scalar of shape () that carries a derivative of its own *)
  mksnap (mkcore CScalar [] [] [] [] 0 0 0 1 1 1 1 (VScalar KInt) (MBool false) (VScalar KInt) false false None None)
         [("z"%string, mkdsnap (mkcore CScalar [] [] [] [] 0 0 0 1 1 1 1 (VScalar KFloat) (MBool false) (VScalar KFloat) false false None None) false true [])]
         ["z"%string].
(* inserting it into a read-only (3,) parent: stripped, floated, broadcast, frozen, attribute set *)
Example ex_insert_ok : exists p', insert_deriv ex_table ex_parent "t"%string ex_deriv = Some p' /\
  wf ex_table ex_parent = true /\ wf_core ex_table (s_core ex_deriv) = true /\
  wf ex_table p' = true /\
  c_ro (s_core ex_parent) = true /\ List.length (s_derivs p') = 1.
Proof. eexists. split; [vm_compute; reflexivity|]. vm_compute. repeat split; reflexivity. Qed.
Example ex_history_ok :
  ops_guard ex_table ex_parent [OInsertDeriv "t"%string ex_deriv; OClone true; OCopy true; OBroadcast [2; 3]; OWithoutDeriv "t"%string] = true
  /\ exists s, run_ops ex_table ex_parent [OInsertDeriv "t"%string ex_deriv; OClone true; OCopy true; OBroadcast [2; 3]; OWithoutDeriv "t"%string] = Some s.
Proof. split; [vm_compute; reflexivity|]. eexists. vm_compute. reflexivity. Qed.

(* the corner that was refuted before the repair of insert_deriv (read-only match now AFTER the
   broadcast): a read-only shapeless Scalar takes a derivative of shape (1,), which is collapsed to
   its single element; the stored derivative is read-only and the result is well-formed *)
Definition ro_shapeless :=
  bare (mkcore CScalar [] [] [] [] 0 0 0 1 1 1 1 (VScalar KFloat) (MBool false) (VScalar KFloat) false true None None).
Definition deriv1 :=
  bare (mkcore CScalar [1] [] [] [] 0 0 0 1 1 1 1 (VArr KFloat [1]) (MBool false) (VScalar KFloat) false false (Some true) None).
Example ex_insert_collapse_ok : exists p',
  wf ex_table ro_shapeless = true /\ wf ex_table deriv1 = true /\
  insert_deriv ex_table ro_shapeless "t"%string deriv1 = Some p' /\ wf ex_table p' = true /\
  map (fun kd => c_ro (d_core (snd kd))) (s_derivs p') = [true].
Proof. eexists. repeat split; vm_compute; reflexivity. Qed.

Print Assumptions C05_why_is_wf.
Print Assumptions C05_monitor_is_forallb_wf.
Print Assumptions C05_ctor_wf.
Print Assumptions C05_insert_deriv_wf.
Print Assumptions C05_ops_preserve_wf.
Print Assumptions C05_reachable_wf.
