From Coq Require Import List ZArith Bool.
From PM Require Import C08Model C08Lemmas.
Import ListNotations.
