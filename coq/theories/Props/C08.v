(* Property C08 - read-only objects cannot be changed through the public API.
   Theorems over the heap machine of C08Model.v (buffers, array objects with a
   WRITEABLE flag, polymath objects).  U = any heap, any history. *)
From Coq Require Import List ZArith Bool Lia.
From PM Require Import C08Model C08Lemmas.
Import ListNotations.

(* U: every mutator on a read-only object raises and leaves the whole heap unchanged *)
Theorem C08_mutators_rejected : forall h i,
  valid h i = true -> oro (nth i (objs h) dflt_obj) = true ->
  hstep h (HSetInt i) = (h, RErr) /\ hstep h (HIAdd i) = (h, RErr) /\ hstep h (HSetUnits i) = (h, RErr).
Proof. exact mutators_rejected. Qed.

(* U: as_readonly() flags the object and makes its value and mask arrays refuse writes,
   whether or not the object was already flagged *)
Theorem C08_as_readonly_freezes : forall h i,
  let o := nth i (objs h) dflt_obj in
  i < length (objs h) -> ovals o < length (arrs h) ->
  (forall m, omask o = Some m -> m < length (arrs h)) ->
  let h' := freeze h i in
  oro (nth i (objs h') dflt_obj) = true /\
  awr (get_arr h' (ovals o)) = false /\
  (forall m, omask o = Some m -> awr (get_arr h' m) = false).
Proof. exact freeze_freezes. Qed.
Theorem C08_direct_write_refused : forall h i, valid h i = true ->
  awr (get_arr h (ovals (nth i (objs h) dflt_obj))) = false -> hstep h (HDirectV i) = (h, RErr).
Proof. exact direct_write_refused. Qed.
Theorem C08_direct_mask_write_refused : forall h i m, valid h i = true ->
  omask (nth i (objs h) dflt_obj) = Some m -> awr (get_arr h m) = false ->
  hstep h (HDirectM i) = (h, RErr).
Proof. exact direct_mask_write_refused. Qed.

(* U: the read-only flag is never lost, through any history *)
Theorem C08_readonly_forever : forall ps h i, ro_at h i -> ro_at (hrun h ps) i.
Proof. exact oro_forever. Qed.

(* U: slices, clones (wod), array-indexed copies, broadcasts and unpickled copies of a
   read-only object are read-only *)
Theorem C08_derived_readonly : forall h i,
  valid h i = true -> oro (nth i (objs h) dflt_obj) = true ->
  forall p, In p [HSlice i; HClone i; HAdvanced i; HBroadcast i; HPickle i] ->
  snd (hstep h p) = ROk -> oro (last (objs (fst (hstep h p))) dflt_obj) = true.
Proof. exact derived_readonly. Qed.

(* U: the storage of a frozen object can never change again: if every array over buffer b
   is read-only, then after ANY history (views, clones, broadcasts, pickles, mutators on any
   object, direct array writes) the buffer still holds the same content.  Views created
   after the freeze inherit the flag, which is why the hypothesis is stable. *)
Theorem C08_frozen_storage_forever : forall h b ps,
  buf_frozen h b -> b < length (bufs h) -> get_buf (hrun h ps) b = get_buf h b.
Proof. exact frozen_forever. Qed.
Theorem C08_frozen_step : forall b c h p, Inv b c h -> Inv b c (fst (hstep h p)).
Proof. exact hstep_inv. Qed.

(* U: copy() is writable and lives on fresh storage *)
Theorem C08_copy_writable : forall h i, valid h i = true ->
  let h' := fst (hstep h (HCopy i)) in
  let o' := last (objs h') dflt_obj in
  oro o' = false /\ awr (get_arr h' (ovals o')) = true /\ length (bufs h) <= abuf (get_arr h' (ovals o')).
Proof. exact copy_writable_fresh. Qed.

(* non-vacuity: an object made, frozen, then attacked through itself, a later slice, a clone
   and a broadcast: every attempt is refused and the content is what it was *)
Example C08_ex_history :
  let ps := [HMake; HFreeze 0; HSlice 0; HClone 0; HBroadcast 0;
             HSetInt 0; HIAdd 1; HDirectV 2; HDirectM 1; HSetInt 3; HSetUnits 2] in
  map fst (htrace init_heap ps)
    = [ROk; ROk; ROk; ROk; ROk; RErr; RErr; RErr; RErr; RErr; RErr]
  /\ buf_frozen (hrun init_heap [HMake; HFreeze 0]) 0
  /\ get_buf (hrun init_heap ps) 0 = [11; 12; 13]%Z.
Proof.
  split; [vm_compute; reflexivity|]. split; [|vm_compute; reflexivity].
  intros k Hk Hb. vm_compute in Hk.
  destruct k as [|[|k]]; [reflexivity | vm_compute in Hb; discriminate | lia].
Qed.
(* the hypothesis of C08_frozen_storage_forever is not automatic: a view made BEFORE the
   freeze keeps its own WRITEABLE flag and writes through it reach the frozen object's buffer
   (the recorded finding KF-C08-prior-view) *)
Example C08_prior_view_refuted :
  exists ps, let h := hrun init_heap ps in
    oro (nth 0 (objs h) dflt_obj) = true /\ get_buf h 0 <> [11; 12; 13]%Z.
Proof.
  exists [HMake; HSlice 0; HFreeze 0; HDirectV 1].
  vm_compute. split; [reflexivity | discriminate].
Qed.

Print Assumptions C08_mutators_rejected.
Print Assumptions C08_as_readonly_freezes.
Print Assumptions C08_direct_write_refused.
Print Assumptions C08_direct_mask_write_refused.
Print Assumptions C08_readonly_forever.
Print Assumptions C08_derived_readonly.
Print Assumptions C08_frozen_storage_forever.
Print Assumptions C08_frozen_step.
Print Assumptions C08_copy_writable.
