(* Property C09 - indexing reads exactly the selected elements; masked index entries
   mask results. Statements only, closed by [exact], with Print Assumptions.
   U = unbounded (any rank, any axis lengths, any value type);
   B = bounded-exhaustive by vm_compute, the bound is in the statement.
   The model is the SPECIFICATION ref_getitem/getitem of C09Model.v (entries become
   pieces; array entries broadcast together and stand where the first array entry
   stood); it is tied to /repo by the correspondence check of harness/c09.py. *)
From Coq Require Import List ZArith Bool.
From PM Require Import Base Mask C09Model C09Lemmas.
Import ListNotations.

(* U: one selection, computed from the leading shape and the index alone, is applied to
   values, mask and every derivative (the value type V - the whole item - is opaque:
   "from the leading axes only") *)
Theorem C09_same_selection : forall (V : Type) (d : V) (q r : obj V) idx,
  getitem d q idx = Some r ->
  exists osh src,
    ref_getitem (psh (omain q)) idx = Some (osh, src) /\
    omain r = select d (omain q) osh src /\
    oders r = map (fun kp => (fst kp, select d (snd kp) osh src)) (oders q).
Proof. exact @getitem_same_selection. Qed.

(* U: a result element is masked iff the entry that selected it is masked or out of range
   (src o = None) or its source element is masked *)
Theorem C09_masked_iff : forall (V : Type) (d : V) (q r : obj V) idx osh src o,
  getitem d q idx = Some r -> ref_getitem (psh (omain q)) idx = Some (osh, src) ->
  (mget (pmask (omain r)) o = true <->
   (src o = None \/ exists e, src o = Some e /\ mget (pmask (omain q)) e = true)).
Proof. exact @getitem_mask_iff. Qed.
Theorem C09_masked_iff_component : forall (V : Type) (d : V) p osh src o,
  mget (pmask (select d p osh src)) o = true <->
  (src o = None \/ exists e, src o = Some e /\ mget (pmask p) e = true).
Proof. exact @select_mask_iff. Qed.
Theorem C09_value_of_source : forall (V : Type) (d : V) p osh src o e,
  src o = Some e -> pval (select d p osh src) o = pval p e.
Proof. exact @select_value. Qed.
Theorem C09_selection_ignores_values : forall (V W : Type) (f : V -> W) (d : V) p osh src o,
  pval (select (f d) (mkpl (psh p) (fun i => f (pval p i)) (pmask p)) osh src) o
  = f (pval (select d p osh src) o).
Proof. exact @select_natural. Qed.

(* U: the only failure is the IndexError of the reference *)
Theorem C09_errors : forall (V : Type) (d : V) (q : obj V) idx,
  getitem d q idx = None <-> ref_getitem (psh (omain q)) idx = None.
Proof. exact @getitem_error_iff. Qed.

(* U: index tuples of integers (in range), slices (any start/stop/step), None, Ellipsis,
   True/False on an array of any rank and any axis lengths (0 included): shape and every
   element are those of NumPy basic indexing, defined independently, per axis, on arrays
   ([np_basic]: a[k, rest] = (a[k])[rest], a[sl, rest] = stack of (a[j])[rest], ...).
   True stands for ":" and False for "0:0" as the class documentation says. *)
Theorem C09_basic : forall (A : Type) (a : arr A) ents,
  ashape a <> [] -> basic_valid (ashape a) ents = true ->
  exists osh src,
    ref_getitem (ashape a) ents = Some (osh, src) /\
    osh = ashape (np_basic ents a) /\
    forall o, inb osh o = true -> option_map (aget a) (src o) = Some (aget (np_basic ents a) o).
Proof. exact @basic_is_numpy. Qed.

(* U: a masked or out-of-range integer, or a masked single boolean, anywhere among the
   pieces masks every result element (no error) *)
Theorem C09_bad_integer_masks_all : forall ps1 ps2 ash o ai,
  walk (ps1 ++ PFixed None :: ps2) ash o ai = None.
Proof. exact walk_masked_fixed. Qed.
Theorem C09_masked_boolean_masks_all : forall ps1 ps2 ash o ai,
  walk (ps1 ++ PMasked :: ps2) ash o ai = None.
Proof. exact walk_masked_bool. Qed.

(* B: index tuples with up to 3 entries of EVERY kind (integers incl. masked / out of range,
   slices, None, Ellipsis, True/False/masked boolean, integer arrays of shapes (2,), (2,1),
   (1,2) incl. masked and out-of-range values, boolean arrays of rank 1 and 2 incl. masked,
   a Pair index) in every position, on all 39 leading shapes of rank 1-3 with axis lengths
   0-2: the specification agrees - error for error, shape for shape, element for element -
   with NumPy advanced indexing (integers count as advanced indices, boolean arrays are
   replaced by their nonzero() arrays, the broadcast block goes where the advanced indices
   stood if they are adjacent and to the front otherwise) followed by np.moveaxis of the
   block to where the first array entry stood. *)
Theorem C09_multi_array_partial : forall sh ents,
  In sh family_shapes -> In ents (tuples 3 sh) ->
  match ref_getitem sh ents, np_getitem sh ents with
  | None, None => True
  | Some (s1, f1), Some (s2, f2) => s1 = s2 /\ forall o, inb s1 o = true -> f1 o = f2 o
  | _, _ => False
  end.
Proof. exact multi_array_bounded. Qed.
(* B: the same with up to 4 entries (so up to 4 array entries, or 3 separated by basic
   entries) on the 12 leading shapes of rank 1-2 with axis lengths 0-2 *)
Theorem C09_multi_array4_partial : forall sh ents,
  In sh family_shapes12 -> In ents (tuples 4 sh) ->
  match ref_getitem sh ents, np_getitem sh ents with
  | None, None => True
  | Some (s1, f1), Some (s2, f2) => s1 = s2 /\ forall o, inb s1 o = true -> f1 o = f2 o
  | _, _ => False
  end.
Proof. exact multi_array_bounded4. Qed.

(* U: len(), iteration and ndenumerate visit q[0], q[1], ... in order, and q[k] is the k-th
   slice along the first axis (values, mask, derivatives) *)
Theorem C09_len_iter : forall (V : Type) (d : V) (q : obj V) n s,
  psh (omain q) = n :: s -> length (iter_items d q) = n /\ qlen q = Some n.
Proof. exact @iter_length. Qed.
Theorem C09_iter_order : forall (V : Type) (d : V) (q : obj V) n s k,
  psh (omain q) = n :: s -> k < n ->
  nth k (iter_items d q) None = getitem d q [EInt (Z.of_nat k) false].
Proof. exact @iter_nth. Qed.
Theorem C09_item_k : forall (V : Type) (d : V) (q : obj V) n s k,
  psh (omain q) = n :: s -> k < n ->
  exists r, getitem d q [EInt (Z.of_nat k) false] = Some r /\
    psh (omain r) = s /\
    (forall o, inb s o = true ->
       pval (omain r) o = pval (omain q) (k :: o) /\
       mget (pmask (omain r)) o = mget (pmask (omain q)) (k :: o)) /\
    map fst (oders r) = map fst (oders q) /\
    (forall j key p, nth_error (oders q) j = Some (key, p) ->
       exists p', nth_error (oders r) j = Some (key, p') /\
                  forall o, inb s o = true ->
                    pval p' o = pval p (k :: o) /\ mget (pmask p') o = mget (pmask p) (k :: o)).
Proof. exact @getitem_int. Qed.
Theorem C09_ndenumerate_order : forall (V : Type) (d : V) (q : obj V) n s,
  psh (omain q) = n :: s ->
  map fst (enum_items d q) = all_mi (n :: s) /\
  forall j i, nth_error (all_mi (n :: s)) j = Some i ->
              nth_error (enum_items d q) j = Some (i, getitem d q (int_idx i)).
Proof. exact @enum_spec. Qed.

(* ---- non-vacuity and the documented examples ---- *)
Definition show (x : option (shape * (mi -> option mi))) : option (shape * list (option mi)) :=
  match x with Some (s, f) => Some (s, map f (all_mi s)) | None => None end.

(* hypotheses of C09_basic are satisfiable: a[-1, ::-1] on shape (2,3) *)
Example C09_ex_basic_valid :
  basic_valid [2; 3] [EInt (-1) false; ESlice None None (Some (-1)%Z)] = true
  /\ show (ref_getitem [2; 3] [EInt (-1) false; ESlice None None (Some (-1)%Z)])
     = Some ([3], [Some [1; 2]; Some [1; 1]; Some [1; 0]]).
Proof. split; vm_compute; reflexivity. Qed.

(* the documentation's example, scaled down: object[:, <(3,)>, :, <(2,1)>] on shape (2,3,2,3)
   has shape (2, 2,3, 2): the (2,3) block stands where the first array entry stood *)
Example C09_ex_doc_placement :
  option_map fst (ref_getitem [2; 3; 2; 3]
     [ESlice None None None; EIArr [3] [0; 1; 2]%Z []; ESlice None None None; EIArr [2; 1] [0; 1]%Z []])
  = Some [2; 2; 3; 2].
Proof. vm_compute. reflexivity. Qed.

(* a masked index value masks only the element it selects, an out-of-range one likewise *)
Example C09_ex_masked_entry :
  show (ref_getitem [2; 3] [ESlice None None None; EIArr [3] [0; 5; 2]%Z [false; false; true]])
  = Some ([2; 3], [Some [0; 0]; None; None; Some [1; 0]; None; None]).
Proof. vm_compute. reflexivity. Qed.

(* an integer separated from the array entry: the array axis still stands where the array
   entry stood (the implementation differs here: known finding KF-C09-int-separated-from-arrays) *)
Example C09_ex_int_separated :
  option_map fst (ref_getitem [2; 3; 2] [EInt 0 false; EEll; EBArr [2] [true; false] []]) = Some [3; 1].
Proof. vm_compute. reflexivity. Qed.

(* invalid indices *)
Example C09_ex_errors :
  ref_getitem [2; 3] [EEll; EEll] = None /\ ref_getitem [2] [EInt 0 false; EInt 0 false] = None /\
  ref_getitem [2; 3] [EBad] = None /\ ref_getitem [3] [EBArr [2] [true; true] []] = None /\
  ref_getitem [2; 3] [EIArr [2] [0; 0]%Z []; EIArr [3] [0; 0; 0]%Z []] = None /\
  ref_getitem [] [EInt 0 false] = None.
Proof. repeat split; vm_compute; reflexivity. Qed.

(* the family of the bounded theorem is not empty, and contains tuples with 2 and 3 array
   entries, separated or adjacent *)
Definition is_arr_entry (e : entry) : bool :=
  match e with EIArr _ _ _ | EBArr _ _ _ | EVec _ _ _ _ => true | _ => false end.
Example C09_ex_family :
  length family_shapes = 39 /\ length (tuples 2 [2; 2; 2]) = 417 /\
  Nat.ltb 1000 (length (filter (fun t => Nat.leb 2 (length (filter is_arr_entry t))) (tuples 3 [2; 2; 2]))) = true /\
  Nat.ltb 100 (length (filter (fun t => Nat.leb 3 (length (filter is_arr_entry t))) (tuples 3 [2; 2; 2]))) = true.
Proof. repeat split; vm_compute; reflexivity. Qed.

Print Assumptions C09_same_selection.
Print Assumptions C09_masked_iff.
Print Assumptions C09_masked_iff_component.
Print Assumptions C09_value_of_source.
Print Assumptions C09_selection_ignores_values.
Print Assumptions C09_errors.
Print Assumptions C09_basic.
Print Assumptions C09_bad_integer_masks_all.
Print Assumptions C09_masked_boolean_masks_all.
Print Assumptions C09_multi_array_partial.
Print Assumptions C09_multi_array4_partial.
Print Assumptions C09_len_iter.
Print Assumptions C09_iter_order.
Print Assumptions C09_item_k.
Print Assumptions C09_ndenumerate_order.
