(* Property C15 - reshaping and item restructuring are pure relabelings.
   Only statements, closed by [exact], with Print Assumptions.
   U = unbounded (every rank, axis length, item shape, mask, derivative set);
   B = bounded-exhaustive inside Coq, bound in the statement. *)
From Coq Require Import List ZArith Bool.
From PM Require Import Base Mask C15Model C15Lemmas ShpModel ShpLemmas.
Import ListNotations.

(* U: every leading-axis operation (reshape flatten swap_axes roll_axis move_axis broadcast_to)
   either rejects its arguments or applies ONE index map m to values, mask and every
   derivative; the class is kept *)
Theorem C15_lead_one_map : forall o q sg, lead_sigma o (qlead (qcore q)) = Some sg ->
  match sg with
  | None => run_op o q = RErr
  | Some m =>
      exists q', run_op o q = ROk [q'] /\ qcls q' = qcls q /\
                 qcore q' = lead_map m (qcore q) /\
                 qders q' = if op_rec o
                            then map (fun kd => (fst kd, lead_map m (snd kd))) (qders q) else []
  end.
Proof. exact lead_relabel. Qed.

(* U: what applying m means: result element (r ++ j) is source element (m r ++ j); the item
   part j and the item shapes are untouched; the mask uses the same m *)
Theorem C15_lead_relabel : forall m a,
  qlead (lead_map m a) = im_out m /\ qnumer (lead_map m a) = qnumer a /\
  qdenom (lead_map m a) = qdenom a /\
  (forall r j, length r = length (im_out m) ->
               qval (lead_map m a) (r ++ j) = qval a (im_src m r ++ j)) /\
  (forall r, qmask (lead_map m a) r = qmask a (im_src m r)).
Proof. exact lead_map_relabels. Qed.

(* U: dual statements for numerator-axis operations (extract_numer slice_numer transpose_numer
   reshape_numer flatten_numer as_row as_column to_scalar swapxy) *)
Theorem C15_numer_one_map : forall o q sg, numer_sigma o (qnumer (qcore q)) = Some sg ->
  match sg with
  | None => run_op o q = RErr
  | Some m =>
      exists q', run_op o q = ROk [q'] /\
                 qcore q' = numer_map m (qcore q) /\
                 qders q' = if op_rec o
                            then map (fun kd => (fst kd, numer_map m (snd kd))) (qders q) else []
  end.
Proof. exact numer_relabel. Qed.
Theorem C15_numer_relabel : forall m a,
  qlead (numer_map m a) = qlead a /\ qnumer (numer_map m a) = im_out m /\
  qdenom (numer_map m a) = qdenom a /\
  (forall r n d, length r = length (qlead a) -> length n = length (im_out m) ->
                 qval (numer_map m a) (r ++ n ++ d) = qval a (r ++ im_src m n ++ d)) /\
  (forall r, qmask (numer_map m a) r = qmask a r).
Proof. exact numer_map_relabels. Qed.
Theorem C15_denom_relabel : forall m a,
  qlead (denom_map m a) = qlead a /\ qnumer (denom_map m a) = qnumer a /\
  qdenom (denom_map m a) = im_out m /\
  (forall r n d, length r = length (qlead a) -> length n = length (qnumer a) ->
                 qval (denom_map m a) (r ++ n ++ d) = qval a (r ++ n ++ im_src m d)) /\
  (forall r, qmask (denom_map m a) r = qmask a r).
Proof. exact denom_map_relabels. Qed.
(* U: denominator operations and join/split/swap_items never touch leading axes or mask *)
Theorem C15_item_ops_keep_lead : forall o q q',
  match o with
  | OExtractDenom _ _ _ | OTransposeDenom _ _ | OReshapeDenom _ | OFlattenDenom
  | OJoinItems _ | OSplitItems _ _ | OSwapItems _ => True
  | _ => False
  end ->
  run_op o q = ROk [q'] ->
  qlead (qcore q') = qlead (qcore q) /\ (forall r, qmask (qcore q') r = qmask (qcore q) r) /\
  qders q' = [].
Proof. exact denom_ops_keep_lead. Qed.
Theorem C15_swap_items_relabel : forall a r n d,
  length r = length (qlead a) -> length d = length (qdenom a) ->
  qval (swap_items_map a) (r ++ d ++ n) = qval a (r ++ n ++ d).
Proof. exact swap_items_relabel. Qed.

(* U: nothing lost, nothing duplicated: the index maps of swapaxes / rollaxis / moveaxis (any
   tuple of axes) / reshape (any legal target incl. an unknown entry and ()) are bijections
   between the index set of the result and the index set of the source *)
Theorem C15_swapaxes_bijective : forall a b s m, np_swapaxes a b s = Some m -> bijective_on m s.
Proof. exact swapaxes_bijection. Qed.
Theorem C15_rollaxis_bijective : forall a st s m, np_rollaxis a st s = Some m -> bijective_on m s.
Proof. exact rollaxis_bijection. Qed.
Theorem C15_moveaxis_bijective : forall src dst s m, np_moveaxis src dst s = Some m -> bijective_on m s.
Proof. exact moveaxis_bijection. Qed.
Theorem C15_reshape_bijective : forall t s m, np_reshape t s = Some m -> bijective_on m s.
Proof. exact reshape_bijection. Qed.
(* U: any transposition of axes along a permutation (also used for transpose_numer/denom) *)
Theorem C15_transpose_bijective : forall p s, is_perm p (length s) -> bijective_on (np_transpose p s) s.
Proof. exact transpose_bij. Qed.

(* U: axis arguments: accepted exactly when in range; normalised as Python's a % n *)
Theorem C15_axis_normalisation : forall n a k, norm_axis n a = Some k ->
  (- Z.of_nat n <= a < Z.of_nat n)%Z /\ Z.of_nat k = (a mod Z.of_nat n)%Z.
Proof.
  intros n a k H. split; [apply (proj1 (norm_axis_spec n a k) H) | apply norm_axis_mod; exact H].
Qed.
Theorem C15_swap_axes_legal : forall a b rec q,
  run_op (OSwapAxes a b rec) q = RErr <->
  ~ ((- Z.of_nat (length (qlead (qcore q))) <= a < Z.of_nat (length (qlead (qcore q))))%Z /\
     (- Z.of_nat (length (qlead (qcore q))) <= b < Z.of_nat (length (qlead (qcore q))))%Z).
Proof. exact swap_axes_legal. Qed.
(* with the rank= extension: R is the assumed rank *)
Theorem C15_roll_axis_legal : forall a st rank rec q R,
  eff_rank (length (qlead (qcore q))) rank = Some R ->
  (run_op (ORollAxis a st rank rec) q = RErr <->
   ~ ((- Z.of_nat R <= a < Z.of_nat R)%Z /\ (- Z.of_nat R <= st <= Z.of_nat R)%Z)).
Proof. exact roll_axis_legal. Qed.
Theorem C15_move_axis_legal : forall a b rank rec q R,
  eff_rank (length (qlead (qcore q))) rank = Some R ->
  (run_op (OMoveAxis [a] [b] rank rec) q = RErr <->
   ~ ((- Z.of_nat R <= a < Z.of_nat R)%Z /\ (- Z.of_nat R <= b < Z.of_nat R)%Z)).
Proof. exact move_axis_legal. Qed.
Theorem C15_rank_too_small : forall o q,
  match o with
  | ORollAxis _ _ rank _ | OMoveAxis _ _ rank _ => rank <> 0 /\ rank < length (qlead (qcore q))
  | _ => False
  end -> run_op o q = RErr.
Proof. exact rank_too_small_rejected. Qed.

(* U: without rank= the map used is NumPy's own index map on the leading shape *)
Theorem C15_numpy_agrees_plain : forall f lead, lead <> [] ->
  match f lead, with_rank f 0 lead with
  | None, None => True
  | Some m, Some m' => im_out m' = im_out m /\ forall i, im_src m' i = im_src m i
  | _, _ => False
  end.
Proof. exact plain_rank_is_numpy. Qed.

(* inverse pairs *)
(* U *)
Theorem C15_swap_axes_twice : forall a b s m1 x, qlead x = s -> np_swapaxes a b s = Some m1 ->
  exists m2, np_swapaxes a b (im_out m1) = Some m2 /\ q0_eq_in (lead_map m2 (lead_map m1 x)) x.
Proof. exact swap_axes_twice. Qed.
(* U *)
Theorem C15_reshape_and_back : forall t s m1 x, qlead x = s -> np_reshape t s = Some m1 ->
  exists m2, np_reshape (map Z.of_nat s) (im_out m1) = Some m2 /\
             q0_eq_in (lead_map m2 (lead_map m1 x)) x.
Proof. exact reshape_and_back. Qed.
(* U: any two axis permutations with p1[p2[k]] = k undo each other *)
Theorem C15_permutation_pair : forall p1 p2 s x, qlead x = s ->
  is_perm p1 (length s) -> is_perm p2 (length s) -> gather p2 p1 = seq 0 (length s) ->
  q0_eq_in (lead_map (np_transpose p2 (gather p1 s)) (lead_map (np_transpose p1 s) x)) x.
Proof. exact perm_pair_inverse. Qed.
(* B in the rank (<= 6), U in axis lengths / items: move_axis(a,b) then move_axis(b,a) *)
Theorem C15_move_axis_pair_B : forall a b s x, length s <= 6 -> a < length s -> b < length s ->
  qlead x = s ->
  np_moveaxis [Z.of_nat a] [Z.of_nat b] s = Some (np_transpose (moveP [a] [b] (length s)) s) /\
  q0_eq_in (lead_map (np_transpose (moveP [b] [a] (length s)) (gather (moveP [a] [b] (length s)) s))
                     (lead_map (np_transpose (moveP [a] [b] (length s)) s) x)) x.
Proof.
  intros a b s x Hn Ha Hb Hx. split; [apply np_moveaxis_nat; assumption | apply move_axis_pair_B; assumption].
Qed.
(* B in the rank (<= 6): roll_axis(k, 0) then roll_axis(0, k+1) *)
Theorem C15_roll_axis_pair_B : forall k s x, length s <= 6 -> k < length s -> qlead x = s ->
  np_rollaxis (Z.of_nat k) 0 s = Some (np_transpose (rollP k 0 (length s)) s) /\
  q0_eq_in (lead_map (np_transpose (rollP 0 k (length s)) (gather (rollP k 0 (length s)) s))
                     (lead_map (np_transpose (rollP k 0 (length s)) s) x)) x.
Proof.
  intros k s x Hn Hk Hx. split; [apply np_rollaxis_front; assumption | apply roll_axis_pair_B; assumption].
Qed.
(* U *)
Theorem C15_transpose_numer_twice : forall a b (x : q0) r n d,
  a < length (qnumer x) -> b < length (qnumer x) ->
  length r = length (qlead x) -> length n = length (qnumer x) ->
  let p := swapP a b (length (qnumer x)) in
  let m1 := np_transpose p (qnumer x) in
  let m2 := np_transpose p (im_out m1) in
  im_out m2 = qnumer x /\
  qval (numer_map m2 (numer_map m1 x)) (r ++ n ++ d) = qval x (r ++ n ++ d).
Proof. exact transpose_numer_twice. Qed.
(* U *)
Theorem C15_split_after_join : forall a,
  qnumer (split_map (length (qnumer a)) (join_map a)) = qnumer a /\
  qdenom (split_map (length (qnumer a)) (join_map a)) = qdenom a /\
  qlead (split_map (length (qnumer a)) (join_map a)) = qlead a /\
  (forall i, qval (split_map (length (qnumer a)) (join_map a)) i = qval a i) /\
  (forall r, qmask (split_map (length (qnumer a)) (join_map a)) r = qmask a r).
Proof. exact split_after_join. Qed.
(* U *)
Theorem C15_swap_items_twice : forall a r n d,
  length r = length (qlead a) -> length n = length (qnumer a) -> length d = length (qdenom a) ->
  qval (swap_items_map (swap_items_map a)) (r ++ n ++ d) = qval a (r ++ n ++ d) /\
  qnumer (swap_items_map (swap_items_map a)) = qnumer a /\
  qdenom (swap_items_map (swap_items_map a)) = qdenom a /\
  (forall k, qmask (swap_items_map (swap_items_map a)) k = qmask a k).
Proof. exact swap_items_twice. Qed.
(* U: from_scalars of the to_scalars components (same leading shape) gives every element back *)
Theorem C15_from_to_scalars : forall a n r k d,
  qnumer a = [n] -> k < n -> length r = length (qlead a) ->
  qval (fromsc_q0 (qlead a) (map (fun j => numer_map (ix_extract 0 j [n]) a) (seq 0 n)) (qdenom a))
       (r ++ k :: d) = qval a (r ++ k :: d).
Proof. exact from_to_scalars. Qed.

(* U: stack / from_scalars / as_diagonal element provenance *)
Theorem C15_stack_elements : forall s l nu de k i,
  qval (stack_q0 s l nu de) (k :: i) = qval (nth_q0 k l) i /\
  qmask (stack_q0 s l nu de) (k :: i) = qmask (nth_q0 k l) i /\
  qlead (stack_q0 s l nu de) = length l :: s.
Proof. exact stack_spec. Qed.
Theorem C15_broadcast_elements : forall s a r j, length r = length s ->
  qval (bcast_q0 s a) (r ++ j) = qval a (bproj (qlead a) r ++ j) /\
  qmask (bcast_q0 s a) r = qmask a (bproj (qlead a) r).
Proof. exact bcast_spec. Qed.
Theorem C15_from_scalars_elements : forall s l de r k d, length r = length s ->
  qval (fromsc_q0 s l de) (r ++ k :: d) = qval (nth_q0 k l) (r ++ d) /\
  qmask (fromsc_q0 s l de) r = existsb (fun a => qmask a r) l.
Proof. exact fromsc_spec. Qed.
Theorem C15_as_diagonal_elements : forall a r i j d, length r = length (qlead a) ->
  qval (diag_map a) (r ++ i :: j :: d) = (if Nat.eqb i j then qval a (r ++ i :: d) else 0%Z) /\
  qlead (diag_map a) = qlead a /\ (forall k, qmask (diag_map a) k = qmask a k).
Proof. exact diag_spec. Qed.

(* non-vacuity: concrete instances of the hypotheses and of the maps *)
Example C15_ex_swap :
  match np_swapaxes (-1)%Z 0%Z [2; 3; 4] with
  | Some m => (im_out m, im_src m [3; 1; 0])
  | None => ([], [])
  end = ([4; 3; 2], [0; 1; 3]).
Proof. vm_compute. reflexivity. Qed.
Example C15_ex_roll_pinned :     (* the pinned tree transposed here: roll_axis(1, 1) on (2,3) *)
  match np_rollaxis 1%Z 1%Z [2; 3] with Some m => (im_out m, im_src m [1; 2]) | None => ([], []) end
  = ([2; 3], [1; 2]).
Proof. vm_compute. reflexivity. Qed.
Example C15_ex_move :
  match np_moveaxis [0; 1]%Z [-1; 0]%Z [2; 3; 4] with Some m => im_out m | None => [] end = [3; 4; 2].
Proof. vm_compute. reflexivity. Qed.
Example C15_ex_reshape :
  match np_reshape [-1; 2]%Z [2; 3] with Some m => (im_out m, im_src m [2; 1]) | None => ([], []) end
  = ([3; 2], [1; 2]).
Proof. vm_compute. reflexivity. Qed.
Example C15_ex_rejected :
  (np_swapaxes 2%Z 0%Z [2; 3], np_moveaxis [2]%Z [0]%Z [2; 3], np_reshape [4]%Z [2; 3],
   np_reshape []%Z [2; 3], np_broadcast_to [] [3])
  = (None, None, None, None, None).
Proof. vm_compute. reflexivity. Qed.
Example C15_ex_perm : is_perm (moveP [0; 1] [2; 0] 3) 3.
Proof. apply moveP_perm; [repeat constructor; simpl; intuition discriminate | | reflexivity].
  intros x [<-|[<-|[]]]; auto. Qed.
Example C15_ex_eff_rank : eff_rank 2 3 = Some 3 /\ eff_rank 2 0 = Some 2 /\ eff_rank 0 0 = Some 1
                          /\ eff_rank 3 2 = None.
Proof. vm_compute. repeat split; reflexivity. Qed.
Example C15_ex_run :
  match run_op (OSwapAxes 0%Z 1%Z true)
               (to_qube (mkI 3 [2; 3] [2] [] (LA [true; false; false; false; false; false]) [(0, [])] false [])) with
  | ROk [q] => (vals_of (qcore q) (fun _ => false), mask_of (qcore q))
  | _ => ([], [])
  end = ([0; 0; 7; 8; 3; 4; 9; 10; 5; 6; 11; 12]%Z, [true; false; false; false; false; false]).
Proof. vm_compute. reflexivity. Qed.

(* ---- the axis plans the regenerated obligations (coq/obl/Shp_C15.v) speak of ---- *)
(* U: the permutations of ShpModel are the ones by which C15Model's np_swapaxes / np_rollaxis / np_moveaxis transpose *)
Theorem C15_plan_perm_is_model_swap : forall a b s,
  np_swapaxes a b s = option_map (fun P => np_transpose P s) (swap_perm a b (length s)).
Proof. exact np_swapaxes_perm. Qed.
Theorem C15_plan_perm_is_model_roll : forall a b s,
  np_rollaxis a b s = option_map (fun P => np_transpose P s) (roll_perm a b (length s)).
Proof. exact np_rollaxis_perm. Qed.
Theorem C15_plan_perm_is_model_move : forall a b s,
  np_moveaxis a b s = option_map (fun P => np_transpose P s) (move_perm a b (length s)).
Proof. exact np_moveaxis_perm. Qed.
(* U: an in-range swap / roll / move of leading axes, applied to an array with k further (item) axes, permutes the
   leading axes the same way and leaves the item axes where they are *)
Theorem C15_axis_frame : forall o n k P,
  nop_inrange o n = true -> nop_perm o n = Some P -> nop_perm o (n + k) = Some (P ++ seq n k).
Proof. exact nop_frame. Qed.
(* U: NumPy's normalize_axis_index is "add the rank when negative, then range-check" (the form of the code's prologues) *)
Theorem C15_norm_axis_as_coded : forall n a,
  norm_axis n a =
  let a' := (if Z.ltb a 0 then a + Z.of_nat n else a)%Z in
  if (Z.ltb a' 0 || Z.geb a' (Z.of_nat n))%bool then None else Some (Z.to_nat a').
Proof. exact norm_axis_norm. Qed.

Print Assumptions C15_lead_one_map.
Print Assumptions C15_lead_relabel.
Print Assumptions C15_numer_one_map.
Print Assumptions C15_numer_relabel.
Print Assumptions C15_denom_relabel.
Print Assumptions C15_item_ops_keep_lead.
Print Assumptions C15_swap_items_relabel.
Print Assumptions C15_swapaxes_bijective.
Print Assumptions C15_rollaxis_bijective.
Print Assumptions C15_moveaxis_bijective.
Print Assumptions C15_reshape_bijective.
Print Assumptions C15_transpose_bijective.
Print Assumptions C15_axis_normalisation.
Print Assumptions C15_swap_axes_legal.
Print Assumptions C15_roll_axis_legal.
Print Assumptions C15_move_axis_legal.
Print Assumptions C15_rank_too_small.
Print Assumptions C15_numpy_agrees_plain.
Print Assumptions C15_swap_axes_twice.
Print Assumptions C15_reshape_and_back.
Print Assumptions C15_permutation_pair.
Print Assumptions C15_move_axis_pair_B.
Print Assumptions C15_roll_axis_pair_B.
Print Assumptions C15_transpose_numer_twice.
Print Assumptions C15_split_after_join.
Print Assumptions C15_swap_items_twice.
Print Assumptions C15_from_to_scalars.
Print Assumptions C15_stack_elements.
Print Assumptions C15_broadcast_elements.
Print Assumptions C15_from_scalars_elements.
Print Assumptions C15_as_diagonal_elements.
Print Assumptions C15_plan_perm_is_model_swap.
Print Assumptions C15_plan_perm_is_model_roll.
Print Assumptions C15_plan_perm_is_model_move.
Print Assumptions C15_axis_frame.
Print Assumptions C15_norm_axis_as_coded.
