From Coq Require Import List ZArith Bool.
From PM Require Import Base Mask C15Model C15Lemmas.
Import ListNotations.
