(* Property C19 - rejected operations fail cleanly.  The mutators are modelled as ordered
   check lists followed by the commit (C19Model.v, validated against the implementation
   for every fault and pair of faults); U = every fault set, every program. *)
From Coq Require Import List Bool.
From PM Require Import C19Model C19Lemmas.
Import ListNotations.

(* U: whatever the faults, a modelled mutator that raises has committed nothing *)
Theorem C19_atomic : forall c e changed, run19 c = OErr e changed -> changed = false.
Proof. exact run19_atomic. Qed.
(* U, general form: ANY program whose checks all precede its commits is atomic *)
Theorem C19_check_first_atomic : forall ps present e changed,
  check_first ps = true -> exec ps present false = OErr e changed -> changed = false.
Proof. exact check_first_atomic. Qed.
Theorem C19_programs_check_first : forall o a t, check_first (program o a t) = true.
Proof. exact check_first_program. Qed.
(* U: the exception raised is TypeError, ValueError or IndexError *)
Theorem C19_exception_families : forall c e ch,
  run19 c = OErr e ch -> e = ValueErr \/ e = TypeErr \/ e = IndexErr.
Proof. exact run19_family. Qed.
(* U: a read-only target is rejected with ValueError before anything else is looked at *)
Theorem C19_readonly_first : forall c,
  has FReadonly (c_faults c) = true -> run19 c = OErr ValueErr false.
Proof. exact run19_readonly. Qed.
(* U: without faults every supported combination is carried out *)
Theorem C19_no_fault_ok : forall o a t,
  existsb (fun p => fault_eqb (fst p) FAlways) (checks o a t) = false ->
  run19 (mkcase o a t []) = OOk.
Proof. exact run19_no_fault. Qed.
(* witness of why the order matters (the repaired late derivative check of __setitem__) *)
Theorem C19_late_check_not_atomic :
  exists ps present e, check_first ps = false /\ exec ps present false = OErr e true.
Proof. exact late_check_not_atomic. Qed.

Example C19_ex_pair :
  run19 (mkcase OAdd AObject TScalarU [FUnits; FShape]) = OErr ValueErr false /\
  run19 (mkcase OAdd AObject TScalarI [FNumer; FKind]) = OErr TypeErr false /\
  run19 (mkcase OSet AObject TScalarD [FDerivDenom]) = OErr ValueErr false /\
  run19 (mkcase OMul ANumber TVector []) = OOk.
Proof. repeat split; reflexivity. Qed.

Print Assumptions C19_atomic.
Print Assumptions C19_check_first_atomic.
Print Assumptions C19_programs_check_first.
Print Assumptions C19_exception_families.
Print Assumptions C19_readonly_first.
Print Assumptions C19_no_fault_ok.
Print Assumptions C19_late_check_not_atomic.
