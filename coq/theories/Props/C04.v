(* Property C04 - unmasked results equal the NumPy reference; only leading axes
   broadcast; incompatible operands are rejected; class and kind rules; reflected
   and mixed forms agree with the direct form.
   Only statements, closed by [exact], with Print Assumptions.
   U = unbounded (every rank, shape, value, oracle kernel table t / kernel k);
   B = bounded-exhaustive over the finite operand tables enum_q (468 polymath
   operands: 8 classes x admitted kinds x item shapes x 4 leading shapes x
   denominators (), (2,), (3,) x 3 units) and enum_nonq (66 numbers, ndarrays,
   MaskedArrays, nested lists), by vm_compute. *)
From Coq Require Import List ZArith Bool.
From PM Require Import Base Mask C04Model C04Lemmas.
Import ListNotations.

(* U: "what NumPy computes after broadcasting the leading shapes": every result
   element of + and - is the kernel applied to the operand elements found by
   projecting the LEADING part r of the index (NumPy's rule: Base.bshape / bproj);
   the item part j is passed through unchanged. [kern t o] is exact integer
   arithmetic for + - * // % and the oracle table t for true division / powers. *)
Theorem C04_value_pointwise : forall t o a b res,
  (o = OAdd \/ o = OSub) -> oform a = FQ -> oform b = FQ ->
  binop t o a b = Ok res ->
  exists g, rget res = Some g /\
    bshape (olead a) (olead b) = Some (rlead res) /\
    forall r j, length r = length (rlead res) ->
      g (r ++ j) = kern t o (oget a (bproj (olead a) r ++ j)) (oget b (bproj (olead b) r ++ j)).
Proof. exact value_pointwise_addsub. Qed.

(* U: X op S (S a Scalar or Boolean object) for * / // %: the scalar is aligned with
   the leading axes only; numerator index n and denominator index d are untouched *)
Theorem C04_value_pointwise_scale : forall t o a b res,
  (o = OMul \/ o = ODiv \/ o = OFloor \/ o = OMod) ->
  oform a = FQ -> oform b = FQ -> onumer b = [] ->
  (ocls b = CScalar \/ ocls b = CBoolean) ->
  ocls a <> CMatrix3 -> ocls a <> CBoolean ->
  binop t o a b = Ok res ->
  exists g, rget res = Some g /\
    bshape (olead a) (olead b) = Some (rlead res) /\
    rnumer res = onumer a /\ rcls res = ocls a /\
    forall r n d, length r = length (rlead res) -> length n = length (onumer a) ->
      g (r ++ n ++ d) =
        kern t o (oget a (bproj (olead a) r ++ n ++ dsel (odenom a) d))
                 (oget b (bproj (olead b) r ++ dsel (odenom (as_int b)) d)).
Proof. exact value_pointwise_scale. Qed.

(* U: a matrix applied to a vector / matrix contracts item axes only *)
Theorem C04_value_pointwise_matmul : forall self arg res,
  mat_product self arg = Ok res ->
  exists g p q rest, rget res = Some g /\ onumer self = [p; q] /\ onumer arg = q :: rest /\
    bshape (olead self) (olead arg) = Some (rlead res) /\ rnumer res = p :: rest /\
    forall r i c d, length r = length (rlead res) -> length c = length rest ->
      g (r ++ [i] ++ c ++ d) =
        (zsum (map (fun t => (oget self (bproj (olead self) r ++ [i] ++ [t] ++ dsel (odenom self) d)
                              * oget arg (bproj (olead arg) r ++ [t] ++ c ++ dsel (odenom arg) d))%Z)
                   (seq 0 q)), 1%Z).
Proof. exact value_pointwise_matmul. Qed.

(* U: the element-wise combinators for any kernel k *)
Theorem C04_ew2_pointwise : forall k la lb L fa fb r j, length r = length L ->
  ew2 k la lb L fa fb (r ++ j) = k (fa (bproj la r ++ j)) (fb (bproj lb r ++ j)).
Proof. exact ew2_spec. Qed.

(* U: item axes never broadcast: the constructor splits the value-array shape by
   position (numerator / denominator rank), and the result item shape of the
   element-wise cores does not depend on the leading shapes *)
Theorem C04_items_never_broadcast_split : forall L n d,
  split_shape (length n) (length d) (L ++ n ++ d) = (L, n, d).
Proof. exact split_shape_spec. Qed.
Theorem C04_items_never_broadcast_addsub : forall k self arg orig swap res self' arg',
  q_addsub k self arg orig swap = Ok res ->
  onumer self' = onumer self -> odenom self' = odenom self ->
  onumer arg' = onumer arg -> odenom arg' = odenom arg ->
  forall res', q_addsub k self' arg' orig swap = Ok res' ->
  rnumer res' = rnumer res /\ rdenom res' = rdenom res.
Proof. exact items_from_item_rule_addsub. Qed.
Theorem C04_items_never_broadcast_scale : forall k o self arg xl res self' arg',
  by_scalar k o self arg xl = Ok res ->
  onumer self' = onumer self -> odenom self' = odenom self -> odenom arg' = odenom arg ->
  forall res', by_scalar k o self' arg' xl = Ok res' ->
  rnumer res' = rnumer res /\ rdenom res' = rdenom res.
Proof. exact items_from_item_rule_scale. Qed.

(* U: Qube.broadcasted_shape over any number of shapes is NumPy's rule folded;
   a ValueError exactly when some aligned axis pair is incompatible *)
Theorem C04_bshape_spec : forall l, broadcasted_shape l = bshape_fold l.
Proof. exact broadcasted_shape_spec. Qed.
Theorem C04_bshape_rejects_exactly : forall a b,
  bshape a b = None <->
  exists i x y, nth_error (rev a) i = Some x /\ nth_error (rev b) i = Some y
                /\ x <> y /\ x <> 1 /\ y <> 1.
Proof. exact bshape_none. Qed.
Theorem C04_bshape_comm : forall a b, bshape a b = bshape b a.
Proof. exact bshape_comm. Qed.
Theorem C04_bshape_assoc : forall a b c,
  obind (bshape a b) (fun t => bshape t c) = obind (bshape b c) (fun t => bshape a t).
Proof. exact bshape_assoc. Qed.
Theorem C04_bshape_neutral : forall a, bshape [] a = Some a /\ bshape a [] = Some a.
Proof. intro a. split; [apply bshape_nil_l | apply bshape_nil_r]. Qed.
Theorem C04_bshape_idem : forall a, bshape a a = Some a.
Proof. exact bshape_idem. Qed.

(* B: incompatible leading shapes, item shapes, denominators, units -> an error,
   never a result (468 x 468 operand pairs x 7 operators) *)
Theorem C04_reject_table : forall o a b, In o OPS -> In a enum_q -> In b enum_q ->
  must_reject o a b = true -> exists e, binop TAB0 o a b = Err e.
Proof. exact reject_table. Qed.

(* B: class and kind of every accepted result follow the documented rules *)
Theorem C04_kind_class_table : forall o a b, In o OPS -> In a enum_q -> In b enum_q ->
  kind_class_ok o a b = true.
Proof. exact kind_class_table. Qed.

(* B: number / ndarray / MaskedArray / nested-list operands on either side give the
   same class, kind, shapes and values as the direct form (the operand converted
   explicitly) whenever both are accepted (the 180 unit-less polymath operands x 66
   x 7 operators x 2 sides) *)
Theorem C04_reflected_agrees : forall o q m, In o OPS -> In q enum_q0 -> In m enum_nonq ->
  reflected_ok o q m = true.
Proof. exact reflected_agrees. Qed.

(* ---- non-vacuity ---- *)
Definition exV3 := mkopL FQ CVector3 KFloat [3] [3] [] [1;2;3;4;5;6;7;8;9]%Z None.
Definition exV3b := mkopL FQ CVector3 KFloat [] [3] [] [10;20;30]%Z None.
Definition exS := mkopL FQ CScalar KInt [3] [] [] [2;3;4]%Z None.
(* a leading axis of length 3 next to an item axis of length 3: + pairs items with items *)
Example C04_ex_add : obs_of (binop [] OAdd exV3 exV3b) =
  OOk CVector3 KFloat [3] [3] []
      (map (fun z => Some (z, 1%Z)) [11;22;33;14;25;36;17;28;39]%Z).
Proof. vm_compute. reflexivity. Qed.
(* ... and * pairs the scalar's axis with the LEADING axis, not the item axis *)
Example C04_ex_scale : obs_of (binop [] OMul exV3 exS) =
  OOk CVector3 KFloat [3] [3] []
      (map (fun z => Some (z, 1%Z)) [2;4;6;12;15;18;28;32;36]%Z).
Proof. vm_compute. reflexivity. Qed.
Example C04_ex_reject : binop [] OAdd exV3 exS = Err TypeErr.
Proof. vm_compute. reflexivity. Qed.
(* the hypotheses of the table theorems are met by many table entries *)
Example C04_ex_must_reject :
  forallb (fun o => existsb (fun p => must_reject o (fst p) (snd p)) table_pairs) OPS = true
  /\ forallb (fun o => existsb (fun p => is_ok (binop TAB0 o (fst p) (snd p))) table_pairs) OPS = true.
Proof. vm_compute. split; reflexivity. Qed.
Example C04_ex_broadcast : broadcasted_shape [[3;1]; [2]; []; [4;1;1]] = Some [4;3;2]
  /\ broadcasted_shape [[3]; [2]] = None.
Proof. vm_compute. split; reflexivity. Qed.
Example C04_ex_sizes : length enum_q = 468 /\ length enum_nonq = 66 /\ length enum_q0 = 180.
Proof. exact enum_sizes. Qed.

Print Assumptions C04_value_pointwise.
Print Assumptions C04_value_pointwise_scale.
Print Assumptions C04_value_pointwise_matmul.
Print Assumptions C04_ew2_pointwise.
Print Assumptions C04_items_never_broadcast_split.
Print Assumptions C04_items_never_broadcast_addsub.
Print Assumptions C04_items_never_broadcast_scale.
Print Assumptions C04_bshape_spec.
Print Assumptions C04_bshape_rejects_exactly.
Print Assumptions C04_bshape_comm.
Print Assumptions C04_bshape_assoc.
Print Assumptions C04_bshape_neutral.
Print Assumptions C04_bshape_idem.
Print Assumptions C04_reject_table.
Print Assumptions C04_kind_class_table.
Print Assumptions C04_reflected_agrees.
