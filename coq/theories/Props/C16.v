(* Property C16 - vector, matrix, rotation and quaternion algebra.
   Statements over the hand-written reference definitions of C16Ref.v (real numbers,
   any vector length / matrix size n where n appears); closed by [exact]; they do not
   depend on the generated files.  The generated obligations coq/gen/obl/C16_*.v tie
   the CURRENT SOURCE to these references on every run.   All theorems are U
   (unbounded: all reals, all n).  Floating-point rounding is outside (see claims). *)
From Coq Require Import Reals List Arith Lia Lra.
From PM Require Import C16Ref C16Lemmas.
Import ListNotations.
Local Open Scope R_scope.

(* U: perp + proj restores the vector; perp is orthogonal to the axis; unit vectors have norm 1 *)
Theorem C16_perp_plus_proj : forall n v a i, perp n v a i + proj n v a i = v i.
Proof. exact perp_plus_proj. Qed.
Theorem C16_perp_orthogonal : forall n v a, norm_sq n a <> 0 -> dot n (perp n v a) a = 0.
Proof. exact perp_orth. Qed.
Theorem C16_unit_norm_one : forall n a, norm_sq n a <> 0 -> norm_sq n (unitv n a) = 1.
Proof. exact unit_norm. Qed.
Theorem C16_norm_squared : forall n a, norm n a * norm n a = norm_sq n a.
Proof. exact norm_sqr. Qed.

(* U: cross product *)
Theorem C16_cross_orthogonal_left : forall a b, dot 3 (cross3 a b) a = 0.
Proof. exact cross3_orth_l. Qed.
Theorem C16_cross_orthogonal_right : forall a b, dot 3 (cross3 a b) b = 0.
Proof. exact cross3_orth_r. Qed.
Theorem C16_cross_lagrange : forall a b,
  norm_sq 3 (cross3 a b) = norm_sq 3 a * norm_sq 3 b - dot 3 a b * dot 3 a b.
Proof. exact cross3_lagrange. Qed.

(* U: matrix products of any size *)
Theorem C16_transpose_of_product : forall k A B i j,
  transpose (mmul k A B) i j = mmul k (transpose B) (transpose A) i j.
Proof. exact transpose_mmul. Qed.
Theorem C16_product_associative : forall k m A B C i j,
  mmul m (mmul k A B) C i j = mmul k A (mmul m B C) i j.
Proof. exact mmul_assoc. Qed.
Theorem C16_product_identity : forall n A i j, (j < n)%nat -> mmul n A delta i j = A i j.
Proof. exact mmul_ident_r. Qed.
Theorem C16_det_multiplicative : forall A B, det3 (mmul 3 A B) = det3 A * det3 B.
Proof. exact det3_mmul. Qed.

(* U: orthonormal matrices (any n) and rotations *)
Theorem C16_orthonormal_rows_product : forall n A B,
  orth_rows n A -> orth_rows n B -> orth_rows n (mmul n A B).
Proof. exact orth_rows_mmul. Qed.
Theorem C16_orthonormal_cols_product : forall n A B,
  orth_cols n A -> orth_cols n B -> orth_cols n (mmul n A B).
Proof. exact orth_cols_mmul. Qed.
Theorem C16_rotation_product : forall A B, is_rot3 A -> is_rot3 B -> is_rot3 (mmul 3 A B).
Proof. exact is_rot3_mmul. Qed.
Theorem C16_rotation_transpose : forall A, is_rot3 A -> is_rot3 (transpose A).
Proof. exact is_rot3_transpose. Qed.
Theorem C16_rows_and_det_suffice : forall a b c d e f g h i,
  a*a + b*b + c*c = 1 -> d*d + e*e + f*f = 1 -> g*g + h*h + i*i = 1 ->
  a*d + b*e + c*f = 0 -> a*g + b*h + c*i = 0 -> d*g + e*h + f*i = 0 ->
  a * (e*i - f*h) - b * (d*i - f*g) + c * (d*h - e*g) = 1 ->
  rot9 a b c d e f g h i.
Proof. exact rot9_of_rows. Qed.
Theorem C16_rot9_is_rotation : forall a b c d e f g h i,
  rot9 a b c d e f g h i -> is_rot3 (mat_of [[a; b; c]; [d; e; f]; [g; h; i]]).
Proof. exact rot9_is_rot3. Qed.
Theorem C16_unrotate_rotate : forall n M v i, orth_cols n M -> (i < n)%nat ->
  mvec n (transpose M) (mvec n M v) i = v i.
Proof. exact unrotate_rotate. Qed.
Theorem C16_rotate_unrotate : forall n M v i, orth_rows n M -> (i < n)%nat ->
  mvec n M (mvec n (transpose M) v) i = v i.
Proof. exact rotate_unrotate. Qed.
Theorem C16_rotation_preserves_dot : forall n M a b, orth_cols n M ->
  dot n (mvec n M a) (mvec n M b) = dot n a b.
Proof. exact rotate_preserves_dot. Qed.
Theorem C16_axis_rotations : forall k t, is_rot3 (Raxis k (cos t) (sin t)).
Proof. exact Raxis_rot. Qed.
Theorem C16_euler_product_is_rotation : forall k1 k2 k3 t1 t2 t3,
  is_rot3 (mmul 3 (Raxis k1 (cos t1) (sin t1))
             (mmul 3 (Raxis k2 (cos t2) (sin t2)) (Raxis k3 (cos t3) (sin t3)))).
Proof. exact euler_product_rot. Qed.

(* U: quaternions *)
Theorem C16_quaternion_norm_multiplicative : forall p q,
  norm_sq 4 (qmul p q) = norm_sq 4 p * norm_sq 4 q.
Proof. exact qmul_norm. Qed.
Theorem C16_quaternion_product_associative : forall p q r i,
  qmul (qmul p q) r i = qmul p (qmul q r) i.
Proof. exact qmul_assoc. Qed.
Theorem C16_quaternion_times_conjugate : forall p,
  qmul p (qconj p) 0%nat = norm_sq 4 p /\ qmul p (qconj p) 1%nat = 0 /\
  qmul p (qconj p) 2%nat = 0 /\ qmul p (qconj p) 3%nat = 0.
Proof. exact qmul_conj. Qed.
Theorem C16_unit_quaternion_matrix_is_rotation : forall q, norm_sq 4 q = 1 -> is_rot3 (qmat q).
Proof. exact qmat_rot. Qed.
Theorem C16_quaternion_matrix_products_correspond : forall p q i j,
  norm_sq 4 p = 1 -> norm_sq 4 q = 1 -> (i < 3)%nat -> (j < 3)%nat ->
  qmat (qmul p q) i j = mmul 3 (qmat p) (qmat q) i j.
Proof. exact qmat_qmul. Qed.
Theorem C16_quaternion_sandwich_is_matrix_rotation : forall q v i, norm_sq 4 q = 1 -> (i < 3)%nat ->
  qmul (qmul q (vec_of [0; v 0%nat; v 1%nat; v 2%nat])) (qconj q) (S i) = mvec 3 (qmat q) v i.
Proof. exact qmat_sandwich. Qed.

(* non-vacuity of the hypotheses used above *)
Example C16_ex_nonzero_norm : norm_sq 2 (vec_of [3; 4]) <> 0.
Proof. c16_unfold. lra. Qed.
Example C16_ex_unit_quaternion : norm_sq 4 (vec_of [0; 1; 0; 0]) = 1.
Proof. c16_unfold. lra. Qed.
Example C16_ex_rotation : is_rot3 (Raxis 2 (cos 1) (sin 1)).
Proof. apply Raxis_rot. Qed.
Example C16_ex_orthonormal : orth_cols 3 (Raxis 0 (cos 1) (sin 1)) /\ orth_rows 3 (Raxis 0 (cos 1) (sin 1)).
Proof. destruct (Raxis_rot 0 1) as [Hr [Hc _]]. split; assumption. Qed.
Example C16_ex_rot9 : rot9 0 (-1) 0 1 0 0 0 0 1.
Proof. unfold rot9. repeat split; lra. Qed.

Print Assumptions C16_perp_plus_proj.
Print Assumptions C16_perp_orthogonal.
Print Assumptions C16_unit_norm_one.
Print Assumptions C16_norm_squared.
Print Assumptions C16_cross_orthogonal_left.
Print Assumptions C16_cross_orthogonal_right.
Print Assumptions C16_cross_lagrange.
Print Assumptions C16_transpose_of_product.
Print Assumptions C16_product_associative.
Print Assumptions C16_product_identity.
Print Assumptions C16_det_multiplicative.
Print Assumptions C16_orthonormal_rows_product.
Print Assumptions C16_orthonormal_cols_product.
Print Assumptions C16_rotation_product.
Print Assumptions C16_rotation_transpose.
Print Assumptions C16_rows_and_det_suffice.
Print Assumptions C16_rot9_is_rotation.
Print Assumptions C16_unrotate_rotate.
Print Assumptions C16_rotate_unrotate.
Print Assumptions C16_rotation_preserves_dot.
Print Assumptions C16_axis_rotations.
Print Assumptions C16_euler_product_is_rotation.
Print Assumptions C16_quaternion_norm_multiplicative.
Print Assumptions C16_quaternion_product_associative.
Print Assumptions C16_quaternion_times_conjugate.
Print Assumptions C16_unit_quaternion_matrix_is_rotation.
Print Assumptions C16_quaternion_matrix_products_correspond.
Print Assumptions C16_quaternion_sandwich_is_matrix_rotation.
