(* Property C02 - undefined results are masked, never NaN, pole infinity, warning or
   exception. Statements only; proofs in C01Lemmas.v. U = unbounded. The IEEE special-value
   rules are the DEFINITION of the class algebra in C01Model.v (k_sqrt, k_log, k_arcsin,
   k_arccos, k_recip, k_div, k_floordiv, k_mod); every run validates that table against the
   real NumPy kernels on representatives of every class (cases CK). *)
From Coq Require Import List ZArith Bool.
From PM Require Import Base Mask C01Model C01Lemmas.
Import ListNotations.
Open Scope Z_scope.

(* U: with unmasked operands, exactly the undefined elements are masked *)
Theorem C02_exactly_undefined_masked_unary : forall o a r,
  inb (osh a) r = true -> mget (omask a) r = false ->
  exists m, ew1 o a = ROk (osh a) m /\ mget m r = undef1 o (oval a r).
Proof. exact exact_unary. Qed.
Theorem C02_exactly_undefined_masked_binary : forall o a b s r,
  keeps_a_shape o = false -> bshape (osh a) (osh b) = Some s -> inb s r = true ->
  mget (omask a) (bproj (osh a) r) = false -> mget (omask b) (bproj (osh b) r) = false ->
  exists m, ew2 o false a b = ROk s m /\
    mget m r = undef2 o (oval a (bproj (osh a) r)) (oval b (bproj (osh b) r)).
Proof. exact exact_binary. Qed.
Theorem C02_exactly_undefined_masked_number : forall o ip a b r,
  keeps_a_shape o = true -> osh b = [] -> mget (omask b) [] = false -> inb (osh a) r = true ->
  mget (omask a) r = false ->
  exists m, ew2 o ip a b = ROk (osh a) m /\ mget m r = undef2 o (oval a r) (oval b []).
Proof. exact exact_number. Qed.

(* U: sanitising never changes a defined element; a sanitised divisor is never zero *)
Theorem C02_sanitise_keeps_defined : forall o x, undef1 o [x] = false -> kernel_arg1 o x = x.
Proof. exact kernel_arg1_defined. Qed.
Theorem C02_divisor_keeps_defined : forall y, (y =? 0) = false -> kernel_divisor y = y.
Proof. exact kernel_divisor_defined. Qed.
Theorem C02_divisor_never_zero : forall y, kernel_divisor y <> 0.
Proof. exact kernel_divisor_nonzero. Qed.

(* U over the class algebra: for every finite argument, whatever the guarded kernels
   (sqrt, log, reciprocal, arcsin, arccos; / // % with a sanitised divisor) produce is neither
   NaN nor an infinity *)
Theorem C02_no_nan_no_pole_unary : forall o x, all_finite (guarded1 o x) = true.
Proof. exact guarded1_finite. Qed.
Theorem C02_no_nan_no_pole_division : forall k x y,
  k = KDiv \/ k = KFloordiv \/ k = KMod -> all_finite (guarded_div k x y) = true.
Proof. exact guarded_div_finite. Qed.
(* the guards matter: the bare kernels do produce NaN / pole infinities *)
Theorem C02_unguarded_kernels_fail :
  all_finite (k_sqrt (class_of (-2))) = false /\ all_finite (k_log (class_of 0)) = false /\
  all_finite (k_recip (class_of 0)) = false /\ all_finite (k_arcsin (class_of 3)) = false /\
  all_finite (k_div (class_of 2) (class_of 0)) = false /\
  all_finite (k_mod (class_of 2) (class_of 0)) = false.
Proof. exact unguarded_not_finite. Qed.

(* U: the default paths never refuse operands whose shapes broadcast *)
Theorem C02_total_unary : forall o a, ew1 o a <> RErr.
Proof. exact ew1_total. Qed.
Theorem C02_total_binary : forall o a b s,
  bshape (osh a) (osh b) = Some s -> ew2 o false a b <> RErr.
Proof. exact ew2_total. Qed.
Theorem C02_total_ternary : forall a b c sbc s,
  bshape (osh b) (osh c) = Some sbc -> bshape (osh a) sbc = Some s -> ew3 a b c <> RErr.
Proof. exact ew3_total. Qed.

(* ---- non-vacuity ---- *)
Definition exX := mkoL [4]%nat [[-2]; [0]; [2]; [8]] (LS false) false.       (* -1, 0, 1, 4 *)
Example C02_ex_log : run01 (C1 OLog exX) = OMask [4]%nat [true; true; false; false].
Proof. vm_compute. reflexivity. Qed.
Example C02_ex_sqrt : run01 (C1 OSqrt exX) = OMask [4]%nat [true; false; false; false].
Proof. vm_compute. reflexivity. Qed.
Example C02_ex_classes : guarded1 OLog 0 = [Zero] /\ guarded1 OLog 8 = [PSmall; POne; PBig]
  /\ guarded_div KDiv 4 0 = pos_fin.
Proof. repeat split; reflexivity. Qed.
Example C02_ex_singular : run01 (C1 OInverse (mkoL [2]%nat [[2; 4; 4; 8]; [2; 0; 0; 2]] (LS false) false))
  = OMask [2]%nat [true; false].
Proof. vm_compute. reflexivity. Qed.

Print Assumptions C02_exactly_undefined_masked_unary.
Print Assumptions C02_exactly_undefined_masked_binary.
Print Assumptions C02_exactly_undefined_masked_number.
Print Assumptions C02_sanitise_keeps_defined.
Print Assumptions C02_divisor_keeps_defined.
Print Assumptions C02_divisor_never_zero.
Print Assumptions C02_no_nan_no_pole_unary.
Print Assumptions C02_no_nan_no_pole_division.
Print Assumptions C02_unguarded_kernels_fail.
Print Assumptions C02_total_unary.
Print Assumptions C02_total_binary.
Print Assumptions C02_total_ternary.
