(* Property C03 - masked values do not exist: the numbers stored underneath masked elements
   never influence an observable result.  Only statements, closed by [exact], with Print
   Assumptions.  U = unbounded (every length, every mask, every hidden number, every program).
   The model (C03Model.v) computes on ALL stored numbers, the way the implementation does. *)
From Coq Require Import List ZArith Bool.
From PM Require Import C03Model C03Lemmas.
Import ListNotations.
Open Scope Z_scope.

(* U: every unary operation of the alphabet (neg, divisor sanitiser mask_where_eq(0,1),
   shrink/unshrink round trip, sum (zero-fill), max/min (MINVAL/MAXVAL fill), count-based mean,
   any, all, argmax, argmin, sort with fill) gives indistinguishable outcomes on
   indistinguishable operands *)
Theorem C03_op_noninterference_unary : forall o a a',
  obs_equiv a a' -> outcome_equiv (un o a) (un o a').
Proof. exact un_ni. Qed.

(* U: every binary operation (+ - * with broadcasting of single elements, // with the
   sanitised divisor, ==, <, maximum, mask_where, indexing by a masked index array, stack) *)
Theorem C03_op_noninterference_binary : forall o a a' b b',
  obs_equiv a a' -> obs_equiv b b' -> outcome_equiv (bin o a b) (bin o a' b').
Proof. exact bin_ni. Qed.

(* U: the combinators, for ANY element function that respects indistinguishability *)
Theorem C03_elementwise_noninterference : forall f a a' b b', resp2 f ->
  obs_equiv a a' -> obs_equiv b b' -> outcome_equiv (zip f a b) (zip f a' b').
Proof. exact zip_ni. Qed.
Theorem C03_reduction_noninterference : forall r a a', respR r ->
  obs_equiv a a' -> obs_equiv (reduce r a) (reduce r a').
Proof. exact reduce_ni. Qed.

(* U: indexing: a masked index entry is replaced before use, an out-of-range one is masked *)
Theorem C03_index_noninterference : forall a a' idx idx',
  obs_equiv a a' -> obs_equiv idx idx' -> outcome_equiv (q_getitem a idx) (q_getitem a' idx').
Proof. exact getitem_ni. Qed.

(* U: programs - expression trees of any depth over the alphabet, on operand tuples that
   differ arbitrarily underneath their masks *)
Theorem C03_program_noninterference : forall env env', Forall2 obs_equiv env env' ->
  forall e, outcome_equiv (eval env e) (eval env' e).
Proof. exact eval_ni. Qed.

(* U: indistinguishable outcomes are accepted by the executable comparator used in the
   correspondence check (so "model twins agree" there is a consequence, not an assumption) *)
Theorem C03_comparator_sound : forall x y, outcome_equiv x y -> obs_eqb (obs_of x) (obs_of y) = true.
Proof. exact obs_eqb_of_equiv. Qed.

(* non-vacuity: twins that really differ underneath the mask *)
Example C03_twins_exist : obs_equiv tw1 tw2 /\ at_ tw1 1%nat <> at_ tw2 1%nat.
Proof. exact (conj tw_equiv tw_differ). Qed.
Example C03_twins_program :
  obs_of (eval [tw1; tw1] (Bin BFloordiv (Un USum (Leaf 0)) (Un USort (Leaf 1))))
  = obs_of (eval [tw2; tw2] (Bin BFloordiv (Un USum (Leaf 0)) (Un USort (Leaf 1)))).
Proof. vm_compute. reflexivity. Qed.
(* the hidden divisor 0 is sanitised (replaced by 1, masked), not divided by *)
Example C03_hidden_zero_divisor :
  obs_of (bin BFloordiv (of_cells [(false, 7); (false, 7)]) (of_cells [(false, 2); (true, 0)]))
  = OOk 2 [false; true] [3; 7].
Proof. vm_compute. reflexivity. Qed.

(* R: the theorem has teeth - a sum WITHOUT the zero-fill leaks *)
Theorem C03_leaky_sum_refuted :
  exists a a', obs_equiv a a' /\ ~ obs_equiv (reduce r_sum_leaky a) (reduce r_sum_leaky a').
Proof. exact leaky_sum_refuted. Qed.

Print Assumptions C03_op_noninterference_unary.
Print Assumptions C03_op_noninterference_binary.
Print Assumptions C03_elementwise_noninterference.
Print Assumptions C03_reduction_noninterference.
Print Assumptions C03_index_noninterference.
Print Assumptions C03_program_noninterference.
Print Assumptions C03_comparator_sound.
Print Assumptions C03_leaky_sum_refuted.
