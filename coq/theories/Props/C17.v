(* Property C17 - shrinking to an antimask and unshrinking afterwards does not change any
   result.  U = any antimask length, any operands (shapeless or of the antimask's shape),
   any element-wise expression tree of any depth. *)
From Coq Require Import List ZArith Bool.
From PM Require Import C17Model C17Lemmas.
Import ListNotations.

(* U: element k of a shrunk operand is the operand's element at the k-th selected position *)
Theorem C17_select : forall l o k, k < length (positions l) ->
  oeq (at_ (shrink (AA l) o) k) (at_ o (nth k (positions l) 0)).
Proof. exact shrink_select. Qed.

(* U: evaluate on shrunk operands, unshrink: at every selected position the same mask state
   and value as the direct evaluation *)
Theorem C17_commute : forall l env e k, k < length (positions l) ->
  oeq (at_ (unshrink (AA l) (eval (fun x => shrink (AA l) (env x)) e)) (nth k (positions l) 0))
      (at_ (eval env e) (nth k (positions l) 0)).
Proof. exact commute. Qed.
Theorem C17_commute_true : forall env e i,
  at_ (unshrink (AS true) (eval (fun x => shrink (AS true) (env x)) e)) i = at_ (eval env e) i.
Proof. exact commute_true. Qed.

(* U: unshrink (shrink x) reproduces x on the antimask; outside it everything is masked *)
Theorem C17_roundtrip : forall l o k, k < length (positions l) ->
  oeq (at_ (unshrink (AA l) (shrink (AA l) o)) (nth k (positions l) 0)) (at_ o (nth k (positions l) 0)).
Proof. exact roundtrip. Qed.
Theorem C17_outside_masked : forall l s i,
  shaped (unshrink (AA l) s) = true -> ~ In i (positions l) -> snd (at_ (unshrink (AA l) s) i) = true.
Proof. exact unshrink_outside. Qed.

(* U: with shrinking globally disabled the answers on the antimask are the same *)
Theorem C17_switch_disabled : forall l env e i, nth i l false = true ->
  oeq (at_ (eval (fun x => shrink_disabled (AA l) (env x)) e) i) (at_ (eval env e) i).
Proof. exact disabled_agrees. Qed.

(* the selected positions are exactly the True entries *)
Theorem C17_positions : forall l p, In p (positions l) -> nth p l false = true /\ p < length l.
Proof. exact positions_selected. Qed.

Example C17_ex :
  let am := AA [true; false; true; true] in
  let a := of_lists true [1; 2; 3; 4]%Z [false; false; true; false] in
  let b := of_lists false [10]%Z [false] in
  let c := mkc17 am 4 [a; b] (Bin BAdd (Leaf 0) (Un UNeg (Leaf 1))) in
  run_direct c = [Some (-9)%Z; None; Some (-6)%Z] /\ run_shrunk c = run_direct c /\ run_disabled c = run_direct c.
Proof. vm_compute. repeat split; reflexivity. Qed.
(* the stand-in for a fully masked operand is absorbed *)
Example C17_ex_all_masked :
  let am := AA [true; true; false] in
  let a := of_lists true [1; 2; 3]%Z [true; true; false] in
  let b := of_lists true [5; 6; 7]%Z [false; false; false] in
  let c := mkc17 am 3 [a; b] (Bin BMul (Leaf 0) (Leaf 1)) in
  run_shrunk c = [None; None] /\ run_direct c = [None; None].
Proof. vm_compute. split; reflexivity. Qed.

Print Assumptions C17_select.
Print Assumptions C17_commute.
Print Assumptions C17_commute_true.
Print Assumptions C17_roundtrip.
Print Assumptions C17_outside_masked.
Print Assumptions C17_switch_disabled.
Print Assumptions C17_positions.
