(* Property C18 - cached views never go stale; answers do not depend on caching
   or on query order. U = unbounded: any history, any length. *)
From Coq Require Import List ZArith Bool.
From PM Require Import C18Model C18Lemmas.
Import ListNotations.

(* U: a freshly built object is coherent and every step keeps it so; hence every
   reachable state of every history is coherent *)
Theorem C18_coh_init : forall sh v m ma d u r, coh (mk_obj sh v m ma d u r).
Proof. exact mk_obj_coh. Qed.
Theorem C18_coh_step : forall o p, coh o -> coh (fst (step o p)).
Proof. exact step_coh. Qed.
Theorem C18_coh_invariant : forall ps o, coh o -> coh (fst (run step o ps)).
Proof. exact run_coh. Qed.

(* U: the same history gives the same answers with the cache disabled *)
Theorem C18_cache_transparent : forall ps o1 o2, same_fields o1 o2 -> coh o1 ->
  snd (run step o1 ps) = snd (run step_nc o2 ps).
Proof. exact run_transparent. Qed.

(* U: asking twice, or asking other questions in between, never changes an answer *)
Theorem C18_answer_stable : forall o qs q,
  coh o -> forallb is_query qs = true -> is_query q = true ->
  snd (step (fst (run step o qs)) q) = snd (step o q).
Proof. exact answer_stable. Qed.

(* non-vacuity: a history that exercises retained and cleared entries *)
Example C18_ex_history :
  let o := mk_obj true [1;2;3]%Z [false;true;false] true [(0, [5;6;7]%Z)] None false in
  snd (run step o [QAnti; QCorn; QWod; MAddNum 1; QAnti; QWod; MSetInt 1 9 false; QAnti; QCorn])
  = [ABools [true;false;true]; ACorn (Some (0,3)); AWod (mkw [1;2;3]%Z [false;true;false] None false);
     AOk; ABools [true;false;true]; AWod (mkw [2;3;4]%Z [false;true;false] None false);
     AOk; ABools [true;true;true]; ACorn (Some (0,3))].
Proof. vm_compute. reflexivity. Qed.
(* the invariant is not trivially true: a machine that kept the antimask across an
   assignment would be incoherent (what the repaired &=, |=, ^= used to do) *)
Example C18_stale_is_incoherent :
  let o := mk_obj true [1;2]%Z [false;false] false [] None false in
  let o1 := fst (step o QAnti) in
  ~ coh (mko true (vals o1) [true;false] true (derivs o1) (units o1) false (cch o1)).
Proof.
  simpl. intros (Ha & _). specialize (Ha _ eq_refl). discriminate.
Qed.

Print Assumptions C18_coh_init.
Print Assumptions C18_coh_step.
Print Assumptions C18_coh_invariant.
Print Assumptions C18_cache_transparent.
Print Assumptions C18_answer_stable.
