(* Property C14 - equality, ordering and three-valued logic follow their truth
   tables under masks. Only statements, closed by [exact], with Print Assumptions.
   U = unbounded (every shape, length, mask representation). *)
From Coq Require Import List ZArith Bool.
From PM Require Import Base Mask C14Model C14Lemmas.
Import ListNotations.

(* U: tvl_and / tvl_or are Kleene conjunction / disjunction at every element *)
Theorem C14_kleene_and : forall a b o r, tvl_and a b = Some o ->
  tv_at o r = kand (tv_at a (bproj (bsh a) r)) (tv_at b (bproj (bsh b) r)).
Proof. exact tvl_and_kleene. Qed.
Theorem C14_kleene_or : forall a b o r, tvl_or a b = Some o ->
  tv_at o r = kor (tv_at a (bproj (bsh a) r)) (tv_at b (bproj (bsh b) r)).
Proof. exact tvl_or_kleene. Qed.

(* U: tvl_any / tvl_all along any axes of an array of any rank: array mask,
   no mask, and the all-masked scalar representation (non-empty reduction) *)
Theorem C14_kleene_any_array : forall keep a f o, bsh a <> [] -> bmask a = MA f ->
  tv_at (tvl_any keep a) o = kany (contrib_tv keep a o).
Proof. exact tvl_any_array. Qed.
Theorem C14_kleene_all_array : forall keep a f o, bsh a <> [] -> bmask a = MA f ->
  tv_at (tvl_all keep a) o = kall (contrib_tv keep a o).
Proof. exact tvl_all_array. Qed.
Theorem C14_kleene_any_unmasked : forall keep a o, bsh a <> [] -> bmask a = MS false ->
  tv_at (tvl_any keep a) o = kany (contrib_tv keep a o).
Proof. exact tvl_any_unmasked. Qed.
Theorem C14_kleene_all_unmasked : forall keep a o, bsh a <> [] -> bmask a = MS false ->
  tv_at (tvl_all keep a) o = kall (contrib_tv keep a o).
Proof. exact tvl_all_unmasked. Qed.
Theorem C14_kleene_anyall_allmasked : forall keep a o, bsh a <> [] -> bmask a = MS true ->
  all_mi (red_shape (bsh a) keep) <> [] ->
  tv_at (tvl_any keep a) o = kany (contrib_tv keep a o)
  /\ tv_at (tvl_all keep a) o = kall (contrib_tv keep a o).
Proof. exact tvl_any_allmasked. Qed.

(* U: & | ^ ~ are strict: masked iff any input is, else the boolean operation *)
Theorem C14_strict : forall f a b o r, strict2 f a b = Some o ->
  tv_at o r = strict f (tv_at a (bproj (bsh a) r)) (tv_at b (bproj (bsh b) r)).
Proof. exact strict2_spec. Qed.
Theorem C14_strict_not : forall a i,
  tv_at (q_not a) i = match tv_at a i with T => F | F => T | M => M end.
Proof. exact q_not_spec. Qed.

(* U: any()/all() see only unmasked elements; masked iff all contributors are *)
Theorem C14_any_unmasked_only : forall keep a f o, bsh a <> [] -> bmask a = MA f ->
  mget (bmask (q_any keep a)) o
    = forallb (fun r => f (merge_idx keep o r)) (all_mi (red_shape (bsh a) keep))
  /\ bval (q_any keep a) o = any_l (unmasked_vals keep a o).
Proof. exact q_any_array. Qed.
Theorem C14_all_unmasked_only : forall keep a f o, bsh a <> [] -> bmask a = MA f ->
  mget (bmask (q_all keep a)) o
    = forallb (fun r => f (merge_idx keep o r)) (all_mi (red_shape (bsh a) keep))
  /\ bval (q_all keep a) o = all_l (unmasked_vals keep a o).
Proof. exact q_all_array. Qed.

(* U: == and != : complementary, symmetric, reflexive, masked = masked,
   masked <> unmasked, whole items, incompatible is unequal, never an error *)
Theorem C14_ne_is_not_eq : forall a b, cres_ext (q_ne a b) (cneg (q_eq a b)).
Proof. exact q_ne_is_not_eq. Qed.
Theorem C14_eq_symmetric : forall a b, cres_ext (q_eq a b) (q_eq b a).
Proof. exact q_eq_sym. Qed.
Theorem C14_eq_reflexive : forall a r, eq_at a a r = true.
Proof. exact eq_at_refl. Qed.
Theorem C14_eq_both_masked : forall a b r,
  mget (nmask a) (bproj (nsh a) r) = true -> mget (nmask b) (bproj (nsh b) r) = true ->
  eq_at a b r = true.
Proof. exact eq_both_masked. Qed.
Theorem C14_eq_one_masked : forall a b r,
  mget (nmask a) (bproj (nsh a) r) <> mget (nmask b) (bproj (nsh b) r) -> eq_at a b r = false.
Proof. exact eq_one_masked. Qed.
Theorem C14_eq_whole_items : forall a b r,
  mget (nmask a) (bproj (nsh a) r) = false -> mget (nmask b) (bproj (nsh b) r) = false ->
  eq_at a b r = list_eqb (nval a (bproj (nsh a) r)) (nval b (bproj (nsh b) r)).
Proof. exact eq_whole_items. Qed.
Theorem C14_eq_never_errors : forall a b, q_eq a b <> CErr /\ q_ne a b <> CErr.
Proof. exact q_eq_never_errors. Qed.
Theorem C14_eq_incompatible : forall a b, compat a b = None ->
  q_eq a b = CBool false /\ q_ne a b = CBool true.
Proof. exact q_eq_incompatible. Qed.

(* U: orderings are False wherever either side is masked *)
Theorem C14_order_masked_false : forall c a b r,
  mget (nmask a) (bproj (nsh a) r) = true \/ mget (nmask b) (bproj (nsh b) r) = true ->
  ord_at c a b r = false.
Proof. exact ord_masked_false. Qed.
Theorem C14_order_unmasked : forall c a b r,
  mget (nmask a) (bproj (nsh a) r) = false -> mget (nmask b) (bproj (nsh b) r) = false ->
  ord_at c a b r = cmpz c (hd0 (nval a (bproj (nsh a) r))) (hd0 (nval b (bproj (nsh b) r))).
Proof. exact ord_unmasked. Qed.

(* U: tvl comparisons are masked iff either side is *)
Theorem C14_tvl_compare_mask : forall c a b o r, tvl_cmp c a b = Some o ->
  mget (bmask o) r = mget (nmask a) (bproj (nsh a) r) || mget (nmask b) (bproj (nsh b) r).
Proof. exact tvl_cmp_mask. Qed.

(* U: truth value of a comparison agrees with all() / any() of its elements *)
Theorem C14_truth_eq : forall a b s, compat a b = Some s ->
  truth_all (q_eq a b) = Some (forallb (eq_at a b) (all_mi s)).
Proof. exact truth_of_eq. Qed.
Theorem C14_truth_ne : forall a b s, compat a b = Some s ->
  truth_any (q_ne a b) = Some (existsb (ne_at a b) (all_mi s)).
Proof. exact truth_of_ne. Qed.

(* non-vacuity: concrete objects meeting the hypotheses, and the tables themselves *)
Example C14_ex_and :
  obs_ob (tvl_and (mkbL [2;3] [true;false;true;true;false;false] (LA [false;false;true;false;true;false]))
                  (mkbL [3] [true;true;false] (LS false)))
  = OArr [2;3] [T;F;F;T;M;F].
Proof. vm_compute. reflexivity. Qed.
Example C14_ex_any :
  obs_b (tvl_any [true;false] (mkbL [2;3] [false;false;true;false;false;false]
                                   (LA [false;true;false;false;true;false])))
  = OArr [2] [T;M].
Proof. vm_compute. reflexivity. Qed.
Example C14_tables :
  map (fun p => kand (fst p) (snd p)) [(F,F);(F,M);(F,T);(M,F);(M,M);(M,T);(T,F);(T,M);(T,T)]
    = [F;F;F;F;M;M;F;M;T] /\
  map (fun p => kor (fst p) (snd p)) [(F,F);(F,M);(F,T);(M,F);(M,M);(M,T);(T,F);(T,M);(T,T)]
    = [F;M;T;M;M;T;T;T;T].
Proof. split; reflexivity. Qed.

Print Assumptions C14_kleene_and.
Print Assumptions C14_kleene_or.
Print Assumptions C14_kleene_any_array.
Print Assumptions C14_kleene_all_array.
Print Assumptions C14_kleene_any_unmasked.
Print Assumptions C14_kleene_all_unmasked.
Print Assumptions C14_kleene_anyall_allmasked.
Print Assumptions C14_strict.
Print Assumptions C14_strict_not.
Print Assumptions C14_any_unmasked_only.
Print Assumptions C14_all_unmasked_only.
Print Assumptions C14_ne_is_not_eq.
Print Assumptions C14_eq_symmetric.
Print Assumptions C14_eq_reflexive.
Print Assumptions C14_eq_both_masked.
Print Assumptions C14_eq_one_masked.
Print Assumptions C14_eq_whole_items.
Print Assumptions C14_eq_never_errors.
Print Assumptions C14_eq_incompatible.
Print Assumptions C14_order_masked_false.
Print Assumptions C14_order_unmasked.
Print Assumptions C14_tvl_compare_mask.
Print Assumptions C14_truth_eq.
Print Assumptions C14_truth_ne.
