(* Property C12 - units are a dimensional algebra over values held in standard units.
   Only statements, closed by [exact], Examples for non-vacuity, Print Assumptions.

   The operations Units___init__, Units___mul__, Units___truediv__, Units___pow__,
   Units_sqrt, Units_can_match ... are NOT hand-written: they are the Gallina translation of
   the current text of /repo/polymath/units.py (coq/gen/Gen_units.v, regenerated on every
   run).  [Units___pow__ a p2] is a ** (p2/2).  Outcomes: Ok v | Err class | Inexact (a float
   that is not an integer entered a triple: outside the exact model) | OutOfFuel (gcd loop
   bound FUEL = 4000 reached).  wf u: numerator and denominator positive and coprime.
   qv u: the rational numer/denom; pik u: the exponent of pi; uexp u: the three exponents.
   U = unbounded; B = bounded-exhaustive inside Coq (vm_compute), bound in the statement. *)
From Coq Require Import ZArith List Bool String QArith Qpower.
From PM Require Import C12Pre.
From PMGen Require Import Gen_units.
From PM Require Import C12Model C12Lemmas.
Import ListNotations.
Open Scope Z_scope.

(* U: gcd as translated (while-loop with fuel) is Z.gcd for a positive second argument *)
Theorem C12_gcd : forall fuel a b g, 0 < b -> gcd fuel a b = Ok g -> g = Z.gcd a b.
Proof. exact gcd_pos_spec. Qed.

(* U: Units.__init__ on integers with a positive denominator returns the gcd-reduced triple,
   keeps the exponents, and does not take the float-fallback branch; the result is well
   formed and denotes the same rational *)
Theorem C12_norm : forall e n d k u, 0 < d -> Units___init__ e (n, d, k) = Ok u ->
  uexp u = e /\ utrip u = (n / Z.gcd n d, d / Z.gcd n d, k).
Proof. exact init_spec. Qed.
Theorem C12_norm_no_fallback : forall e n d k b, 0 < d ->
  Units_init_fallback e (n, d, k) = Ok b -> b = false.
Proof. exact init_fallback_false. Qed.
Theorem C12_norm_sem : forall e n d k u, 0 < n -> 0 < d -> Units___init__ e (n, d, k) = Ok u ->
  wf u /\ uexp u = e /\ pik u = k /\ (qv u == n # Z.to_pos d)%Q.
Proof. exact init_sem. Qed.
Theorem C12_norm_total : forall e n d k, 0 < d ->
  Units___init__ e (n, d, k) = OutOfFuel \/ exists u, Units___init__ e (n, d, k) = Ok u.
Proof. exact init_total. Qed.

(* U: well-formed records are canonical: equal meaning, equal record (hence Units.__eq__,
   which compares exponents and the float made from the triple) *)
Theorem C12_canonical : forall u v, wf u -> wf v -> uexp u = uexp v -> pik u = pik v ->
  (qv u == qv v)%Q -> u = v.
Proof. exact canon. Qed.

(* U: * / ** sqrt are homomorphisms on (exponents, rational, pi exponent) and preserve wf *)
Theorem C12_mul_sem : forall a b c, wf a -> wf b -> Units___mul__ a (AUnits b) = Ok c ->
  wf c /\ uexp c = e_add (uexp a) (uexp b) /\ pik c = pik a + pik b /\ (qv c == qv a * qv b)%Q.
Proof. exact mul_sem. Qed.
Theorem C12_div_sem : forall a b c, wf a -> wf b -> Units___truediv__ a (AUnits b) = Ok c ->
  wf c /\ uexp c = e_sub (uexp a) (uexp b) /\ pik c = pik a - pik b /\ (qv c == qv a / qv b)%Q.
Proof. exact div_sem. Qed.
Theorem C12_pow_sem : forall a p c, wf a -> Units___pow__ a (2 * p) = Ok c ->
  wf c /\ uexp c = e_scale p (uexp a) /\ pik c = p * pik a /\ (qv c == qv a ^ p)%Q.
Proof. exact pow_sem. Qed.
Theorem C12_sqrt_sem : forall a c, wf a -> Units_sqrt a = Ok c ->
  wf c /\ e_scale 2 (uexp c) = uexp a /\ 2 * pik c = pik a /\ (qv c * qv c == qv a)%Q.
Proof. exact sqrt_sem. Qed.
Theorem C12_mul_total : forall a b, wf a -> wf b ->
  Units___mul__ a (AUnits b) = OutOfFuel \/ exists c, Units___mul__ a (AUnits b) = Ok c.
Proof. exact mul_total. Qed.
Theorem C12_div_total : forall a b, wf a -> wf b ->
  Units___truediv__ a (AUnits b) = OutOfFuel \/ exists c, Units___truediv__ a (AUnits b) = Ok c.
Proof. exact div_total. Qed.

(* U: the consistency laws *)
Theorem C12_mul_comm : forall a b, Units___mul__ a (AUnits b) = Units___mul__ b (AUnits a).
Proof. exact mul_comm. Qed.
Theorem C12_mul_assoc : forall a b c ab bc l r, wf a -> wf b -> wf c ->
  Units___mul__ a (AUnits b) = Ok ab -> Units___mul__ ab (AUnits c) = Ok l ->
  Units___mul__ b (AUnits c) = Ok bc -> Units___mul__ a (AUnits bc) = Ok r -> l = r.
Proof. exact mul_assoc. Qed.
Theorem C12_div_cancel : forall a b ab r, wf a -> wf b ->
  Units___mul__ a (AUnits b) = Ok ab -> Units___truediv__ ab (AUnits b) = Ok r -> r = a.
Proof. exact div_cancel. Qed.
Theorem C12_pow_add : forall a p q ap aq l r, wf a ->
  Units___pow__ a (2 * p) = Ok ap -> Units___pow__ a (2 * q) = Ok aq ->
  Units___mul__ ap (AUnits aq) = Ok l -> Units___pow__ a (2 * (p + q)) = Ok r -> l = r.
Proof. exact pow_add. Qed.
Theorem C12_sqrt_sq : forall a aa r, wf a ->
  Units___mul__ a (AUnits a) = Ok aa -> Units_sqrt aa = Ok r -> r = a.
Proof. exact sqrt_sq. Qed.
(* ... and sqrt of a square is never refused (no ValueError, no float): it is exactly the
   constructor applied to the roots *)
Theorem C12_sqrt_of_square : forall x y z n d k, 0 < n -> 0 < d ->
  Units_sqrt (mkU (2 * x, 2 * y, 2 * z) (n * n, d * d, 2 * k)) = Units___init__ (x, y, z) (n, d, k).
Proof. exact sqrt_of_square_total. Qed.
(* same-dimension conversion: the exact rational ratio times pi^(difference), dimensionless *)
Theorem C12_convert_exact : forall a b c, wf a -> wf b -> Units___truediv__ a (AUnits b) = Ok c ->
  (qv c == qv a / qv b)%Q /\ pik c = pik a - pik b /\ (uexp a = uexp b -> uexp c = (0, 0, 0)).
Proof. exact convert_exact. Qed.
Theorem C12_copy : forall a r, wf a -> Units_copy a = Ok r -> r = a.
Proof. exact copy_id. Qed.

(* U: can_match / do_match / is_angle / is_unitless, None included *)
Theorem C12_match_rules :
  (forall b, Units_can_match None b = Ok true) /\
  (forall a, Units_can_match a None = Ok true) /\
  (forall a b, Units_can_match (Some a) (Some b) = Ok (z3_eqb (uexp a) (uexp b))) /\
  (forall a b, Units_do_match a b = Ok (z3_eqb (oexp a) (oexp b))) /\
  (forall a, Units_is_angle a = Ok (z3_eqb (oexp a) (0, 0, 0) || z3_eqb (oexp a) (0, 0, 1))) /\
  (forall a, Units_is_unitless a = Ok (z3_eqb (oexp a) (0, 0, 0))).
Proof. exact match_rules. Qed.
Theorem C12_z3_eqb : forall a b, z3_eqb a b = true <-> a = b.
Proof. exact z3_eqb_eq. Qed.

(* U: object-level rules (hand-written rule table of C12Model.v over the regenerated helpers) *)
Theorem C12_object_rules_compat : forall a b,
  obj_rule OAdd a b = (if compatible a b then obs_of_ounits (Ok (or_units a b)) else OErr EValue) /\
  obj_rule OOrder a b = (if compatible a b then ONone else OErr EValue) /\
  obj_rule OAtan2 a b = (if compatible a b then ONone else OErr EValue) /\
  obj_rule OEq a b = OBool (compatible a b).
Proof. exact object_rules_compat. Qed.
Theorem C12_object_rules_fn : forall a,
  obj_rule OAngleFn a None =
    (if z3_eqb (oexp a) (0, 0, 0) || z3_eqb (oexp a) (0, 0, 1) then ONone else OErr EValue) /\
  obj_rule OPureFn a None = (if z3_eqb (oexp a) (0, 0, 0) then ONone else OErr EValue) /\
  obj_rule OKeep a None = obs_of_ounits (Ok a) /\
  obj_rule ONoUnits a None = (match a with Some _ => OErr EType | None => ONone end).
Proof. exact object_rules_fn. Qed.
Theorem C12_object_rules_mul : forall a b,
  obj_rule OMul (Some a) (Some b) = obs_of_units (Units___mul__ a (AUnits b)) /\
  obj_rule ODiv (Some a) (Some b) = obs_of_units (Units___truediv__ a (AUnits b)) /\
  obj_rule OMul None None = ONone /\ obj_rule ODiv None None = ONone /\
  obj_rule ODiv None (Some b) = obs_of_units (Units___pow__ b (2 * -1)) /\
  (forall p2, p2 <> 0 -> obj_rule (OPow p2) (Some a) None = obs_of_units (Units___pow__ a p2)) /\
  (forall p2, obj_rule (OPow p2) None None = ONone) /\
  obj_rule OSqrt (Some a) None = obs_of_units (Units_sqrt a) /\
  obj_rule OSqrt None None = ONone.
Proof. exact object_rules_mul. Qed.
Theorem C12_object_rules_mul_none : forall a o, wf a ->
  (obj_rule OMul (Some a) None = o \/ obj_rule OMul None (Some a) = o \/ obj_rule ODiv (Some a) None = o) ->
  o = OUnits (uexp a) (utrip a) \/ o = OFuel.
Proof. exact object_rules_mul_none. Qed.

(* U (by construction of the value model; tied to the code by the direct oracle): attaching,
   changing, removing units leaves stored values and derivatives untouched *)
Theorem C12_values_untouched : forall u q vals der,
  vvals (set_units_v u q) = vvals q /\ vderiv (set_units_v u q) = vderiv q /\
  vvals (without_units_v q) = vvals q /\ vderiv (without_units_v q) = vderiv q /\
  vvals (ctor_v vals der u) = vals /\ vderiv (ctor_v vals der u) = der /\
  vunits (set_units_v u q) = u /\ vunits (without_units_v q) = None.
Proof. exact values_untouched. Qed.
(* U over Q, pi any non-zero number: into_units / from_units are mutually inverse on values
   and derivatives, and scale both by the same factor *)
Theorem C12_conversion_inverse : forall pi : Q, ~ (pi == 0)%Q ->
  forall q, (forall x, vunits q = Some x -> wf x) ->
    Forall2 Qeq (vvals (from_units_v pi (into_units_v pi q))) (vvals q) /\
    Forall2 Qeq (vderiv (from_units_v pi (into_units_v pi q))) (vderiv q) /\
    Forall2 Qeq (vvals (into_units_v pi (from_units_v pi q))) (vvals q) /\
    Forall2 Qeq (vderiv (into_units_v pi (from_units_v pi q))) (vderiv q) /\
    vunits (from_units_v pi (into_units_v pi q)) = vunits q.
Proof. exact conversion_inverse. Qed.
Theorem C12_conversion_same_factor : forall (pi : Q) q,
  vvals (into_units_v pi q) = map (Qmult (/ ofactor pi (vunits q))) (vvals q) /\
  vderiv (into_units_v pi q) = map (Qmult (/ ofactor pi (vunits q))) (vderiv q) /\
  vvals (from_units_v pi q) = map (Qmult (ofactor pi (vunits q))) (vvals q) /\
  vderiv (from_units_v pi q) = map (Qmult (ofactor pi (vunits q))) (vderiv q).
Proof. exact conversion_same_factor. Qed.

(* B (the whole regenerated table): every named unit evaluates, is normalised and equals the
   literal in the source; U: everything built from the table by * / ** sqrt is well formed *)
Theorem C12_named_table : forallb named_ok named_table = true.
Proof. exact named_all_ok. Qed.
Theorem C12_named_wf : forall n u, named_value n = Ok u -> wf u.
Proof. exact named_wf. Qed.
Theorem C12_uexpr_wf : forall x u, ueval x = Ok u -> wf u.
Proof. exact ueval_wf. Qed.

(* B: all pairs of named units: a*b == b*a, a*b/b == a, a/b*b == a, all evaluated (no
   OutOfFuel); all triples: (a*b)*c == a*(b*c); every named unit with all powers p,q in -3..3:
   a**p * a**q == a**(p+q), sqrt(a*a) == a, (a**2)**0.5 == a *)
Theorem C12_B_pairs : forall a b, In a named_units_list -> In b named_units_list -> pair_ok a b = true.
Proof. exact B_pairs_all. Qed.
Theorem C12_B_triples : forall a b c, In a named_units_list -> In b named_units_list ->
  In c named_units_list -> triple_ok a b c = true.
Proof. exact B_triples_all. Qed.
Theorem C12_B_powers : forall a, In a named_units_list -> pow_ok a = true.
Proof. exact B_powers_all. Qed.
Theorem C12_B_named_count : List.length named_units_list = List.length named_table.
Proof. exact B_named_count. Qed.

(* alias facts computed from the text of the static helpers: no attribute of an object that
   may be a caller's argument is assigned (the Units.KM renaming defect makes this false) *)
Theorem C12_alias_facts :
  attr_assign_guarded_mul_units = true /\ attr_assign_guarded_div_units = true /\
  attr_assign_guarded_sqrt_units = true /\ attr_assign_guarded_units_power = true.
Proof. exact alias_facts. Qed.

(* ---- non-vacuity ---- *)
Definition uM := mkU (1, 0, 0) (1, 1000, 0).
Definition uDEG := mkU (0, 0, 1) (1, 180, 1).
Example ex_wf : wf uM /\ wf uDEG.
Proof. split; apply wfb_wf; reflexivity. Qed.
Example ex_named : named_value "M"%string = Ok uM /\ named_value "DEG"%string = Ok uDEG.
Proof. split; vm_compute; reflexivity. Qed.
Example ex_norm : Units___init__ (1, -1, 0) (10, 4, 1) = Ok (mkU (1, -1, 0) (5, 2, 1)).
Proof. vm_compute. reflexivity. Qed.
Example ex_mul_div : exists ab, Units___mul__ uM (AUnits uDEG) = Ok ab /\
  Units___truediv__ ab (AUnits uDEG) = Ok uM /\ utrip ab = (1, 180000, 1).
Proof. eexists. repeat split; vm_compute; reflexivity. Qed.
Example ex_pow : Units___pow__ uM (2 * -2) = Ok (mkU (-2, 0, 0) (1000000, 1, 0))
  /\ Units___pow__ (mkU (2, 0, 0) (1, 1000000, 0)) 1 = Ok uM
  /\ Units___pow__ uM 1 = Err EValue.
Proof. repeat split; vm_compute; reflexivity. Qed.
Example ex_sqrt : Units_sqrt (mkU (2, 0, 0) (1, 1000000, 0)) = Ok uM
  /\ Units_sqrt uM = Err EValue
  /\ Units_sqrt (mkU (2, 0, 0) (1, 1000, 0)) = Inexact.
Proof. repeat split; vm_compute; reflexivity. Qed.
Example ex_obj : obj_rule OAdd (Some uM) (Some uDEG) = OErr EValue
  /\ obj_rule OAdd (Some uM) None = OUnits (1, 0, 0) (1, 1000, 0)
  /\ obj_rule OEq (Some uM) (Some uDEG) = OBool false
  /\ obj_rule OAngleFn (Some uDEG) None = ONone /\ obj_rule OAngleFn (Some uM) None = OErr EValue
  /\ obj_rule OPureFn (Some uDEG) None = OErr EValue.
Proof. repeat split; vm_compute; reflexivity. Qed.
Example ex_lists : (10 <=? List.length named_units_list)%nat = true /\ (10 <=? List.length distinct_units)%nat = true.
Proof. split; vm_compute; reflexivity. Qed.

Print Assumptions C12_gcd.
Print Assumptions C12_norm.
Print Assumptions C12_norm_no_fallback.
Print Assumptions C12_norm_sem.
Print Assumptions C12_norm_total.
Print Assumptions C12_canonical.
Print Assumptions C12_mul_sem.
Print Assumptions C12_div_sem.
Print Assumptions C12_pow_sem.
Print Assumptions C12_sqrt_sem.
Print Assumptions C12_mul_total.
Print Assumptions C12_div_total.
Print Assumptions C12_mul_comm.
Print Assumptions C12_mul_assoc.
Print Assumptions C12_div_cancel.
Print Assumptions C12_pow_add.
Print Assumptions C12_sqrt_sq.
Print Assumptions C12_sqrt_of_square.
Print Assumptions C12_convert_exact.
Print Assumptions C12_copy.
Print Assumptions C12_match_rules.
Print Assumptions C12_z3_eqb.
Print Assumptions C12_object_rules_compat.
Print Assumptions C12_object_rules_fn.
Print Assumptions C12_object_rules_mul.
Print Assumptions C12_object_rules_mul_none.
Print Assumptions C12_values_untouched.
Print Assumptions C12_conversion_inverse.
Print Assumptions C12_conversion_same_factor.
Print Assumptions C12_named_table.
Print Assumptions C12_named_wf.
Print Assumptions C12_uexpr_wf.
Print Assumptions C12_B_pairs.
Print Assumptions C12_B_triples.
Print Assumptions C12_B_powers.
Print Assumptions C12_B_named_count.
Print Assumptions C12_alias_facts.
