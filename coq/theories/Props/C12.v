From Coq Require Import ZArith List Bool String.
From PM Require Import C12Pre.
From PMGen Require Import Gen_units.
From PM Require Import C12Model C12Lemmas.
Theorem C12_stub : True. Proof. exact stub. Qed.
Print Assumptions C12_stub.
