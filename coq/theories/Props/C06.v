(* C06 - carried derivatives equal the true derivative: the hand-written theorems.
   (The per-kernel obligations are generated on every run: coq/gen/obl/C06_*.v.) *)
From Coq Require Import Reals Lra List.
From Coquelicot Require Import Coquelicot.
From PM Require Import C06Defs C06Lemmas C06Chain.
Import ListNotations.
Local Open Scope R_scope.

(* U: chain rule.  For every expression tree over kernels, if each node's kernel meets the line
   obligation of the generated schema at the point where it is used (and binary kernels are
   differentiable there: the point is smooth), the derivative polymath carries through the tree
   is the derivative of the composite function along the operands' own derivatives. *)
Theorem C06_chain : forall e env denv, nodes_ok env e ->
  is_derive (fun h => eval (fun i => env i + h * denv i) e) 0 (carried env denv e).
Proof. exact chain. Qed.

(* U: linearity of the carried derivative in the operand derivatives *)
Theorem C06_linear : forall e env d1 d2 k1 k2, nodes_ok env e ->
  carried env (fun i => k1 * d1 i + k2 * d2 i) e = k1 * carried env d1 e + k2 * carried env d2 e.
Proof. exact carried_linear. Qed.

(* U: a key that no operand carries contributes derivative 0 (operands lacking the key are constants) *)
Theorem C06_missing_key_is_constant : forall e env denv, nodes_ok env e ->
  (forall i, denv i = 0) -> carried env denv e = 0.
Proof. exact carried_missing_key. Qed.

(* U: one operand lacks the key: the carried derivative is the partial derivative along the other *)
Theorem C06_one_sided : forall f f' a b env denv,
  nodes_ok env (Bin f f' a b) -> carried env denv b = 0 ->
  carried env denv (Bin f f' a b) = carried env denv a * f' (eval env a) 1 (eval env b) 0.
Proof. exact carried_one_sided. Qed.

(* U: the line obligation of a unary kernel is differentiability with a linear carried derivative *)
Theorem C06_line_obligation_unary : forall f f' x, line_ok1 f f' x ->
  is_derive f x (f' x 1) /\ forall dx, f' x dx = dx * f' x 1.
Proof. intros f f' x H. split; [apply line1_point; exact H | intros dx; apply (line1_linear f f' x dx H)]. Qed.

(* U: at a smooth point the line obligation of a binary kernel determines its differential *)
Theorem C06_line_obligation_binary : forall f f' x y, line_ok2 f f' x y -> smooth2 f x y ->
  differentiable_pt_lim f x y (f' x 1 y 0) (f' x 0 y 1) /\
  forall dx dy, f' x dx y dy = dx * f' x 1 y 0 + dy * f' x 0 y 1.
Proof. exact line2_linear. Qed.

(* U: reference rules implemented by _add/_sub/_mul/_div_derivs and the per-function factors *)
Theorem C06_sum_rule : forall x y, line_ok2 Rplus (fun _ dx _ dy => dx + dy) x y.
Proof. exact ref_sum_rule. Qed.
Theorem C06_difference_rule : forall x y, line_ok2 Rminus (fun _ dx _ dy => dx - dy) x y.
Proof. exact ref_difference_rule. Qed.
Theorem C06_product_rule : forall x y, line_ok2 Rmult (fun x dx y dy => dx * y + x * dy) x y.
Proof. exact ref_product_rule. Qed.
Theorem C06_quotient_rule : forall x y, y <> 0 ->
  line_ok2 Rdiv (fun x dx y dy => dx * / y - x * (dy * / y * / y)) x y.
Proof. exact ref_quotient_rule. Qed.
Theorem C06_chain_factor : forall (f : R -> R) (df : R -> R) x,
  is_derive f x (df x) -> line_ok1 f (fun x dx => df x * dx) x.
Proof. exact ref_chain_factor. Qed.

(* U: derivative facts for the functions auto_derive does not know *)
Theorem C06_tan : forall x, cos x <> 0 -> is_derive tan x (/ (cos x) ^ 2).
Proof. exact c06_is_derive_tan. Qed.
Theorem C06_asin : forall x, -1 < x < 1 -> is_derive asin x (/ sqrt (1 - x * x)).
Proof. exact c06_is_derive_asin. Qed.
Theorem C06_acos : forall x, -1 < x < 1 -> is_derive acos x (- / sqrt (1 - x * x)).
Proof. exact c06_is_derive_acos. Qed.
Theorem C06_real_power : forall a x, 0 < x -> is_derive (rpow a) x (a * rpow (a - 1) x).
Proof. exact c06_is_derive_rpow. Qed.

(* U: which keys a result carries *)
Theorem C06_strip : forall ts, keys (KOp false ts) = [].
Proof. exact strip_no_keys. Qed.
Theorem C06_wod : forall t, keys (wod t) = [].
Proof. exact wod_no_keys. Qed.
Theorem C06_keys_sound : forall t k, In k (keys t) -> In k (leaf_keys t).
Proof. exact keys_sound. Qed.
Theorem C06_keys_complete : forall t, all_recursive t = true -> keys t = leaf_keys t.
Proof. exact keys_complete. Qed.
Theorem C06_keys_union : forall a b k,
  In k (keys (KOp true [a; b])) <-> In k (keys a) \/ In k (keys b).
Proof. exact keys_union. Qed.

(* U (any n): Matrix.inverse - from N.M = I and the differentiated hypothesis d(M.N) = 0 the
   derivative of the inverse is -N.dM.N *)
Theorem C06_inverse_derivative : forall n (M N dM dN : nat -> nat -> R),
  (forall i j, (i < n)%nat -> (j < n)%nat -> mmul n N M i j = kron i j) ->
  (forall i j, (i < n)%nat -> (j < n)%nat -> mmul n dM N i j + mmul n M dN i j = 0) ->
  forall i j, (i < n)%nat -> (j < n)%nat -> dN i j = - mmul n N (mmul n dM N) i j.
Proof. exact inverse_derivative_unique_in_section. Qed.

(* non-vacuity: the tree  (x0 * x1) + sin x0  satisfies nodes_ok everywhere, so C06_chain applies *)
Definition ex_tree : expr :=
  Bin Rplus (fun _ dx _ dy => dx + dy)
      (Bin Rmult (fun x dx y dy => dx * y + x * dy) (Var 0) (Var 1))
      (Un sin (fun x dx => cos x * dx) (Var 0)).
Example C06_chain_nonvacuous : forall env, nodes_ok env ex_tree.
Proof.
  intros env. simpl.
  split; [apply ref_sum_rule|]. split; [apply smooth2_plus|]. split.
  - split; [apply ref_product_rule|]. split; [apply smooth2_mult|]. split; exact I.
  - split; [|exact I]. apply (ref_chain_factor sin cos). auto_derive; [exact I | ring].
Qed.
Example C06_chain_instance : forall x y dx dy,
  is_derive (fun h => (x + h * dx) * (y + h * dy) + sin (x + h * dx)) 0
            (dx * y + x * dy + cos x * dx).
Proof.
  intros x y dx dy.
  pose (env := fun i : nat => match i with O => x | _ => y end).
  pose (denv := fun i : nat => match i with O => dx | _ => dy end).
  exact (C06_chain ex_tree env denv (C06_chain_nonvacuous env)).
Qed.
Example C06_missing_key_instance : forall x y, carried (fun i => match i with O => x | _ => y end) (fun _ => 0) ex_tree = 0.
Proof. intros. apply C06_missing_key_is_constant; [apply C06_chain_nonvacuous | reflexivity]. Qed.
Example C06_keys_example :
  keys (KOp true [KLeaf [1%nat]; KOp true [KLeaf [2%nat]; KLeaf []]]) = [1%nat; 2%nat] /\
  keys (KOp true [KLeaf [1%nat]; wod (KLeaf [2%nat])]) = [1%nat] /\
  keys (KOp false [KLeaf [1%nat]; KLeaf [2%nat]]) = [].
Proof. repeat split. Qed.
Example C06_inverse_hyps_satisfiable :
  (forall i j, (i < 1)%nat -> (j < 1)%nat -> mmul 1 (fun _ _ => / 2) (fun _ _ => 2) i j = kron i j).
Proof. intros i j Hi Hj. destruct i; [|inversion Hi; subst; inversion H0]. destruct j; [|inversion Hj; subst; inversion H0].
  unfold mmul, kron. simpl. field. Qed.

Print Assumptions C06_chain.
Print Assumptions C06_linear.
Print Assumptions C06_missing_key_is_constant.
Print Assumptions C06_one_sided.
Print Assumptions C06_line_obligation_unary.
Print Assumptions C06_line_obligation_binary.
Print Assumptions C06_sum_rule.
Print Assumptions C06_difference_rule.
Print Assumptions C06_product_rule.
Print Assumptions C06_quotient_rule.
Print Assumptions C06_chain_factor.
Print Assumptions C06_tan.
Print Assumptions C06_asin.
Print Assumptions C06_acos.
Print Assumptions C06_real_power.
Print Assumptions C06_strip.
Print Assumptions C06_wod.
Print Assumptions C06_keys_sound.
Print Assumptions C06_keys_complete.
Print Assumptions C06_keys_union.
Print Assumptions C06_inverse_derivative.
