(* Property C10 - item assignment writes exactly the selected elements and nothing else.
   Statements only, closed by [exact], with Print Assumptions. All theorems are U
   (unbounded): any value type, any shapes, ANY selection (out_shape, src) - in
   particular every selection ref_getitem of C09Model.v produces, so they hold for
   every index tuple of every kind; what C09 establishes about ref_getitem carries over.
   The model is the SPECIFICATION setitem/setitems of C10Model.v, tied to /repo by the
   correspondence check of harness/c10.py. *)
From Coq Require Import List ZArith Bool.
From PM Require Import Base Mask C09Model C10Model C10Lemmas.
Import ListNotations.

(* U frame: an element that no result index reads through an unmasked, in-range entry
   keeps its value and its mask state *)
Theorem C10_frame : forall (V : Type) (t r : plain V) osh src e,
  (forall o, inb osh o = true -> src o <> Some e) ->
  pval (set_plain t osh src r) e = pval t e /\
  mget (pmask (set_plain t osh src r)) e = mget (pmask t) e.
Proof. exact @set_plain_frame. Qed.

(* U written: a selected element receives value and mask state of the broadcast right-hand
   side at the LAST (row-major) result index that reads it *)
Theorem C10_written : forall (V : Type) (t r : plain V) osh src e o,
  last_writer osh src e = Some o ->
  pval (set_plain t osh src r) e = pval r (bproj (psh r) o) /\
  mget (pmask (set_plain t osh src r)) e = mget (pmask r) (bproj (psh r) o).
Proof. exact @set_plain_written. Qed.
Theorem C10_last_writer : forall osh src e o,
  last_writer osh src e = Some o ->
  inb osh o = true /\ src o = Some e /\
  exists l1 l2, all_mi osh = l1 ++ o :: l2 /\ (forall o', In o' l2 -> src o' <> Some e).
Proof. exact last_writer_some. Qed.
Theorem C10_no_writer : forall osh src e,
  last_writer osh src e = None <-> (forall o, inb osh o = true -> src o <> Some e).
Proof. exact last_writer_none. Qed.
(* U exactly: every element is either written from its last writer or unchanged *)
Theorem C10_exactly : forall (V : Type) (t r : plain V) osh src e,
  (exists o, last_writer osh src e = Some o /\
             pval (set_plain t osh src r) e = pval r (bproj (psh r) o) /\
             mget (pmask (set_plain t osh src r)) e = mget (pmask r) (bproj (psh r) o)) \/
  ((forall o, inb osh o = true -> src o <> Some e) /\
   pval (set_plain t osh src r) e = pval t e /\
   mget (pmask (set_plain t osh src r)) e = mget (pmask t) e).
Proof. exact @set_plain_cases. Qed.

(* U: an accepted assignment uses the selection the same index would READ (ref_getitem),
   for the main component and for every derivative; a derivative missing on either side
   counts as zero; no other derivative appears *)
Theorem C10_same_selection_and_derivatives : forall (V : Type) (zero : nat -> V) (t r : obj V) idx t',
  setitem zero t idx r = (Done, t') ->
  exists osh src,
    ref_getitem (psh (omain t)) idx = Some (osh, src) /\
    fits (psh (omain r)) osh = true /\
    omain t' = set_plain (omain t) osh src (omain r) /\
    (forall k p, lookup k (oders t) = Some p ->
       lookup k (oders t') = Some (set_plain p osh src (der_or_zero (zero k) k r (omain r)))) /\
    (forall k p, lookup k (oders t) = None -> lookup k (oders r) = Some p ->
       lookup k (oders t') = Some (set_plain (zero_like (zero k) (omain t')) osh src p)) /\
    (forall k, lookup k (oders t) = None -> lookup k (oders r) = None -> lookup k (oders t') = None).
Proof. exact @setitem_done. Qed.

(* U: a rejected assignment (invalid index, right-hand side that does not fit) changes nothing *)
Theorem C10_rejected_unchanged : forall (V : Type) (zero : nat -> V) (t r : obj V) idx oc t',
  setitem zero t idx r = (oc, t') -> oc <> Done -> t' = t.
Proof. exact @setitem_rejected_unchanged. Qed.

(* U read-back: through a duplicate-free index the object read back equals what was assigned
   (value and mask state at every result element selected by an unmasked entry; an element
   selected by a masked entry reads back masked) *)
Theorem C10_readback : forall (V : Type) (zero : nat -> V) (d : V) (t r : obj V) idx t',
  setitem zero t idx r = (Done, t') ->
  exists osh src q,
    ref_getitem (psh (omain t)) idx = Some (osh, src) /\
    getitem d t' idx = Some q /\
    (dup_free osh src -> forall o, inb osh o = true ->
       match src o with
       | Some e => pval (omain q) o = pval (omain r) (bproj (psh (omain r)) o) /\
                   mget (pmask (omain q)) o = mget (pmask (omain r)) (bproj (psh (omain r)) o)
       | None => mget (pmask (omain q)) o = true
       end).
Proof. exact @readback_obj. Qed.
Theorem C10_readback_component : forall (V : Type) (t r : plain V) osh src d o,
  dup_free osh src -> inb osh o = true ->
  match src o with
  | Some e => pval (select d (set_plain t osh src r) osh src) o = pval r (bproj (psh r) o) /\
              mget (pmask (select d (set_plain t osh src r) osh src)) o = mget (pmask r) (bproj (psh r) o)
  | None => mget (pmask (select d (set_plain t osh src r) osh src)) o = true
  end.
Proof. exact @readback_plain. Qed.

(* U sequences: by induction over the list of assignments to the same target *)
Theorem C10_sequence_frame : forall (V : Type) (zero : nat -> V) steps (t : obj V) ocs t' e,
  setitems zero t steps = (ocs, t') ->
  (forall idx r osh src, In (idx, r) steps -> ref_getitem (psh (omain t)) idx = Some (osh, src) ->
                         forall o, inb osh o = true -> src o <> Some e) ->
  pval (omain t') e = pval (omain t) e /\ mget (pmask (omain t')) e = mget (pmask (omain t)) e.
Proof. exact @setitems_frame. Qed.
Theorem C10_sequence_last : forall (V : Type) (zero : nat -> V) steps (t : obj V) idx r ocs t1 oc t2,
  setitems zero t steps = (ocs, t1) -> setitem zero t1 idx r = (oc, t2) ->
  setitems zero t (steps ++ [(idx, r)]) = (ocs ++ [oc], t2).
Proof. exact @setitems_last. Qed.
Theorem C10_sequence_shape : forall (V : Type) (zero : nat -> V) steps (t : obj V) ocs t',
  setitems zero t steps = (ocs, t') -> psh (omain t') = psh (omain t).
Proof. exact @setitems_shape. Qed.

(* ---- non-vacuity ---- *)
Definition tgt : obj V :=
  mkobj (mkplL [2; 3] [[0]; [1]; [2]; [3]; [4]; [5]]%Z (LA [false; true; false; false; false; false])) [].
Definition rhs3 : obj V := mkobj (mkplL [3] [[100]; [101]; [102]]%Z (LA [false; false; true])) [].
Definition show10 (x : outcome * obj V) := (fst x, obs_plain (omain (snd x))).

(* t[:, Scalar([0,1,0], mask [F,F,T])] = rhs3 : the masked entry writes nothing (it used to
   overwrite column 0 on the pinned tree); row 1 likewise *)
Example C10_ex_masked_entry :
  show10 (setitem (fun _ => []) tgt [ESlice None None None; EIArr [3] [0; 1; 0]%Z [false; false; true]] rhs3)
  = (Done, ([2; 3], [Some [100]; Some [101]; Some [2]; Some [100]; Some [101]; Some [5]]%Z)).
Proof. vm_compute. reflexivity. Qed.
(* duplicates: the last write wins *)
Example C10_ex_last_wins :
  show10 (setitem (fun _ => []) tgt [EInt 0 false; EIArr [3] [0; 0; 0]%Z []] rhs3)
  = (Done, ([2; 3], [None; None; Some [2]; Some [3]; Some [4]; Some [5]]%Z)).
Proof. vm_compute. reflexivity. Qed.
(* a duplicate-free selection satisfies the hypothesis of the read-back theorem *)
Example C10_ex_dup_free :
  match ref_getitem [2; 3] [EInt 1 false; ESlice None None (Some (-1)%Z)] with
  | Some (osh, src) => osh = [3] /\ map src (all_mi osh) = [Some [1; 2]; Some [1; 1]; Some [1; 0]]
  | None => False
  end.
Proof. vm_compute. split; reflexivity. Qed.
(* rejected assignments *)
Example C10_ex_rejected :
  fst (setitem (fun _ => []) tgt [EInt 0 false; EInt 0 false; EInt 0 false] rhs3) = IndexErr /\
  fst (setitem (fun _ => []) tgt [EInt 0 false; ESlice (Some 1%Z) None None] rhs3) = ShapeErr.
Proof. split; vm_compute; reflexivity. Qed.

Print Assumptions C10_frame.
Print Assumptions C10_written.
Print Assumptions C10_last_writer.
Print Assumptions C10_no_writer.
Print Assumptions C10_exactly.
Print Assumptions C10_same_selection_and_derivatives.
Print Assumptions C10_rejected_unchanged.
Print Assumptions C10_readback.
Print Assumptions C10_readback_component.
Print Assumptions C10_sequence_frame.
Print Assumptions C10_sequence_last.
Print Assumptions C10_sequence_shape.
