(* C07 model (L5): a small heap of buffers, NumPy array objects (views of buffers with a WRITEABLE
   flag) and polymath objects (tagged references to arrays: values, mask, and per derivative key
   its values and mask; units; read-only flag), with [step] for a finite alphabet of calls:
   non-mutating ones (constructor, n-ary operation, view/clone/slice, broadcast, copy, a call that
   raises) and mutators (item assignment, in-place arithmetic, mask allocation, as_readonly,
   delete_deriv).  Proof-free, stdlib only. *)
From Coq Require Import List Arith Bool ZArith Lia.
Import ListNotations.
Open Scope bool_scope.

(* ---------- heap ---------- *)
Record aview := mkview { v_buf : nat; v_off : nat; v_len : nat; v_wr : bool }.
Inductive tag := TVals | TMask | TDVals (k : nat) | TDMask (k : nat).
Record pobj := mkobj {
  o_slots : list (tag * nat);     (* tagged array ids: the derivative "map" is the set of TD* tags *)
  o_maskb : bool;                 (* the value of a Python-bool mask (used when no TMask slot) *)
  o_units : option nat;           (* identity of a Units object *)
  o_ro : bool                     (* _readonly_ *)
}.
Record state := mkst {
  bufs : nat -> list Z; nbuf : nat;
  arrs : nat -> aview;  narr : nat;
  objs : nat -> pobj;   nobj : nat
}.
Definition upd {A} (f : nat -> A) (k : nat) (v : A) : nat -> A := fun x => if x =? k then v else f x.

Definition empty_obj := mkobj [] false None false.
Definition init : state :=
  mkst (fun _ => []) 0 (fun _ => mkview 0 0 0 false) 0 (fun _ => empty_obj) 0.

Definition tag_eqb (a b : tag) : bool :=
  match a, b with
  | TVals, TVals | TMask, TMask => true
  | TDVals j, TDVals k | TDMask j, TDMask k => j =? k
  | _, _ => false
  end.

(* the window of a buffer seen by an array object *)
Definition window (st : state) (a : nat) : list Z :=
  let v := arrs st a in firstn (v_len v) (skipn (v_off v) (bufs st (v_buf v))).

(* observable content of one object: per slot its tag, window content and WRITEABLE flag *)
Definition obs_slot (st : state) (s : tag * nat) : tag * list Z * bool :=
  (fst s, window st (snd s), v_wr (arrs st (snd s))).
Record oobs := mkoobs { ob_slots : list (tag * list Z * bool); ob_maskb : bool;
                        ob_units : option nat; ob_ro : bool }.
Definition obs (st : state) (o : nat) : oobs :=
  let p := objs st o in
  mkoobs (map (obs_slot st) (o_slots p)) (o_maskb p) (o_units p) (o_ro p).

(* ---------- allocation ---------- *)
(* one fresh buffer + one fresh writeable array per (tag, content) *)
Fixpoint alloc_slots (st : state) (l : list (tag * list Z)) : state * list (tag * nat) :=
  match l with
  | [] => (st, [])
  | (t, c) :: l' =>
      let st1 := mkst (upd (bufs st) (nbuf st) c) (S (nbuf st))
                      (upd (arrs st) (narr st) (mkview (nbuf st) 0 (length c) true)) (S (narr st))
                      (objs st) (nobj st) in
      let (st2, r) := alloc_slots st1 l' in
      (st2, (t, narr st) :: r)
  end.
(* fresh array objects viewing existing buffers *)
Fixpoint alloc_views (st : state) (l : list (tag * aview)) : state * list (tag * nat) :=
  match l with
  | [] => (st, [])
  | (t, v) :: l' =>
      let st1 := mkst (bufs st) (nbuf st) (upd (arrs st) (narr st) v) (S (narr st)) (objs st) (nobj st) in
      let (st2, r) := alloc_views st1 l' in
      (st2, (t, narr st) :: r)
  end.
Definition add_obj (st : state) (p : pobj) : state :=
  mkst (bufs st) (nbuf st) (arrs st) (narr st) (upd (objs st) (nobj st) p) (S (nobj st)).

(* ---------- calls ---------- *)
Inductive call :=
| CNew (slots : list (tag * list Z)) (maskb : bool) (units : option nat)
| COp (args : list nat) (f : list oobs -> list (tag * list Z))   (* any non-mutating operation *)
| CView (a : nat) (off len : nat)           (* clone / wod / slice / reshape: shares buffers *)
| CBroadcast (a : nat)                      (* shares buffers; source arrays lose WRITEABLE, source read-only *)
| CCopy (a : nat)                           (* duplicates every buffer *)
| CRaise (args : list nat)                  (* a non-mutating call that raises after allocating a temporary *)
| MSet (a : nat) (t : tag) (i : nat) (v : Z)    (* item assignment through the array of slot t *)
| MIadd (a : nat) (k : Z)                   (* a += k on the values *)
| MNewMask (a : nat) (c : list Z)           (* a bool mask becomes an array (fresh buffer) *)
| MFreeze (a : nat)                         (* as_readonly *)
| MDelDeriv (a : nat) (k : nat).            (* delete_deriv *)

Definition nonmut (c : call) : bool :=
  match c with
  | CNew _ _ _ | COp _ _ | CView _ _ _ | CBroadcast _ | CCopy _ | CRaise _ => true
  | _ => false
  end.
Definition target (c : call) : option nat :=
  match c with
  | MSet a _ _ _ | MIadd a _ | MNewMask a _ | MFreeze a | MDelDeriv a _ => Some a
  | _ => None
  end.

Definition sub_view (v : aview) (off len : nat) (wr : bool) : aview :=
  mkview (v_buf v) (v_off v + Nat.min off (v_len v)) (Nat.min len (v_len v - Nat.min off (v_len v))) wr.

Fixpoint find_slot (t : tag) (l : list (tag * nat)) : option nat :=
  match l with
  | [] => None
  | (t', a) :: l' => if tag_eqb t t' then Some a else find_slot t l'
  end.

Fixpoint set_nth (l : list Z) (i : nat) (v : Z) : list Z :=
  match l, i with
  | [], _ => []
  | _ :: l', 0 => v :: l'
  | x :: l', S i' => x :: set_nth l' i' v
  end.
(* add k to the elements [off, off+len) *)
Fixpoint add_range (l : list Z) (off len : nat) (k : Z) : list Z :=
  match l with
  | [] => []
  | x :: l' =>
      match off with
      | S off' => x :: add_range l' off' len k
      | 0 => match len with
             | 0 => x :: l'
             | S len' => (x + k)%Z :: add_range l' 0 len' k
             end
      end
  end.

(* clear WRITEABLE of the listed arrays *)
Definition freeze_arrs (f : nat -> aview) (l : list nat) : nat -> aview :=
  fun x => if existsb (Nat.eqb x) l then mkview (v_buf (f x)) (v_off (f x)) (v_len (f x)) false else f x.
Definition set_ro (p : pobj) : pobj := mkobj (o_slots p) (o_maskb p) (o_units p) true.
Definition is_deriv_of (k : nat) (t : tag) : bool :=
  match t with TDVals j | TDMask j => j =? k | _ => false end.

Definition step (st : state) (c : call) : state :=
  match c with
  | CNew slots mb u =>
      let (st1, sl) := alloc_slots st slots in add_obj st1 (mkobj sl mb u false)
  | COp args f =>
      if forallb (fun a => a <? nobj st) args then
        let (st1, sl) := alloc_slots st (f (map (obs st) args)) in add_obj st1 (mkobj sl false None false)
      else st
  | CView a off len =>
      if a <? nobj st then
        let p := objs st a in
        let (st1, sl) := alloc_views st (map (fun s => (fst s, sub_view (arrs st (snd s)) off len
                                                                    (v_wr (arrs st (snd s))))) (o_slots p)) in
        add_obj st1 (mkobj sl (o_maskb p) (o_units p) (o_ro p))
      else st
  | CBroadcast a =>
      if a <? nobj st then
        let p := objs st a in
        let ids := map snd (o_slots p) in
        let st0 := mkst (bufs st) (nbuf st) (freeze_arrs (arrs st) ids) (narr st)
                        (upd (objs st) a (set_ro p)) (nobj st) in
        let (st1, sl) := alloc_views st0 (map (fun s => (fst s, sub_view (arrs st (snd s)) 0 (v_len (arrs st (snd s))) false))
                                              (o_slots p)) in
        add_obj st1 (mkobj sl (o_maskb p) (o_units p) true)
      else st
  | CCopy a =>
      if a <? nobj st then
        let p := objs st a in
        let (st1, sl) := alloc_slots st (map (fun s => (fst s, window st (snd s))) (o_slots p)) in
        add_obj st1 (mkobj sl (o_maskb p) (o_units p) false)
      else st
  | CRaise args =>
      mkst (upd (bufs st) (nbuf st) (concat (map (fun a => concat (map (fun s => snd (fst s)) (ob_slots (obs st a)))) args)))
           (S (nbuf st)) (arrs st) (narr st) (objs st) (nobj st)
  | MSet a t i v =>
      if a <? nobj st then
        let p := objs st a in
        match find_slot t (o_slots p) with
        | Some ai =>
            let w := arrs st ai in
            if negb (o_ro p) && v_wr w && (i <? v_len w)
            then mkst (upd (bufs st) (v_buf w) (set_nth (bufs st (v_buf w)) (v_off w + i) v)) (nbuf st)
                      (arrs st) (narr st) (objs st) (nobj st)
            else st
        | None => st
        end
      else st
  | MIadd a k =>
      if a <? nobj st then
        let p := objs st a in
        match find_slot TVals (o_slots p) with
        | Some ai =>
            let w := arrs st ai in
            if negb (o_ro p) && v_wr w
            then mkst (upd (bufs st) (v_buf w) (add_range (bufs st (v_buf w)) (v_off w) (v_len w) k)) (nbuf st)
                      (arrs st) (narr st) (objs st) (nobj st)
            else st
        | None => st
        end
      else st
  | MNewMask a c =>
      if a <? nobj st then
        let p := objs st a in
        match find_slot TMask (o_slots p) with
        | Some _ => st
        | None =>
            if o_ro p then st else
            mkst (upd (bufs st) (nbuf st) c) (S (nbuf st))
                 (upd (arrs st) (narr st) (mkview (nbuf st) 0 (length c) true)) (S (narr st))
                 (upd (objs st) a (mkobj (o_slots p ++ [(TMask, narr st)]) (o_maskb p) (o_units p) (o_ro p)))
                 (nobj st)
        end
      else st
  | MFreeze a =>
      if a <? nobj st then
        let p := objs st a in
        mkst (bufs st) (nbuf st) (freeze_arrs (arrs st) (map snd (o_slots p))) (narr st)
             (upd (objs st) a (set_ro p)) (nobj st)
      else st
  | MDelDeriv a k =>
      if a <? nobj st then
        let p := objs st a in
        if o_ro p then st else
        mkst (bufs st) (nbuf st) (arrs st) (narr st)
             (upd (objs st) a (mkobj (filter (fun s => negb (is_deriv_of k (fst s))) (o_slots p))
                                     (o_maskb p) (o_units p) (o_ro p))) (nobj st)
      else st
  end.

Definition run (st : state) (l : list call) : state := fold_left step l st.

(* ---------- ownership and state well-formedness (used by the theorems) ---------- *)
Definition owned_arrs (st : state) (o : nat) : list nat := map snd (o_slots (objs st o)).
Definition owned_bufs (st : state) (o : nat) : list nat := map (fun a => v_buf (arrs st a)) (owned_arrs st o).
Definition wf_state (st : state) : Prop :=
  (forall o, o < nobj st -> forall a, In a (owned_arrs st o) -> a < narr st) /\
  (forall a, a < narr st -> v_buf (arrs st a) < nbuf st).

(* ---------- executable comparison for the correspondence ---------- *)
Fixpoint lz_eqb (a b : list Z) : bool :=
  match a, b with
  | [], [] => true
  | x :: a', y :: b' => (x =? y)%Z && lz_eqb a' b'
  | _, _ => false
  end.
Definition slot_eqb (a b : tag * list Z * bool) : bool :=
  tag_eqb (fst (fst a)) (fst (fst b)) && lz_eqb (snd (fst a)) (snd (fst b)) && Bool.eqb (snd a) (snd b).
Fixpoint slots_eqb (a b : list (tag * list Z * bool)) : bool :=
  match a, b with
  | [], [] => true
  | x :: a', y :: b' => slot_eqb x y && slots_eqb a' b'
  | _, _ => false
  end.
Definition on_eqb (a b : option nat) : bool :=
  match a, b with Some x, Some y => x =? y | None, None => true | _, _ => false end.
Definition oobs_eqb (a b : oobs) : bool :=
  slots_eqb (ob_slots a) (ob_slots b) && Bool.eqb (ob_maskb a) (ob_maskb b) &&
  on_eqb (ob_units a) (ob_units b) && Bool.eqb (ob_ro a) (ob_ro b).
Fixpoint all_eqb (a b : list oobs) : bool :=
  match a, b with
  | [], [] => true
  | x :: a', y :: b' => oobs_eqb x y && all_eqb a' b'
  | _, _ => false
  end.

(* named operations for executable histories *)
Inductive hcall :=
| HNew (slots : list (tag * list Z)) (maskb : bool) (units : option nat)
| HAdd (a b : nat) | HNeg (a : nat)
| HView (a off len : nat) | HBroadcast (a : nat) | HCopy (a : nat) | HRaise (args : list nat)
| HSet (a : nat) (t : tag) (i : nat) (v : Z) | HIadd (a : nat) (k : Z) | HNewMask (a : nat) (c : list Z)
| HFreeze (a : nat) | HDelDeriv (a k : nat).
Fixpoint zip_add (a b : list Z) : list Z :=
  match a, b with x :: a', y :: b' => (x + y)%Z :: zip_add a' b' | _, _ => [] end.
Definition vals_of (o : oobs) : list Z :=
  match ob_slots o with (_, c, _) :: _ => c | [] => [] end.
Definition f_add (l : list oobs) : list (tag * list Z) :=
  match l with [x; y] => [(TVals, zip_add (vals_of x) (vals_of y))] | _ => [] end.
Definition slot_of (t : tag) (o : oobs) : option (list Z) :=
  match filter (fun s => tag_eqb t (fst (fst s))) (ob_slots o) with (_, c, _) :: _ => Some c | [] => None end.
Fixpoint zip_or (a b : list Z) : list Z :=
  match a, b with x :: a', y :: b' => (if (x =? 0)%Z && (y =? 0)%Z then 0 else 1)%Z :: zip_or a' b' | _, _ => [] end.
(* x + y on objects without derivatives: values added, mask arrays or-ed (a bool False mask = none) *)
Definition f_add2 (l : list oobs) : list (tag * list Z) :=
  match l with
  | [x; y] =>
      (TVals, zip_add (vals_of x) (vals_of y)) ::
      match slot_of TMask x, slot_of TMask y with
      | Some m, Some m' => [(TMask, zip_or m m')]
      | Some m, None | None, Some m => [(TMask, m)]
      | None, None => []
      end
  | _ => []
  end.
(* -x: values and derivative values negated, masks kept *)
Definition f_neg (l : list oobs) : list (tag * list Z) :=
  match l with
  | [x] => map (fun s => match fst (fst s) with
                         | TVals | TDVals _ => (fst (fst s), map Z.opp (snd (fst s)))
                         | _ => (fst (fst s), snd (fst s)) end) (ob_slots x)
  | _ => []
  end.
Definition to_call (h : hcall) : call :=
  match h with
  | HNew s m u => CNew s m u | HAdd a b => COp [a; b] f_add2 | HNeg a => COp [a] f_neg
  | HView a o l => CView a o l | HBroadcast a => CBroadcast a | HCopy a => CCopy a | HRaise l => CRaise l
  | HSet a t i v => MSet a t i v | HIadd a k => MIadd a k | HNewMask a c => MNewMask a c
  | HFreeze a => MFreeze a | HDelDeriv a k => MDelDeriv a k
  end.
Definition case := list hcall.
Definition obs7 := list oobs.
(* the observable content of all live objects after the history *)
Definition run07 (c : case) : obs7 :=
  let st := run init (map to_call c) in map (obs st) (seq 0 (nobj st)).
(* the correspondence's projection: WRITEABLE of mask arrays is not compared (masks are shared by
   design between an operand and its result; require_writable() copies a frozen shared mask) *)
Definition norm_slot (s : tag * list Z * bool) : tag * list Z * bool :=
  match fst (fst s) with TMask | TDMask _ => (fst s, true) | _ => s end.
Definition norm (o : oobs) : oobs :=
  mkoobs (map norm_slot (ob_slots o)) (ob_maskb o) (ob_units o) (ob_ro o).
Definition obs_eqb (a b : obs7) : bool := all_eqb (map norm a) (map norm b).
Fixpoint mism_from (i : nat) (l : list (case * obs7)) : list nat :=
  match l with
  | [] => []
  | (c, o) :: l' => if obs_eqb (run07 c) o then mism_from (S i) l' else i :: mism_from (S i) l'
  end.
Definition mismatches (l : list (case * obs7)) : list nat := mism_from 0 l.
