(* Base: NumPy structure model (L0). Arrays are (shape, index function): every
   statement about an array is pointwise over multi-indices, and the list form
   used by the correspondence is [to_list]. Stdlib only, no axioms. *)
From Coq Require Import List Arith Bool Lia.
Import ListNotations.

Definition shape := list nat.
Definition mi := list nat.

Fixpoint size (s : shape) : nat :=
  match s with [] => 1 | n :: t => n * size t end.

(* row-major enumeration of all in-bounds multi-indices *)
Fixpoint all_mi (s : shape) : list mi :=
  match s with
  | [] => [[]]
  | n :: t => flat_map (fun i => map (cons i) (all_mi t)) (seq 0 n)
  end.

Fixpoint inb (s : shape) (i : mi) : bool :=
  match s, i with
  | [], [] => true
  | n :: s', k :: i' => (k <? n) && inb s' i'
  | _, _ => false
  end.

Fixpoint ravel (s : shape) (i : mi) : nat :=
  match s, i with
  | n :: s', k :: i' => k * size s' + ravel s' i'
  | _, _ => 0
  end.

Record arr (A : Type) := mkarr { ashape : shape; aget : mi -> A }.
Arguments mkarr {A}. Arguments ashape {A}. Arguments aget {A}.

Definition of_list {A} (d : A) (s : shape) (l : list A) : arr A :=
  mkarr s (fun i => nth (ravel s i) l d).
Definition to_list {A} (a : arr A) : list A := map (aget a) (all_mi (ashape a)).
Definition amap {A B} (f : A -> B) (a : arr A) : arr B :=
  mkarr (ashape a) (fun i => f (aget a i)).

(* ---- broadcasting (NumPy rule, right aligned) ---- *)
Fixpoint bshape_rev (a b : list nat) : option (list nat) :=
  match a, b with
  | [], _ => Some b
  | _, [] => Some a
  | x :: a', y :: b' =>
      match bshape_rev a' b' with
      | None => None
      | Some r =>
          if x =? y then Some (x :: r)
          else if x =? 1 then Some (y :: r)
          else if y =? 1 then Some (x :: r)
          else None
      end
  end.
Definition bshape (a b : shape) : option shape :=
  option_map (@rev nat) (bshape_rev (rev a) (rev b)).

Fixpoint bproj_aligned (s : shape) (r : mi) : mi :=
  match s, r with
  | n :: s', k :: r' => (if n =? 1 then 0 else k) :: bproj_aligned s' r'
  | _, _ => []
  end.
(* index of the element of an operand of shape [s] that broadcasts onto [r] *)
Definition bproj (s : shape) (r : mi) : mi :=
  bproj_aligned s (skipn (length r - length s) r).

Definition bcast {A} (a : arr A) (s : shape) : arr A :=
  mkarr s (fun r => aget a (bproj (ashape a) r)).

(* element-wise combination of two arrays whose shapes broadcast *)
Definition zip2 {A B C} (f : A -> B -> C) (a : arr A) (b : arr B) : option (arr C) :=
  match bshape (ashape a) (ashape b) with
  | None => None
  | Some s => Some (mkarr s (fun r => f (aget a (bproj (ashape a) r))
                                         (aget b (bproj (ashape b) r))))
  end.

(* ---- axis reductions ---- *)
(* [keep] says, per axis, whether it survives (true) or is reduced (false) *)
Fixpoint out_shape (s : shape) (keep : list bool) : shape :=
  match s, keep with
  | n :: s', true :: k' => n :: out_shape s' k'
  | _ :: s', false :: k' => out_shape s' k'
  | _, _ => []
  end.
Fixpoint red_shape (s : shape) (keep : list bool) : shape :=
  match s, keep with
  | _ :: s', true :: k' => red_shape s' k'
  | n :: s', false :: k' => n :: red_shape s' k'
  | _, _ => []
  end.
(* merge an output index [o] and a reduced-axes index [r] into a source index *)
Fixpoint merge_idx (keep : list bool) (o r : mi) : mi :=
  match keep with
  | [] => []
  | true :: k' => match o with x :: o' => x :: merge_idx k' o' r | [] => [] end
  | false :: k' => match r with x :: r' => x :: merge_idx k' o r' | [] => [] end
  end.
(* contributors of output element [o]: row-major over the reduced axes *)
Definition contrib {A} (a : arr A) (keep : list bool) (o : mi) : list A :=
  map (fun r => aget a (merge_idx keep o r)) (all_mi (red_shape (ashape a) keep)).
Definition reduce {A B} (f : list A -> B) (keep : list bool) (a : arr A) : arr B :=
  mkarr (out_shape (ashape a) keep) (fun o => f (contrib a keep o)).

Definition any_l (l : list bool) : bool := existsb (fun b => b) l.
Definition all_l (l : list bool) : bool := forallb (fun b => b) l.

(* ---- lemmas ---- *)
Lemma in_all_mi s : forall i, In i (all_mi s) <-> inb s i = true.
Proof.
  induction s as [|n s IH]; intros i; simpl.
  - destruct i; simpl; split; intro H; auto; try discriminate.
    destruct H as [H|[]]; discriminate.
  - rewrite in_flat_map. split.
    + intros (k & Hk & Hi). apply in_map_iff in Hi. destruct Hi as (j & <- & Hj).
      apply in_seq in Hk. apply IH in Hj. rewrite Hj.
      destruct (Nat.ltb_spec k n); simpl; auto; lia.
    + destruct i as [|k i]; [discriminate|]. intro H.
      apply andb_true_iff in H. destruct H as [H1 H2]. apply Nat.ltb_lt in H1.
      exists k. split. { apply in_seq; lia. }
      apply in_map. apply IH; assumption.
Qed.

Lemma flat_map_length_const {A B} (f : A -> list B) (l : list A) c :
  (forall x, length (f x) = c) -> length (flat_map f l) = length l * c.
Proof.
  intro H. induction l as [|x l IH]; simpl; auto. rewrite app_length, H, IH. lia.
Qed.

Lemma all_mi_length s : length (all_mi s) = size s.
Proof.
  induction s as [|n s IH]; simpl; auto.
  rewrite (flat_map_length_const _ _ (size s)).
  - rewrite seq_length. reflexivity.
  - intro x. rewrite map_length. exact IH.
Qed.

Lemma to_list_length {A} (a : arr A) : length (to_list a) = size (ashape a).
Proof. unfold to_list. rewrite map_length. apply all_mi_length. Qed.

Lemma ravel_lt s : forall i, inb s i = true -> ravel s i < size s.
Proof.
  induction s as [|n s IH]; intros [|k i] H; simpl in *; try discriminate; try lia.
  apply andb_true_iff in H. destruct H as [H1 H2]. apply Nat.ltb_lt in H1.
  specialize (IH _ H2). nia.
Qed.

Lemma nth_flat_map_const {A B} (f : A -> list B) (l : list A) c k j d :
  (forall x, length (f x) = c) -> j < c -> k < length l ->
  forall da, nth (k * c + j) (flat_map f l) d = nth j (f (nth k l da)) d.
Proof.
  intros Hc Hj. revert k. induction l as [|x l IH]; intros k Hk da; simpl in *; [lia|].
  destruct k as [|k].
  - simpl. rewrite app_nth1; auto. rewrite Hc; auto.
  - rewrite app_nth2; rewrite Hc; [|lia].
    replace (S k * c + j - c) with (k * c + j) by lia.
    apply IH. lia.
Qed.

Lemma nth_ravel_all_mi s : forall i, inb s i = true ->
  nth (ravel s i) (all_mi s) [] = i.
Proof.
  induction s as [|n s IH]; intros [|k i] H; simpl in *; try discriminate; auto.
  apply andb_true_iff in H. destruct H as [H1 H2]. apply Nat.ltb_lt in H1.
  rewrite nth_flat_map_const with (c := size s) (da := 0).
  - rewrite seq_nth by lia. simpl.
    rewrite nth_indep with (d' := k :: []) by (rewrite map_length, all_mi_length; apply ravel_lt; auto).
    change (k :: []) with ((cons k) []). rewrite map_nth. rewrite IH; auto.
  - intro x. rewrite map_length. apply all_mi_length.
  - apply ravel_lt; auto.
  - rewrite seq_length; auto.
Qed.

(* reading the list form at the ravelled position gives the element *)
Lemma nth_to_list {A} (a : arr A) i d :
  inb (ashape a) i = true -> nth (ravel (ashape a) i) (to_list a) d = aget a i.
Proof.
  intro H. unfold to_list.
  rewrite nth_indep with (d' := aget a []) by (rewrite map_length, all_mi_length; apply ravel_lt; auto).
  rewrite map_nth. rewrite nth_ravel_all_mi; auto.
Qed.

(* of_list/to_list round trip, pointwise on in-bounds indices *)
Lemma of_list_to_list {A} (a : arr A) d i :
  inb (ashape a) i = true -> aget (of_list d (ashape a) (to_list a)) i = aget a i.
Proof. intro H. unfold of_list; simpl. apply nth_to_list; auto. Qed.

Lemma any_l_true l : any_l l = true <-> In true l.
Proof.
  unfold any_l. rewrite existsb_exists. split.
  - intros (x & Hx & ->). exact Hx.
  - intro H. exists true. auto.
Qed.
Lemma all_l_true l : all_l l = true <-> (forall b, In b l -> b = true).
Proof. unfold all_l. rewrite forallb_forall. reflexivity. Qed.
Lemma all_l_false l : all_l l = false <-> In false l.
Proof.
  split.
  - intro H. induction l as [|x l IH]; simpl in *; [discriminate|].
    destruct x; simpl in *; auto.
  - intro H. destruct (all_l l) eqn:E; auto.
    rewrite all_l_true in E. specialize (E _ H). discriminate.
Qed.
Lemma any_l_false l : any_l l = false <-> (forall b, In b l -> b = false).
Proof.
  split.
  - intros H b Hb. destruct b; auto. apply any_l_true in Hb. congruence.
  - intro H. destruct (any_l l) eqn:E; auto. apply any_l_true in E. apply H in E. discriminate.
Qed.
