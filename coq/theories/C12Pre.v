(* C12 prelude: the target vocabulary of the units.py translator
   (tools/regen/units_ast.py).  Proof-free, stdlib only.  Everything the
   regenerated file coq/gen/Gen_units.v mentions that is not itself generated
   lives here, so the meaning given to Python's int / tuple / None / float
   fragments is in one readable place. *)
From Coq Require Import ZArith List Bool String.
Import ListNotations.
Open Scope Z_scope.

(* exceptions by class *)
Inductive exc := EValue | EType | EAttr | EKey | EZeroDiv | EOther.
Definition exc_eqb (a b : exc) : bool :=
  match a, b with
  | EValue, EValue | EType, EType | EAttr, EAttr | EKey, EKey
  | EZeroDiv, EZeroDiv | EOther, EOther => true
  | _, _ => false
  end.

(* outcome of a translated function: a value, a raised exception, "left the
   exact integer model" (a float that is not an integer entered a triple), or
   the loop fuel ran out (only [gcd] has a loop) *)
Inductive res (A : Type) := Ok (a : A) | Err (e : exc) | Inexact | OutOfFuel.
Arguments Ok {A} a.
Arguments Err {A} e.
Arguments Inexact {A}.
Arguments OutOfFuel {A}.

Definition bind {A B} (r : res A) (f : A -> res B) : res B :=
  match r with
  | Ok a => f a
  | Err e => Err e
  | Inexact => Inexact
  | OutOfFuel => OutOfFuel
  end.

Notation Z3 := (Z * Z * Z)%type.
Definition t0 (t : Z3) : Z := fst (fst t).
Definition t1 (t : Z3) : Z := snd (fst t).
Definition t2 (t : Z3) : Z := snd t.
Definition z3_eqb (a b : Z3) : bool :=
  (t0 a =? t0 b) && (t1 a =? t1 b) && (t2 a =? t2 b).
Definition z2_eqb (a b : Z * Z) : bool := (fst a =? fst b) && (snd a =? snd b).

(* a Units object without its name: exponents and (numer, denom, pi_expo) *)
Record units := mkU { uexp : Z3; utrip : Z3 }.
Definition units_eqb (a b : units) : bool :=
  z3_eqb (uexp a) (uexp b) && z3_eqb (utrip a) (utrip b).

(* the closed set of argument kinds tested by isinstance / is None *)
Inductive uarg := AUnits (u : units) | ANone | AReal (z : Z) | AOther.
Definition arg_of_opt (o : option units) : uarg :=
  match o with Some u => AUnits u | None => ANone end.
(* attribute access on an object that may be None *)
Definition unwrap (o : option units) : res units :=
  match o with Some u => Ok u | None => Err EAttr end.

(* Python // and % (floor division; sign of the divisor) are Z.div / Z.modulo,
   except that a zero divisor raises *)
Definition pdiv (a b : Z) : res Z := if b =? 0 then Err EZeroDiv else Ok (a / b).
Definition pmod (a b : Z) : res Z := if b =? 0 then Err EZeroDiv else Ok (a mod b).
(* int ** int is an int only for a non-negative exponent *)
Definition ppow (a b : Z) : res Z := if b <? 0 then Inexact else Ok (a ^ b).

(* the real-number result of np.sqrt / math.sqrt on an int: an exact integer
   when the argument is a perfect square, otherwise "some non-integer" *)
Inductive fl := FExact (z : Z) | FInexact.
Definition np_sqrt (z : Z) : fl :=
  if (0 <=? z) && (Z.sqrt z * Z.sqrt z =? z) then FExact (Z.sqrt z) else FInexact.
Definition fl_int (f : fl) : fl := f.                 (* int(x): identity on integers *)
Definition fl_eqb (a b : fl) : bool :=                 (* x == int(x) is False for a non-integer *)
  match a, b with FExact x, FExact y => x =? y | _, _ => false end.
Definition fl_of_Z (z : Z) : fl := FExact z.
Definition fl_times_irrational (f : fl) : fl := FInexact.   (* x * pi**(odd/2) *)
Definition fl_to_Z (f : fl) : res Z := match f with FExact z => Ok z | FInexact => Inexact end.

(* half-integers are passed doubled: [p2] stands for the power p2/2 *)
Definition half_int (p2 : Z) : Z := Z.quot p2 2.        (* int(power): truncation *)

(* loop fuel for gcd; Euclid on operands below 2^2700 needs fewer steps *)
Definition FUEL : nat := 4000%nat.

(* what the correspondence compares *)
Inductive obs :=
  | OUnits (e t : Z3) | ONone | OBool (b : bool) | OErr (e : exc) | OInexact | OFuel.
Definition obs_eqb (a b : obs) : bool :=
  match a, b with
  | OUnits e t, OUnits e' t' => z3_eqb e e' && z3_eqb t t'
  | ONone, ONone => true
  | OBool x, OBool y => Bool.eqb x y
  | OErr x, OErr y => exc_eqb x y
  | OInexact, OInexact => true
  (* the model (first argument) lost exactness: a float entered the factor. The
     implementation re-normalises floats, and a large float is integer valued, so its
     triple can look exact again; the factor itself is checked by the direct oracle *)
  | OInexact, OUnits _ _ => true
  | _, _ => false
  end.
Definition obs_of_units (r : res units) : obs :=
  match r with
  | Ok u => OUnits (uexp u) (utrip u)
  | Err e => OErr e
  | Inexact => OInexact
  | OutOfFuel => OFuel
  end.
Definition obs_of_ounits (r : res (option units)) : obs :=
  match r with
  | Ok (Some u) => OUnits (uexp u) (utrip u)
  | Ok None => ONone
  | Err e => OErr e
  | Inexact => OInexact
  | OutOfFuel => OFuel
  end.
Definition obs_of_bool (r : res bool) : obs :=
  match r with
  | Ok b => OBool b
  | Err e => OErr e
  | Inexact => OInexact
  | OutOfFuel => OFuel
  end.
