(* Frame theorem for PurModel: a call all of whose stores go to buffers it allocated itself leaves every buffer that
   existed before the call exactly as it was (the operands' arrays among them). *)
From Coq Require Import List String Bool Arith ZArith.
From PM Require Import PurModel.
Import ListNotations.

Lemma upd_other h l v m : m <> l -> upd h l v m = h m.
Proof. intro H. unfold upd. destruct (Nat.eqb m l) eqn:E; [apply Nat.eqb_eq in E; contradiction | reflexivity]. Qed.

Lemma existsb_eqb_in l fresh : existsb (Nat.eqb l) fresh = true -> In l fresh.
Proof.
  induction fresh as [|x t IH]; simpl; intro H; [discriminate|].
  apply orb_prop in H. destruct H as [H | H]; [left; apply Nat.eqb_eq in H; symmetry; exact H | right; apply IH; exact H].
Qed.

(* invariant: buffers outside `fresh` that were allocated at the start are unchanged, and fresh ones were not allocated then *)
Lemma frame_gen acts : forall h fresh h0,
  (forall m, ~ In m fresh -> h m = h0 m) ->
  (forall m, In m fresh -> h0 m = None) ->
  stores_fresh acts fresh h = true ->
  forall m v, h0 m = Some v -> fst (run acts h fresh) m = Some v.
Proof.
  induction acts as [|a t IH]; intros h fresh h0 Hout Hfr Hok m v Hm; simpl in *.
  - rewrite Hout; [exact Hm|]. intro Hin. rewrite (Hfr m Hin) in Hm. discriminate.
  - destruct a as [l w | l k x | l].
    + destruct (h l) eqn:El.
      * eapply IH; eassumption.
      * eapply IH; try eassumption.
        -- intros m' Hn. assert (m' <> l) by (intro; subst; apply Hn; left; reflexivity).
           rewrite upd_other by assumption. apply Hout. intro Hin. apply Hn. right. exact Hin.
        -- intros m' [-> | Hin]; [|apply Hfr; exact Hin].
           destruct (in_dec Nat.eq_dec m' fresh) as [Hi | Hi]; [apply Hfr; exact Hi|].
           rewrite <- (Hout m' Hi). exact El.
    + apply andb_prop in Hok. destruct Hok as [Hl Hok]. apply existsb_eqb_in in Hl.
      destruct (h l) eqn:El.
      * eapply IH; try eassumption.
        intros m' Hn. assert (m' <> l) by (intro; subst; contradiction).
        rewrite upd_other by assumption. apply Hout. exact Hn.
      * eapply IH; eassumption.
    + eapply IH; eassumption.
Qed.

(* C07: operands (every buffer allocated before the call) are unchanged by a call whose stores are all fresh *)
Theorem fresh_stores_leave_operands acts h :
  stores_fresh acts [] h = true ->
  forall m v, h m = Some v -> fst (run acts h []) m = Some v.
Proof.
  intros Hok m v Hm. eapply (frame_gen acts h [] h); try eassumption.
  - intros; reflexivity.
  - intros m' [].
Qed.

(* non-vacuity: a call that copies an operand and writes into the copy; and one that writes into the operand *)
Definition h_ex : heap := fun m => if Nat.eqb m 0 then Some [1; 2; 3]%Z else None.
Example good_call_ok : stores_fresh [Read 0; Alloc 1 [1; 2; 3]%Z; Store 1 0 9%Z] [] h_ex = true.
Proof. reflexivity. Qed.
Example bad_call_rejected : stores_fresh [Read 0; Store 0 0 9%Z] [] h_ex = false.
Proof. reflexivity. Qed.
Example bad_call_changes_operand : fst (run [Read 0; Store 0 0 9%Z] h_ex []) 0 = Some [9; 2; 3]%Z.
Proof. reflexivity. Qed.
