(* C10 model: the SPECIFICATION of item assignment on top of the C09 selection.
   With (out_shape, src) = ref_getitem: element e of the target receives the
   right-hand side at (the broadcast projection of) the LAST row-major result
   index o with src o = Some e, and keeps value and mask state if there is none.
   Derivatives are assigned through the same selection, a derivative missing on
   either side counting as zero. Proof-free. *)
From Coq Require Import List Arith ZArith Bool.
From PM Require Import Base Mask C09Model.
Import ListNotations.

(* the last (row-major) result index that reads element e through an unmasked entry *)
Definition last_writer (osh : shape) (src : mi -> option mi) (e : mi) : option mi :=
  find (fun o => omi_eqb (src o) (Some e)) (rev (all_mi osh)).

Definition set_plain {V} (t : plain V) (osh : shape) (src : mi -> option mi) (r : plain V) : plain V :=
  mkpl (psh t)
       (fun e => match last_writer osh src e with
                 | Some o => pval r (bproj (psh r) o)
                 | None => pval t e
                 end)
       (MA (fun e => match last_writer osh src e with
                     | Some o => mget (pmask r) (bproj (psh r) o)
                     | None => mget (pmask t) e
                     end)).

(* the right-hand side must broadcast to the selection without enlarging it *)
Definition fits (rsh osh : shape) : bool :=
  match bshape rsh osh with Some s => shape_eqb s osh | None => false end.

Fixpoint lookup {A} (k : nat) (l : list (nat * A)) : option A :=
  match l with
  | [] => None
  | (k', a) :: t => if Nat.eqb k k' then Some a else lookup k t
  end.
Definition has_key {A} (k : nat) (l : list (nat * A)) : bool :=
  match lookup k l with Some _ => true | None => false end.

(* a derivative that is missing counts as zero, with the mask of the object it would belong to *)
Definition zero_like {V} (z : V) (p : plain V) : plain V := mkpl (psh p) (fun _ => z) (pmask p).
Definition der_or_zero {V} (z : V) (k : nat) (q : obj V) (main : plain V) : plain V :=
  match lookup k (oders q) with Some p => p | None => zero_like z main end.

Inductive outcome := Done | IndexErr | ShapeErr.

Definition setitem {V} (zero : nat -> V) (t : obj V) (idx : list entry) (r : obj V) : outcome * obj V :=
  match ref_getitem (psh (omain t)) idx with
  | None => (IndexErr, t)
  | Some (osh, src) =>
      if fits (psh (omain r)) osh then
        let m' := set_plain (omain t) osh src (omain r) in
        let keys := map fst (oders t) ++ filter (fun k => negb (has_key k (oders t))) (map fst (oders r)) in
        (Done, mkobj m' (map (fun k => (k, set_plain (der_or_zero (zero k) k t m') osh src
                                                    (der_or_zero (zero k) k r (omain r)))) keys))
      else (ShapeErr, t)
  end.

(* a sequence of assignments to the same target; a rejected one changes nothing *)
Fixpoint setitems {V} (zero : nat -> V) (t : obj V) (steps : list (list entry * obj V))
  : list outcome * obj V :=
  match steps with
  | [] => ([], t)
  | (idx, r) :: rest =>
      let (oc, t') := setitem zero t idx r in
      let (ocs, t'') := setitems zero t' rest in
      (oc :: ocs, t'')
  end.

(* does an assignment select anything through an unmasked entry? *)
Definition selects_any (sh : shape) (idx : list entry) : bool :=
  match ref_getitem sh idx with
  | None => false
  | Some (osh, src) => existsb (fun o => match src o with Some _ => true | None => false end) (all_mi osh)
  end.

(* ------------------------------------------------------------------------- *)
(* cases and observations                                                      *)
(* ------------------------------------------------------------------------- *)
Record case10 := mkcase10 { c_start : obj V; c_steps : list (list entry * obj V); c_zeros : list (nat * V) }.
Definition zero_of (zs : list (nat * V)) (k : nat) : V :=
  match lookup k zs with Some z => z | None => [] end.

(* projection: absent derivative = zero carrying the target's mask; a derivative shows its own
   mask state (seeded change C10-B: a derivative left unmasked at a masked target element is
   observable through t.d_dk), its values only where it is unmasked *)
Definition obs_der (main : plain V) (p : plain V) : eobs :=
  (psh p, map (fun i => if mget (pmask p) i then None else Some (pval p i))
              (all_mi (psh p))).
Definition obs10 (zs : list (nat * V)) (q : obj V) : eobs * list eobs :=
  (obs_plain (omain q),
   map (fun kz => obs_der (omain q) (der_or_zero (snd kz) (fst kz) q (omain q))) zs).

(* accepted?  a right-hand side that does not fit may be ignored when nothing is selected *)
Definition flag_ok (sh : shape) (step : list entry * obj V) (oc : outcome) (impl_ok : bool) : bool :=
  match oc with
  | Done => impl_ok
  | IndexErr => negb impl_ok
  | ShapeErr => if selects_any sh (fst step) then negb impl_ok else true
  end.
Fixpoint flags_ok (sh : shape) (steps : list (list entry * obj V)) (ocs : list outcome) (fl : list bool) : bool :=
  match steps, ocs, fl with
  | [], [], [] => true
  | s :: st, o :: ot, f :: ft => flag_ok sh s o f && flags_ok sh st ot ft
  | _, _, _ => false
  end.

Definition run10 (c : case10) : list outcome * (eobs * list eobs) :=
  let (ocs, t) := setitems (zero_of (c_zeros c)) (c_start c) (c_steps c) in
  (ocs, obs10 (c_zeros c) t).

Definition obs10_eqb (c : case10) (impl : list bool * (eobs * list eobs)) : bool :=
  let (ocs, o) := run10 c in
  flags_ok (psh (omain (c_start c))) (c_steps c) ocs (fst impl)
  && eobs_eqb (fst o) (fst (snd impl)) && list_eqb eobs_eqb (snd o) (snd (snd impl)).

Fixpoint mism10_from (k : nat) (l : list (case10 * (list bool * (eobs * list eobs)))) : list nat :=
  match l with
  | [] => []
  | (c, o) :: t => if obs10_eqb c o then mism10_from (S k) t else k :: mism10_from (S k) t
  end.
Definition mismatches10 := mism10_from 0.
