(* C16 - reference definitions (hand written, proof free, over the real numbers).

   These are the SPECIFICATIONS the traced kernels of polymath are compared with:
   vectors are functions nat -> R, matrices nat -> nat -> R, sums are over an initial
   segment of nat.  Nothing here is derived from the source; the generated obligation
   files coq/gen/obl/C16_*.v state that the terms emitted from the current source
   equal these definitions (NumPy's einsum / cross / matmul / transpose written out). *)
From Coq Require Import Reals List Arith.
Import ListNotations.
Local Open Scope R_scope.

Definition vec := nat -> R.
Definition mat := nat -> nat -> R.

Definition vec_of (l : list R) : vec := fun i => nth i l 0.
Definition mat_of (ll : list (list R)) : mat := fun i j => nth j (nth i ll []) 0.

(* sum_{i<n} f i *)
Fixpoint sumn (n : nat) (f : nat -> R) : R :=
  match n with
  | O => 0
  | S k => sumn k f + f k
  end.

(* einsum 'i,i->' *)
Definition dot (n : nat) (a b : vec) : R := sumn n (fun i => a i * b i).
Definition norm_sq (n : nat) (a : vec) : R := dot n a a.
Definition norm (n : nat) (a : vec) : R := sqrt (norm_sq n a).

(* np.cross for lengths 3 and 2 (determinant formula) *)
Definition cross3 (a b : vec) : vec := fun i =>
  match i with
  | 0%nat => a 1%nat * b 2%nat - a 2%nat * b 1%nat
  | 1%nat => a 2%nat * b 0%nat - a 0%nat * b 2%nat
  | 2%nat => a 0%nat * b 1%nat - a 1%nat * b 0%nat
  | _ => 0
  end.
Definition cross2 (a b : vec) : R := a 0%nat * b 1%nat - a 1%nat * b 0%nat.

(* einsum 'i,j->ij' *)
Definition outer (a b : vec) : mat := fun i j => a i * b j.

(* einsum 'ik,kj->ij' with inner length k;  'ik,k->i' *)
Definition mmul (k : nat) (A B : mat) : mat := fun i j => sumn k (fun l => A i l * B l j).
Definition mvec (k : nat) (A : mat) (v : vec) : vec := fun i => sumn k (fun l => A i l * v l).
Definition transpose (A : mat) : mat := fun i j => A j i.

Definition emul (a b : vec) : vec := fun i => a i * b i.
Definition ediv (a b : vec) : vec := fun i => a i / b i.

Definition delta (i j : nat) : R := if Nat.eqb i j then 1 else 0.

Definition unitv (n : nat) (a : vec) : vec := fun i => a i / norm n a.
Definition proj (n : nat) (v a : vec) : vec := fun i => unitv n a i * dot n v (unitv n a).
Definition perp (n : nat) (v a : vec) : vec := fun i => v i - proj n v a i.

Definition det2 (M : mat) : R := M 0%nat 0%nat * M 1%nat 1%nat - M 0%nat 1%nat * M 1%nat 0%nat.
Definition det3 (M : mat) : R :=
    M 0%nat 0%nat * (M 1%nat 1%nat * M 2%nat 2%nat - M 1%nat 2%nat * M 2%nat 1%nat)
  - M 0%nat 1%nat * (M 1%nat 0%nat * M 2%nat 2%nat - M 1%nat 2%nat * M 2%nat 0%nat)
  + M 0%nat 2%nat * (M 1%nat 0%nat * M 2%nat 1%nat - M 1%nat 1%nat * M 2%nat 0%nat).

(* rows orthonormal / columns orthonormal, any size *)
Definition orth_rows (n : nat) (M : mat) : Prop :=
  forall i j, (i < n)%nat -> (j < n)%nat -> mmul n M (transpose M) i j = delta i j.
Definition orth_cols (n : nat) (M : mat) : Prop :=
  forall i j, (i < n)%nat -> (j < n)%nat -> mmul n (transpose M) M i j = delta i j.

(* a proper rotation of 3-space: orthonormal (both ways) with determinant +1 *)
Definition is_rot3 (M : mat) : Prop := orth_rows 3 M /\ orth_cols 3 M /\ det3 M = 1.

(* the same, on nine explicit entries (the form the generated obligations use) *)
Definition rot9 (a b c d e f g h i : R) : Prop :=
  (a*a + b*b + c*c = 1 /\ d*d + e*e + f*f = 1 /\ g*g + h*h + i*i = 1 /\
   a*d + b*e + c*f = 0 /\ a*g + b*h + c*i = 0 /\ d*g + e*h + f*i = 0) /\
  (a*a + d*d + g*g = 1 /\ b*b + e*e + h*h = 1 /\ c*c + f*f + i*i = 1 /\
   a*b + d*e + g*h = 0 /\ a*c + d*f + g*i = 0 /\ b*c + e*f + h*i = 0) /\
  a * (e*i - f*h) - b * (d*i - f*g) + c * (d*h - e*g) = 1.

(* standard rotations of a vector counterclockwise about an axis; c, s = cos, sin *)
Definition Rx (c s : R) : mat := mat_of [[1; 0; 0]; [0; c; - s]; [0; s; c]].
Definition Ry (c s : R) : mat := mat_of [[c; 0; s]; [0; 1; 0]; [- s; 0; c]].
Definition Rz (c s : R) : mat := mat_of [[c; - s; 0]; [s; c; 0]; [0; 0; 1]].

(* quaternions (s, x, y, z) as vectors of length 4: Hamilton product, conjugate,
   rotation matrix of a unit quaternion *)
Definition qmul (p q : vec) : vec := fun i =>
  match i with
  | 0%nat => p 0%nat * q 0%nat - p 1%nat * q 1%nat - p 2%nat * q 2%nat - p 3%nat * q 3%nat
  | 1%nat => p 0%nat * q 1%nat + p 1%nat * q 0%nat + p 2%nat * q 3%nat - p 3%nat * q 2%nat
  | 2%nat => p 0%nat * q 2%nat - p 1%nat * q 3%nat + p 2%nat * q 0%nat + p 3%nat * q 1%nat
  | 3%nat => p 0%nat * q 3%nat + p 1%nat * q 2%nat - p 2%nat * q 1%nat + p 3%nat * q 0%nat
  | _ => 0
  end.
Definition qconj (p : vec) : vec := fun i => match i with 0%nat => p 0%nat | _ => - p i end.
Definition qmat (q : vec) : mat :=
  let s := q 0%nat in let x := q 1%nat in let y := q 2%nat in let z := q 3%nat in
  mat_of [[1 - 2 * (y*y + z*z); 2 * (x*y - s*z); 2 * (x*z + s*y)];
          [2 * (x*y + s*z); 1 - 2 * (x*x + z*z); 2 * (y*z - s*x)];
          [2 * (x*z - s*y); 2 * (y*z + s*x); 1 - 2 * (x*x + y*y)]].
