(* C03 model: masked values do not exist.  A small expression language over 1-D masked
   integer arrays, modelled at the REPRESENTATION level: every array carries a number at
   every position, masked or not (the hidden values), and every operation is written the
   way the implementation computes it - on all numbers, with the sanitising / filling steps
   it performs (divisor zero -> 1 and masked, zero-fill before sum, MINVAL-fill before max,
   masked index -> 0 before use, ...).  Non-interference is therefore a real statement.
   Proof-free; stdlib only. *)
From Coq Require Import List Arith ZArith Bool.
Import ListNotations.
Open Scope Z_scope.

(* one element: (masked?, stored number) *)
Definition cell := (bool * Z)%type.
Definition cm (c : cell) : bool := fst c.
Definition cv (c : cell) : Z := snd c.

(* a 1-D masked array: length + element function (total; only indices < len matter) *)
Record marr := mk { len : nat; at_ : nat -> cell }.
Definition of_cells (l : list cell) : marr := mk (length l) (fun i => nth i l (true, 0)).
Definition cells (a : marr) : list cell := map (at_ a) (seq 0 (len a)).

Inductive errfam := EShape | EIndex.
Inductive outcome := Ok (a : marr) | Err (e : errfam).

(* ---------- element-wise operations ---------- *)
Definition bget (a : marr) (i : nat) : cell := if Nat.eqb (len a) 1 then at_ a 0%nat else at_ a i.
Definition blen (a b : marr) : option nat :=
  if Nat.eqb (len a) (len b) then Some (len a)
  else if Nat.eqb (len a) 1 then Some (len b)
  else if Nat.eqb (len b) 1 then Some (len a) else None.
Definition zip (f : cell -> cell -> cell) (a b : marr) : outcome :=
  match blen a b with
  | None => Err EShape
  | Some n => Ok (mk n (fun i => f (bget a i) (bget b i)))
  end.
Definition map1 (f : cell -> cell) (a : marr) : marr := mk (len a) (fun i => f (at_ a i)).

Definition c_neg (c : cell) : cell := (cm c, - cv c).
Definition c_arith (f : Z -> Z -> Z) (x y : cell) : cell := (cm x || cm y, f (cv x) (cv y)).
(* // : the divisor is sanitised first - mask_where_eq(0, 1) looks at EVERY stored number *)
Definition c_sanit0 (y : cell) : cell := if Z.eqb (cv y) 0 then (true, 1) else y.
Definition c_floordiv (x y : cell) : cell :=
  let y' := c_sanit0 y in (cm x || cm y', Z.div (cv x) (cv y')).
Definition zb (b : bool) : Z := if b then 1 else 0.
(* == : two masked elements are equal, a masked and an unmasked one are not; never masked *)
Definition c_eq (x y : cell) : cell :=
  (false, zb (if cm x && cm y then true else if cm x || cm y then false else Z.eqb (cv x) (cv y))).
(* < : false where either side is masked; never masked *)
Definition c_lt (x y : cell) : cell :=
  (false, zb (Z.ltb (cv x) (cv y) && negb (cm x) && negb (cm y))).
(* Scalar.maximum: masked operands are ignored; masked where all are *)
Definition c_maximum (x y : cell) : cell :=
  if cm x then (if cm y then (true, Z.max (cv x) (cv y)) else y)
  else if cm y then x else (false, Z.max (cv x) (cv y)).
(* mask_where(b.as_mask_where_nonzero()): new mask where b is unmasked and non-zero *)
Definition c_maskwhere (x y : cell) : cell :=
  (cm x || (negb (cm y) && negb (Z.eqb (cv y) 0)), cv x).
(* shrink(antimask).unshrink(antimask): masked positions come back with the default 1;
   an all-masked object collapses to one masked element *)
Definition c_shrink_rt (x : cell) : cell := if cm x then (true, 1) else x.

(* ---------- reductions (result: one element) ---------- *)
Definition sanit (fill : Z) (l : list cell) : list Z := map (fun c => if cm c then fill else cv c) l.
Definition allm (l : list cell) : bool := forallb cm l.
Definition raw (l : list cell) : list Z := map cv l.
Definition zsum (l : list Z) : Z := fold_right Z.add 0 l.
Definition MINV : Z := - 9223372036854775808.
Definition MAXV : Z := 9223372036854775807.
Definition zmaxl (l : list Z) : Z := fold_right Z.max MINV l.
Definition zminl (l : list Z) : Z := fold_right Z.min MAXV l.
Definition count_unm (l : list cell) : Z := zsum (map (fun c => if cm c then 0 else 1) l).

Definition single (c : cell) : marr := mk 1 (fun _ => c).
(* sum: masked entries are zero-filled; an all-masked input gives the masked raw sum *)
Definition r_sum (l : list cell) : cell :=
  if allm l then (true, zsum (raw l)) else (false, zsum (sanit 0 l)).
(* max / min: masked entries are filled with the smallest / largest possible value *)
Definition r_max (l : list cell) : cell :=
  if allm l then (true, zmaxl (raw l)) else (false, zmaxl (sanit MINV l)).
Definition r_min (l : list cell) : cell :=
  if allm l then (true, zminl (raw l)) else (false, zminl (sanit MAXV l)).
(* mean = zero-filled sum / number of unmasked entries, scaled by 2520 to stay in Z *)
Definition r_mean (l : list cell) : cell :=
  if allm l then (true, zsum (raw l)) else (false, Z.div (2520 * zsum (sanit 0 l)) (count_unm l)).
(* any / all: masked entries count as False / True *)
Definition r_any (l : list cell) : cell :=
  if allm l then (true, zb (existsb (fun v => negb (Z.eqb v 0)) (raw l)))
  else (false, zb (existsb (fun v => negb (Z.eqb v 0)) (sanit 0 l))).
Definition r_all (l : list cell) : cell :=
  if allm l then (true, zb (forallb (fun v => negb (Z.eqb v 0)) (raw l)))
  else (false, zb (forallb (fun v => negb (Z.eqb v 0)) (sanit 1 l))).
(* argmax: first position of the largest unmasked entry (masked entries never win) *)
Fixpoint argbest (better : Z -> Z -> bool) (l : list cell) (i : nat) (best : option (Z * nat)) : option (Z * nat) :=
  match l with
  | [] => best
  | c :: t =>
      argbest better t (S i)
        (if cm c then best
         else match best with
              | None => Some (cv c, i)
              | Some (b, _) => if better (cv c) b then Some (cv c, i) else best
              end)
  end.
Definition r_arg (better : Z -> Z -> bool) (l : list cell) : cell :=
  match argbest better l 0%nat None with
  | None => (true, 0)
  | Some (_, i) => (false, Z.of_nat i)
  end.
Definition reduce (r : list cell -> cell) (a : marr) : marr := single (r (cells a)).

(* ---------- sort: unmasked numbers ascending, masked slots last (filled with MAXV) ---------- *)
Fixpoint insert (x : Z) (l : list Z) : list Z :=
  match l with
  | [] => [x]
  | y :: t => if Z.leb x y then x :: l else y :: insert x t
  end.
Definition isort (l : list Z) : list Z := fold_right insert [] l.
Definition unm (l : list cell) : list Z := map cv (filter (fun c => negb (cm c)) l).
Definition q_sort (a : marr) : marr :=
  let u := isort (unm (cells a)) in
  mk (len a) (fun i => if Nat.ltb i (length u) then (false, nth i u 0) else (true, MAXV)).

(* ---------- indexing by a (masked) index array ---------- *)
(* a masked index is replaced by 0 before use; an out-of-range one yields a masked element *)
Definition q_getitem (a idx : marr) : outcome :=
  let n := Z.of_nat (len a) in
  Ok (mk (len idx) (fun i =>
        let c := at_ idx i in
        let k := if cm c then 0 else cv c in
        let oor := Z.ltb k (- n) || Z.leb n k in
        let j := if oor then 0%nat else Z.to_nat (if Z.ltb k 0 then k + n else k) in
        (cm c || oor || cm (at_ a j), cv (at_ a j)))).

(* ---------- stack (flattened): concatenation of two arrays of one length ---------- *)
Definition q_stack (a b : marr) : outcome :=
  if Nat.eqb (len a) (len b)
  then Ok (mk (len a + len b) (fun i => if Nat.ltb i (len a) then at_ a i else at_ b (i - len a)))
  else Err EShape.

(* ---------- the expression language ---------- *)
Inductive unop := UNeg | USanit0 | UShrinkRT | USum | UMax | UMin | UMean | UAny | UAll | UArgmax | UArgmin | USort.
Inductive binop := BAdd | BSub | BMul | BFloordiv | BEq | BLt | BMaximum | BMaskWhere | BGetitem | BStack.
Inductive expr := Leaf (n : nat) | Un (o : unop) (e : expr) | Bin (o : binop) (e1 e2 : expr).

Definition un (o : unop) (a : marr) : outcome :=
  match o with
  | UNeg => Ok (map1 c_neg a)
  | USanit0 => Ok (map1 c_sanit0 a)
  | UShrinkRT => Ok (if allm (cells a) then single (true, 1) else map1 c_shrink_rt a)
  | USum => Ok (reduce r_sum a)
  | UMax => Ok (reduce r_max a)
  | UMin => Ok (reduce r_min a)
  | UMean => Ok (reduce r_mean a)
  | UAny => Ok (reduce r_any a)
  | UAll => Ok (reduce r_all a)
  | UArgmax => Ok (reduce (r_arg Z.gtb) a)
  | UArgmin => Ok (reduce (r_arg Z.ltb) a)
  | USort => Ok (q_sort a)
  end.
Definition bin (o : binop) (a b : marr) : outcome :=
  match o with
  | BAdd => zip (c_arith Z.add) a b
  | BSub => zip (c_arith Z.sub) a b
  | BMul => zip (c_arith Z.mul) a b
  | BFloordiv => zip c_floordiv a b
  | BEq => zip c_eq a b
  | BLt => zip c_lt a b
  | BMaximum => zip c_maximum a b
  | BMaskWhere => zip c_maskwhere a b
  | BGetitem => q_getitem a b
  | BStack => q_stack a b
  end.
Definition dflt : marr := mk 0 (fun _ => (true, 0)).
Fixpoint eval (env : list marr) (e : expr) : outcome :=
  match e with
  | Leaf n => Ok (nth n env dflt)
  | Un o e1 => match eval env e1 with Ok a => un o a | Err x => Err x end
  | Bin o e1 e2 =>
      match eval env e1 with
      | Err x => Err x
      | Ok a => match eval env e2 with Err x => Err x | Ok b => bin o a b end
      end
  end.

(* a reduction WITHOUT the zero-fill: what a leaking implementation would compute *)
Definition r_sum_leaky (l : list cell) : cell := (allm l, zsum (raw l)).

(* ---------- observation and the correspondence comparator ---------- *)
(* observable content of an outcome: length, mask, numbers at unmasked positions *)
Inductive oobs := OOk (n : nat) (m : list bool) (v : list Z) | OErr (e : errfam).
Definition err_eqb (a b : errfam) : bool :=
  match a, b with EShape, EShape | EIndex, EIndex => true | _, _ => false end.
Fixpoint vis_eqb (m : list bool) (v w : list Z) : bool :=
  match m, v, w with
  | [], [], [] => true
  | b :: m', x :: v', y :: w' => (b || Z.eqb x y) && vis_eqb m' v' w'
  | _, _, _ => false
  end.
Fixpoint bl_eqb (a b : list bool) : bool :=
  match a, b with
  | [], [] => true
  | x :: a', y :: b' => Bool.eqb x y && bl_eqb a' b'
  | _, _ => false
  end.
Definition obs_of (o : outcome) : oobs :=
  match o with
  | Err e => OErr e
  | Ok a => OOk (len a) (map cm (cells a)) (map cv (cells a))
  end.
Definition obs_eqb (x y : oobs) : bool :=
  match x, y with
  | OErr a, OErr b => err_eqb a b
  | OOk n m v, OOk n' m' v' => Nat.eqb n n' && bl_eqb m m' && vis_eqb m v v'
  | _, _ => false
  end.

(* a case: an operand tuple and its twin (lists of (mask, number) per operand), a program,
   and what the implementation returned for each *)
Definition case := (list (list cell) * list (list cell) * expr * oobs * oobs)%type.
Definition run03 (c : case) : oobs * oobs :=
  match c with (e1, e2, p, _, _) => (obs_of (eval (map of_cells e1) p), obs_of (eval (map of_cells e2) p)) end.
Definition case_ok (c : case) : bool :=
  match c with (_, _, _, i1, i2) =>
    let (m1, m2) := run03 c in obs_eqb m1 i1 && obs_eqb m2 i2 && obs_eqb m1 m2
  end.
Fixpoint mism_from (i : nat) (l : list case) : list nat :=
  match l with
  | [] => []
  | c :: t => if case_ok c then mism_from (S i) t else i :: mism_from (S i) t
  end.
Definition mismatches (l : list case) : list nat := mism_from 0 l.
