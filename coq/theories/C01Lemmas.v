(* C01 / C02 proofs about the model in C01Model.v. *)
From Coq Require Import List Arith ZArith Bool Lia Btauto.
From PM Require Import Base Mask C01Model.
Import ListNotations.
Arguments all_mi : simpl never.
Arguments bproj : simpl never.
Arguments bshape : simpl never.
Open Scope Z_scope.

(* ------------------------------------------------------------------ *)
(* index facts                                                          *)
(* ------------------------------------------------------------------ *)
Lemma inb_length s : forall i, inb s i = true -> length i = length s.
Proof.
  induction s as [|n s IH]; intros [|k i] H; simpl in H; try discriminate H.
  - reflexivity.
  - apply andb_true_iff in H. destruct H as [_ H]. simpl. f_equal. apply IH; exact H.
Qed.
Lemma bproj_aligned_self s : forall i, inb s i = true -> bproj_aligned s i = i.
Proof.
  induction s as [|n s IH]; intros [|k i] H; simpl in H; try discriminate H.
  - reflexivity.
  - apply andb_true_iff in H. destruct H as [H1 H2]. apply Nat.ltb_lt in H1.
    simpl. rewrite (IH _ H2). destruct (Nat.eqb_spec n 1) as [E|E]; [|reflexivity].
    subst n. f_equal. lia.
Qed.
(* an in-bounds index of the result projects onto itself when the operand has the result shape *)
Lemma bproj_self s i : inb s i = true -> bproj s i = i.
Proof.
  intro H. unfold bproj. rewrite (inb_length _ _ H), Nat.sub_diag. simpl.
  apply bproj_aligned_self; exact H.
Qed.
Lemma bproj_nil r : bproj [] r = [].
Proof. unfold bproj. reflexivity. Qed.
Lemma inb_nil r : inb [] r = true -> r = [].
Proof. destruct r; simpl; intro H; [reflexivity|discriminate]. Qed.

(* ---- broadcasting keeps projected indices in bounds (U) ---- *)
Close Scope Z_scope.
(* snoc forms *)
Lemma bpa_snoc x : forall y n k, length x = length y ->
  bproj_aligned (x ++ [n]) (y ++ [k]) = bproj_aligned x y ++ [if Nat.eqb n 1 then 0 else k].
Proof.
  induction x as [|a x IH]; intros [|b y] n k H; simpl in H; try discriminate H.
  - reflexivity.
  - simpl. rewrite IH by lia. reflexivity.
Qed.
Lemma bpa_trunc x : forall y z, length x = length y -> bproj_aligned x (y ++ z) = bproj_aligned x y.
Proof.
  induction x as [|a x IH]; intros [|b y] z H; simpl in H; try discriminate H.
  - reflexivity.
  - simpl. rewrite IH by lia. reflexivity.
Qed.
Lemma bpa_length x : forall y, length x = length y -> length (bproj_aligned x y) = length x.
Proof.
  induction x as [|a x IH]; intros [|b y] H; simpl in H; try discriminate H; simpl; auto.
Qed.
Lemma bpa_rev x : forall y, length x = length y ->
  bproj_aligned (rev x) (rev y) = rev (bproj_aligned x y).
Proof.
  induction x as [|a x IH]; intros [|b y] H; simpl in H; try discriminate H.
  - reflexivity.
  - simpl. rewrite bpa_snoc by (rewrite !rev_length; lia). rewrite IH by lia. reflexivity.
Qed.
Lemma inb_snoc s : forall r n k, length s = length r ->
  inb (s ++ [n]) (r ++ [k]) = inb s r && (k <? n).
Proof.
  induction s as [|a s IH]; intros [|b r] n k H; simpl in H; try discriminate H.
  - simpl. rewrite andb_true_r. reflexivity.
  - simpl. rewrite IH by lia. rewrite andb_assoc. reflexivity.
Qed.
Lemma inb_rev s : forall r, inb s r = true -> inb (rev s) (rev r) = true.
Proof.
  induction s as [|a s IH]; intros [|b r] H; simpl in H; try discriminate H.
  - reflexivity.
  - apply andb_true_iff in H. destruct H as [H1 H2]. simpl.
    rewrite inb_snoc by (rewrite !rev_length; symmetry; apply inb_length; exact H2).
    rewrite IH by exact H2. exact H1.
Qed.

(* the core, on reversed shapes (last axis first) *)
Lemma bshape_rev_inb ar : forall br sr rr,
  bshape_rev ar br = Some sr -> inb sr rr = true ->
  inb ar (bproj_aligned ar rr) = true /\ inb br (bproj_aligned br rr) = true.
Proof.
  induction ar as [|x ar IH]; intros br sr rr H Hr.
  - simpl in H. inversion H; subst sr. split; [reflexivity|].
    rewrite (bproj_aligned_self _ _ Hr). exact Hr.
  - destruct br as [|y br].
    + simpl in H. inversion H; subst sr. split; [|reflexivity].
      rewrite (bproj_aligned_self _ _ Hr). exact Hr.
    + simpl in H. destruct (bshape_rev ar br) as [r0|] eqn:E; [|discriminate].
      destruct (Nat.eqb_spec x y) as [Exy|Exy].
      * inversion H; subst sr. destruct rr as [|k rr]; [discriminate|]. simpl in Hr.
        apply andb_true_iff in Hr. destruct Hr as [Hk Hr]. apply Nat.ltb_lt in Hk.
        destruct (IH _ _ _ E Hr) as [Ia Ib]. subst y. simpl. rewrite Ia, Ib, !andb_true_r.
        destruct (Nat.eqb_spec x 1); split; apply Nat.ltb_lt; lia.
      * destruct (Nat.eqb_spec x 1) as [Ex|Ex].
        -- inversion H; subst sr. destruct rr as [|k rr]; [discriminate|]. simpl in Hr.
           apply andb_true_iff in Hr. destruct Hr as [Hk Hr]. apply Nat.ltb_lt in Hk.
           destruct (IH _ _ _ E Hr) as [Ia Ib]. simpl. rewrite Ia, Ib, !andb_true_r.
           destruct (Nat.eqb_spec y 1); [lia|]. subst x. simpl.
           split; apply Nat.ltb_lt; lia.
        -- destruct (Nat.eqb_spec y 1) as [Ey|Ey]; [|discriminate].
           inversion H; subst sr. destruct rr as [|k rr]; [discriminate|]. simpl in Hr.
           apply andb_true_iff in Hr. destruct Hr as [Hk Hr]. apply Nat.ltb_lt in Hk.
           destruct (IH _ _ _ E Hr) as [Ia Ib]. simpl. rewrite Ia, Ib, !andb_true_r.
           destruct (Nat.eqb_spec x 1); [lia|]. subst y. simpl.
           split; apply Nat.ltb_lt; lia.
Qed.
Lemma bshape_rev_length ar : forall br sr, bshape_rev ar br = Some sr ->
  length ar <= length sr /\ length br <= length sr.
Proof.
  induction ar as [|x ar IH]; intros br sr H.
  - simpl in H. inversion H; subst. simpl. lia.
  - destruct br as [|y br].
    + simpl in H. inversion H; subst. simpl. lia.
    + simpl in H. destruct (bshape_rev ar br) as [r0|] eqn:E; [|discriminate].
      destruct (IH _ _ E) as [L1 L2].
      destruct (x =? y); [inversion H; subst; simpl; lia|].
      destruct (x =? 1); [inversion H; subst; simpl; lia|].
      destruct (y =? 1); [inversion H; subst; simpl; lia|discriminate].
Qed.
(* bproj in terms of reversed lists *)
Lemma bproj_rev a r : length a <= length r ->
  bproj a r = rev (bproj_aligned (rev a) (rev r)).
Proof.
  intro L. unfold bproj.
  set (d := length r - length a).
  assert (length (skipn d r) = length a) as Ls by (rewrite skipn_length; unfold d; lia).
  rewrite <- (firstn_skipn d r) at 2. rewrite rev_app_distr.
  rewrite bpa_trunc by (rewrite !rev_length; lia).
  rewrite bpa_rev by lia. rewrite rev_involutive. reflexivity.
Qed.
(* U: an in-bounds index of the broadcast result projects into bounds of both operands *)
Theorem bproj_inb a b s r :
  bshape a b = Some s -> inb s r = true ->
  inb a (bproj a r) = true /\ inb b (bproj b r) = true.
Proof.
  intros H Hr. unfold bshape in H.
  destruct (bshape_rev (rev a) (rev b)) as [sr|] eqn:E; [|discriminate].
  simpl in H. inversion H; subst s. clear H.
  pose proof (inb_rev _ _ Hr) as Hrr. rewrite rev_involutive in Hrr.
  destruct (bshape_rev_inb _ _ _ _ E Hrr) as [Ia Ib].
  destruct (bshape_rev_length _ _ _ E) as [La Lb]. rewrite !rev_length in La, Lb.
  pose proof (inb_length _ _ Hr) as Lr. rewrite rev_length in Lr.
  rewrite (bproj_rev a r) by lia. rewrite (bproj_rev b r) by lia.
  split.
  - apply inb_rev in Ia. rewrite rev_involutive in Ia. exact Ia.
  - apply inb_rev in Ib. rewrite rev_involutive in Ib. exact Ib.
Qed.
Open Scope Z_scope.

(* ------------------------------------------------------------------ *)
(* mask plumbing                                                        *)
(* ------------------------------------------------------------------ *)
Lemma any_over_false s c i : any_over s c = false -> inb s i = true -> c i = false.
Proof.
  unfold any_over. intros H Hi. apply in_all_mi in Hi.
  destruct (c i) eqn:E; auto.
  assert (existsb c (all_mi s) = true) as X by (apply existsb_exists; exists i; auto).
  congruence.
Qed.
Lemma or_arr_spec m c i : mget (or_arr m c) i = mget m i || c i.
Proof. destruct m as [[|]|f]; simpl; reflexivity. Qed.
Lemma or_if_any_spec s m c i :
  inb s i = true -> mget (or_if_any s m c) i = mget m i || c i.
Proof.
  intro Hi. unfold or_if_any. destruct (any_over s c) eqn:E.
  - apply or_arr_spec.
  - rewrite (any_over_false _ _ _ E Hi). rewrite orb_false_r. reflexivity.
Qed.
Lemma any_over_nil c : any_over [] c = c [].
Proof. unfold any_over. unfold all_mi. simpl. apply orb_false_r. Qed.
Lemma mask_where_spec s m c i :
  inb s i = true -> mget (mask_where s m c) i = mget m i || c i.
Proof.
  intro Hi. unfold mask_where. destruct (any_over s c) eqn:E.
  - destruct s as [|n s'].
    + apply inb_nil in Hi. subst i. rewrite any_over_nil in E. rewrite E.
      simpl. rewrite orb_true_r. reflexivity.
    + reflexivity.
  - rewrite (any_over_false _ _ _ E Hi). rewrite orb_false_r. reflexivity.
Qed.
Lemma arc_mask_spec s m c i :
  inb s i = true -> mget (arc_mask s m c) i = mget m i || c i.
Proof.
  intro Hi. unfold arc_mask. destruct (any_over s c) eqn:E.
  - destruct s as [|n s'].
    + apply inb_nil in Hi. subst i. rewrite any_over_nil in E. rewrite E.
      simpl. rewrite orb_true_r. reflexivity.
    + apply or_arr_spec.
  - rewrite (any_over_false _ _ _ E Hi). rewrite orb_false_r. reflexivity.
Qed.
Lemma bcast_mask_spec m s r : mget (bcast_mask m s) r = mget m (bproj s r).
Proof. destruct m; reflexivity. Qed.
Lemma unit_mask_spec s m v i :
  inb s i = true -> mget (unit_mask s m v) i = mget m i || all_zero (v i).
Proof.
  intro Hi. unfold unit_mask. rewrite or_m_spec, (bproj_self _ _ Hi).
  rewrite mask_where_spec by exact Hi. btauto.
Qed.

(* Qube.or_ of any number of masks (the recursion of the implementation) *)
Fixpoint or_ml (ms : list (mrep * shape)) : mrep * shape :=
  match ms with
  | [] => (MS false, [])
  | [x] => x
  | (m, s) :: t =>
      let (m', s') := or_ml t in
      (or_m m m' s s', match bshape s s' with Some u => u | None => [] end)
  end.
(* pointwise meaning, when every later partial result has the shape the index lives in *)
Fixpoint any_masked (ms : list (mrep * shape)) (r : mi) : bool :=
  match ms with
  | [] => false
  | (m, s) :: t => mget m (bproj s r) || any_masked t r
  end.
Lemma or_ml_spec_same s : forall ms r, inb s r = true ->
  (forall p, In p ms -> snd p = s) -> ms <> [] ->
  snd (or_ml ms) = s /\ mget (fst (or_ml ms)) r = any_masked ms r.
Proof.
  induction ms as [|[m s0] t IH]; intros r Hr Hall Hne; [congruence|].
  assert (s0 = s) as -> by (apply (Hall (m, s0)); left; reflexivity).
  destruct t as [|p t'].
  - simpl. rewrite (bproj_self _ _ Hr), orb_false_r. auto.
  - assert (Hall' : forall q, In q (p :: t') -> snd q = s) by (intros q Hq; apply Hall; right; exact Hq).
    destruct (IH r Hr Hall') as [IHs IHm]; [discriminate|].
    change (or_ml ((m, s) :: p :: t')) with
      (let (m', s') := or_ml (p :: t') in
       (or_m m m' s s', match bshape s s' with Some u => u | None => [] end)).
    destruct (or_ml (p :: t')) as [m' s'] eqn:E. cbn [fst snd] in IHs, IHm. subst s'.
    simpl fst; simpl snd. split.
    + assert (bshape s s = Some s) as ->; [|reflexivity].
      clear. unfold bshape.
      assert (forall a, bshape_rev a a = Some a) as X.
      { induction a as [|x a IHa]; simpl; auto. rewrite IHa, Nat.eqb_refl. reflexivity. }
      rewrite X. simpl. rewrite rev_involutive. reflexivity.
    + rewrite or_m_spec.
      change (any_masked ((m, s) :: p :: t') r) with (mget m (bproj s r) || any_masked (p :: t') r).
      rewrite <- IHm. rewrite (bproj_self _ _ Hr). reflexivity.
Qed.

(* ------------------------------------------------------------------ *)
(* C01: unary operations                                                *)
(* ------------------------------------------------------------------ *)
Lemma mask1_spec o a r : inb (osh a) r = true -> mget (mask1 o a) r = ref1 o a r.
Proof.
  intro Hr. unfold mask1, ref1. destruct o.
  - simpl. rewrite orb_false_r. reflexivity.
  - apply mask_where_spec; exact Hr.
  - apply mask_where_spec; exact Hr.
  - apply mask_where_spec; exact Hr.
  - apply arc_mask_spec; exact Hr.
  - rewrite or_m_spec, (bproj_self _ _ Hr), mask_where_spec by exact Hr. btauto.
  - apply or_if_any_spec; exact Hr.
  - apply or_if_any_spec; exact Hr.
Qed.
Lemma ew1_mask o a r : inb (osh a) r = true ->
  exists m, ew1 o a = ROk (osh a) m /\ mget m r = ref1 o a r.
Proof. intro Hr. eexists. split; [reflexivity|]. apply mask1_spec; exact Hr. Qed.

(* ------------------------------------------------------------------ *)
(* C01: binary operations                                               *)
(* ------------------------------------------------------------------ *)
Ltac norm_masks Hs Ha Hb :=
  repeat first
    [ rewrite or_m_spec
    | rewrite bcast_mask_spec
    | rewrite unit_mask_spec by (first [exact Hs | exact Ha | exact Hb])
    | rewrite mask_where_spec by (first [exact Hs | exact Ha | exact Hb])
    | rewrite or_if_any_spec by (first [exact Hs | exact Ha | exact Hb])
    | rewrite (bproj_self _ _ Hs)
    | rewrite (bproj_self _ _ Ha)
    | rewrite (bproj_self _ _ Hb) ].

Lemma pow_easy_even x p :
  (p =? 0) || (p =? 2) || (p =? 4) || (p =? 6) || (p =? 8) = true -> pow_undef x p = false.
Proof.
  intro H. unfold pow_undef.
  repeat (apply orb_true_iff in H; destruct H as [H|H]); apply Z.eqb_eq in H; subst p; simpl;
    rewrite !andb_false_r; reflexivity.
Qed.

(* operands that broadcast: result shape s, index r of the result, its two sources in bounds *)
Lemma mask2_spec o a b s r :
  keeps_a_shape o = false ->
  bshape (osh a) (osh b) = Some s ->
  inb s r = true ->
  mget (mask2 o a b s) r = ref2 o a b r.
Proof.
  intros Hk Hbs Hs. destruct (bproj_inb _ _ _ _ Hbs Hs) as [Ha Hb]. unfold ref2.
  destruct o; try discriminate Hk; unfold mask2, undef2; cbv zeta.
  - (* OAdd *) rewrite or_m_spec. btauto.
  - rewrite or_m_spec. btauto.
  - rewrite or_m_spec. btauto.
  - rewrite or_m_spec. btauto.
  - (* ODiv *) norm_masks Hs Ha Hb. btauto.
  - (* OFloordiv *) norm_masks Hs Ha Hb. btauto.
  - (* OPow *)
    destruct (osh a) as [|na sa'] eqn:Ea; destruct (osh b) as [|nb sb'] eqn:Eb.
    + assert (s = []) as ->.
      { unfold bshape in Hbs. simpl in Hbs. inversion Hbs. reflexivity. }
      apply inb_nil in Hs. subst r. rewrite !bproj_nil.
      destruct (pow_undef (hdz (oval a [])) (hdz (oval b []))) eqn:E.
      * simpl. rewrite !orb_true_r. reflexivity.
      * rewrite or_m_spec, !bproj_nil, orb_false_r. reflexivity.
    + rewrite or_if_any_spec by exact Hs. rewrite or_m_spec. reflexivity.
    + rewrite or_if_any_spec by exact Hs. rewrite or_m_spec. reflexivity.
    + rewrite or_if_any_spec by exact Hs. rewrite or_m_spec. reflexivity.
  - (* OElDiv *) norm_masks Hs Ha Hb. btauto.
  - (* OUcross *) norm_masks Hs Ha Hb. btauto.
  - (* OProj *) norm_masks Hs Ha Hb. btauto.
  - (* OPerp *) norm_masks Hs Ha Hb. btauto.
  - (* OSep *) norm_masks Hs Ha Hb. btauto.
  - (* OMatDiv *) norm_masks Hs Ha Hb. btauto.
  - (* OQDiv *) norm_masks Hs Ha Hb. btauto.
  - (* OFromRot *) norm_masks Hs Ha Hb. simpl. btauto.
  - (* OTwovec *) norm_masks Hs Ha Hb. btauto.
Qed.

(* operations on one object and a number (or an integer exponent): the result has the shape of a *)
Lemma mask2_num_spec o a b r :
  keeps_a_shape o = true -> osh b = [] -> mget (omask b) [] = false ->
  inb (osh a) r = true ->
  mget (mask2 o a b (osh a)) r = ref2 o a b r.
Proof.
  intros Hk Eb Hmb Hr. unfold ref2. rewrite Eb, bproj_nil, (bproj_self _ _ Hr), Hmb.
  destruct o; try discriminate Hk; unfold mask2, undef2; cbv zeta; rewrite ?Eb.
  - (* OAddNum: the number carries no mask *) btauto.
  - btauto.
  - (* ODivNum *)
    destruct (hdz (oval b []) =? 0); simpl; [rewrite !orb_true_r; reflexivity|btauto].
  - (* OPowNum *)
    set (p := hdz (oval b [])).
    destruct ((p =? 0) || (p =? 2) || (p =? 4) || (p =? 6) || (p =? 8)) eqn:E0.
    { rewrite (pow_easy_even _ _ E0). btauto. }
    destruct (p =? -2) eqn:E1.
    { apply Z.eqb_eq in E1. rewrite E1. rewrite mask_where_spec by exact Hr.
      unfold pow_undef. simpl. rewrite andb_true_r, andb_false_r, orb_false_r. btauto. }
    destruct (p =? 1) eqn:E2.
    { apply Z.eqb_eq in E2. rewrite E2. rewrite mask_where_spec by exact Hr.
      unfold pow_undef. simpl. rewrite andb_true_r, andb_false_r. simpl. btauto. }
    destruct (p =? -1) eqn:E3.
    { apply Z.eqb_eq in E3. rewrite E3. rewrite !mask_where_spec by exact Hr.
      unfold pow_undef. simpl. rewrite !andb_true_r. btauto. }
    destruct (osh a) as [|na sa'] eqn:Ea.
    + apply inb_nil in Hr. subst r.
      destruct (pow_undef (hdz (oval a [])) p) eqn:E.
      * simpl. rewrite !orb_true_r. reflexivity.
      * rewrite or_m_spec, !bproj_nil, Hmb. btauto.
    + rewrite or_if_any_spec by exact Hr. rewrite or_m_spec, bproj_nil, (bproj_self _ _ Hr), Hmb. btauto.
  - (* OXPowM *)
    destruct (hdz (oval b []) <? 0); simpl.
    + rewrite or_if_any_spec by exact Hr. btauto.
    + btauto.
  - (* OXPowQ *)
    destruct (hdz (oval b []) <? 0); simpl.
    + rewrite unit_mask_spec by exact Hr. btauto.
    + btauto.
  - (* OXPowR *) btauto.
Qed.

Lemma ew2_mask o a b s r :
  keeps_a_shape o = false ->
  bshape (osh a) (osh b) = Some s -> inb s r = true ->
  exists m, ew2 o false a b = ROk s m /\ mget m r = ref2 o a b r.
Proof.
  intros Hk Hbs Hs. unfold ew2. rewrite Hk, Hbs. simpl.
  eexists. split; [reflexivity|]. apply mask2_spec; assumption.
Qed.
Lemma ew2_num_mask o ip a b r :
  keeps_a_shape o = true -> osh b = [] -> mget (omask b) [] = false -> inb (osh a) r = true ->
  exists m, ew2 o ip a b = ROk (osh a) m /\ mget m r = ref2 o a b r.
Proof.
  intros Hk Eb Hmb Hr. unfold ew2. rewrite Hk.
  eexists. split; [reflexivity|]. apply mask2_num_spec; assumption.
Qed.
(* in-place forms: same mask, and the operation is refused exactly when the broadcast
   shape differs from the shape of the object being modified *)
Lemma ew2_inplace o a b s :
  keeps_a_shape o = false -> bshape (osh a) (osh b) = Some s ->
  ew2 o true a b = (if shape_eqb s (osh a) then ew2 o false a b else RErr).
Proof.
  intros Hk Hbs. unfold ew2. rewrite Hk, Hbs. simpl.
  destruct (shape_eqb s (osh a)); reflexivity.
Qed.

(* from_euler and every other three-operand or_ *)
Lemma ew3_mask a b c sbc s r :
  bshape (osh b) (osh c) = Some sbc -> bshape (osh a) sbc = Some s -> inb s r = true ->
  exists m, ew3 a b c = ROk s m /\ mget m r = ref3 a b c r.
Proof.
  intros H1 H2 Hr. unfold ew3. rewrite H1, H2. eexists. split; [reflexivity|].
  unfold ref3. rewrite !or_m_spec, !(bproj_self _ _ Hr), !bcast_mask_spec. btauto.
Qed.

(* ---- the two directions of the property, as corollaries of the refinement ---- *)
Lemma ref2_masked_in o a b r :
  mget (omask a) (bproj (osh a) r) = true \/ mget (omask b) (bproj (osh b) r) = true ->
  ref2 o a b r = true.
Proof. unfold ref2. intros [H|H]; rewrite H; simpl; rewrite ?orb_true_r; reflexivity. Qed.
Lemma ref2_nothing_more o a b r :
  mget (omask a) (bproj (osh a) r) = false -> mget (omask b) (bproj (osh b) r) = false ->
  undef2 o (oval a (bproj (osh a) r)) (oval b (bproj (osh b) r)) = false ->
  ref2 o a b r = false.
Proof. unfold ref2. intros -> -> ->. reflexivity. Qed.
Lemma ref1_iff o a r :
  ref1 o a r = true <-> mget (omask a) r = true \/ undef1 o (oval a r) = true.
Proof. unfold ref1. rewrite orb_true_iff. reflexivity. Qed.

(* ------------------------------------------------------------------ *)
(* C02                                                                  *)
(* ------------------------------------------------------------------ *)
(* exactly the undefined elements are masked when the operands are unmasked *)
Lemma ref1_exact o a r : mget (omask a) r = false -> ref1 o a r = undef1 o (oval a r).
Proof. unfold ref1. intros ->. reflexivity. Qed.
Lemma ref2_exact o a b r :
  mget (omask a) (bproj (osh a) r) = false -> mget (omask b) (bproj (osh b) r) = false ->
  ref2 o a b r = undef2 o (oval a (bproj (osh a) r)) (oval b (bproj (osh b) r)).
Proof. unfold ref2. intros -> ->. reflexivity. Qed.
(* sanitising never changes a defined element *)
Lemma kernel_arg1_defined o x : undef1 o [x] = false -> kernel_arg1 o x = x.
Proof. unfold kernel_arg1, sanitise. destruct o; intro H; try reflexivity; rewrite H; reflexivity. Qed.
Lemma kernel_divisor_defined y : (y =? 0) = false -> kernel_divisor y = y.
Proof. unfold kernel_divisor, sanitise. intros ->. reflexivity. Qed.
Lemma kernel_divisor_nonzero y : kernel_divisor y <> 0.
Proof.
  unfold kernel_divisor, sanitise. destruct (Z.eqb_spec y 0); [discriminate|assumption].
Qed.

(* the class of a (doubled) number *)
Lemma class_of_finite x : finite (class_of x) = true.
Proof. unfold class_of. repeat match goal with |- context [if ?b then _ else _] => destruct b end; reflexivity. Qed.
Lemma class_of_zero x : class_of x = Zero <-> x = 0.
Proof.
  unfold class_of.
  destruct (Z.ltb_spec x (-2)); [split; [discriminate|lia]|].
  destruct (Z.eqb_spec x (-2)); [split; [discriminate|lia]|].
  destruct (Z.ltb_spec x 0); [split; [discriminate|lia]|].
  destruct (Z.eqb_spec x 0); [split; auto|].
  destruct (Z.ltb_spec x 2); [split; [discriminate|lia]|].
  destruct (Z.eqb_spec x 2); split; try discriminate; lia.
Qed.

Definition all_finite (l : list fclass) : bool := forallb finite l.

(* no NaN and no pole infinity out of the guarded unary kernels, for every number *)
Lemma guarded1_finite o x : all_finite (guarded1 o x) = true.
Proof.
  unfold guarded1, kernel_arg1, sanitise, undef1, hdz.
  destruct o; try (simpl; rewrite class_of_finite; reflexivity).
  - (* sqrt *) destruct (Z.ltb_spec x 0) as [H|H]; [reflexivity|].
    unfold class_of.
    destruct (Z.ltb_spec x (-2)); [lia|]. destruct (Z.eqb_spec x (-2)); [lia|].
    destruct (Z.ltb_spec x 0); [lia|].
    destruct (x =? 0); [reflexivity|]. destruct (x <? 2); [reflexivity|].
    destruct (x =? 2); reflexivity.
  - (* log *) destruct (Z.leb_spec x 0) as [H|H]; [reflexivity|].
    unfold class_of.
    destruct (Z.ltb_spec x (-2)); [lia|]. destruct (Z.eqb_spec x (-2)); [lia|].
    destruct (Z.ltb_spec x 0); [lia|]. destruct (Z.eqb_spec x 0); [lia|].
    destruct (x <? 2); [reflexivity|]. destruct (x =? 2); reflexivity.
  - (* reciprocal *) destruct (Z.eqb_spec x 0) as [H|H]; [reflexivity|].
    unfold class_of.
    destruct (x <? -2); [reflexivity|]. destruct (x =? -2); [reflexivity|].
    destruct (x <? 0); [reflexivity|]. destruct (Z.eqb_spec x 0); [lia|].
    destruct (x <? 2); [reflexivity|]. destruct (x =? 2); reflexivity.
  - (* arcsin / arccos *)
    destruct (Z.ltb_spec x (-2)) as [H|H]; [reflexivity|].
    destruct (Z.ltb_spec 2 x) as [H'|H']; [reflexivity|]. simpl.
    unfold class_of.
    destruct (Z.ltb_spec x (-2)); [lia|]. destruct (x =? -2); [reflexivity|].
    destruct (x <? 0); [reflexivity|]. destruct (x =? 0); [reflexivity|].
    destruct (Z.ltb_spec x 2); [reflexivity|]. destruct (Z.eqb_spec x 2); [reflexivity|lia].
Qed.
(* ... and out of the guarded division kernels *)
Lemma guarded_div_finite k x y :
  (k = KDiv \/ k = KFloordiv \/ k = KMod) -> all_finite (guarded_div k x y) = true.
Proof.
  intro Hk. unfold guarded_div.
  assert (class_of (kernel_divisor y) <> Zero) as Hnz.
  { intro E. apply class_of_zero in E. exact (kernel_divisor_nonzero y E). }
  pose proof (class_of_finite x) as Fx. pose proof (class_of_finite (kernel_divisor y)) as Fy.
  destruct (class_of x), (class_of (kernel_divisor y)); try discriminate; try congruence;
    destruct Hk as [->|[->| ->]]; reflexivity.
Qed.
(* without the guard the kernels do produce NaN / pole infinities: the guards matter *)
Lemma unguarded_not_finite :
  all_finite (k_sqrt (class_of (-2))) = false /\ all_finite (k_log (class_of 0)) = false /\
  all_finite (k_recip (class_of 0)) = false /\ all_finite (k_arcsin (class_of 3)) = false /\
  all_finite (k_div (class_of 2) (class_of 0)) = false /\
  all_finite (k_mod (class_of 2) (class_of 0)) = false.
Proof. repeat split; reflexivity. Qed.

(* totality: the default paths never refuse operands whose shapes broadcast *)
Lemma ew1_total o a : ew1 o a <> RErr.
Proof. discriminate. Qed.
Lemma ew2_total o a b s :
  bshape (osh a) (osh b) = Some s -> ew2 o false a b <> RErr.
Proof.
  intro H. unfold ew2. destruct (keeps_a_shape o); [discriminate|]. rewrite H. simpl. discriminate.
Qed.
Lemma ew3_total a b c sbc s :
  bshape (osh b) (osh c) = Some sbc -> bshape (osh a) sbc = Some s -> ew3 a b c <> RErr.
Proof. intros H1 H2. unfold ew3. rewrite H1, H2. discriminate. Qed.

(* ---- corollaries stated in Props ---- *)
Lemma contract_mask a b s r :
  bshape (osh a) (osh b) = Some s -> inb s r = true ->
  exists m, ew2 ODot false a b = ROk s m /\
    mget m r = mget (omask a) (bproj (osh a) r) || mget (omask b) (bproj (osh b) r).
Proof.
  intros H Hr. destruct (ew2_mask ODot a b s r eq_refl H Hr) as [m [E Hm]].
  exists m. split; [exact E|]. rewrite Hm. unfold ref2. simpl. apply orb_false_r.
Qed.
Lemma exact_unary o a r :
  inb (osh a) r = true -> mget (omask a) r = false ->
  exists m, ew1 o a = ROk (osh a) m /\ mget m r = undef1 o (oval a r).
Proof.
  intros Hr Hm. destruct (ew1_mask o a r Hr) as [m [E H]]. exists m. split; [exact E|].
  rewrite H. apply ref1_exact; exact Hm.
Qed.
Lemma exact_binary o a b s r :
  keeps_a_shape o = false -> bshape (osh a) (osh b) = Some s -> inb s r = true ->
  mget (omask a) (bproj (osh a) r) = false -> mget (omask b) (bproj (osh b) r) = false ->
  exists m, ew2 o false a b = ROk s m /\
    mget m r = undef2 o (oval a (bproj (osh a) r)) (oval b (bproj (osh b) r)).
Proof.
  intros Hk Hs Hr Ha Hb. destruct (ew2_mask o a b s r Hk Hs Hr) as [m [E H]].
  exists m. split; [exact E|]. rewrite H. apply ref2_exact; assumption.
Qed.
Lemma exact_number o ip a b r :
  keeps_a_shape o = true -> osh b = [] -> mget (omask b) [] = false -> inb (osh a) r = true ->
  mget (omask a) r = false ->
  exists m, ew2 o ip a b = ROk (osh a) m /\ mget m r = undef2 o (oval a r) (oval b []).
Proof.
  intros Hk Eb Hmb Hr Ha. destruct (ew2_num_mask o ip a b r Hk Eb Hmb Hr) as [m [E H]].
  exists m. split; [exact E|]. rewrite H. unfold ref2.
  rewrite Eb, bproj_nil, (bproj_self _ _ Hr), Ha, Hmb. reflexivity.
Qed.
