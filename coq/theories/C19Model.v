(* C19 model: every modelled mutator is an ordered list of checks followed by the
   commit (qube.py __iadd__/__isub__/__imul__, indexer.py __setitem__ general path). A check names the fault class it detects and the exception
   it raises. Running a mutator on a set of faults stops at the first check that
   fires; only a run that passes every check commits.  Proof-free. *)
From Coq Require Import List Bool.
Import ListNotations.

Inductive fault := FReadonly | FType | FUnits | FNumer | FDenom | FKind | FShape | FDerivDenom
                 | FAlways.   (* the combination itself is unsupported (e.g. Vector += number) *)
Inductive err := ValueErr | TypeErr | IndexErr | OtherErr.
Inductive opfam := OAdd | OMul | OSet | OSetMask.
Inductive argform := ANumber | ANdarray | AObject.
Inductive tkind := TScalarF | TScalarI | TScalarU | TScalarD | TVector.
Inductive obsv := OOk | OErr (e : err) (changed : bool).
Record case19 := mkcase { c_op : opfam; c_form : argform; c_t : tkind; c_faults : list fault }.

Definition fault_eqb (a b : fault) : bool :=
  match a, b with
  | FReadonly, FReadonly | FType, FType | FUnits, FUnits | FNumer, FNumer | FDenom, FDenom
  | FKind, FKind | FShape, FShape | FDerivDenom, FDerivDenom | FAlways, FAlways => true
  | _, _ => false
  end.
Definition has (f : fault) (l : list fault) : bool :=
  match f with FAlways => true | _ => existsb (fault_eqb f) l end.

Definition is_vector (t : tkind) : bool := match t with TVector => true | _ => false end.

(* the checks of each mutator, in the order the code performs them *)
Definition checks (o : opfam) (a : argform) (t : tkind) : list (fault * err) :=
  match o, a with
  | OAdd, ANumber =>
      if is_vector t then [(FReadonly, ValueErr); (FAlways, TypeErr)]
      else [(FReadonly, ValueErr); (FType, TypeErr); (FKind, TypeErr)]
  | OAdd, ANdarray =>
      if is_vector t then [(FReadonly, ValueErr); (FType, TypeErr); (FShape, ValueErr)]
      else [(FReadonly, ValueErr); (FType, TypeErr); (FKind, TypeErr); (FShape, ValueErr)]
  | OAdd, AObject =>
      [(FReadonly, ValueErr); (FType, TypeErr); (FUnits, ValueErr);
       (FNumer, if is_vector t then ValueErr else TypeErr); (FDenom, ValueErr); (FKind, TypeErr);
       (FDerivDenom, ValueErr); (FShape, ValueErr)]
  | OMul, ANumber => [(FReadonly, ValueErr); (FType, TypeErr); (FKind, TypeErr)]
  | OMul, ANdarray => [(FReadonly, ValueErr); (FType, TypeErr); (FKind, TypeErr); (FShape, ValueErr)]
  | OMul, AObject =>
      [(FReadonly, ValueErr); (FType, TypeErr); (FNumer, TypeErr); (FDenom, TypeErr); (FKind, TypeErr);
       (FDerivDenom, ValueErr); (FShape, ValueErr)]
  | OSet, ANumber =>
      if is_vector t then [(FReadonly, ValueErr); (FType, TypeErr); (FAlways, ValueErr)]
      else [(FReadonly, ValueErr); (FType, TypeErr)]
  | OSet, ANdarray => [(FReadonly, ValueErr); (FType, TypeErr); (FShape, ValueErr)]
  | OSet, AObject =>
      [(FReadonly, ValueErr); (FType, TypeErr); (FNumer, ValueErr); (FDerivDenom, ValueErr);
       (FDenom, ValueErr); (FShape, ValueErr)]
  | OSetMask, ANumber =>
      if is_vector t then [(FReadonly, ValueErr); (FType, TypeErr); (FAlways, ValueErr)]
      else [(FReadonly, ValueErr); (FType, TypeErr)]
  | OSetMask, ANdarray => [(FReadonly, ValueErr); (FType, TypeErr); (FShape, ValueErr)]
  | OSetMask, AObject =>
      (* NumPy rejects a value with extra axes under a boolean index with TypeError *)
      [(FReadonly, ValueErr); (FType, TypeErr); (FNumer, ValueErr); (FDerivDenom, ValueErr);
       (FDenom, if is_vector t then ValueErr else TypeErr); (FShape, ValueErr)]
  end.

(* a mutator as a program: checks, then the commit of the target's components *)
Inductive phase := Check (f : fault) (e : err) | Commit.
Definition program (o : opfam) (a : argform) (t : tkind) : list phase :=
  map (fun p => Check (fst p) (snd p)) (checks o a t) ++ [Commit].

(* run: returns the outcome and whether a commit happened before it *)
Fixpoint exec (ps : list phase) (present : list fault) (committed : bool) : obsv :=
  match ps with
  | [] => OOk
  | Check f e :: rest => if has f present then OErr e committed else exec rest present committed
  | Commit :: rest => exec rest present true
  end.
Definition run19 (c : case19) : obsv := exec (program (c_op c) (c_form c) (c_t c)) (c_faults c) false.

(* a program is check-first when no check follows a commit *)
Fixpoint no_checks (ps : list phase) : bool :=
  match ps with [] => true | Check _ _ :: _ => false | Commit :: rest => no_checks rest end.
Fixpoint check_first (ps : list phase) : bool :=
  match ps with
  | [] => true
  | Check _ _ :: rest => check_first rest
  | Commit :: rest => no_checks rest
  end.

Definition err_eqb (a b : err) : bool :=
  match a, b with ValueErr, ValueErr | TypeErr, TypeErr | IndexErr, IndexErr | OtherErr, OtherErr => true
  | _, _ => false end.
Definition obsv_eqb (a b : obsv) : bool :=
  match a, b with
  | OOk, OOk => true
  | OErr e c, OErr e' c' => err_eqb e e' && Bool.eqb c c'
  | _, _ => false
  end.
Fixpoint mism_from (k : nat) (l : list (case19 * obsv)) : list nat :=
  match l with
  | [] => []
  | (c, o) :: t => if obsv_eqb (run19 c) o then mism_from (S k) t else k :: mism_from (S k) t
  end.
Definition mismatches := mism_from 0.
