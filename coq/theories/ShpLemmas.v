(* Lemmas for the regenerated axis plans (ShpModel.v): NumPy's axis normalisation in the form the code's prologues
   compute it, identities of the permutations, and the frame lemmas that make a leading-axis operation on the values
   array (leading + item axes) the same relabeling of the leading axes with the item axes left alone. *)
From Coq Require Import List Arith ZArith Bool Lia.
From PM Require Import Base Mask C15Model ShpModel.
Import ListNotations.

(* case analysis on every integer comparison of a goal, innermost first *)
Ltac no_if t := lazymatch t with context [if _ then _ else _] => fail | _ => idtac end.
Ltac zstep :=
  match goal with
  | |- context [Z.ltb ?x ?y] => no_if x; no_if y; destruct (Z.ltb_spec x y)
  | |- context [Z.leb ?x ?y] => no_if x; no_if y; destruct (Z.leb_spec x y)
  | |- context [Z.geb ?x ?y] => no_if x; no_if y; destruct (Z.geb_spec x y)
  | |- context [Z.gtb ?x ?y] => no_if x; no_if y; destruct (Z.gtb_spec x y)
  | |- context [Z.eqb ?x ?y] => no_if x; no_if y; destruct (Z.eqb_spec x y)
  | |- context [Nat.eqb ?x ?y] => no_if x; no_if y; destruct (Nat.eqb_spec x y)
  | |- context [existsb ?f ?l] => destruct (existsb f l)
  end; cbv iota; cbn [orb andb negb]; try lia.
Ltac zb := repeat zstep.

(* normalize_axis_index, as "add n when negative, then range-check" *)
Lemma norm_axis_norm n a :
  norm_axis n a =
  let a' := (if Z.ltb a 0 then a + Z.of_nat n else a)%Z in
  if (Z.ltb a' 0 || Z.geb a' (Z.of_nat n))%bool then None else Some (Z.to_nat a').
Proof.
  unfold norm_axis. cbv zeta.
  destruct (Z.ltb_spec a 0); destruct (Z.leb_spec (- Z.of_nat n) a); destruct (Z.ltb_spec a (Z.of_nat n));
    cbn [andb];
    match goal with |- context [Z.ltb ?x 0] => destruct (Z.ltb_spec x 0) end;
    match goal with |- context [Z.geb ?x ?y] => destruct (Z.geb_spec x y) end; cbn [orb]; try reflexivity; lia.
Qed.

Lemma norm_axis_nonneg n a : (0 <= a < Z.of_nat n)%Z -> norm_axis n a = Some (Z.to_nat a).
Proof.
  intros H. rewrite norm_axis_norm. cbv zeta.
  destruct (Z.ltb_spec a 0); [lia|].
  destruct (Z.ltb_spec a 0); [lia|]. destruct (Z.geb_spec a (Z.of_nat n)); [lia|]. reflexivity.
Qed.

Lemma zin_true n a : zin n a = true <-> (0 <= a < Z.of_nat n)%Z.
Proof. unfold zin. rewrite andb_true_iff, Z.leb_le, Z.ltb_lt. tauto. Qed.

Lemma swapP_same a n : swapP a a n = seq 0 n.
Proof.
  unfold swapP. transitivity (map (fun x : nat => x) (seq 0 n)); [|apply map_id]. apply map_ext. intros k.
  destruct (Nat.eqb_spec k a); congruence.
Qed.

(* frame: swapping two leading axes of an array with k further (item) axes *)
Lemma swapP_frame a b n k : a < n -> b < n -> swapP a b (n + k) = swapP a b n ++ seq n k.
Proof.
  intros Ha Hb. unfold swapP. rewrite seq_app, map_app. f_equal.
  cbn [Nat.add]. transitivity (map (fun x : nat => x) (seq n k)); [|apply map_id].
  apply map_ext_in. intros x Hx. apply in_seq in Hx.
  destruct (Nat.eqb_spec x a); [lia|]. destruct (Nat.eqb_spec x b); [lia|]. reflexivity.
Qed.

Lemma remove_nat_app_l x l t : In x l -> remove_nat x (l ++ t) = remove_nat x l ++ t.
Proof.
  induction l as [|y l IH]; cbn [remove_nat app]; intros H; [destruct H|].
  destruct (Nat.eqb_spec y x); [reflexivity|]. destruct H as [H|H]; [congruence|]. rewrite IH by exact H. reflexivity.
Qed.
Lemma insert_at_app_l k x l t : k <= length l -> insert_at k x (l ++ t) = insert_at k x l ++ t.
Proof.
  revert l. induction k as [|k IH]; intros l H; [destruct l; reflexivity|].
  destruct l as [|y l]; cbn [length] in H; [lia|]. cbn [insert_at app]. rewrite IH by lia. reflexivity.
Qed.
Lemma remove_nat_length x l : In x l -> length (remove_nat x l) = length l - 1.
Proof.
  induction l as [|y l IH]; cbn [remove_nat length]; intros H; [destruct H|].
  destruct (Nat.eqb_spec y x); [lia|]. destruct H as [H|H]; [congruence|].
  cbn [length]. rewrite IH by exact H. destruct l; [destruct H|cbn [length]; lia].
Qed.

(* frame: rolling a leading axis of an array with k further axes *)
Lemma rollP_frame ax st n k : ax < n -> st <= n - 1 -> rollP ax st (n + k) = rollP ax st n ++ seq n k.
Proof.
  intros Ha Hs. unfold rollP. rewrite seq_app.
  assert (Hin : In ax (seq 0 n)) by (apply in_seq; lia).
  rewrite remove_nat_app_l by exact Hin.
  rewrite insert_at_app_l; [reflexivity|]. rewrite remove_nat_length by exact Hin. rewrite seq_length. lia.
Qed.

(* the code's own "negative means from the end" on an already range-checked axis is NumPy's *)
Lemma roll_start_norm n ax start :
  roll_start n ax start =
  let st := (if Z.ltb start 0 then start + Z.of_nat n else start)%Z in
  if (Z.ltb st 0 || Z.geb st (Z.of_nat n + 1))%bool then None
  else Some (if Nat.ltb ax (Z.to_nat st) then Z.to_nat st - 1 else Z.to_nat st).
Proof.
  unfold roll_start. cbv zeta.
  set (st := (if Z.ltb start 0 then (start + Z.of_nat n)%Z else start)).
  destruct (Z.leb_spec 0 st); destruct (Z.leb_spec st (Z.of_nat n)); destruct (Z.ltb_spec st 0);
    destruct (Z.geb_spec st (Z.of_nat n + 1)); cbn [andb orb]; try reflexivity; lia.
Qed.

(* ---- lists of axes (move_axis) ---- *)
Lemma norm_axis_zmod r a : 1 <= r ->
  norm_axis r a = if zout (Z.of_nat r) a then None else Some (Z.to_nat (a mod Z.of_nat r)).
Proof.
  intros Hr. unfold norm_axis, zout.
  destruct (Z.leb_spec (- Z.of_nat r) a); destruct (Z.ltb_spec a (Z.of_nat r)); destruct (Z.ltb_spec a (- Z.of_nat r));
    destruct (Z.geb_spec a (Z.of_nat r)); cbn [andb orb]; try reflexivity; try lia.
  f_equal. f_equal. destruct (Z.ltb_spec a 0).
  - rewrite <- (Z_mod_plus_full a 1 (Z.of_nat r)). rewrite Z.mod_small; lia.
  - rewrite Z.mod_small; lia.
Qed.

Lemma norm_axes_zmod r l : 1 <= r ->
  norm_axes r l = if existsb (zout (Z.of_nat r)) l then None else Some (map (fun x => Z.to_nat (x mod Z.of_nat r)) l).
Proof.
  intros Hr. induction l as [|a l IH]; [reflexivity|].
  cbn [norm_axes existsb map]. rewrite norm_axis_zmod by exact Hr. rewrite IH.
  destruct (zout (Z.of_nat r) a); [reflexivity|]. cbn [orb]. destruct (existsb (zout (Z.of_nat r)) l); reflexivity.
Qed.

Lemma mod_inrange r l : 1 <= r -> forallb (zin r) (map (fun x => (x mod Z.of_nat r)%Z) l) = true.
Proof.
  intros Hr. apply forallb_forall. intros y Hy. apply in_map_iff in Hy. destruct Hy as [x [<- _]].
  apply zin_true. apply Z.mod_pos_bound. lia.
Qed.

Lemma norm_axes_inrange r l : forallb (zin r) l = true -> norm_axes r l = Some (map Z.to_nat l).
Proof.
  induction l as [|a l IH]; [reflexivity|]. cbn [forallb norm_axes map]. intros H.
  apply andb_true_iff in H. destruct H as [Ha Hl]. apply zin_true in Ha.
  rewrite norm_axis_nonneg by exact Ha. rewrite IH by exact Hl. reflexivity.
Qed.

Lemma existsb_to_nat x t : (0 <= x)%Z -> forallb (Z.leb 0) t = true ->
  existsb (Nat.eqb (Z.to_nat x)) (map Z.to_nat t) = existsb (Z.eqb x) t.
Proof.
  intros Hx. induction t as [|y t IH]; [reflexivity|]. cbn [forallb map existsb]. intros H.
  apply andb_true_iff in H. destruct H as [Hy Ht]. apply Z.leb_le in Hy. rewrite IH by exact Ht. f_equal.
  destruct (Nat.eqb_spec (Z.to_nat x) (Z.to_nat y)); destruct (Z.eqb_spec x y); try reflexivity; lia.
Qed.

Lemma zdistinct_le l : length (zdistinct l) <= length l.
Proof. induction l as [|x t IH]; [apply le_n|]. cbn [zdistinct length]. destruct (existsb (Z.eqb x) t); cbn [length]; lia. Qed.

(* len(set(l)) == len(l) is "no entry twice" *)
Lemma nodupb_zdistinct l : forallb (Z.leb 0) l = true ->
  nodupb (map Z.to_nat l) = Nat.eqb (length (zdistinct l)) (length l).
Proof.
  induction l as [|x t IH]; [reflexivity|]. cbn [forallb map nodupb zdistinct length]. intros H.
  apply andb_true_iff in H. destruct H as [Hx Ht]. apply Z.leb_le in Hx.
  rewrite existsb_to_nat by assumption. rewrite IH by exact Ht.
  destruct (existsb (Z.eqb x) t); cbn [negb andb length].
  - symmetry. apply Nat.eqb_neq. pose proof (zdistinct_le t). lia.
  - reflexivity.
Qed.

Lemma zin_nonneg r l : forallb (zin r) l = true -> forallb (Z.leb 0) l = true.
Proof.
  intros H. apply forallb_forall. intros x Hx. apply (proj1 (forallb_forall _ _) H) in Hx.
  apply zin_true in Hx. apply Z.leb_le. lia.
Qed.

(* ---- the rank= extension ---- *)
Lemma eff_rank_z n rank : option_map Z.of_nat (eff_rank n rank) = zrank (Z.of_nat n) (Z.of_nat rank).
Proof.
  unfold eff_rank, zrank. cbv zeta.
  destruct (Nat.eqb_spec rank 0) as [->|Hr].
  - cbn [Z.of_nat Z.eqb]. rewrite Nat.ltb_irrefl, Z.ltb_irrefl. cbn [option_map].
    destruct (Nat.eqb_spec n 0) as [->|Hn]; [reflexivity|]. destruct (Z.eqb_spec (Z.of_nat n) 0); [lia|reflexivity].
  - destruct (Z.eqb_spec (Z.of_nat rank) 0); [lia|].
    destruct (Nat.ltb_spec rank n); destruct (Z.ltb_spec (Z.of_nat rank) (Z.of_nat n)); try lia; [reflexivity|].
    cbn [option_map]. rewrite <- Nat.eqb_neq in Hr. rewrite Hr.
    destruct (Z.eqb_spec (Z.of_nat rank) 0); [lia|reflexivity].
Qed.
Lemma eff_rank_bounds n rank r : eff_rank n rank = Some r -> n <= r /\ 1 <= r.
Proof.
  intros Er. assert (Hz := eff_rank_z n rank). rewrite Er in Hz. cbn [option_map] in Hz. unfold zrank in Hz.
  cbv zeta in Hz. revert Hz. zb; intros Hz; try discriminate; injection Hz as Hz; lia.
Qed.
Lemma zrank_self r : (1 <= r)%Z -> zrank r r = Some r.
Proof. intros H. unfold zrank. cbv zeta. zb. reflexivity. Qed.

Lemma zlist_eq_refl l : zlist_eq l l = true.
Proof. induction l as [|x l IH]; [reflexivity|]. cbn [zlist_eq]. rewrite Z.eqb_refl, IH. reflexivity. Qed.
Lemma nop_eqb_refl o : nop_eqb o o = true.
Proof. destruct o; cbn [nop_eqb]; rewrite ?Z.eqb_refl, ?zlist_eq_refl; reflexivity. Qed.

(* padding first and then relabeling is relabeling the padded object *)
Lemma lead_plan_pad pad v m d d' n : (0 <= pad)%Z ->
  perm_of (lead_plan (PRel pad v m d) n) = perm_of (lead_plan (PRel 0 v m d') (n + Z.to_nat pad)).
Proof.
  intros H. cbn [lead_plan]. destruct (Z.ltb_spec pad 0); [lia|]. destruct (Z.ltb_spec 0 0); [lia|].
  replace (n + Z.to_nat pad + Z.to_nat 0) with (n + Z.to_nat pad) by (cbn; lia).
  destruct (nop_eqb v m && nop_inrange v (n + Z.to_nat pad)); [|reflexivity].
  destruct (nop_perm v (n + Z.to_nat pad)); reflexivity.
Qed.

(* swapping two axes inside a block of k axes that starts at off *)
Lemma seq_add off k : map (fun x => off + x) (seq 0 k) = seq off k.
Proof.
  revert off. induction k as [|k IH]; intros off; [reflexivity|]. cbn [seq map]. rewrite Nat.add_0_r. f_equal.
  rewrite <- seq_shift, map_map. rewrite <- (IH (S off)). apply map_ext. intros x. lia.
Qed.
Lemma swapP_block off a b k tail : a < k -> b < k ->
  swapP (off + a) (off + b) (off + k + tail) = seq 0 off ++ map (fun x => off + x) (swapP a b k) ++ seq (off + k) tail.
Proof.
  intros Ha Hb. unfold swapP. rewrite !seq_app, !map_app, <- app_assoc. cbn [Nat.add]. f_equal; [|f_equal].
  - transitivity (map (fun x : nat => x) (seq 0 off)); [|apply map_id]. apply map_ext_in. intros x Hx. apply in_seq in Hx.
    destruct (Nat.eqb_spec x (off + a)); [lia|]. destruct (Nat.eqb_spec x (off + b)); [lia|]. reflexivity.
  - rewrite <- (seq_add off k). rewrite !map_map. apply map_ext. intros x.
    destruct (Nat.eqb_spec (off + x) (off + a)); destruct (Nat.eqb_spec x a); try lia; try reflexivity.
    destruct (Nat.eqb_spec (off + x) (off + b)); destruct (Nat.eqb_spec x b); try lia; reflexivity.
  - transitivity (map (fun x : nat => x) (seq (off + k) tail)); [|apply map_id]. apply map_ext_in. intros x Hx. apply in_seq in Hx.
    destruct (Nat.eqb_spec x (off + a)); [lia|]. destruct (Nat.eqb_spec x (off + b)); [lia|]. reflexivity.
Qed.

(* ---- frame: a leading-axis operation applied to the values array (k further item axes) ---- *)
Lemma norm_axis_frame n k a : zin n a = true -> norm_axis (n + k) a = norm_axis n a.
Proof.
  intros H. apply zin_true in H. rewrite !norm_axis_nonneg; [reflexivity|lia|]. rewrite Nat2Z.inj_add. lia.
Qed.

(* ---- np.moveaxis: the insertions of the moved axes never reach behind the leading axes ---- *)
Lemma nodupb_NoDup l : nodupb l = true -> NoDup l.
Proof.
  induction l as [|x t IH]; intros H; [constructor|]. cbn [nodupb] in H. apply andb_true_iff in H. destruct H as [H1 H2].
  constructor; [|apply IH; exact H2]. intros Hin. apply negb_true_iff in H1.
  assert (existsb (Nat.eqb x) t = true) by (apply existsb_exists; exists x; split; [exact Hin|apply Nat.eqb_refl]). congruence.
Qed.

Lemma filter_all {A} (f : A -> bool) l : (forall x, In x l -> f x = true) -> filter f l = l.
Proof.
  induction l as [|x l IH]; intros H; [reflexivity|]. cbn [filter]. rewrite (H x (or_introl eq_refl)). f_equal.
  apply IH. intros y Hy. apply H. right. exact Hy.
Qed.

(* A: the axes that are not moved, with k more axes behind *)
Lemma filter_seq_frame src n k : (forall x, In x src -> x < n) ->
  filter (fun j => negb (existsb (Nat.eqb j) src)) (seq 0 (n + k)) =
  filter (fun j => negb (existsb (Nat.eqb j) src)) (seq 0 n) ++ seq n k.
Proof.
  intros H. rewrite seq_app, filter_app. f_equal. cbn [Nat.add].
  apply filter_all. intros x Hx. apply in_seq in Hx. apply negb_true_iff.
  destruct (existsb (Nat.eqb x) src) eqn:E; [|reflexivity]. apply existsb_exists in E. destruct E as [y [Hy E]].
  apply Nat.eqb_eq in E. subst y. apply H in Hy. lia.
Qed.

Lemma filter_len_compl {A} (f : A -> bool) l : length (filter f l) + length (filter (fun x => negb (f x)) l) = length l.
Proof. induction l as [|x l IH]; [reflexivity|]. cbn [filter]. destruct (f x); cbn [negb length]; lia. Qed.

(* B: how many axes are moved *)
Lemma filter_in_len src : NoDup src -> forall L, NoDup L -> (forall x, In x src -> In x L) ->
  length (filter (fun j => existsb (Nat.eqb j) src) L) = length src.
Proof.
  induction src as [|x t IH]; intros Hnd L HL Hsub.
  - cbn [existsb]. induction L as [|y L IHL]; [reflexivity|]. cbn [filter]. apply IHL; [inversion HL; assumption|intros z []].
  - inversion Hnd as [|x' t' Hx Ht]; subst.
    assert (Hinx : In x L) by (apply Hsub; left; reflexivity).
    destruct (in_split _ _ Hinx) as [L1 [L2 ->]].
    assert (HL' : NoDup (L1 ++ L2)) by (eapply NoDup_remove_1; exact HL).
    assert (Hxn : ~ In x (L1 ++ L2)) by (eapply NoDup_remove_2; exact HL).
    rewrite filter_app. cbn [filter existsb]. rewrite Nat.eqb_refl. cbn [orb]. rewrite app_length. cbn [length].
    assert (Hf : forall M, ~ In x M -> filter (fun j => (j =? x) || existsb (Nat.eqb j) t) M = filter (fun j => existsb (Nat.eqb j) t) M).
    { intros M HM. apply filter_ext_in. intros a Ha. destruct (Nat.eqb_spec a x); [subst; contradiction|reflexivity]. }
    rewrite !Hf by (intros Hc; apply Hxn; apply in_or_app; tauto).
    specialize (IH Ht (L1 ++ L2) HL').
    rewrite filter_app, app_length in IH. rewrite <- IH; [lia|].
    intros z Hz. assert (In z (L1 ++ x :: L2)) by (apply Hsub; right; exact Hz).
    apply in_app_or in H. apply in_or_app. destruct H as [H|[H|H]]; [left; exact H| subst; contradiction|right; exact H].
Qed.

(* C: the (destination, source) pairs sorted by destination *)
Fixpoint ssorted (l : list (nat * nat)) : Prop :=
  match l with [] => True | p :: t => (forall q, In q t -> fst p < fst q) /\ ssorted t end.

Lemma insert_sorted_in p l q : In q (insert_sorted p l) <-> q = p \/ In q l.
Proof.
  induction l as [|a l IH]; cbn [insert_sorted]; [cbn; intuition|].
  destruct (Nat.leb (fst p) (fst a)); cbn [In]; [intuition|]. rewrite IH. intuition.
Qed.
Lemma insert_sorted_length p l : length (insert_sorted p l) = S (length l).
Proof. induction l as [|a l IH]; cbn [insert_sorted]; [reflexivity|]. destruct (Nat.leb (fst p) (fst a)); cbn [length]; [reflexivity|rewrite IH; reflexivity]. Qed.
Lemma insert_sorted_ssorted p l : ssorted l -> (forall q, In q l -> fst q <> fst p) -> ssorted (insert_sorted p l).
Proof.
  induction l as [|a l IH]; intros Hs Hne; cbn [insert_sorted]; [cbn; split; [intros q []|exact I]|].
  destruct Hs as [Ha Hs]. destruct (Nat.leb_spec (fst p) (fst a)) as [Hle|Hgt].
  - cbn [ssorted]. split; [|split; assumption]. intros q [<-|Hq].
    + assert (fst a <> fst p) by (apply Hne; left; reflexivity). lia.
    + specialize (Ha q Hq). assert (fst a <> fst p) by (apply Hne; left; reflexivity). lia.
  - cbn [ssorted]. split.
    + intros q Hq. apply insert_sorted_in in Hq. destruct Hq as [->|Hq]; [exact Hgt|apply Ha; exact Hq].
    + apply IH; [exact Hs|]. intros q Hq. apply Hne. right. exact Hq.
Qed.

Lemma sort_pairs_in l q : In q (sort_pairs l) <-> In q l.
Proof.
  induction l as [|a l IH]; [cbn; tauto|]. unfold sort_pairs in *. cbn [fold_right]. rewrite insert_sorted_in, IH. cbn [In]. intuition.
Qed.
Lemma sort_pairs_length l : length (sort_pairs l) = length l.
Proof. induction l as [|a l IH]; [reflexivity|]. unfold sort_pairs in *. cbn [fold_right]. rewrite insert_sorted_length, IH. reflexivity. Qed.
Lemma sort_pairs_ssorted l : NoDup (map fst l) -> ssorted (sort_pairs l).
Proof.
  induction l as [|a l IH]; intros H; [exact I|]. cbn [map] in H. inversion H as [|x t Hx Ht]; subst.
  unfold sort_pairs in *. cbn [fold_right]. apply insert_sorted_ssorted; [apply IH; exact Ht|].
  intros q Hq He. apply Hx. apply (proj1 (sort_pairs_in l q)) in Hq. rewrite <- He. apply in_map. exact Hq.
Qed.

(* D: strictly increasing destinations below N leave room above the first one *)
Lemma ssorted_bound N l : ssorted l -> (forall q, In q l -> fst q < N) ->
  match l with [] => True | p :: _ => fst p + length l <= N end.
Proof.
  induction l as [|p t IH]; intros Hs Hb; [exact I|]. destruct Hs as [Hp Hs]. cbn [length].
  destruct t as [|q t']; [specialize (Hb p (or_introl eq_refl)); cbn; lia|].
  assert (H1 : fst p < fst q) by (apply Hp; left; reflexivity).
  assert (H2 := IH Hs (fun r Hr => Hb r (or_intror Hr))). cbn [length] in *. lia.
Qed.

Lemma insert_at_length k x l : k <= length l -> length (insert_at k x l) = S (length l).
Proof.
  revert l. induction k as [|k IH]; intros l H; [destruct l; reflexivity|].
  destruct l as [|y l]; cbn [length] in H; [lia|]. cbn [insert_at length]. rewrite IH by lia. reflexivity.
Qed.

(* E: the insertions never reach behind the first N entries *)
Lemma fold_insert_frame N : forall ps B T, ssorted ps -> (forall q, In q ps -> fst q < N) -> length B + length ps = N ->
  fold_left (fun ord p => insert_at (fst p) (snd p) ord) ps (B ++ T) =
  fold_left (fun ord p => insert_at (fst p) (snd p) ord) ps B ++ T.
Proof.
  induction ps as [|p ps IH]; intros B T Hs Hb Hl; [reflexivity|]. cbn [fold_left].
  pose proof (ssorted_bound N (p :: ps) Hs Hb) as Hd. cbn [length] in Hd, Hl.
  assert (Hle : fst p <= length B) by lia.
  rewrite insert_at_app_l by exact Hle. apply IH.
  - destruct Hs as [_ Hs]. exact Hs.
  - intros q Hq. apply Hb. right. exact Hq.
  - rewrite insert_at_length by exact Hle. lia.
Qed.

Lemma map_fst_comb {A B} : forall (a : list A) (b : list B), length a = length b -> map fst (combine a b) = a.
Proof.
  induction a as [|x a IH]; intros b H; [reflexivity|]. destruct b as [|y b]; [discriminate H|].
  cbn [combine map fst]. f_equal. apply IH. injection H as H. exact H.
Qed.

Theorem moveP_frame src dst n k :
  NoDup src -> NoDup dst -> length src = length dst -> (forall x, In x src -> x < n) -> (forall x, In x dst -> x < n) ->
  moveP src dst (n + k) = moveP src dst n ++ seq n k.
Proof.
  intros Hs Hd Hlen Hsn Hdn. unfold moveP. rewrite filter_seq_frame by exact Hsn.
  apply (fold_insert_frame n).
  - apply sort_pairs_ssorted. rewrite map_fst_comb by (symmetry; exact Hlen). exact Hd.
  - intros q Hq. apply (proj1 (sort_pairs_in _ _)) in Hq. apply Hdn. destruct q as [d s]. apply in_combine_l in Hq. exact Hq.
  - rewrite sort_pairs_length, combine_length, <- Hlen, Nat.min_id.
    pose proof (filter_len_compl (fun j => existsb (Nat.eqb j) src) (seq 0 n)) as Hc.
    rewrite seq_length in Hc. rewrite filter_in_len in Hc; [lia|exact Hs|apply seq_NoDup|].
    intros x Hx. apply in_seq. specialize (Hsn x Hx). lia.
Qed.

Lemma zin_mono n k a : zin n a = true -> zin (n + k) a = true.
Proof. intros H. apply zin_true in H. apply zin_true. rewrite Nat2Z.inj_add. lia. Qed.
Lemma forallb_zin_mono n k l : forallb (zin n) l = true -> forallb (zin (n + k)) l = true.
Proof.
  intros H. apply forallb_forall. intros x Hx. apply zin_mono. exact (proj1 (forallb_forall _ _) H x Hx).
Qed.
Lemma in_map_to_nat_lt n l x : forallb (zin n) l = true -> In x (map Z.to_nat l) -> x < n.
Proof.
  intros H Hx. apply in_map_iff in Hx. destruct Hx as [z [<- Hz]]. apply (proj1 (forallb_forall _ _) H) in Hz.
  apply zin_true in Hz. lia.
Qed.

(* an in-range operation on the leading axes of an array with k further (item) axes permutes the leading axes the
   same way and leaves the item axes where they are *)
Theorem nop_frame o n k P :
  nop_inrange o n = true -> nop_perm o n = Some P -> nop_perm o (n + k) = Some (P ++ seq n k).
Proof.
  intros Hin Hp. destruct o as [|a b|a b|s d]; cbn [nop_perm nop_inrange] in *.
  - injection Hp as <-. rewrite seq_app. reflexivity.
  - apply andb_true_iff in Hin. destruct Hin as [Ha Hb]. unfold swap_perm in *.
    rewrite !norm_axis_frame by assumption. apply zin_true in Ha. apply zin_true in Hb.
    rewrite !norm_axis_nonneg in * by assumption. injection Hp as <-. rewrite swapP_frame by lia. reflexivity.
  - apply andb_true_iff in Hin. destruct Hin as [Hin Hb2]. apply andb_true_iff in Hin. destruct Hin as [Ha Hb1].
    apply Z.leb_le in Hb1. apply Z.leb_le in Hb2. unfold roll_perm in *. rewrite norm_axis_frame by assumption.
    apply zin_true in Ha. rewrite norm_axis_nonneg in * by assumption. rewrite roll_start_norm in *. cbv zeta in *.
    destruct (Z.ltb_spec b 0); [lia|]. destruct (Z.ltb_spec b 0); [lia|].
    destruct (Z.geb_spec b (Z.of_nat n + 1)); [lia|]. destruct (Z.geb_spec b (Z.of_nat (n + k) + 1)); [lia|].
    cbn [orb] in *. injection Hp as <-. rewrite rollP_frame; [reflexivity|lia|].
    destruct (Nat.ltb_spec (Z.to_nat a) (Z.to_nat b)); lia.
  - apply andb_true_iff in Hin. destruct Hin as [Hs Hd]. unfold move_perm in *.
    rewrite !norm_axes_inrange in * by (assumption || (apply forallb_zin_mono; assumption)).
    destruct (nodupb (map Z.to_nat s)) eqn:E1; cbn [andb] in *; [|discriminate Hp].
    destruct (nodupb (map Z.to_nat d)) eqn:E2; cbn [andb] in *; [|discriminate Hp].
    destruct (Nat.eqb_spec (length (map Z.to_nat s)) (length (map Z.to_nat d))) as [El|]; [|discriminate Hp].
    injection Hp as <-. f_equal. apply moveP_frame; [apply nodupb_NoDup; exact E1|apply nodupb_NoDup; exact E2|exact El| |].
    + intros x Hx. exact (in_map_to_nat_lt n s x Hs Hx).
    + intros x Hx. exact (in_map_to_nat_lt n d x Hd Hx).
Qed.

(* ---- the permutations of ShpModel are the ones C15Model's NumPy functions transpose by ---- *)
Lemma np_swapaxes_perm a b s : np_swapaxes a b s = option_map (fun P => np_transpose P s) (swap_perm a b (length s)).
Proof. unfold np_swapaxes, swap_perm. destruct (norm_axis (length s) a); [|reflexivity]. destruct (norm_axis (length s) b); reflexivity. Qed.
Lemma np_rollaxis_perm a b s : np_rollaxis a b s = option_map (fun P => np_transpose P s) (roll_perm a b (length s)).
Proof.
  unfold np_rollaxis, roll_perm. cbv zeta. destruct (norm_axis (length s) a); [|reflexivity].
  destruct (roll_start (length s) n b); reflexivity.
Qed.
Lemma np_moveaxis_perm a b s : np_moveaxis a b s = option_map (fun P => np_transpose P s) (move_perm a b (length s)).
Proof.
  unfold np_moveaxis, move_perm. cbv zeta. destruct (norm_axes (length s) a); [|reflexivity].
  destruct (norm_axes (length s) b); [|reflexivity].
  destruct (nodupb l && nodupb l0 && Nat.eqb (length l) (length l0)); reflexivity.
Qed.
