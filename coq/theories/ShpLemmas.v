(* Lemmas for the regenerated axis plans (ShpModel.v): NumPy's axis normalisation in the form the code's prologues
   compute it, identities of the permutations, and the frame lemmas that make a leading-axis operation on the values
   array (leading + item axes) the same relabeling of the leading axes with the item axes left alone. *)
From Coq Require Import List Arith ZArith Bool Lia.
From PM Require Import Base Mask C15Model ShpModel.
Import ListNotations.

(* case analysis on every integer comparison of a goal, innermost first *)
Ltac no_if t := lazymatch t with context [if _ then _ else _] => fail | _ => idtac end.
Ltac zstep :=
  match goal with
  | |- context [Z.ltb ?x ?y] => no_if x; no_if y; destruct (Z.ltb_spec x y)
  | |- context [Z.leb ?x ?y] => no_if x; no_if y; destruct (Z.leb_spec x y)
  | |- context [Z.geb ?x ?y] => no_if x; no_if y; destruct (Z.geb_spec x y)
  | |- context [Z.gtb ?x ?y] => no_if x; no_if y; destruct (Z.gtb_spec x y)
  | |- context [Z.eqb ?x ?y] => no_if x; no_if y; destruct (Z.eqb_spec x y)
  | |- context [Nat.eqb ?x ?y] => no_if x; no_if y; destruct (Nat.eqb_spec x y)
  | |- context [existsb ?f ?l] => destruct (existsb f l)
  end; cbv iota; cbn [orb andb negb]; try lia.
Ltac zb := repeat zstep.

(* normalize_axis_index, as "add n when negative, then range-check" *)
Lemma norm_axis_norm n a :
  norm_axis n a =
  let a' := (if Z.ltb a 0 then a + Z.of_nat n else a)%Z in
  if (Z.ltb a' 0 || Z.geb a' (Z.of_nat n))%bool then None else Some (Z.to_nat a').
Proof.
  unfold norm_axis. cbv zeta.
  destruct (Z.ltb_spec a 0); destruct (Z.leb_spec (- Z.of_nat n) a); destruct (Z.ltb_spec a (Z.of_nat n));
    cbn [andb];
    match goal with |- context [Z.ltb ?x 0] => destruct (Z.ltb_spec x 0) end;
    match goal with |- context [Z.geb ?x ?y] => destruct (Z.geb_spec x y) end; cbn [orb]; try reflexivity; lia.
Qed.

Lemma norm_axis_nonneg n a : (0 <= a < Z.of_nat n)%Z -> norm_axis n a = Some (Z.to_nat a).
Proof.
  intros H. rewrite norm_axis_norm. cbv zeta.
  destruct (Z.ltb_spec a 0); [lia|].
  destruct (Z.ltb_spec a 0); [lia|]. destruct (Z.geb_spec a (Z.of_nat n)); [lia|]. reflexivity.
Qed.

Lemma zin_true n a : zin n a = true <-> (0 <= a < Z.of_nat n)%Z.
Proof. unfold zin. rewrite andb_true_iff, Z.leb_le, Z.ltb_lt. tauto. Qed.

Lemma swapP_same a n : swapP a a n = seq 0 n.
Proof.
  unfold swapP. transitivity (map (fun x : nat => x) (seq 0 n)); [|apply map_id]. apply map_ext. intros k.
  destruct (Nat.eqb_spec k a); congruence.
Qed.

(* frame: swapping two leading axes of an array with k further (item) axes *)
Lemma swapP_frame a b n k : a < n -> b < n -> swapP a b (n + k) = swapP a b n ++ seq n k.
Proof.
  intros Ha Hb. unfold swapP. rewrite seq_app, map_app. f_equal.
  cbn [Nat.add]. transitivity (map (fun x : nat => x) (seq n k)); [|apply map_id].
  apply map_ext_in. intros x Hx. apply in_seq in Hx.
  destruct (Nat.eqb_spec x a); [lia|]. destruct (Nat.eqb_spec x b); [lia|]. reflexivity.
Qed.

Lemma remove_nat_app_l x l t : In x l -> remove_nat x (l ++ t) = remove_nat x l ++ t.
Proof.
  induction l as [|y l IH]; cbn [remove_nat app]; intros H; [destruct H|].
  destruct (Nat.eqb_spec y x); [reflexivity|]. destruct H as [H|H]; [congruence|]. rewrite IH by exact H. reflexivity.
Qed.
Lemma insert_at_app_l k x l t : k <= length l -> insert_at k x (l ++ t) = insert_at k x l ++ t.
Proof.
  revert l. induction k as [|k IH]; intros l H; [destruct l; reflexivity|].
  destruct l as [|y l]; cbn [length] in H; [lia|]. cbn [insert_at app]. rewrite IH by lia. reflexivity.
Qed.
Lemma remove_nat_length x l : In x l -> length (remove_nat x l) = length l - 1.
Proof.
  induction l as [|y l IH]; cbn [remove_nat length]; intros H; [destruct H|].
  destruct (Nat.eqb_spec y x); [lia|]. destruct H as [H|H]; [congruence|].
  cbn [length]. rewrite IH by exact H. destruct l; [destruct H|cbn [length]; lia].
Qed.

(* frame: rolling a leading axis of an array with k further axes *)
Lemma rollP_frame ax st n k : ax < n -> st <= n - 1 -> rollP ax st (n + k) = rollP ax st n ++ seq n k.
Proof.
  intros Ha Hs. unfold rollP. rewrite seq_app.
  assert (Hin : In ax (seq 0 n)) by (apply in_seq; lia).
  rewrite remove_nat_app_l by exact Hin.
  rewrite insert_at_app_l; [reflexivity|]. rewrite remove_nat_length by exact Hin. rewrite seq_length. lia.
Qed.

(* the code's own "negative means from the end" on an already range-checked axis is NumPy's *)
Lemma roll_start_norm n ax start :
  roll_start n ax start =
  let st := (if Z.ltb start 0 then start + Z.of_nat n else start)%Z in
  if (Z.ltb st 0 || Z.geb st (Z.of_nat n + 1))%bool then None
  else Some (if Nat.ltb ax (Z.to_nat st) then Z.to_nat st - 1 else Z.to_nat st).
Proof.
  unfold roll_start. cbv zeta.
  set (st := (if Z.ltb start 0 then (start + Z.of_nat n)%Z else start)).
  destruct (Z.leb_spec 0 st); destruct (Z.leb_spec st (Z.of_nat n)); destruct (Z.ltb_spec st 0);
    destruct (Z.geb_spec st (Z.of_nat n + 1)); cbn [andb orb]; try reflexivity; lia.
Qed.

(* ---- lists of axes (move_axis) ---- *)
Lemma norm_axis_zmod r a : 1 <= r ->
  norm_axis r a = if zout (Z.of_nat r) a then None else Some (Z.to_nat (a mod Z.of_nat r)).
Proof.
  intros Hr. unfold norm_axis, zout.
  destruct (Z.leb_spec (- Z.of_nat r) a); destruct (Z.ltb_spec a (Z.of_nat r)); destruct (Z.ltb_spec a (- Z.of_nat r));
    destruct (Z.geb_spec a (Z.of_nat r)); cbn [andb orb]; try reflexivity; try lia.
  f_equal. f_equal. destruct (Z.ltb_spec a 0).
  - rewrite <- (Z_mod_plus_full a 1 (Z.of_nat r)). rewrite Z.mod_small; lia.
  - rewrite Z.mod_small; lia.
Qed.

Lemma norm_axes_zmod r l : 1 <= r ->
  norm_axes r l = if existsb (zout (Z.of_nat r)) l then None else Some (map (fun x => Z.to_nat (x mod Z.of_nat r)) l).
Proof.
  intros Hr. induction l as [|a l IH]; [reflexivity|].
  cbn [norm_axes existsb map]. rewrite norm_axis_zmod by exact Hr. rewrite IH.
  destruct (zout (Z.of_nat r) a); [reflexivity|]. cbn [orb]. destruct (existsb (zout (Z.of_nat r)) l); reflexivity.
Qed.

Lemma mod_inrange r l : 1 <= r -> forallb (zin r) (map (fun x => (x mod Z.of_nat r)%Z) l) = true.
Proof.
  intros Hr. apply forallb_forall. intros y Hy. apply in_map_iff in Hy. destruct Hy as [x [<- _]].
  apply zin_true. apply Z.mod_pos_bound. lia.
Qed.

Lemma norm_axes_inrange r l : forallb (zin r) l = true -> norm_axes r l = Some (map Z.to_nat l).
Proof.
  induction l as [|a l IH]; [reflexivity|]. cbn [forallb norm_axes map]. intros H.
  apply andb_true_iff in H. destruct H as [Ha Hl]. apply zin_true in Ha.
  rewrite norm_axis_nonneg by exact Ha. rewrite IH by exact Hl. reflexivity.
Qed.

Lemma existsb_to_nat x t : (0 <= x)%Z -> forallb (Z.leb 0) t = true ->
  existsb (Nat.eqb (Z.to_nat x)) (map Z.to_nat t) = existsb (Z.eqb x) t.
Proof.
  intros Hx. induction t as [|y t IH]; [reflexivity|]. cbn [forallb map existsb]. intros H.
  apply andb_true_iff in H. destruct H as [Hy Ht]. apply Z.leb_le in Hy. rewrite IH by exact Ht. f_equal.
  destruct (Nat.eqb_spec (Z.to_nat x) (Z.to_nat y)); destruct (Z.eqb_spec x y); try reflexivity; lia.
Qed.

Lemma zdistinct_le l : length (zdistinct l) <= length l.
Proof. induction l as [|x t IH]; [apply le_n|]. cbn [zdistinct length]. destruct (existsb (Z.eqb x) t); cbn [length]; lia. Qed.

(* len(set(l)) == len(l) is "no entry twice" *)
Lemma nodupb_zdistinct l : forallb (Z.leb 0) l = true ->
  nodupb (map Z.to_nat l) = Nat.eqb (length (zdistinct l)) (length l).
Proof.
  induction l as [|x t IH]; [reflexivity|]. cbn [forallb map nodupb zdistinct length]. intros H.
  apply andb_true_iff in H. destruct H as [Hx Ht]. apply Z.leb_le in Hx.
  rewrite existsb_to_nat by assumption. rewrite IH by exact Ht.
  destruct (existsb (Z.eqb x) t); cbn [negb andb length].
  - symmetry. apply Nat.eqb_neq. pose proof (zdistinct_le t). lia.
  - reflexivity.
Qed.

Lemma zin_nonneg r l : forallb (zin r) l = true -> forallb (Z.leb 0) l = true.
Proof.
  intros H. apply forallb_forall. intros x Hx. apply (proj1 (forallb_forall _ _) H) in Hx.
  apply zin_true in Hx. apply Z.leb_le. lia.
Qed.

(* ---- the rank= extension ---- *)
Lemma eff_rank_z n rank : option_map Z.of_nat (eff_rank n rank) = zrank (Z.of_nat n) (Z.of_nat rank).
Proof.
  unfold eff_rank, zrank. cbv zeta.
  destruct (Nat.eqb_spec rank 0) as [->|Hr].
  - cbn [Z.of_nat Z.eqb]. rewrite Nat.ltb_irrefl, Z.ltb_irrefl. cbn [option_map].
    destruct (Nat.eqb_spec n 0) as [->|Hn]; [reflexivity|]. destruct (Z.eqb_spec (Z.of_nat n) 0); [lia|reflexivity].
  - destruct (Z.eqb_spec (Z.of_nat rank) 0); [lia|].
    destruct (Nat.ltb_spec rank n); destruct (Z.ltb_spec (Z.of_nat rank) (Z.of_nat n)); try lia; [reflexivity|].
    cbn [option_map]. rewrite <- Nat.eqb_neq in Hr. rewrite Hr.
    destruct (Z.eqb_spec (Z.of_nat rank) 0); [lia|reflexivity].
Qed.
Lemma eff_rank_bounds n rank r : eff_rank n rank = Some r -> n <= r /\ 1 <= r.
Proof.
  intros Er. assert (Hz := eff_rank_z n rank). rewrite Er in Hz. cbn [option_map] in Hz. unfold zrank in Hz.
  cbv zeta in Hz. revert Hz. zb; intros Hz; try discriminate; injection Hz as Hz; lia.
Qed.
Lemma zrank_self r : (1 <= r)%Z -> zrank r r = Some r.
Proof. intros H. unfold zrank. cbv zeta. zb. reflexivity. Qed.

Lemma zlist_eq_refl l : zlist_eq l l = true.
Proof. induction l as [|x l IH]; [reflexivity|]. cbn [zlist_eq]. rewrite Z.eqb_refl, IH. reflexivity. Qed.
Lemma nop_eqb_refl o : nop_eqb o o = true.
Proof. destruct o; cbn [nop_eqb]; rewrite ?Z.eqb_refl, ?zlist_eq_refl; reflexivity. Qed.

(* padding first and then relabeling is relabeling the padded object *)
Lemma lead_plan_pad pad v m d d' n : (0 <= pad)%Z ->
  perm_of (lead_plan (PRel pad v m d) n) = perm_of (lead_plan (PRel 0 v m d') (n + Z.to_nat pad)).
Proof.
  intros H. cbn [lead_plan]. destruct (Z.ltb_spec pad 0); [lia|]. destruct (Z.ltb_spec 0 0); [lia|].
  replace (n + Z.to_nat pad + Z.to_nat 0) with (n + Z.to_nat pad) by (cbn; lia).
  destruct (nop_eqb v m && nop_inrange v (n + Z.to_nat pad)); [|reflexivity].
  destruct (nop_perm v (n + Z.to_nat pad)); reflexivity.
Qed.

(* swapping two axes inside a block of k axes that starts at off *)
Lemma seq_add off k : map (fun x => off + x) (seq 0 k) = seq off k.
Proof.
  revert off. induction k as [|k IH]; intros off; [reflexivity|]. cbn [seq map]. rewrite Nat.add_0_r. f_equal.
  rewrite <- seq_shift, map_map. rewrite <- (IH (S off)). apply map_ext. intros x. lia.
Qed.
Lemma swapP_block off a b k tail : a < k -> b < k ->
  swapP (off + a) (off + b) (off + k + tail) = seq 0 off ++ map (fun x => off + x) (swapP a b k) ++ seq (off + k) tail.
Proof.
  intros Ha Hb. unfold swapP. rewrite !seq_app, !map_app, <- app_assoc. cbn [Nat.add]. f_equal; [|f_equal].
  - transitivity (map (fun x : nat => x) (seq 0 off)); [|apply map_id]. apply map_ext_in. intros x Hx. apply in_seq in Hx.
    destruct (Nat.eqb_spec x (off + a)); [lia|]. destruct (Nat.eqb_spec x (off + b)); [lia|]. reflexivity.
  - rewrite <- (seq_add off k). rewrite !map_map. apply map_ext. intros x.
    destruct (Nat.eqb_spec (off + x) (off + a)); destruct (Nat.eqb_spec x a); try lia; try reflexivity.
    destruct (Nat.eqb_spec (off + x) (off + b)); destruct (Nat.eqb_spec x b); try lia; reflexivity.
  - transitivity (map (fun x : nat => x) (seq (off + k) tail)); [|apply map_id]. apply map_ext_in. intros x Hx. apply in_seq in Hx.
    destruct (Nat.eqb_spec x (off + a)); [lia|]. destruct (Nat.eqb_spec x (off + b)); [lia|]. reflexivity.
Qed.

(* ---- frame: a leading-axis operation applied to the values array (k further item axes) ---- *)
Lemma norm_axis_frame n k a : zin n a = true -> norm_axis (n + k) a = norm_axis n a.
Proof.
  intros H. apply zin_true in H. rewrite !norm_axis_nonneg; [reflexivity|lia|]. rewrite Nat2Z.inj_add. lia.
Qed.

Theorem nop_frame o n k P :
  match o with NMove _ _ => False | _ => True end ->
  nop_inrange o n = true -> nop_perm o n = Some P -> nop_perm o (n + k) = Some (P ++ seq n k).
Proof.
  intros Hk Hin Hp. destruct o as [|a b|a b|s d]; cbn [nop_perm nop_inrange] in *; [| | |destruct Hk].
  - injection Hp as <-. rewrite seq_app. reflexivity.
  - apply andb_true_iff in Hin. destruct Hin as [Ha Hb]. unfold swap_perm in *.
    rewrite !norm_axis_frame by assumption. apply zin_true in Ha. apply zin_true in Hb.
    rewrite !norm_axis_nonneg in * by assumption. injection Hp as <-. rewrite swapP_frame by lia. reflexivity.
  - apply andb_true_iff in Hin. destruct Hin as [Hin Hb2]. apply andb_true_iff in Hin. destruct Hin as [Ha Hb1].
    apply Z.leb_le in Hb1. apply Z.leb_le in Hb2. unfold roll_perm in *. rewrite norm_axis_frame by assumption.
    apply zin_true in Ha. rewrite norm_axis_nonneg in * by assumption. rewrite roll_start_norm in *. cbv zeta in *.
    destruct (Z.ltb_spec b 0); [lia|]. destruct (Z.ltb_spec b 0); [lia|].
    destruct (Z.geb_spec b (Z.of_nat n + 1)); [lia|]. destruct (Z.geb_spec b (Z.of_nat (n + k) + 1)); [lia|].
    cbn [orb] in *. injection Hp as <-. rewrite rollP_frame; [reflexivity|lia|].
    destruct (Nat.ltb_spec (Z.to_nat a) (Z.to_nat b)); lia.
Qed.

(* np.moveaxis: the same frame property, bounded (B): leading rank <= 4, up to 2 item axes, every pair of
   duplicate-free source / destination lists of equal length *)
Fixpoint sublists_upto (m : nat) (pool : list Z) : list (list Z) :=
  match m with
  | 0 => [[]]
  | S m' => [] :: flat_map (fun x => map (cons x) (sublists_upto m' pool)) pool
  end.
Definition move_frame_ok (n k : nat) : bool :=
  let pool := map Z.of_nat (seq 0 n) in
  forallb (fun s => forallb (fun d =>
     match nop_perm (NMove s d) n with
     | Some P => match nop_perm (NMove s d) (n + k) with
                 | Some Q => if nop_inrange (NMove s d) n then (if list_eq_dec Nat.eq_dec Q (P ++ seq n k) then true else false) else true
                 | None => false
                 end
     | None => true
     end) (sublists_upto n pool)) (sublists_upto n pool).
Theorem move_frame_B : forallb (fun n => forallb (move_frame_ok n) [0; 1; 2]) [0; 1; 2; 3; 4] = true.
Proof. vm_compute. reflexivity. Qed.

(* ---- the permutations of ShpModel are the ones C15Model's NumPy functions transpose by ---- *)
Lemma np_swapaxes_perm a b s : np_swapaxes a b s = option_map (fun P => np_transpose P s) (swap_perm a b (length s)).
Proof. unfold np_swapaxes, swap_perm. destruct (norm_axis (length s) a); [|reflexivity]. destruct (norm_axis (length s) b); reflexivity. Qed.
Lemma np_rollaxis_perm a b s : np_rollaxis a b s = option_map (fun P => np_transpose P s) (roll_perm a b (length s)).
Proof.
  unfold np_rollaxis, roll_perm. cbv zeta. destruct (norm_axis (length s) a); [|reflexivity].
  destruct (roll_start (length s) n b); reflexivity.
Qed.
Lemma np_moveaxis_perm a b s : np_moveaxis a b s = option_map (fun P => np_transpose P s) (move_perm a b (length s)).
Proof.
  unfold np_moveaxis, move_perm. cbv zeta. destruct (norm_axes (length s) a); [|reflexivity].
  destruct (norm_axes (length s) b); [|reflexivity].
  destruct (nodupb l && nodupb l0 && Nat.eqb (length l) (length l0)); reflexivity.
Qed.
