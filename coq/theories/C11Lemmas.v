(* C11 lemmas: all proofs about the pickling model. *)
From Coq Require Import List Arith ZArith Bool Lia.
From PM Require Import Base Mask C11Model.
Import ListNotations.

Arguments pack8 : simpl never.
Arguments bits_of : simpl never.
Arguments B : simpl never.
Arguments size : simpl nomatch.

(* ================= bits ================= *)
Lemma bits_of_pack8 b0 b1 b2 b3 b4 b5 b6 b7 :
  bits_of (pack8 b0 b1 b2 b3 b4 b5 b6 b7) = [b0; b1; b2; b3; b4; b5; b6; b7].
Proof. destruct b0, b1, b2, b3, b4, b5, b6, b7; reflexivity. Qed.

Lemma pack8_range b0 b1 b2 b3 b4 b5 b6 b7 :
  (0 <= pack8 b0 b1 b2 b3 b4 b5 b6 b7 < 256)%Z.
Proof. destruct b0, b1, b2, b3, b4, b5, b6, b7; vm_compute; split; congruence. Qed.

(* np.unpackbits(np.packbits(l))[:len(l)] == l *)
Lemma unpack_pack l : firstn (length l) (unpackbits (packbits l)) = l.
Proof.
  induction l as [l IH] using (well_founded_induction (well_founded_ltof _ (@length bool))).
  unfold ltof in IH.
  destruct l as [|b0 l]; [reflexivity|].
  destruct l as [|b1 l]; [cbn [packbits nth unpackbits flat_map]; rewrite bits_of_pack8; reflexivity|].
  destruct l as [|b2 l]; [cbn [packbits nth unpackbits flat_map]; rewrite bits_of_pack8; reflexivity|].
  destruct l as [|b3 l]; [cbn [packbits nth unpackbits flat_map]; rewrite bits_of_pack8; reflexivity|].
  destruct l as [|b4 l]; [cbn [packbits nth unpackbits flat_map]; rewrite bits_of_pack8; reflexivity|].
  destruct l as [|b5 l]; [cbn [packbits nth unpackbits flat_map]; rewrite bits_of_pack8; reflexivity|].
  destruct l as [|b6 l]; [cbn [packbits nth unpackbits flat_map]; rewrite bits_of_pack8; reflexivity|].
  destruct l as [|b7 l]; [cbn [packbits nth unpackbits flat_map]; rewrite bits_of_pack8; reflexivity|].
  cbn [packbits unpackbits flat_map]. rewrite bits_of_pack8.
  cbn [length app firstn]. do 8 f_equal.
  apply IH. cbn [length]. lia.
Qed.

Lemma packbits_range l : Forall (fun z => (0 <= z < 256)%Z) (packbits l).
Proof.
  induction l as [l IH] using (well_founded_induction (well_founded_ltof _ (@length bool))).
  unfold ltof in IH.
  do 8 (destruct l as [|? l]; [cbn [packbits]; repeat constructor; apply pack8_range|]).
  cbn [packbits]. constructor; [apply pack8_range|]. apply IH. cbn [length]. lia.
Qed.

(* ================= integers as bytes ================= *)
Lemma B_pos w : (0 < B w)%Z.
Proof. unfold B. apply Z.pow_pos_nonneg; lia. Qed.
Lemma B_S w : B (S w) = (256 * B w)%Z.
Proof. unfold B. rewrite Nat2Z.inj_succ, Z.pow_succ_r by lia. reflexivity. Qed.
Lemma B_0 : B 0 = 1%Z.
Proof. reflexivity. Qed.

Lemma le_bytes_length w : forall v, length (le_bytes w v) = w.
Proof. induction w as [|w IH]; intro v; simpl; auto. Qed.

Lemma le_val_le_bytes w : forall v, (0 <= v)%Z -> le_val (le_bytes w v) = (v mod B w)%Z.
Proof.
  induction w as [|w IH]; intros v Hv.
  - simpl. rewrite B_0, Z.mod_1_r. reflexivity.
  - cbn [le_bytes le_val]. rewrite IH by (apply Z.div_pos; lia).
    rewrite B_S. rewrite Z.rem_mul_r by (try lia; pose proof (B_pos w); lia). reflexivity.
Qed.

Definition in_range (w : nat) (sg : bool) (v : Z) : Prop :=
  if sg then (- B w <= 2 * v < B w)%Z else (0 <= v < B w)%Z.

(* decode width = encode width: the integer comes back *)
Lemma dec_enc_int w sg v : in_range w sg v -> dec_int w sg (enc_int w v) = v.
Proof.
  intro Hr. unfold dec_int, enc_int.
  pose proof (B_pos w) as HB.
  rewrite le_val_le_bytes by (apply Z.mod_pos_bound; lia).
  rewrite Z.mod_mod by lia.
  unfold in_range in Hr. destruct sg; cbn [andb].
  - destruct (Z_lt_le_dec v 0) as [Hn|Hp].
    + assert (E : (v mod B w = v + B w)%Z).
      { symmetry. apply Z.mod_unique with (q := (-1)%Z); lia. }
      rewrite E. destruct (Z.leb_spec (B w) (2 * (v + B w))); lia.
    + rewrite Z.mod_small by lia. destruct (Z.leb_spec (B w) (2 * v)); lia.
  - apply Z.mod_small. lia.
Qed.

(* a different decode width loses the value: the pinned tree decoded every array as int64 *)
Lemma enc_int_length w v : length (enc_int w v) = w.
Proof. apply le_bytes_length. Qed.

(* ================= chunk / concat ================= *)
Lemma chunk_concat {A} w (l : list (list A)) :
  Forall (fun r => length r = w) l -> chunk w (length l) (concat l) = l.
Proof.
  induction l as [|r l IH]; intro H; [reflexivity|].
  inversion H as [|? ? Hr Hl]; subst. cbn [length chunk concat].
  rewrite firstn_app, Nat.sub_diag, firstn_all, firstn_O, app_nil_r.
  rewrite skipn_app, Nat.sub_diag, skipn_all, skipn_O. cbn [app].
  rewrite IH; auto.
Qed.

Lemma concat_length_const {A} w (l : list (list A)) :
  Forall (fun r => length r = w) l -> length (concat l) = length l * w.
Proof.
  induction l as [|r l IH]; intro H; [reflexivity|].
  inversion H; subst. cbn [concat length]. rewrite app_length, IH; auto.
Qed.

(* ================= gather / scatter ================= *)
Fixpoint canon {A} (m : list bool) (d : A) (l : list A) : list A :=
  match m, l with
  | b :: m', x :: l' => (if b then d else x) :: canon m' d l'
  | _, _ => []
  end.

Lemma scatter_gather {A} (d : A) : forall m l, length l = length m ->
  scatter m d (gather m l) = canon m d l.
Proof.
  induction m as [|b m IH]; intros [|x l] H; try discriminate; [reflexivity|].
  cbn [gather]. destruct b; cbn [scatter canon]; rewrite IH; auto.
Qed.

Lemma canon_length {A} (d : A) : forall m l, length l = length m -> length (canon m d l) = length m.
Proof. induction m as [|b m IH]; intros [|x l] H; try discriminate; simpl; auto. Qed.

Lemma nth_canon {A} (d dd : A) : forall m l i, length l = length m -> i < length m ->
  nth i (canon m d l) dd = if nth i m false then d else nth i l dd.
Proof.
  induction m as [|b m IH]; intros [|x l] i H Hi; try discriminate; simpl in Hi; [lia|].
  destruct i as [|i]; [reflexivity|]. cbn [canon nth]. apply IH; simpl in *; lia.
Qed.

Lemma gather_Forall {A} (P : A -> Prop) : forall m l, Forall P l -> Forall P (gather m l).
Proof.
  induction m as [|b m IH]; intros [|x l] H; simpl; auto.
  inversion H; subst. destruct b; auto.
Qed.

Lemma gather_all_false {A} : forall m (l : list A), length l = length m ->
  existsb (fun b => b) m = false -> gather m l = l.
Proof.
  induction m as [|b m IH]; intros [|x l] H E; try discriminate; [reflexivity|].
  simpl in E. destruct b; [discriminate|]. simpl. f_equal. apply IH; auto.
Qed.
