(* C11 lemmas: all proofs about the pickling model. *)
From Coq Require Import List Arith ZArith Bool Lia.
From PM Require Import Base Mask C11Model.
Import ListNotations.

Arguments pack8 : simpl never.
Arguments bits_of : simpl never.
Arguments B : simpl never.
Arguments size : simpl nomatch.

(* ================= bits ================= *)
Lemma bits_of_pack8 b0 b1 b2 b3 b4 b5 b6 b7 :
  bits_of (pack8 b0 b1 b2 b3 b4 b5 b6 b7) = [b0; b1; b2; b3; b4; b5; b6; b7].
Proof. destruct b0, b1, b2, b3, b4, b5, b6, b7; reflexivity. Qed.

Lemma pack8_range b0 b1 b2 b3 b4 b5 b6 b7 :
  (0 <= pack8 b0 b1 b2 b3 b4 b5 b6 b7 < 256)%Z.
Proof. destruct b0, b1, b2, b3, b4, b5, b6, b7; vm_compute; split; congruence. Qed.

(* np.unpackbits(np.packbits(l))[:len(l)] == l *)
Lemma unpack_pack l : firstn (length l) (unpackbits (packbits l)) = l.
Proof.
  induction l as [l IH] using (well_founded_induction (well_founded_ltof _ (@length bool))).
  unfold ltof in IH.
  destruct l as [|b0 l]; [reflexivity|].
  destruct l as [|b1 l]; [cbn [packbits nth unpackbits flat_map]; rewrite bits_of_pack8; reflexivity|].
  destruct l as [|b2 l]; [cbn [packbits nth unpackbits flat_map]; rewrite bits_of_pack8; reflexivity|].
  destruct l as [|b3 l]; [cbn [packbits nth unpackbits flat_map]; rewrite bits_of_pack8; reflexivity|].
  destruct l as [|b4 l]; [cbn [packbits nth unpackbits flat_map]; rewrite bits_of_pack8; reflexivity|].
  destruct l as [|b5 l]; [cbn [packbits nth unpackbits flat_map]; rewrite bits_of_pack8; reflexivity|].
  destruct l as [|b6 l]; [cbn [packbits nth unpackbits flat_map]; rewrite bits_of_pack8; reflexivity|].
  destruct l as [|b7 l]; [cbn [packbits nth unpackbits flat_map]; rewrite bits_of_pack8; reflexivity|].
  cbn [packbits unpackbits flat_map]. rewrite bits_of_pack8.
  cbn [length app firstn]. do 8 f_equal.
  apply IH. cbn [length]. lia.
Qed.

Lemma packbits_range l : Forall (fun z => (0 <= z < 256)%Z) (packbits l).
Proof.
  induction l as [l IH] using (well_founded_induction (well_founded_ltof _ (@length bool))).
  unfold ltof in IH.
  do 8 (destruct l as [|? l]; [cbn [packbits]; repeat constructor; apply pack8_range|]).
  cbn [packbits]. constructor; [apply pack8_range|]. apply IH. cbn [length]. lia.
Qed.

(* ================= integers as bytes ================= *)
Lemma B_pos w : (0 < B w)%Z.
Proof. unfold B. apply Z.pow_pos_nonneg; lia. Qed.
Lemma B_S w : B (S w) = (256 * B w)%Z.
Proof. unfold B. rewrite Nat2Z.inj_succ, Z.pow_succ_r by lia. reflexivity. Qed.
Lemma B_0 : B 0 = 1%Z.
Proof. reflexivity. Qed.

Lemma le_bytes_length w : forall v, length (le_bytes w v) = w.
Proof. induction w as [|w IH]; intro v; simpl; auto. Qed.

Lemma le_val_le_bytes w : forall v, (0 <= v)%Z -> le_val (le_bytes w v) = (v mod B w)%Z.
Proof.
  induction w as [|w IH]; intros v Hv.
  - simpl. rewrite B_0, Z.mod_1_r. reflexivity.
  - cbn [le_bytes le_val]. rewrite IH by (apply Z.div_pos; lia).
    rewrite B_S. rewrite Z.rem_mul_r by (try lia; pose proof (B_pos w); lia). reflexivity.
Qed.

Definition in_range (w : nat) (sg : bool) (v : Z) : Prop :=
  if sg then (- B w <= 2 * v < B w)%Z else (0 <= v < B w)%Z.

(* decode width = encode width: the integer comes back *)
Lemma dec_enc_int w sg v : in_range w sg v -> dec_int w sg (enc_int w v) = v.
Proof.
  intro Hr. unfold dec_int, enc_int.
  pose proof (B_pos w) as HB.
  rewrite le_val_le_bytes by (apply Z.mod_pos_bound; lia).
  rewrite Z.mod_mod by lia.
  unfold in_range in Hr. destruct sg; cbn [andb].
  - destruct (Z_lt_le_dec v 0) as [Hn|Hp].
    + assert (E : (v mod B w = v + B w)%Z).
      { symmetry. apply Z.mod_unique with (q := (-1)%Z); lia. }
      rewrite E. destruct (Z.leb_spec (B w) (2 * (v + B w))); lia.
    + rewrite Z.mod_small by lia. destruct (Z.leb_spec (B w) (2 * v)); lia.
  - apply Z.mod_small. lia.
Qed.

(* a different decode width loses the value: the pinned tree decoded every array as int64 *)
Lemma enc_int_length w v : length (enc_int w v) = w.
Proof. apply le_bytes_length. Qed.

(* ================= chunk / concat ================= *)
Lemma chunk_concat {A} w (l : list (list A)) :
  Forall (fun r => length r = w) l -> chunk w (length l) (concat l) = l.
Proof.
  induction l as [|r l IH]; intro H; [reflexivity|].
  inversion H as [|? ? Hr Hl]; subst. cbn [length chunk concat].
  rewrite firstn_app, Nat.sub_diag, firstn_all, firstn_O, app_nil_r.
  rewrite skipn_app, Nat.sub_diag, skipn_all, skipn_O. cbn [app].
  rewrite IH; auto.
Qed.

Lemma concat_length_const {A} w (l : list (list A)) :
  Forall (fun r => length r = w) l -> length (concat l) = length l * w.
Proof.
  induction l as [|r l IH]; intro H; [reflexivity|].
  inversion H; subst. cbn [concat length]. rewrite app_length, IH; auto.
Qed.

(* C11_int_width: an integer array decoded with the width it was encoded with comes back *)
Lemma ints_roundtrip w sg (l : list Z) : Forall (in_range w sg) l ->
  map (dec_int w sg) (chunk w (length l) (concat (map (enc_int w) l))) = l.
Proof.
  intro H. rewrite <- (map_length (enc_int w) l).
  rewrite chunk_concat.
  - rewrite map_map. rewrite map_ext_in with (g := fun x => x); [apply map_id|].
    intros x Hx. apply dec_enc_int. rewrite Forall_forall in H. auto.
  - apply Forall_forall. intros r Hr. apply in_map_iff in Hr. destruct Hr as (x & <- & _).
    apply enc_int_length.
Qed.

(* ================= gather / scatter ================= *)
Fixpoint canon {A} (m : list bool) (d : A) (l : list A) : list A :=
  match m, l with
  | b :: m', x :: l' => (if b then d else x) :: canon m' d l'
  | _, _ => []
  end.

Lemma scatter_gather {A} (d : A) : forall m l, length l = length m ->
  scatter m d (gather m l) = canon m d l.
Proof.
  induction m as [|b m IH]; intros [|x l] H; try discriminate; [reflexivity|].
  cbn [gather]. destruct b; cbn [scatter canon]; rewrite IH; auto.
Qed.

Lemma canon_length {A} (d : A) : forall m l, length l = length m -> length (canon m d l) = length m.
Proof. induction m as [|b m IH]; intros [|x l] H; try discriminate; simpl; auto. Qed.

Lemma nth_canon {A} (d dd : A) : forall m l i, length l = length m -> i < length m ->
  nth i (canon m d l) dd = if nth i m false then d else nth i l dd.
Proof.
  induction m as [|b m IH]; intros [|x l] i H Hi; try discriminate; simpl in Hi; [lia|].
  destruct i as [|i]; [reflexivity|]. cbn [canon nth]. apply IH; simpl in *; lia.
Qed.

Lemma gather_Forall {A} (P : A -> Prop) : forall m l, Forall P l -> Forall P (gather m l).
Proof.
  induction m as [|b m IH]; intros [|x l] H; simpl; auto.
  inversion H; subst. destruct b; auto.
Qed.

Lemma gather_all_false {A} : forall m (l : list A), length l = length m ->
  existsb (fun b => b) m = false -> gather m l = l.
Proof.
  induction m as [|b m IH]; intros [|x l] H E; try discriminate; [reflexivity|].
  simpl in E. destruct b; [discriminate|]. simpl. f_equal. apply IH; auto.
Qed.

(* ================= row-major enumeration: the list form of an array ================= *)
Lemma size_pos_of_lt s k : k < size s -> 0 < size s.
Proof. lia. Qed.

Lemma ravel_nth_all_mi s : forall k, k < size s -> ravel s (nth k (all_mi s) []) = k.
Proof.
  induction s as [|n s IH]; intros k Hk.
  - simpl in *. assert (k = 0) by lia. subst. reflexivity.
  - cbn [size] in Hk. cbn [all_mi].
    assert (Hc : 0 < size s) by (destruct (size s); lia).
    pose proof (Nat.div_mod k (size s) ltac:(lia)) as Hdm.
    pose proof (Nat.mod_upper_bound k (size s) ltac:(lia)) as Hr.
    assert (Hq : k / size s < n).
    { apply Nat.div_lt_upper_bound; lia. }
    rewrite Hdm at 1. rewrite (Nat.mul_comm (size s)).
    rewrite nth_flat_map_const with (c := size s) (da := 0).
    + rewrite seq_nth by lia. cbn [plus].
      rewrite nth_indep with (d' := (k / size s) :: []) by (rewrite map_length, all_mi_length; lia).
      rewrite (map_nth (cons (k / size s)) (all_mi s) [] (k mod size s)).
      cbn [ravel]. rewrite IH by lia. lia.
    + intro x. rewrite map_length. apply all_mi_length.
    + lia.
    + rewrite seq_length. lia.
Qed.

(* a list of the right length is the list form of its own index function *)
Lemma list_as_map s (l : list bool) d : length l = size s ->
  map (fun i => nth (ravel s i) l d) (all_mi s) = l.
Proof.
  intro H. apply nth_ext with (d := d) (d' := d).
  - rewrite map_length, all_mi_length. auto.
  - intros k Hk. rewrite map_length, all_mi_length in Hk.
    rewrite nth_indep with (d' := (fun i => nth (ravel s i) l d) [])
      by (rewrite map_length, all_mi_length; lia).
    rewrite (map_nth (fun i => nth (ravel s i) l d) (all_mi s) [] k).
    rewrite ravel_nth_all_mi by lia. reflexivity.
Qed.

Lemma inb_length s : forall i, inb s i = true -> length i = length s.
Proof.
  induction s as [|n s IH]; intros [|k i] H; simpl in *; try discriminate; auto.
  apply andb_true_iff in H. destruct H as [_ H]. f_equal. auto.
Qed.

Lemma inb_nth s : forall i a, inb s i = true -> a < length s -> nth a i 0 < nth a s 0.
Proof.
  induction s as [|n s IH]; intros [|k i] a H Ha; simpl in *; try discriminate; try lia.
  apply andb_true_iff in H. destruct H as [H1 H2]. apply Nat.ltb_lt in H1.
  destruct a as [|a]; auto. apply IH; auto. lia.
Qed.

(* ================= corners ================= *)
Lemma find_first_le (p : nat -> bool) : forall n start k,
  start <= k < start + n -> p k = true ->
  exists x, find p (seq start n) = Some x /\ x <= k /\ p x = true.
Proof.
  induction n as [|n IH]; intros start k Hk Hp; [lia|].
  cbn [seq find]. destruct (p start) eqn:E.
  - exists start. repeat split; auto. lia.
  - assert (k <> start) by (intro; subst; congruence).
    destruct (IH (S start) k ltac:(lia) Hp) as (x & Hx & Hle & Hpx). exists x. auto.
Qed.

Lemma find_last_ge (p : nat -> bool) : forall n k, k < n -> p k = true ->
  exists x, find p (rev (seq 0 n)) = Some x /\ k <= x /\ x < n /\ p x = true.
Proof.
  induction n as [|n IH]; intros k Hk Hp; [lia|].
  rewrite seq_S, rev_app_distr. cbn [rev app plus find]. destruct (p n) eqn:E.
  - exists n. repeat split; auto; lia.
  - assert (k <> n) by (intro; subst; congruence).
    destruct (IH k ltac:(lia) Hp) as (x & Hx & Hle & Hlt & Hpx). exists x. repeat split; auto.
Qed.

Lemma occupied_intro s m a i : inb s i = true -> m i = false ->
  occupied s m a (nth a i 0) = true.
Proof.
  intros Hi Hm. unfold occupied. apply existsb_exists. exists i. split.
  - apply in_all_mi; auto.
  - rewrite Hm, Nat.eqb_refl. reflexivity.
Qed.

Lemma occupied_elim s m a k : occupied s m a k = true ->
  exists i, inb s i = true /\ m i = false /\ nth a i 0 = k.
Proof.
  unfold occupied. intro H. apply existsb_exists in H. destruct H as (i & Hi & H).
  apply andb_true_iff in H. destruct H as [H1 H2].
  exists i. repeat split.
  - apply in_all_mi; auto.
  - destruct (m i); auto; discriminate.
  - apply Nat.eqb_eq; auto.
Qed.

Lemma nth_map_seq (f : nat -> nat) n a : a < n -> nth a (map f (seq 0 n)) 0 = f a.
Proof.
  intro H. rewrite nth_indep with (d' := f 0) by (rewrite map_length, seq_length; auto).
  rewrite map_nth, seq_nth; auto.
Qed.

Lemma corners_length s m :
  length (fst (find_corners s m)) = length s /\ length (snd (find_corners s m)) = length s.
Proof. unfold find_corners; cbn [fst snd]. rewrite !map_length, !seq_length. auto. Qed.

(* every unmasked element lies inside the corners *)
Lemma corners_bound s m i a : inb s i = true -> m i = false -> a < length s ->
  nth a (fst (find_corners s m)) 0 <= nth a i 0 < nth a (snd (find_corners s m)) 0.
Proof.
  intros Hi Hm Ha. unfold find_corners; cbn [fst snd]. rewrite !nth_map_seq by auto.
  pose proof (occupied_intro s m a i Hi Hm) as Ho.
  pose proof (inb_nth s i a Hi Ha) as Hlt.
  unfold first_occ, last_occ.
  destruct (find_first_le (occupied s m a) (nth a s 0) 0 (nth a i 0) ltac:(lia) Ho) as (x & -> & Hx & _).
  destruct (find_last_ge (occupied s m a) (nth a s 0) (nth a i 0) Hlt Ho) as (y & -> & Hy & _ & _).
  lia.
Qed.

(* the corners are tight: each face of the box holds an unmasked element *)
Lemma corners_tight s m i0 a : inb s i0 = true -> m i0 = false -> a < length s ->
  (exists i, inb s i = true /\ m i = false /\ nth a i 0 = nth a (fst (find_corners s m)) 0) /\
  (exists i, inb s i = true /\ m i = false /\ S (nth a i 0) = nth a (snd (find_corners s m)) 0).
Proof.
  intros Hi Hm Ha. unfold find_corners; cbn [fst snd]. rewrite !nth_map_seq by auto.
  pose proof (occupied_intro s m a i0 Hi Hm) as Ho.
  pose proof (inb_nth s i0 a Hi Ha) as Hlt.
  unfold first_occ, last_occ.
  destruct (find_first_le (occupied s m a) (nth a s 0) 0 (nth a i0 0) ltac:(lia) Ho) as (x & -> & _ & Hpx).
  destruct (find_last_ge (occupied s m a) (nth a s 0) (nth a i0 0) Hlt Ho) as (y & -> & _ & _ & Hpy).
  split.
  - destruct (occupied_elim _ _ _ _ Hpx) as (i & H1 & H2 & H3). exists i. auto.
  - destruct (occupied_elim _ _ _ _ Hpy) as (i & H1 & H2 & H3). exists i. rewrite H3. auto.
Qed.

Lemma inbox_nth : forall i lo hi, length lo = length i -> length hi = length i ->
  (forall a, a < length i -> nth a lo 0 <= nth a i 0 < nth a hi 0) -> inbox lo hi i = true.
Proof.
  induction i as [|k i IH]; intros [|l lo] [|h hi] Hl Hh H; try discriminate; [reflexivity|].
  cbn [inbox]. pose proof (H 0 ltac:(simpl; lia)) as H0. cbn [nth] in H0.
  destruct (Nat.leb_spec l k); [|lia]. destruct (Nat.ltb_spec k h); [|lia]. cbn [andb].
  apply IH; simpl in *; try lia.
  intros a Ha. apply (H (S a)). lia.
Qed.

Lemma inbox_inb : forall i lo hi, inbox lo hi i = true ->
  inb (sub_mi hi lo) (sub_mi i lo) = true /\ add_mi (sub_mi i lo) lo = i.
Proof.
  induction i as [|k i IH]; intros [|l lo] [|h hi] H; simpl in *; try discriminate; auto.
  apply andb_true_iff in H. destruct H as [H H3]. apply andb_true_iff in H. destruct H as [H1 H2].
  apply Nat.leb_le in H1. apply Nat.ltb_lt in H2.
  destruct (IH _ _ H3) as [Ha Hb]. rewrite Ha, Hb. split.
  - destruct (Nat.ltb_spec (k - l) (h - l)); auto. lia.
  - f_equal. lia.
Qed.

Lemma unmasked_inbox s m i : inb s i = true -> m i = false ->
  inbox (fst (find_corners s m)) (snd (find_corners s m)) i = true.
Proof.
  intros Hi Hm. pose proof (corners_length s m) as [H1 H2]. pose proof (inb_length s i Hi) as Hl.
  apply inbox_nth; try congruence.
  intros a Ha. apply corners_bound; auto. congruence.
Qed.

Lemma crop_length m lo hi : length (crop m lo hi) = size (sub_mi hi lo).
Proof. unfold crop. rewrite map_length. apply all_mi_length. Qed.

(* crop and uncrop are inverse on masks that are all True outside the box; with the
   corners of _find_corners that is every mask *)
Lemma uncrop_crop s (l : list bool) : length l = size s ->
  let m := mfun s l in
  let lo := fst (find_corners s m) in
  let hi := snd (find_corners s m) in
  uncrop s lo hi (sub_mi hi lo) (crop m lo hi) = l.
Proof.
  intros Hlen m lo hi. unfold uncrop.
  rewrite <- (list_as_map s l false Hlen) at 1.
  apply map_ext_in. intros i Hi. apply in_all_mi in Hi.
  destruct (inbox lo hi i) eqn:E.
  - destruct (inbox_inb _ _ _ E) as [Ha Hb].
    unfold crop.
    pose proof (nth_to_list (mkarr (sub_mi hi lo) (fun j => m (add_mi j lo))) (sub_mi i lo) true Ha) as Hn.
    unfold to_list in Hn. cbn [ashape aget] in Hn.
    transitivity (m (add_mi (sub_mi i lo) lo)); [exact Hn|]. rewrite Hb. reflexivity.
  - fold (m i). destruct (m i) eqn:Em; auto.
    pose proof (unmasked_inbox s m i Hi Em) as Hc. fold lo hi in Hc. congruence.
Qed.

(* ================= the closed form of the round trip ================= *)
Definition pat_ok (z : Z) : Prop := (0 <= z < 18446744073709551616)%Z.
Definition byte_ok (z : Z) : Prop := (0 <= z < 256)%Z.
Definition val_ok (k : vkind) (z : Z) : Prop :=
  match k with
  | KFloat => pat_ok z
  | KInt w sg => in_range w sg z
  | KBool => z = 0%Z \/ z = 1%Z
  end.
Definition row_ok (k : vkind) (isz : nat) (r : list Z) : Prop := length r = isz /\ Forall (val_ok k) r.

Definition wf0 (q : q0) : Prop :=
  Forall (row_ok (qkind q) (isz_of (qnumer q) (qdenom q))) (qvals q) /\
  match qmask q with
  | LA l => length l = size (qshape q) /\ length (qvals q) = size (qshape q) /\ qscalar q = false
  | LS _ => True
  end.

Definition restored_mask (q : q0) : mrepL :=
  if qscalar q then qmask q
  else if all_masked (qmask q) then LS true
  else if any_masked (qmask q) then qmask q else LS false.
Definition restored_vals (q : q0) : list (list Z) :=
  if qscalar q then qvals q
  else if all_masked (qmask q) then repeat (qdef q) (size (qshape q))
  else match restored_mask q with LS _ => qvals q | LA l => canon l (qdef q) (qvals q) end.
Definition restore0 (q : q0) : q0 :=
  mkq0 (qcls q) (qshape q) (qnumer q) (qdenom q) (qkind q) (qscalar q) (restored_vals q)
       (restored_mask q) (qdef q) (qunits q) (qro q) true.
(* the mask through which __getstate__ selected the values (None: no selection) *)
Definition sel_mask (q : q0) : option (list bool) :=
  if qscalar q then None else if all_masked (qmask q) then None else antimask_of (restored_mask q).

Lemma sel_mask_eq cd q : snd (getstate0 cd q) = sel_mask q.
Proof.
  unfold getstate0, sel_mask, restored_mask.
  destruct (qscalar q); [reflexivity|]. destruct (all_masked (qmask q)); [reflexivity|].
  destruct (any_masked (qmask q)); [destruct (qmask q)|]; reflexivity.
Qed.

Lemma Forall_concat_rows {A} (P : A -> Prop) w (l : list (list A)) :
  Forall (fun r => length r = w /\ Forall P r) l -> Forall P (concat l) /\ Forall (fun r => length r = w) l.
Proof.
  induction l as [|r l IH]; intro H; [split; constructor|].
  inversion H as [|? ? [Hr1 Hr2] Hl]; subst. destruct (IH Hl) as [H1 H2]. split.
  - cbn [concat]. apply Forall_app. auto.
  - constructor; auto.
Qed.

Lemma le_bytes_range w : forall v, Forall byte_ok (le_bytes w v).
Proof.
  induction w as [|w IH]; intro v; cbn [le_bytes]; constructor; auto.
  unfold byte_ok. apply Z.mod_pos_bound. lia.
Qed.

Lemma Forall_concat_map {A B} (P : B -> Prop) (f : A -> list B) l :
  (forall x, Forall P (f x)) -> Forall P (concat (map f l)).
Proof. intro H. induction l as [|x l IH]; cbn [map concat]; [constructor|apply Forall_app; auto]. Qed.

Section Codec.
  Variable cd : codec.
  (* the external compressors: bz2 on byte strings, fpzip at full precision on arrays of doubles *)
  Hypothesis Hbz2 : forall b, Forall byte_ok b -> bz2d cd (bz2c cd b) = b.
  Hypothesis Hfpz : forall l, Forall pat_ok l -> fpzd cd (fpzc cd l) = l.

  (* C11_mask_codec: corners + crop + packbits + bz2 round-trips every mask array *)
  Lemma mask_codec s l : length l = size s ->
    dec_mask cd s (fst (enc_mask cd s l)) (snd (enc_mask cd s l)) = DArr s l.
  Proof.
    intro Hlen. unfold enc_mask.
    destruct (shape_eqb (sub_mi (snd (find_corners s (mfun s l))) (fst (find_corners s (mfun s l)))) s) eqn:E.
    - cbn [fst snd]. unfold dec_mask. cbn [rev app fold_left dec_mask_step].
      rewrite Hbz2 by (apply packbits_range). rewrite <- Hlen, unpack_pack. reflexivity.
    - cbn [fst snd]. unfold dec_mask. cbn [rev app fold_left dec_mask_step].
      rewrite Hbz2 by (apply packbits_range). rewrite <- (crop_length (mfun s l)), unpack_pack.
      rewrite (uncrop_crop s l Hlen). reflexivity.
  Qed.

  Lemma vals_codec k fz isz nfull def am rows : Forall (row_ok k isz) rows ->
    fold_left (dec_vals_step cd isz nfull def am) (rev (snd (enc_vals cd k fz rows)))
              (DRaw (fst (enc_vals cd k fz rows))) = DRows rows.
  Proof.
    intro H. destruct (Forall_concat_rows _ _ _ H) as [Hv Hl].
    pose proof (concat_length_const _ _ Hl) as Hcl.
    unfold enc_vals. destruct k as [|w sg|].
    - destruct ((length (concat rows) <=? CUTOFF) || negb fz); cbn [fst snd rev app fold_left dec_vals_step].
      + reflexivity.
      + rewrite Hfpz by exact Hv. rewrite chunk_concat; auto.
    - cbn [fst snd rev app fold_left dec_vals_step].
      rewrite Hbz2 by (apply Forall_concat_map; intro x; apply le_bytes_range).
      rewrite <- Hcl. rewrite <- (map_length (enc_int w) (concat rows)).
      rewrite chunk_concat by (apply Forall_forall; intros r Hr; apply in_map_iff in Hr;
                               destruct Hr as (x & <- & _); apply enc_int_length).
      rewrite map_map. rewrite map_ext_in with (g := fun x => x).
      * rewrite map_id. rewrite chunk_concat; auto.
      * intros x Hx. apply dec_enc_int. rewrite Forall_forall in Hv. apply (Hv x Hx).
    - cbn [fst snd rev app fold_left dec_vals_step].
      rewrite Hbz2 by (apply packbits_range).
      rewrite <- (map_length nonzero (concat rows)). rewrite unpack_pack.
      rewrite map_map. rewrite map_ext_in with (g := fun x => x).
      * rewrite map_id. rewrite chunk_concat; auto.
      * intros x Hx. rewrite Forall_forall in Hv. destruct (Hv x Hx) as [-> | ->]; reflexivity.
  Qed.

  Lemma forallb_id_repeat : forall l, forallb (fun b : bool => b) l = true -> l = repeat true (length l).
  Proof.
    induction l as [|b l IH]; intro H; [reflexivity|]. simpl in H.
    apply andb_true_iff in H. destruct H as [-> H]. cbn [length repeat]. f_equal. auto.
  Qed.

  (* __setstate__ after __getstate__, one object without derivatives *)
  Lemma setget0 q : wf0 q -> setstate0 cd (fst (getstate0 cd q)) = restore0 q.
  Proof.
    intros [Hrows Hm]. unfold getstate0, restore0, restored_vals, restored_mask.
    destruct (qscalar q) eqn:Es.
    { cbn [fst]. unfold setstate0, base_state; cbn. reflexivity. }
    destruct (all_masked (qmask q)) eqn:Ea.
    { cbn [fst]. unfold setstate0, base_state; cbn. reflexivity. }
    destruct (any_masked (qmask q)) eqn:Ey.
    - destruct (qmask q) as [b|l] eqn:Eq.
      + cbn [fst]. unfold setstate0, base_state.
        cbn [pcls pshape pnumer pdenom pkind pdef punits pro pmaskv pvalsv pmenc pvenc].
        unfold dec_mask. cbn [rev fold_left mask_of_dmask antimask_of].
        rewrite vals_codec by exact Hrows. cbn [rows_of_dstate].
        destruct (enc_vals cd (qkind q) (qfpz q) (qvals q)) as [pv ve] eqn:Ee.
        assert (Hs : is_same (fst (pv, ve)) = false).
        { rewrite <- Ee. unfold enc_vals. destruct (qkind q); try reflexivity.
          destruct ((length (concat (qvals q)) <=? CUTOFF) || negb (qfpz q)); reflexivity. }
        cbn [fst] in *. rewrite Hs. reflexivity.
      + destruct Hm as (Hl & Hv & _). cbn [fst]. unfold setstate0, base_state.
        cbn [pcls pshape pnumer pdenom pkind pdef punits pro pmaskv pvalsv pmenc pvenc].
        rewrite mask_codec by exact Hl. cbn [mask_of_dmask antimask_of].
        cbn [rev]. rewrite fold_left_app.
        rewrite vals_codec by (apply gather_Forall; exact Hrows).
        cbn [fold_left dec_vals_step rows_of_dstate].
        rewrite scatter_gather by congruence.
        assert (Hs : is_same (fst (enc_vals cd (qkind q) (qfpz q) (gather l (qvals q)))) = false).
        { unfold enc_vals. destruct (qkind q); try reflexivity.
          destruct ((length (concat (gather l (qvals q))) <=? CUTOFF) || negb (qfpz q)); reflexivity. }
        rewrite Hs. reflexivity.
    - cbn [fst]. unfold setstate0, base_state.
      cbn [pcls pshape pnumer pdenom pkind pdef punits pro pmaskv pvalsv pmenc pvenc].
      unfold dec_mask. cbn [rev fold_left mask_of_dmask antimask_of].
      rewrite vals_codec by exact Hrows. cbn [rows_of_dstate].
      assert (Hs : is_same (fst (enc_vals cd (qkind q) (qfpz q) (qvals q))) = false).
      { unfold enc_vals. destruct (qkind q); try reflexivity.
        destruct ((length (concat (qvals q)) <=? CUTOFF) || negb (qfpz q)); reflexivity. }
      rewrite Hs. reflexivity.
  Qed.

  (* ---- derivatives ---- *)
  Definition restore_d (c d : q0) : q0 :=
    match sel_mask c with
    | None => with_ro (restore0 d) (qro c || qro d)
    | Some l => mkq0 (qcls d) (qshape d) (qnumer d) (qdenom d) (qkind d) false
                     (canon l (qdef d) (qvals d)) (LA l) (qdef d) (qunits d) (qro c || qro d) true
    end.
  Definition restore (q : qube) : qube :=
    mkqube (restore0 (core q)) (map (fun kd => (fst kd, restore_d (core q) (snd kd))) (derivs q)).

  Definition wf (q : qube) : Prop :=
    wf0 (core q) /\ (qscalar (core q) = true -> exists b, qmask (core q) = LS b) /\
    Forall (fun kd => wf0 (snd kd) /\ qshape (snd kd) = qshape (core q) /\
                      length (qvals (snd kd)) = size (qshape (core q))) (derivs q).

  Lemma antimask_restored c : wf0 c -> (qscalar c = true -> exists b, qmask c = LS b) ->
    antimask_of (qmask (restore0 c)) = sel_mask c.
  Proof.
    intros _ Hs. unfold restore0, sel_mask, restored_mask; cbn [qmask].
    destruct (qscalar c); [destruct (Hs eq_refl) as [b ->]; reflexivity|].
    destruct (all_masked (qmask c)); reflexivity.
  Qed.

  Lemma sel_mask_LA c l : wf0 c -> sel_mask c = Some l ->
    qmask c = LA l /\ length l = size (qshape c) /\ qscalar c = false /\ all_masked (qmask c) = false.
  Proof.
    intros [_ Hm]. unfold sel_mask, restored_mask. destruct (qscalar c) eqn:Es; [discriminate|].
    destruct (all_masked (qmask c)) eqn:Ea; [discriminate|].
    destruct (any_masked (qmask c)); [|discriminate].
    destruct (qmask c) as [b|l'] eqn:E; [discriminate|]. cbn [antimask_of]. intro H; inversion H; subst.
    destruct Hm as (H1 & _ & _). auto.
  Qed.

  Lemma setget_d c d : wf0 c -> (qscalar c = true -> exists b, qmask c = LS b) -> wf0 d ->
    length (qvals d) = size (qshape c) ->
    let d0 := match snd (getstate0 cd c) with
              | None => d
              | Some l => with_vals_mask d (gather l (qvals d)) (LS false)
              end in
    let d1 := setstate0 cd (fst (getstate0 cd d0)) in
    let d2 := match antimask_of (qmask (restore0 c)) with
              | Some l => with_vals_mask d1 (scatter l (qdef d1) (qvals d1)) (LA l)
              | None => d1
              end in
    with_ro d2 (qro (restore0 c) || qro d2) = restore_d c d.
  Proof.
    intros Hc Hsc Hd Hlen. cbv zeta. rewrite sel_mask_eq, antimask_restored by auto.
    unfold restore_d. destruct (sel_mask c) as [l|] eqn:El.
    - destruct (sel_mask_LA c l Hc El) as (_ & Hl & _ & _).
      assert (Hw : wf0 (with_vals_mask d (gather l (qvals d)) (LS false))).
      { split; cbn; auto. apply gather_Forall. apply Hd. }
      rewrite setget0 by exact Hw.
      unfold restore0, restored_vals, restored_mask, with_vals_mask, with_ro; cbn.
      rewrite scatter_gather by congruence. reflexivity.
    - rewrite setget0 by exact Hd. unfold restore0, with_ro; cbn. reflexivity.
  Qed.

  Theorem setget q : wf q -> setstate cd (getstate cd q) = restore q.
  Proof.
    intros (Hc & Hsc & Hd). unfold setstate, getstate, restore. cbn [pcore pderivs].
    rewrite setget0 by exact Hc. f_equal.
    rewrite map_map. apply map_ext_in. intros [key d] Hin. cbn [fst snd]. f_equal.
    rewrite Forall_forall in Hd. destruct (Hd _ Hin) as (Hwd & _ & Hlen). cbn [snd] in *.
    apply (setget_d (core q) d Hc Hsc Hwd Hlen).
  Qed.
End Codec.

(* ================= what the closed form says (the property) ================= *)
Definition mask_at (q : q0) (i : nat) : bool := nth i (expand_mask (size (qshape q)) (qmask q)) false.

Lemma nth_repeat_lt {A} (a d : A) : forall n i, i < n -> nth i (repeat a n) d = a.
Proof. induction n as [|n IH]; intros [|i] H; simpl; auto; try lia. apply IH. lia. Qed.

Lemma all_masked_at q i : wf0 q -> i < size (qshape q) -> all_masked (qmask q) = true -> mask_at q i = true.
Proof.
  intros [_ Hm] Hi Ha. unfold mask_at. destruct (qmask q) as [b|l]; cbn in *.
  - subst. apply nth_repeat_lt; auto.
  - destruct Hm as (Hl & _). rewrite forallb_forall in Ha. apply Ha. apply nth_In. lia.
Qed.

Lemma none_masked_at q i : wf0 q -> i < size (qshape q) -> any_masked (qmask q) = false -> mask_at q i = false.
Proof.
  intros [_ Hm] Hi Ha. unfold mask_at. destruct (qmask q) as [b|l]; cbn in *.
  - subst. apply nth_repeat_lt; auto.
  - destruct Hm as (Hl & _). destruct (nth i l false) eqn:E; auto.
    assert (existsb (fun b => b) l = true); [|congruence].
    apply existsb_exists. exists true. split; auto. rewrite <- E. apply nth_In. lia.
Qed.

Lemma mask_restored q i : wf0 q -> i < size (qshape q) -> mask_at (restore0 q) i = mask_at q i.
Proof.
  intros Hw Hi. unfold mask_at at 1. unfold restore0, restored_mask; cbn [qshape qmask].
  destruct (qscalar q); [reflexivity|].
  destruct (all_masked (qmask q)) eqn:Ea.
  - cbn. rewrite nth_repeat_lt by auto. symmetry. apply all_masked_at; auto.
  - destruct (any_masked (qmask q)) eqn:Ey; [reflexivity|].
    cbn. rewrite nth_repeat_lt by auto. symmetry. apply none_masked_at; auto.
Qed.

Lemma vals_restored_unmasked q i : wf0 q -> i < size (qshape q) -> mask_at q i = false ->
  nth i (restored_vals q) [] = nth i (qvals q) [].
Proof.
  intros Hw Hi Hm. unfold restored_vals, restored_mask. destruct (qscalar q); [reflexivity|].
  destruct (all_masked (qmask q)) eqn:Ea.
  { rewrite all_masked_at in Hm by auto. discriminate. }
  destruct (any_masked (qmask q)); [|reflexivity].
  destruct (qmask q) as [b|l] eqn:E; [reflexivity|].
  destruct Hw as [_ Hq]. rewrite E in Hq. destruct Hq as (Hl & Hv & _).
  rewrite nth_canon by lia. unfold mask_at in Hm. rewrite E in Hm. cbn in Hm. rewrite Hm. reflexivity.
Qed.

Lemma vals_restored_masked q i : wf0 q -> qscalar q = false -> i < size (qshape q) -> mask_at q i = true ->
  nth i (restored_vals q) [] = qdef q.
Proof.
  intros Hw Hs Hi Hm. unfold restored_vals, restored_mask. rewrite Hs.
  destruct (all_masked (qmask q)) eqn:Ea.
  { apply nth_repeat_lt; auto. }
  destruct (any_masked (qmask q)) eqn:Ey.
  - destruct (qmask q) as [b|l] eqn:E.
    + cbn in Ea. subst. unfold mask_at in Hm. rewrite E in Hm. cbn in Hm.
      rewrite nth_repeat_lt in Hm by auto. discriminate.
    + destruct Hw as [_ Hq]. rewrite E in Hq. destruct Hq as (Hl & Hv & _).
      rewrite nth_canon by lia. unfold mask_at in Hm. rewrite E in Hm. cbn in Hm. rewrite Hm. reflexivity.
  - rewrite none_masked_at in Hm by auto. discriminate.
Qed.

(* the property C11 states about an object [q] and its unpickled copy [k] *)
Definition roundtrip_ok (q k : qube) : Prop :=
  let c := core q in
  let c' := core k in
  qcls c' = qcls c /\ qshape c' = qshape c /\ qnumer c' = qnumer c /\ qdenom c' = qdenom c /\
  qkind c' = qkind c /\ qunits c' = qunits c /\ qro c' = qro c /\
  map fst (derivs k) = map fst (derivs q) /\
  (forall i, i < size (qshape c) -> mask_at c' i = mask_at c i) /\
  (forall i, i < size (qshape c) -> mask_at c i = false -> nth i (qvals c') [] = nth i (qvals c) []) /\
  (qscalar c = false -> forall i, i < size (qshape c) -> mask_at c i = true -> nth i (qvals c') [] = qdef c) /\
  (forall j key d, nth_error (derivs q) j = Some (key, d) ->
     exists d', nth_error (derivs k) j = Some (key, d') /\
       qcls d' = qcls d /\ qshape d' = qshape d /\ qnumer d' = qnumer d /\ qdenom d' = qdenom d /\
       qunits d' = qunits d /\ qro d' = (qro c || qro d) /\
       forall i, i < size (qshape c) -> mask_at c i = false -> mask_at d i = false ->
                 nth i (qvals d') [] = nth i (qvals d) []).

Lemma restore_ok q : wf q -> roundtrip_ok q (restore q).
Proof.
  intros (Hc & Hsc & Hd). unfold roundtrip_ok, restore. cbn [core derivs].
  repeat split; try reflexivity.
  - rewrite map_map. cbn [fst]. reflexivity.
  - intros i Hi. apply mask_restored; auto.
  - intros i Hi Hm. apply vals_restored_unmasked; auto.
  - intros Hs i Hi Hm. apply vals_restored_masked; auto.
  - intros j key d Hj. exists (restore_d (core q) d). split.
    { rewrite nth_error_map, Hj. reflexivity. }
    apply nth_error_In in Hj. rewrite Forall_forall in Hd. destruct (Hd _ Hj) as (Hwd & Hsh & Hlen).
    cbn [snd] in *. unfold restore_d. destruct (sel_mask (core q)) as [l|] eqn:El.
    + cbn. repeat split; try reflexivity. intros i Hi Hm _.
      destruct (sel_mask_LA _ _ Hc El) as (Eq & Hl & _ & _).
      rewrite nth_canon by lia. unfold mask_at in Hm. rewrite Eq in Hm. cbn in Hm. rewrite Hm. reflexivity.
    + cbn. repeat split; try reflexivity. intros i Hi _ Hm.
      apply vals_restored_unmasked; auto. rewrite Hsh. exact Hi.
Qed.

(* C11_roundtrip_default *)
Theorem roundtrip_default cd :
  (forall b, Forall byte_ok b -> bz2d cd (bz2c cd b) = b) ->
  (forall l, Forall pat_ok l -> fpzd cd (fpzc cd l) = l) ->
  forall q, wf q -> roundtrip_ok q (setstate cd (getstate cd q)).
Proof. intros Hb Hf q Hw. rewrite (setget cd Hb Hf q Hw). apply restore_ok; auto. Qed.

(* C11_pure: in the model of the effects of __getstate__ only the cache of the pickled object
   can change (by construction of [getstate_eff]; the implementation is checked against this
   by a bit-for-bit snapshot in every case of the check) *)
Theorem getstate_pure cd (o : pyobj) :
  py_q (fst (getstate_eff cd o)) = py_q o /\ py_attrs (fst (getstate_eff cd o)) = py_attrs o /\
  snd (getstate_eff cd o) = getstate cd (py_q o).
Proof. repeat split. Qed.

Lemma id_codec_ok :
  (forall b, Forall byte_ok b -> bz2d id_codec (bz2c id_codec b) = b) /\
  (forall l, Forall pat_ok l -> fpzd id_codec (fpzc id_codec l) = l).
Proof. split; reflexivity. Qed.
