(* C15 lemmas: all proofs about the relabeling model C15Model.v. *)
From Coq Require Import List Arith ZArith Bool Lia Permutation.
From PM Require Import Base Mask C15Model.
Import ListNotations.

(* ------------------------------------------------------------------ *)
(* lists                                                               *)
(* ------------------------------------------------------------------ *)
Lemma nth_map_lt {A B} (f : A -> B) (l : list A) k dA dB :
  k < length l -> nth k (map f l) dB = f (nth k l dA).
Proof.
  intro H. rewrite nth_indep with (d' := f dA) by (rewrite map_length; exact H).
  apply map_nth.
Qed.

Lemma gather_length p i : length (gather p i) = length p.
Proof. unfold gather. apply map_length. Qed.

Lemma nth_gather p i k : k < length p -> nth k (gather p i) 0 = nth (nth k p 0) i 0.
Proof. intro H. unfold gather. apply (nth_map_lt (fun k => nth k i 0) p k 0 0 H). Qed.

Lemma gather_gather p q i :
  (forall k, In k p -> k < length q) -> gather p (gather q i) = gather (gather p q) i.
Proof.
  intro H. unfold gather. rewrite map_map. apply map_ext_in. intros k Hk.
  apply (nth_map_lt (fun k => nth k i 0) q k 0 0). apply H. exact Hk.
Qed.

Lemma gather_seq i : gather (seq 0 (length i)) i = i.
Proof.
  apply nth_ext with (d := 0) (d' := 0).
  - rewrite gather_length, seq_length. reflexivity.
  - intros k Hk. rewrite gather_length, seq_length in Hk.
    rewrite nth_gather by (rewrite seq_length; exact Hk).
    rewrite seq_nth by exact Hk. reflexivity.
Qed.

(* p is a permutation of 0..n-1 *)
Definition is_perm (p : list nat) (n : nat) : Prop :=
  NoDup p /\ length p = n /\ (forall m, In m p <-> m < n).

Lemma is_perm_of_Permutation p n : Permutation p (seq 0 n) -> is_perm p n.
Proof.
  intro H. split; [|split].
  - apply Permutation_NoDup with (l := seq 0 n); [apply Permutation_sym; exact H | apply seq_NoDup].
  - rewrite (Permutation_length H). apply seq_length.
  - intro m. split; intro Hm.
    + apply (Permutation_in _ H) in Hm. apply in_seq in Hm. lia.
    + apply (Permutation_in _ (Permutation_sym H)). apply in_seq. lia.
Qed.

Lemma pos_nth p : NoDup p -> forall k, k < length p -> pos (nth k p 0) p = k.
Proof.
  induction p as [|a p IH]; intros ND k Hk; simpl in *; [lia|].
  inversion ND as [|x l Hnin ND']; subst.
  destruct k as [|k].
  - rewrite Nat.eqb_refl. reflexivity.
  - destruct (Nat.eqb_spec a (nth k p 0)) as [E|E].
    + exfalso. apply Hnin. rewrite E. apply nth_In. lia.
    + f_equal. apply IH; [exact ND' | lia].
Qed.

Lemma nth_pos p m : In m p -> nth (pos m p) p 0 = m.
Proof.
  induction p as [|a p IH]; simpl; intros H; [contradiction|].
  destruct (Nat.eqb_spec a m) as [E|E]; [exact E|].
  destruct H as [H|H]; [contradiction|]. apply IH. exact H.
Qed.

Lemma pos_lt p m : In m p -> pos m p < length p.
Proof.
  induction p as [|a p IH]; simpl; intros H; [contradiction|].
  destruct (Nat.eqb_spec a m) as [E|E]; [lia|].
  destruct H as [H|H]; [contradiction|]. apply IH in H. lia.
Qed.

Lemma inv_length p : length (inv p) = length p.
Proof. unfold inv. rewrite map_length, seq_length. reflexivity. Qed.

Lemma gather_inv_r p n : is_perm p n -> gather p (inv p) = seq 0 n.
Proof.
  intros (ND & Hl & Hin).
  apply nth_ext with (d := 0) (d' := 0).
  - rewrite gather_length, seq_length. exact Hl.
  - intros k Hk. rewrite gather_length in Hk.
    rewrite nth_gather by exact Hk.
    assert (Hm : nth k p 0 < n) by (apply Hin; apply nth_In; exact Hk).
    unfold inv. rewrite (nth_map_lt (fun m => pos m p) (seq 0 (length p)) (nth k p 0) 0 0)
      by (rewrite seq_length; lia).
    rewrite seq_nth by lia. simpl.
    rewrite pos_nth by assumption. rewrite seq_nth by lia. reflexivity.
Qed.

Lemma gather_inv_l p n : is_perm p n -> gather (inv p) p = seq 0 n.
Proof.
  intros (ND & Hl & Hin). unfold gather, inv. rewrite map_map. rewrite Hl.
  rewrite <- (map_id (seq 0 n)) at 2. apply map_ext_in. intros m Hm.
  apply nth_pos. apply Hin. apply in_seq in Hm. lia.
Qed.

Lemma transpose_roundtrip1 p n i :
  is_perm p n -> length i = n -> gather p (gather (inv p) i) = i.
Proof.
  intros Hp Hi. rewrite gather_gather.
  - rewrite (gather_inv_r p n Hp). rewrite <- Hi. apply gather_seq.
  - intros k Hk. rewrite inv_length. destruct Hp as (_ & Hl & Hin). rewrite Hl. apply Hin. exact Hk.
Qed.

Lemma transpose_roundtrip2 p n j :
  is_perm p n -> length j = n -> gather (inv p) (gather p j) = j.
Proof.
  intros Hp Hj. rewrite gather_gather.
  - rewrite (gather_inv_l p n Hp). rewrite <- Hj. apply gather_seq.
  - intros k Hk. unfold inv in Hk. apply in_map_iff in Hk. destruct Hk as (m & <- & Hm).
    apply pos_lt. destruct Hp as (_ & Hl & Hin). apply Hin. apply in_seq in Hm. lia.
Qed.

(* in-bounds, pointwise *)
Lemma inb_nth s : forall i, inb s i = true <->
  (length i = length s /\ forall k, k < length s -> nth k i 0 < nth k s 0).
Proof.
  induction s as [|n s IH]; intros [|x i]; simpl.
  - split; [intros _; split; [reflexivity | intros k Hk; lia] | reflexivity].
  - split; [discriminate | intros [H _]; discriminate].
  - split; [discriminate | intros [H _]; discriminate].
  - rewrite andb_true_iff, Nat.ltb_lt, IH. split.
    + intros [Hx [Hl Hn]]. split; [lia|]. intros [|k] Hk; [exact Hx | apply Hn; lia].
    + intros [Hl Hn]. split; [apply (Hn 0); lia|]. split; [lia|].
      intros k Hk. apply (Hn (S k)). lia.
Qed.

Lemma inb_length s i : inb s i = true -> length i = length s.
Proof. intro H. apply inb_nth in H. tauto. Qed.

Lemma inb_gather p s j :
  (forall k, In k p -> k < length s) -> inb s j = true -> inb (gather p s) (gather p j) = true.
Proof.
  intros Hp Hj. apply inb_nth in Hj. destruct Hj as [Hl Hn]. apply inb_nth.
  rewrite !gather_length. split; [reflexivity|].
  intros k Hk. rewrite !nth_gather by exact Hk. apply Hn. apply Hp. apply nth_In. exact Hk.
Qed.

(* ------------------------------------------------------------------ *)
(* np.transpose along a permutation is a bijection of index sets       *)
(* ------------------------------------------------------------------ *)
Lemma inv_entries_lt p n : is_perm p n -> forall k, In k (inv p) -> k < n.
Proof.
  intros (ND & Hl & Hin) k Hk. unfold inv in Hk. apply in_map_iff in Hk.
  destruct Hk as (m & <- & Hm). rewrite <- Hl. apply pos_lt. apply Hin. apply in_seq in Hm. lia.
Qed.

Theorem np_transpose_bijection p n s : is_perm p n -> length s = n ->
  (forall i, inb (im_out (np_transpose p s)) i = true -> inb s (im_src (np_transpose p s) i) = true) /\
  (forall i i', inb (im_out (np_transpose p s)) i = true -> inb (im_out (np_transpose p s)) i' = true ->
                im_src (np_transpose p s) i = im_src (np_transpose p s) i' -> i = i') /\
  (forall j, inb s j = true ->
             exists i, inb (im_out (np_transpose p s)) i = true /\ im_src (np_transpose p s) i = j).
Proof.
  intros Hp Hs. simpl. split; [|split].
  - intros i Hi.
    assert (H := inb_gather (inv p) (gather p s) i).
    rewrite (transpose_roundtrip2 p n s Hp Hs) in H. apply H; [|exact Hi].
    intros k Hk. rewrite gather_length. destruct Hp as (ND & Hl & Hin). rewrite Hl.
    apply (inv_entries_lt p n); [split; [|split]; assumption | exact Hk].
  - intros i i' Hi Hi' E.
    apply inb_length in Hi. apply inb_length in Hi'. rewrite gather_length in Hi, Hi'.
    assert (Hl : length p = n) by (destruct Hp as (_ & Hl & _); exact Hl).
    rewrite <- (transpose_roundtrip1 p n i Hp) by lia.
    rewrite <- (transpose_roundtrip1 p n i' Hp) by lia. rewrite E. reflexivity.
  - intros j Hj. exists (gather p j). split.
    + apply inb_gather; [|exact Hj]. intros k Hk. rewrite Hs. destruct Hp as (_ & _ & Hin). apply Hin. exact Hk.
    + apply (transpose_roundtrip2 p n j Hp). apply inb_length in Hj. lia.
Qed.

(* ------------------------------------------------------------------ *)
(* the permutations of swapaxes / rollaxis / moveaxis                  *)
(* ------------------------------------------------------------------ *)
Definition swapf (a b k : nat) : nat := if Nat.eqb k a then b else if Nat.eqb k b then a else k.

Lemma swapf_invol a b k : swapf a b (swapf a b k) = k.
Proof.
  unfold swapf.
  destruct (Nat.eqb_spec k a) as [E1|E1]; destruct (Nat.eqb_spec k b) as [E2|E2];
    repeat (match goal with |- context [Nat.eqb ?x ?y] => destruct (Nat.eqb_spec x y) end); lia.
Qed.

Lemma swapf_lt a b n k : a < n -> b < n -> k < n -> swapf a b k < n.
Proof.
  intros Ha Hb Hk. unfold swapf.
  destruct (Nat.eqb_spec k a); [lia|]. destruct (Nat.eqb_spec k b); lia.
Qed.

Lemma swapP_perm a b n : a < n -> b < n -> is_perm (swapP a b n) n.
Proof.
  intros Ha Hb. apply is_perm_of_Permutation. apply NoDup_Permutation.
  - unfold swapP. apply FinFun.Injective_map_NoDup; [|apply seq_NoDup].
    intros x y E. change (swapf a b x = swapf a b y) in E.
    rewrite <- (swapf_invol a b x), <- (swapf_invol a b y), E. reflexivity.
  - apply seq_NoDup.
  - intro m. unfold swapP. rewrite in_map_iff. split.
    + intros (k & E & Hk). apply in_seq in Hk. apply in_seq.
      change (swapf a b k = m) in E. subst m. split; [lia|]. simpl. apply swapf_lt; lia.
    + intro Hm. apply in_seq in Hm. exists (swapf a b m). split.
      * apply (swapf_invol a b m).
      * apply in_seq. split; [lia|]. simpl. apply swapf_lt; lia.
Qed.

Lemma insert_at_perm k x l : Permutation (insert_at k x l) (x :: l).
Proof.
  revert k. induction l as [|y l IH]; intros [|k]; simpl; try apply Permutation_refl.
  apply Permutation_trans with (l' := y :: x :: l); [apply perm_skip; apply IH | apply perm_swap].
Qed.

Lemma remove_nat_perm x l : In x l -> Permutation (x :: remove_nat x l) l.
Proof.
  induction l as [|y l IH]; simpl; intro H; [contradiction|].
  destruct (Nat.eqb_spec y x) as [E|E]; [subst; apply Permutation_refl|].
  destruct H as [H|H]; [contradiction|].
  apply Permutation_trans with (l' := y :: x :: remove_nat x l); [apply perm_swap|].
  apply perm_skip. apply IH. exact H.
Qed.

Lemma rollP_perm ax st n : ax < n -> is_perm (rollP ax st n) n.
Proof.
  intro H. apply is_perm_of_Permutation. unfold rollP.
  apply Permutation_trans with (l' := ax :: remove_nat ax (seq 0 n)); [apply insert_at_perm|].
  apply remove_nat_perm. apply in_seq. lia.
Qed.

Lemma insert_sorted_perm p l : Permutation (insert_sorted p l) (p :: l).
Proof.
  induction l as [|q l IH]; simpl; [apply Permutation_refl|].
  destruct (Nat.leb (fst p) (fst q)); [apply Permutation_refl|].
  apply Permutation_trans with (l' := q :: p :: l); [apply perm_skip; exact IH | apply perm_swap].
Qed.

Lemma sort_pairs_perm l : Permutation (sort_pairs l) l.
Proof.
  induction l as [|p l IH]; simpl; [apply perm_nil|].
  apply Permutation_trans with (l' := p :: sort_pairs l); [apply insert_sorted_perm | apply perm_skip; exact IH].
Qed.

Lemma fold_insert_perm (ps : list (nat * nat)) : forall ord,
  Permutation (fold_left (fun ord p => insert_at (fst p) (snd p) ord) ps ord) (map snd ps ++ ord).
Proof.
  induction ps as [|p ps IH]; intro ord; simpl; [apply Permutation_refl|].
  apply Permutation_trans with (l' := map snd ps ++ insert_at (fst p) (snd p) ord); [apply IH|].
  apply Permutation_trans with (l' := map snd ps ++ snd p :: ord).
  - apply Permutation_app_head. apply insert_at_perm.
  - apply Permutation_sym. apply Permutation_middle.
Qed.

Lemma map_snd_combine {A B} (a : list A) : forall (b : list B), length a = length b -> map snd (combine a b) = b.
Proof.
  induction a as [|x a IH]; intros [|y b] H; simpl in *; try discriminate; auto.
  f_equal. apply IH. lia.
Qed.

Lemma nodupb_NoDup l : nodupb l = true -> NoDup l.
Proof.
  induction l as [|x l IH]; simpl; intro H; [constructor|].
  apply andb_true_iff in H. destruct H as [H1 H2]. constructor; [|apply IH; exact H2].
  intro Hin. apply negb_true_iff in H1.
  assert (E : existsb (Nat.eqb x) l = true) by (apply existsb_exists; exists x; split; [exact Hin | apply Nat.eqb_refl]).
  congruence.
Qed.

Lemma filter_partition_perm {A} (f : A -> bool) l :
  Permutation (filter f l ++ filter (fun x => negb (f x)) l) l.
Proof.
  induction l as [|a l IH]; simpl; [apply perm_nil|].
  destruct (f a); simpl.
  - apply perm_skip. exact IH.
  - apply Permutation_trans with (l' := a :: filter f l ++ filter (fun x => negb (f x)) l).
    + apply Permutation_sym. apply Permutation_middle.
    + apply perm_skip. exact IH.
Qed.

Lemma moveP_perm src dst n :
  NoDup src -> (forall x, In x src -> x < n) -> length src = length dst -> is_perm (moveP src dst n) n.
Proof.
  intros ND Hlt Hlen. apply is_perm_of_Permutation. unfold moveP.
  eapply Permutation_trans; [apply fold_insert_perm|].
  eapply Permutation_trans.
  { apply Permutation_app_tail. apply Permutation_map. apply sort_pairs_perm. }
  rewrite map_snd_combine by lia.
  eapply Permutation_trans; [|apply (filter_partition_perm (fun k => existsb (Nat.eqb k) src) (seq 0 n))].
  apply Permutation_app_tail. apply NoDup_Permutation.
  - exact ND.
  - apply NoDup_filter. apply seq_NoDup.
  - intro x. rewrite filter_In, in_seq, existsb_exists. split.
    + intro Hx. split; [specialize (Hlt x Hx); lia|]. exists x. split; [exact Hx | apply Nat.eqb_refl].
    + intros [_ (y & Hy & E)]. apply Nat.eqb_eq in E. subst y. exact Hy.
Qed.

(* ------------------------------------------------------------------ *)
(* axis-argument normalisation                                         *)
(* ------------------------------------------------------------------ *)
Lemma norm_axis_spec n a k : norm_axis n a = Some k <->
  ((- Z.of_nat n <= a < Z.of_nat n)%Z /\
   k = Z.to_nat (if (a <? 0)%Z then (a + Z.of_nat n)%Z else a)).
Proof.
  unfold norm_axis.
  destruct (Z.leb_spec (- Z.of_nat n) a) as [H1|H1]; destruct (Z.ltb_spec a (Z.of_nat n)) as [H2|H2];
    simpl; split; intro H; try discriminate; try (destruct H as [H _]; lia).
  - inversion H. split; [lia | reflexivity].
  - destruct H as [_ ->]. reflexivity.
Qed.

Lemma norm_axis_none n a : norm_axis n a = None <-> (a < - Z.of_nat n \/ Z.of_nat n <= a)%Z.
Proof.
  unfold norm_axis.
  destruct (Z.leb_spec (- Z.of_nat n) a) as [H1|H1]; destruct (Z.ltb_spec a (Z.of_nat n)) as [H2|H2];
    simpl; split; intro H; try discriminate; try lia; reflexivity.
Qed.

Lemma norm_axis_lt n a k : norm_axis n a = Some k -> k < n.
Proof.
  intro H. apply norm_axis_spec in H. destruct H as [H ->].
  destruct (Z.ltb_spec a 0); lia.
Qed.

(* the normalised axis is Python's a % n *)
Lemma norm_axis_mod n a k : norm_axis n a = Some k -> Z.of_nat k = (a mod Z.of_nat n)%Z.
Proof.
  intro H. apply norm_axis_spec in H. destruct H as [H ->].
  destruct (Z.ltb_spec a 0) as [Hn|Hn].
  - rewrite Z2Nat.id by lia. rewrite <- (Z_mod_plus_full a 1 (Z.of_nat n)).
    rewrite Z.mul_1_l. symmetry. apply Z.mod_small. lia.
  - rewrite Z2Nat.id by lia. symmetry. apply Z.mod_small. lia.
Qed.

Lemma norm_axes_spec n : forall l l', norm_axes n l = Some l' ->
  length l' = length l /\ forall x, In x l' -> x < n.
Proof.
  induction l as [|a l IH]; intros l' H; simpl in H.
  - inversion H. split; [reflexivity | intros x []].
  - destruct (norm_axis n a) as [k|] eqn:Ek; [|discriminate].
    destruct (norm_axes n l) as [r|] eqn:Er; [|discriminate].
    inversion H; subst. destruct (IH r eq_refl) as [Hl Hlt]. split; [simpl; lia|].
    intros x [<-|Hx]; [eapply norm_axis_lt; exact Ek | apply Hlt; exact Hx].
Qed.

(* ------------------------------------------------------------------ *)
(* bijections                                                          *)
(* ------------------------------------------------------------------ *)
(* every output element comes from an in-bounds source element, no source element is
   used twice, every source element is used: nothing lost, nothing duplicated *)
Definition bijective_on (m : imap) (s : shape) : Prop :=
  (forall i, inb (im_out m) i = true -> inb s (im_src m i) = true) /\
  (forall i i', inb (im_out m) i = true -> inb (im_out m) i' = true ->
                im_src m i = im_src m i' -> i = i') /\
  (forall j, inb s j = true -> exists i, inb (im_out m) i = true /\ im_src m i = j).

Lemma transpose_bij p s : is_perm p (length s) -> bijective_on (np_transpose p s) s.
Proof. intro H. exact (np_transpose_bijection p (length s) s H eq_refl). Qed.

Theorem swapaxes_bijection a b s m : np_swapaxes a b s = Some m -> bijective_on m s.
Proof.
  unfold np_swapaxes. intro H.
  destruct (norm_axis (length s) a) as [a'|] eqn:Ea; [|discriminate].
  destruct (norm_axis (length s) b) as [b'|] eqn:Eb; [|discriminate].
  inversion H; subst. apply transpose_bij. apply swapP_perm; eapply norm_axis_lt; eassumption.
Qed.

Theorem rollaxis_bijection a st s m : np_rollaxis a st s = Some m -> bijective_on m s.
Proof.
  unfold np_rollaxis. intro H.
  destruct (norm_axis (length s) a) as [a'|] eqn:Ea; [|discriminate].
  destruct (roll_start (length s) a' st) as [st'|] eqn:Es; [|discriminate].
  inversion H; subst. apply transpose_bij. apply rollP_perm. eapply norm_axis_lt; eassumption.
Qed.

Theorem moveaxis_bijection src dst s m : np_moveaxis src dst s = Some m -> bijective_on m s.
Proof.
  unfold np_moveaxis. intro H.
  destruct (norm_axes (length s) src) as [s'|] eqn:Es; [|discriminate].
  destruct (norm_axes (length s) dst) as [d'|] eqn:Ed; [|discriminate].
  destruct (nodupb s' && nodupb d' && Nat.eqb (length s') (length d')) eqn:Ec; [|discriminate].
  inversion H; subst.
  apply andb_true_iff in Ec. destruct Ec as [Ec E3]. apply andb_true_iff in Ec. destruct Ec as [E1 E2].
  apply Nat.eqb_eq in E3. apply transpose_bij. apply moveP_perm.
  - apply nodupb_NoDup. exact E1.
  - apply (norm_axes_spec _ _ _ Es).
  - exact E3.
Qed.

(* ---- reshape ---- *)
Lemma size_cons n t : size (n :: t) = n * size t.
Proof. reflexivity. Qed.

Lemma unravel_length s : forall k, length (unravel s k) = length s.
Proof. induction s as [|n t IH]; intro k; simpl; [reflexivity | f_equal; apply IH]. Qed.

Lemma unravel_inb s : forall k, k < size s -> inb s (unravel s k) = true.
Proof.
  induction s as [|n t IH]; intros k Hk; [reflexivity|].
  rewrite size_cons in Hk. cbn [unravel inb].
  assert (Hst : size t <> 0) by (intro E; rewrite E in Hk; lia).
  apply andb_true_iff. split.
  - apply Nat.ltb_lt. apply Nat.div_lt_upper_bound; [exact Hst | lia].
  - apply IH. apply Nat.mod_upper_bound. exact Hst.
Qed.

Lemma ravel_unravel s : forall k, k < size s -> ravel s (unravel s k) = k.
Proof.
  induction s as [|n t IH]; intros k Hk.
  - simpl in *. lia.
  - rewrite size_cons in Hk. cbn [unravel ravel].
    assert (Hst : size t <> 0) by (intro E; rewrite E in Hk; lia).
    rewrite IH by (apply Nat.mod_upper_bound; exact Hst).
    rewrite (Nat.div_mod k (size t) Hst) at 3. lia.
Qed.

Lemma unravel_ravel s : forall i, inb s i = true -> unravel s (ravel s i) = i.
Proof.
  induction s as [|n t IH]; intros [|x i] H; try discriminate; [reflexivity|].
  cbn [inb] in H. apply andb_true_iff in H. destruct H as [Hx Hi].
  cbn [ravel unravel].
  assert (Hr := ravel_lt t i Hi).
  assert (Hst : size t <> 0) by lia.
  f_equal.
  - rewrite Nat.div_add_l by exact Hst. rewrite Nat.div_small by exact Hr. lia.
  - rewrite Nat.add_comm, Nat.mod_add by exact Hst. rewrite Nat.mod_small by exact Hr.
    apply IH. exact Hi.
Qed.

Theorem reshape_map_bijection s o : size s = size o -> bijective_on (reshape_map s o) s.
Proof.
  intro Hsz. unfold bijective_on; simpl. split; [|split].
  - intros i Hi. apply unravel_inb. rewrite Hsz. apply ravel_lt. exact Hi.
  - intros i i' Hi Hi' E.
    assert (E2 : ravel o i = ravel o i').
    { rewrite <- (ravel_unravel s (ravel o i)) by (rewrite Hsz; apply ravel_lt; exact Hi).
      rewrite <- (ravel_unravel s (ravel o i')) by (rewrite Hsz; apply ravel_lt; exact Hi').
      rewrite E. reflexivity. }
    rewrite <- (unravel_ravel o i Hi), <- (unravel_ravel o i' Hi'), E2. reflexivity.
  - intros j Hj. exists (unravel o (ravel s j)). split.
    + apply unravel_inb. rewrite <- Hsz. apply ravel_lt. exact Hj.
    + rewrite ravel_unravel by (rewrite <- Hsz; apply ravel_lt; exact Hj).
      apply unravel_ravel. exact Hj.
Qed.

(* the resolved target shape (with the unknown entry filled in) has the size of the source *)
Definition unknownZ (x : Z) : bool := Z.ltb x 0.
Definition prodk (t : list Z) : nat :=
  fold_right (fun x acc => if unknownZ x then acc else Z.to_nat x * acc) 1 t.
Definition cntu (t : list Z) : nat := length (filter unknownZ t).

Lemma size_map_known d : forall t, cntu t = 0 ->
  size (map (fun x => if unknownZ x then d else Z.to_nat x) t) = prodk t.
Proof.
  induction t as [|x t IH]; intro H; [reflexivity|].
  unfold cntu in H. cbn [filter] in H. cbn [map prodk fold_right].
  destruct (unknownZ x) eqn:E; [simpl in H; lia|].
  rewrite size_cons. f_equal. apply IH. exact H.
Qed.

Lemma size_map_unknown d : forall t, cntu t = 1 ->
  size (map (fun x => if unknownZ x then d else Z.to_nat x) t) = d * prodk t.
Proof.
  induction t as [|x t IH]; intro H; [discriminate|].
  unfold cntu in H. cbn [filter] in H. cbn [map prodk fold_right]. rewrite size_cons.
  destruct (unknownZ x) eqn:E.
  - simpl in H. f_equal. apply size_map_known. unfold cntu. lia.
  - fold (prodk t). rewrite IH by exact H. lia.
Qed.

Lemma map_to_nat_known d t : cntu t = 0 ->
  map Z.to_nat t = map (fun x => if unknownZ x then d else Z.to_nat x) t.
Proof.
  induction t as [|x t IH]; intro H; [reflexivity|].
  unfold cntu in H. cbn [filter] in H. cbn [map].
  destruct (unknownZ x) eqn:E; [simpl in H; lia|]. f_equal. apply IH. exact H.
Qed.

Lemma resolve_shape_unfold sz t : resolve_shape sz t =
  match cntu t with
  | 0 => if Nat.eqb (prodk t) sz then Some (map Z.to_nat t) else None
  | 1 => if Nat.eqb (prodk t) 0 then None
         else if Nat.eqb (sz mod prodk t) 0
              then Some (map (fun x => if unknownZ x then sz / prodk t else Z.to_nat x) t)
              else None
  | _ => None
  end.
Proof. reflexivity. Qed.

Lemma resolve_shape_size sz t o : resolve_shape sz t = Some o -> size o = sz.
Proof.
  rewrite resolve_shape_unfold.
  destruct (cntu t) as [|[|c]] eqn:Ec; intro H.
  - destruct (Nat.eqb_spec (prodk t) sz) as [E|E]; [|discriminate]. inversion H; subst.
    rewrite (map_to_nat_known 0 t Ec). apply size_map_known. exact Ec.
  - destruct (Nat.eqb_spec (prodk t) 0) as [E0|E0]; [discriminate|].
    destruct (Nat.eqb_spec (sz mod prodk t) 0) as [Em|Em]; [|discriminate].
    inversion H; subst. rewrite size_map_unknown by exact Ec.
    apply Nat.div_exact in Em; [|exact E0]. lia.
  - discriminate.
Qed.

Theorem reshape_bijection t s m : np_reshape t s = Some m -> bijective_on m s.
Proof.
  unfold np_reshape. intro H.
  destruct (resolve_shape (size s) t) as [o|] eqn:E; [|discriminate].
  inversion H; subst. apply reshape_map_bijection. symmetry. eapply resolve_shape_size. exact E.
Qed.

(* ------------------------------------------------------------------ *)
(* relabeling: one map for values, mask and every derivative           *)
(* ------------------------------------------------------------------ *)
Lemma firstn_app_exact {A} (a b : list A) : firstn (length a) (a ++ b) = a.
Proof. induction a as [|x a IH]; simpl; [destruct b; reflexivity | f_equal; exact IH]. Qed.
Lemma skipn_app_exact {A} (a b : list A) : skipn (length a) (a ++ b) = b.
Proof. induction a as [|x a IH]; simpl; [reflexivity | exact IH]. Qed.

(* sigma acts on the leading part of every index; item part untouched *)
Definition relabels_lead (m : imap) (a a' : q0) : Prop :=
  qlead a' = im_out m /\ qnumer a' = qnumer a /\ qdenom a' = qdenom a /\
  (forall r j, length r = length (im_out m) -> qval a' (r ++ j) = qval a (im_src m r ++ j)) /\
  (forall r, qmask a' r = qmask a (im_src m r)).

Lemma lead_map_relabels m a : relabels_lead m a (lead_map m a).
Proof.
  unfold relabels_lead, lead_map; simpl. repeat split; try reflexivity.
  intros r j H. rewrite <- H. rewrite firstn_app_exact, skipn_app_exact. reflexivity.
Qed.

(* sigma acts on the numerator part; leading axes, denominator axes and mask untouched *)
Definition relabels_numer (m : imap) (a a' : q0) : Prop :=
  qlead a' = qlead a /\ qnumer a' = im_out m /\ qdenom a' = qdenom a /\
  (forall r n d, length r = length (qlead a) -> length n = length (im_out m) ->
                 qval a' (r ++ n ++ d) = qval a (r ++ im_src m n ++ d)) /\
  (forall r, qmask a' r = qmask a r).

Lemma skipn_add_app {A} (r n d : list A) : skipn (length r + length n) (r ++ n ++ d) = d.
Proof.
  induction r as [|x r IH]; simpl; [apply skipn_app_exact | exact IH].
Qed.

Lemma numer_map_relabels m a : relabels_numer m a (numer_map m a).
Proof.
  unfold relabels_numer, numer_map; simpl. repeat split; try reflexivity.
  intros r n d Hr Hn. rewrite <- Hr, <- Hn.
  rewrite firstn_app_exact, skipn_add_app, skipn_app_exact, firstn_app_exact. reflexivity.
Qed.

Definition relabels_denom (m : imap) (a a' : q0) : Prop :=
  qlead a' = qlead a /\ qnumer a' = qnumer a /\ qdenom a' = im_out m /\
  (forall r n d, length r = length (qlead a) -> length n = length (qnumer a) ->
                 qval a' (r ++ n ++ d) = qval a (r ++ n ++ im_src m d)) /\
  (forall r, qmask a' r = qmask a r).

Lemma denom_map_relabels m a : relabels_denom m a (denom_map m a).
Proof.
  unfold relabels_denom, denom_map; simpl. repeat split; try reflexivity.
  intros r n d Hr Hn. rewrite <- Hr, <- Hn.
  rewrite app_assoc. rewrite <- app_length. rewrite firstn_app_exact, skipn_app_exact.
  rewrite <- app_assoc. reflexivity.
Qed.

(* the index map each leading-axis operation uses (None: not a leading-axis operation;
   Some None: the arguments are rejected) *)
Definition lead_sigma (o : op15) (lead : shape) : option (option imap) :=
  match o with
  | OReshape t _ => Some (np_reshape t lead)
  | OFlatten _ => Some (Some (lead_flatten lead))
  | OSwapAxes a b _ => Some (np_swapaxes a b lead)
  | ORollAxis a st rank _ => Some (with_rank (np_rollaxis a st) rank lead)
  | OMoveAxis s d rank _ => Some (with_rank (np_moveaxis s d) rank lead)
  | OBroadcastTo t _ => Some (q_broadcast_map t lead)
  | _ => None
  end.
Definition op_rec (o : op15) : bool :=
  match o with
  | OReshape _ r | OFlatten r | OSwapAxes _ _ r | ORollAxis _ _ _ r | OMoveAxis _ _ _ r
  | OBroadcastTo _ r | OExtractNumer _ _ _ r | OSliceNumer _ _ _ _ r | OTransposeNumer _ _ r
  | OReshapeNumer _ _ r | OFlattenNumer _ r | OAsRow r | OAsColumn r | OAsDiagonal r
  | OToScalars r | OToScalar _ r | OSwapXY r => r
  | _ => false
  end.

Theorem lead_relabel o q sg : lead_sigma o (qlead (qcore q)) = Some sg ->
  match sg with
  | None => run_op o q = RErr
  | Some m =>
      exists q', run_op o q = ROk [q'] /\ qcls q' = qcls q /\
                 qcore q' = lead_map m (qcore q) /\
                 qders q' = if op_rec o
                            then map (fun kd => (fst kd, lead_map m (snd kd))) (qders q) else []
  end.
Proof.
  destruct o; simpl; intro H; try discriminate; inversion H; subst; clear H;
    try (match goal with |- match ?x with _ => _ end => destruct x as [m|] eqn:E end);
    unfold apply_lead; simpl; try rewrite E; simpl; try reflexivity;
    eexists; (split; [reflexivity|]); simpl; auto.
Qed.

(* numerator-axis operations *)
Definition reshape_numer_sigma (t nu : shape) : option imap :=
  if Nat.eqb (size t) (size nu) then Some (reshape_map nu t) else None.
Definition numer_sigma (o : op15) (nu : shape) : option (option imap) :=
  match o with
  | OExtractNumer ax ix _ _ =>
      Some (match norm_axis (length nu) ax with
            | None => None
            | Some a => match norm_index (nth a nu 0) ix with
                        | None => None
                        | Some k => Some (ix_extract a k nu)
                        end
            end)
  | OToScalar ix _ =>
      Some (match norm_axis (length nu) 0 with
            | None => None
            | Some a => match norm_index (nth a nu 0) ix with
                        | None => None
                        | Some k => Some (ix_extract a k nu)
                        end
            end)
  | OSliceNumer ax i1 i2 _ _ =>
      Some (match norm_axis (length nu) ax with
            | None => None
            | Some a => let n := nth a nu 0 in
                        Some (ix_slice a (clip_bound n i1 0) (clip_bound n i2 n - clip_bound n i1 0) nu)
            end)
  | OTransposeNumer a b _ =>
      Some (match norm_axis (length nu) a, norm_axis (length nu) b with
            | Some a', Some b' => Some (np_transpose (swapP a' b' (length nu)) nu)
            | _, _ => None
            end)
  | OReshapeNumer t _ _ => Some (reshape_numer_sigma t nu)
  | OFlattenNumer _ _ => Some (reshape_numer_sigma [size nu] nu)
  | OAsRow _ => Some (reshape_numer_sigma (1 :: nu) nu)
  | OAsColumn _ => Some (reshape_numer_sigma (nu ++ [1]) nu)
  | OSwapXY _ => Some (Some (ix_flip0 nu))
  | _ => None
  end.

Theorem numer_relabel o q sg : numer_sigma o (qnumer (qcore q)) = Some sg ->
  match sg with
  | None => run_op o q = RErr
  | Some m =>
      exists q', run_op o q = ROk [q'] /\
                 qcore q' = numer_map m (qcore q) /\
                 qders q' = if op_rec o
                            then map (fun kd => (fst kd, numer_map m (snd kd))) (qders q) else []
  end.
Proof.
  destruct o; intro H; cbn [numer_sigma] in H; try discriminate; injection H as <-;
    cbn [run_op]; unfold q_extract_numer, q_reshape_numer, apply_numer, reshape_numer_sigma;
    repeat match goal with
           | |- context [match norm_axis ?n ?a with _ => _ end] => destruct (norm_axis n a) eqn:?
           | |- context [match norm_index ?n ?a with _ => _ end] => destruct (norm_index n a) eqn:?
           | |- context [if Nat.eqb ?x ?y then _ else _] => destruct (Nat.eqb x y) eqn:?
           end; try reflexivity;
    eexists; (split; [reflexivity|]); cbn [qcore qders map_q op_rec]; auto.
Qed.

(* denominator-axis operations and item regrouping never touch leading axes or the mask *)
Theorem denom_ops_keep_lead o q q' :
  match o with
  | OExtractDenom _ _ _ | OTransposeDenom _ _ | OReshapeDenom _ | OFlattenDenom
  | OJoinItems _ | OSplitItems _ _ | OSwapItems _ => True
  | _ => False
  end ->
  run_op o q = ROk [q'] ->
  qlead (qcore q') = qlead (qcore q) /\ (forall r, qmask (qcore q') r = qmask (qcore q) r) /\
  qders q' = [].
Proof.
  destruct o; simpl; intros Ho H; try contradiction; clear Ho;
    unfold q_reshape_denom in H;
    repeat match type of H with
           | context [match norm_axis ?n ?a with _ => _ end] => destruct (norm_axis n a) eqn:?
           | context [match norm_index ?n ?a with _ => _ end] => destruct (norm_index n a) eqn:?
           | context [if ?c then _ else _] => destruct c eqn:?
           | context [match qdenom ?c with _ => _ end] => destruct (qdenom c) eqn:?
           end; try discriminate; inversion H; subst; simpl; auto.
Qed.
