(* C15 lemmas: all proofs about the relabeling model C15Model.v. *)
From Coq Require Import List Arith ZArith Bool Lia Permutation.
From PM Require Import Base Mask C15Model.
Import ListNotations.

(* ------------------------------------------------------------------ *)
(* lists                                                               *)
(* ------------------------------------------------------------------ *)
Lemma nth_map_lt {A B} (f : A -> B) (l : list A) k dA dB :
  k < length l -> nth k (map f l) dB = f (nth k l dA).
Proof.
  intro H. rewrite nth_indep with (d' := f dA) by (rewrite map_length; exact H).
  apply map_nth.
Qed.

Lemma gather_length p i : length (gather p i) = length p.
Proof. unfold gather. apply map_length. Qed.

Lemma nth_gather p i k : k < length p -> nth k (gather p i) 0 = nth (nth k p 0) i 0.
Proof. intro H. unfold gather. apply (nth_map_lt (fun k => nth k i 0) p k 0 0 H). Qed.

Lemma gather_gather p q i :
  (forall k, In k p -> k < length q) -> gather p (gather q i) = gather (gather p q) i.
Proof.
  intro H. unfold gather. rewrite map_map. apply map_ext_in. intros k Hk.
  apply (nth_map_lt (fun k => nth k i 0) q k 0 0). apply H. exact Hk.
Qed.

Lemma gather_seq i : gather (seq 0 (length i)) i = i.
Proof.
  apply nth_ext with (d := 0) (d' := 0).
  - rewrite gather_length, seq_length. reflexivity.
  - intros k Hk. rewrite gather_length, seq_length in Hk.
    rewrite nth_gather by (rewrite seq_length; exact Hk).
    rewrite seq_nth by exact Hk. reflexivity.
Qed.

(* p is a permutation of 0..n-1 *)
Definition is_perm (p : list nat) (n : nat) : Prop :=
  NoDup p /\ length p = n /\ (forall m, In m p <-> m < n).

Lemma is_perm_of_Permutation p n : Permutation p (seq 0 n) -> is_perm p n.
Proof.
  intro H. split; [|split].
  - apply Permutation_NoDup with (l := seq 0 n); [apply Permutation_sym; exact H | apply seq_NoDup].
  - rewrite (Permutation_length H). apply seq_length.
  - intro m. split; intro Hm.
    + apply (Permutation_in _ H) in Hm. apply in_seq in Hm. lia.
    + apply (Permutation_in _ (Permutation_sym H)). apply in_seq. lia.
Qed.

Lemma pos_nth p : NoDup p -> forall k, k < length p -> pos (nth k p 0) p = k.
Proof.
  induction p as [|a p IH]; intros ND k Hk; simpl in *; [lia|].
  inversion ND as [|x l Hnin ND']; subst.
  destruct k as [|k].
  - rewrite Nat.eqb_refl. reflexivity.
  - destruct (Nat.eqb_spec a (nth k p 0)) as [E|E].
    + exfalso. apply Hnin. rewrite E. apply nth_In. lia.
    + f_equal. apply IH; [exact ND' | lia].
Qed.

Lemma nth_pos p m : In m p -> nth (pos m p) p 0 = m.
Proof.
  induction p as [|a p IH]; simpl; intros H; [contradiction|].
  destruct (Nat.eqb_spec a m) as [E|E]; [exact E|].
  destruct H as [H|H]; [contradiction|]. apply IH. exact H.
Qed.

Lemma pos_lt p m : In m p -> pos m p < length p.
Proof.
  induction p as [|a p IH]; simpl; intros H; [contradiction|].
  destruct (Nat.eqb_spec a m) as [E|E]; [lia|].
  destruct H as [H|H]; [contradiction|]. apply IH in H. lia.
Qed.

Lemma inv_length p : length (inv p) = length p.
Proof. unfold inv. rewrite map_length, seq_length. reflexivity. Qed.

Lemma gather_inv_r p n : is_perm p n -> gather p (inv p) = seq 0 n.
Proof.
  intros (ND & Hl & Hin).
  apply nth_ext with (d := 0) (d' := 0).
  - rewrite gather_length, seq_length. exact Hl.
  - intros k Hk. rewrite gather_length in Hk.
    rewrite nth_gather by exact Hk.
    assert (Hm : nth k p 0 < n) by (apply Hin; apply nth_In; exact Hk).
    unfold inv. rewrite (nth_map_lt (fun m => pos m p) (seq 0 (length p)) (nth k p 0) 0 0)
      by (rewrite seq_length; lia).
    rewrite seq_nth by lia. simpl.
    rewrite pos_nth by assumption. rewrite seq_nth by lia. reflexivity.
Qed.

Lemma gather_inv_l p n : is_perm p n -> gather (inv p) p = seq 0 n.
Proof.
  intros (ND & Hl & Hin). unfold gather, inv. rewrite map_map. rewrite Hl.
  rewrite <- (map_id (seq 0 n)) at 2. apply map_ext_in. intros m Hm.
  apply nth_pos. apply Hin. apply in_seq in Hm. lia.
Qed.

Lemma transpose_roundtrip1 p n i :
  is_perm p n -> length i = n -> gather p (gather (inv p) i) = i.
Proof.
  intros Hp Hi. rewrite gather_gather.
  - rewrite (gather_inv_r p n Hp). rewrite <- Hi. apply gather_seq.
  - intros k Hk. rewrite inv_length. destruct Hp as (_ & Hl & Hin). rewrite Hl. apply Hin. exact Hk.
Qed.

Lemma transpose_roundtrip2 p n j :
  is_perm p n -> length j = n -> gather (inv p) (gather p j) = j.
Proof.
  intros Hp Hj. rewrite gather_gather.
  - rewrite (gather_inv_l p n Hp). rewrite <- Hj. apply gather_seq.
  - intros k Hk. unfold inv in Hk. apply in_map_iff in Hk. destruct Hk as (m & <- & Hm).
    apply pos_lt. destruct Hp as (_ & Hl & Hin). apply Hin. apply in_seq in Hm. lia.
Qed.

(* in-bounds, pointwise *)
Lemma inb_nth s : forall i, inb s i = true <->
  (length i = length s /\ forall k, k < length s -> nth k i 0 < nth k s 0).
Proof.
  induction s as [|n s IH]; intros [|x i]; simpl.
  - split; [intros _; split; [reflexivity | intros k Hk; lia] | reflexivity].
  - split; [discriminate | intros [H _]; discriminate].
  - split; [discriminate | intros [H _]; discriminate].
  - rewrite andb_true_iff, Nat.ltb_lt, IH. split.
    + intros [Hx [Hl Hn]]. split; [lia|]. intros [|k] Hk; [exact Hx | apply Hn; lia].
    + intros [Hl Hn]. split; [apply (Hn 0); lia|]. split; [lia|].
      intros k Hk. apply (Hn (S k)). lia.
Qed.

Lemma inb_length s i : inb s i = true -> length i = length s.
Proof. intro H. apply inb_nth in H. tauto. Qed.

Lemma inb_gather p s j :
  (forall k, In k p -> k < length s) -> inb s j = true -> inb (gather p s) (gather p j) = true.
Proof.
  intros Hp Hj. apply inb_nth in Hj. destruct Hj as [Hl Hn]. apply inb_nth.
  rewrite !gather_length. split; [reflexivity|].
  intros k Hk. rewrite !nth_gather by exact Hk. apply Hn. apply Hp. apply nth_In. exact Hk.
Qed.

(* ------------------------------------------------------------------ *)
(* np.transpose along a permutation is a bijection of index sets       *)
(* ------------------------------------------------------------------ *)
Lemma inv_entries_lt p n : is_perm p n -> forall k, In k (inv p) -> k < n.
Proof.
  intros (ND & Hl & Hin) k Hk. unfold inv in Hk. apply in_map_iff in Hk.
  destruct Hk as (m & <- & Hm). rewrite <- Hl. apply pos_lt. apply Hin. apply in_seq in Hm. lia.
Qed.

Theorem np_transpose_bijection p n s : is_perm p n -> length s = n ->
  (forall i, inb (im_out (np_transpose p s)) i = true -> inb s (im_src (np_transpose p s) i) = true) /\
  (forall i i', inb (im_out (np_transpose p s)) i = true -> inb (im_out (np_transpose p s)) i' = true ->
                im_src (np_transpose p s) i = im_src (np_transpose p s) i' -> i = i') /\
  (forall j, inb s j = true ->
             exists i, inb (im_out (np_transpose p s)) i = true /\ im_src (np_transpose p s) i = j).
Proof.
  intros Hp Hs. simpl. split; [|split].
  - intros i Hi.
    assert (H := inb_gather (inv p) (gather p s) i).
    rewrite (transpose_roundtrip2 p n s Hp Hs) in H. apply H; [|exact Hi].
    intros k Hk. rewrite gather_length. destruct Hp as (ND & Hl & Hin). rewrite Hl.
    apply (inv_entries_lt p n); [split; [|split]; assumption | exact Hk].
  - intros i i' Hi Hi' E.
    apply inb_length in Hi. apply inb_length in Hi'. rewrite gather_length in Hi, Hi'.
    assert (Hl : length p = n) by (destruct Hp as (_ & Hl & _); exact Hl).
    rewrite <- (transpose_roundtrip1 p n i Hp) by lia.
    rewrite <- (transpose_roundtrip1 p n i' Hp) by lia. rewrite E. reflexivity.
  - intros j Hj. exists (gather p j). split.
    + apply inb_gather; [|exact Hj]. intros k Hk. rewrite Hs. destruct Hp as (_ & _ & Hin). apply Hin. exact Hk.
    + apply (transpose_roundtrip2 p n j Hp). apply inb_length in Hj. lia.
Qed.

(* ------------------------------------------------------------------ *)
(* the permutations of swapaxes / rollaxis / moveaxis                  *)
(* ------------------------------------------------------------------ *)
Definition swapf (a b k : nat) : nat := if Nat.eqb k a then b else if Nat.eqb k b then a else k.

Lemma swapf_invol a b k : swapf a b (swapf a b k) = k.
Proof.
  unfold swapf.
  destruct (Nat.eqb_spec k a) as [E1|E1]; destruct (Nat.eqb_spec k b) as [E2|E2];
    repeat (match goal with |- context [Nat.eqb ?x ?y] => destruct (Nat.eqb_spec x y) end); lia.
Qed.

Lemma swapf_lt a b n k : a < n -> b < n -> k < n -> swapf a b k < n.
Proof.
  intros Ha Hb Hk. unfold swapf.
  destruct (Nat.eqb_spec k a); [lia|]. destruct (Nat.eqb_spec k b); lia.
Qed.

Lemma swapP_perm a b n : a < n -> b < n -> is_perm (swapP a b n) n.
Proof.
  intros Ha Hb. apply is_perm_of_Permutation. apply NoDup_Permutation.
  - unfold swapP. apply FinFun.Injective_map_NoDup; [|apply seq_NoDup].
    intros x y E. change (swapf a b x = swapf a b y) in E.
    rewrite <- (swapf_invol a b x), <- (swapf_invol a b y), E. reflexivity.
  - apply seq_NoDup.
  - intro m. unfold swapP. rewrite in_map_iff. split.
    + intros (k & E & Hk). apply in_seq in Hk. apply in_seq.
      change (swapf a b k = m) in E. subst m. split; [lia|]. simpl. apply swapf_lt; lia.
    + intro Hm. apply in_seq in Hm. exists (swapf a b m). split.
      * apply (swapf_invol a b m).
      * apply in_seq. split; [lia|]. simpl. apply swapf_lt; lia.
Qed.

Lemma insert_at_perm k x l : Permutation (insert_at k x l) (x :: l).
Proof.
  revert k. induction l as [|y l IH]; intros [|k]; simpl; try apply Permutation_refl.
  apply Permutation_trans with (l' := y :: x :: l); [apply perm_skip; apply IH | apply perm_swap].
Qed.

Lemma remove_nat_perm x l : In x l -> Permutation (x :: remove_nat x l) l.
Proof.
  induction l as [|y l IH]; simpl; intro H; [contradiction|].
  destruct (Nat.eqb_spec y x) as [E|E]; [subst; apply Permutation_refl|].
  destruct H as [H|H]; [contradiction|].
  apply Permutation_trans with (l' := y :: x :: remove_nat x l); [apply perm_swap|].
  apply perm_skip. apply IH. exact H.
Qed.

Lemma rollP_perm ax st n : ax < n -> is_perm (rollP ax st n) n.
Proof.
  intro H. apply is_perm_of_Permutation. unfold rollP.
  apply Permutation_trans with (l' := ax :: remove_nat ax (seq 0 n)); [apply insert_at_perm|].
  apply remove_nat_perm. apply in_seq. lia.
Qed.

Lemma insert_sorted_perm p l : Permutation (insert_sorted p l) (p :: l).
Proof.
  induction l as [|q l IH]; simpl; [apply Permutation_refl|].
  destruct (Nat.leb (fst p) (fst q)); [apply Permutation_refl|].
  apply Permutation_trans with (l' := q :: p :: l); [apply perm_skip; exact IH | apply perm_swap].
Qed.

Lemma sort_pairs_perm l : Permutation (sort_pairs l) l.
Proof.
  induction l as [|p l IH]; simpl; [apply perm_nil|].
  apply Permutation_trans with (l' := p :: sort_pairs l); [apply insert_sorted_perm | apply perm_skip; exact IH].
Qed.

Lemma fold_insert_perm (ps : list (nat * nat)) : forall ord,
  Permutation (fold_left (fun ord p => insert_at (fst p) (snd p) ord) ps ord) (map snd ps ++ ord).
Proof.
  induction ps as [|p ps IH]; intro ord; simpl; [apply Permutation_refl|].
  apply Permutation_trans with (l' := map snd ps ++ insert_at (fst p) (snd p) ord); [apply IH|].
  apply Permutation_trans with (l' := map snd ps ++ snd p :: ord).
  - apply Permutation_app_head. apply insert_at_perm.
  - apply Permutation_sym. apply Permutation_middle.
Qed.

Lemma map_snd_combine {A B} (a : list A) : forall (b : list B), length a = length b -> map snd (combine a b) = b.
Proof.
  induction a as [|x a IH]; intros [|y b] H; simpl in *; try discriminate; auto.
  f_equal. apply IH. lia.
Qed.

Lemma nodupb_NoDup l : nodupb l = true -> NoDup l.
Proof.
  induction l as [|x l IH]; simpl; intro H; [constructor|].
  apply andb_true_iff in H. destruct H as [H1 H2]. constructor; [|apply IH; exact H2].
  intro Hin. apply negb_true_iff in H1.
  assert (E : existsb (Nat.eqb x) l = true) by (apply existsb_exists; exists x; split; [exact Hin | apply Nat.eqb_refl]).
  congruence.
Qed.

Lemma filter_partition_perm {A} (f : A -> bool) l :
  Permutation (filter f l ++ filter (fun x => negb (f x)) l) l.
Proof.
  induction l as [|a l IH]; simpl; [apply perm_nil|].
  destruct (f a); simpl.
  - apply perm_skip. exact IH.
  - apply Permutation_trans with (l' := a :: filter f l ++ filter (fun x => negb (f x)) l).
    + apply Permutation_sym. apply Permutation_middle.
    + apply perm_skip. exact IH.
Qed.

Lemma moveP_perm src dst n :
  NoDup src -> (forall x, In x src -> x < n) -> length src = length dst -> is_perm (moveP src dst n) n.
Proof.
  intros ND Hlt Hlen. apply is_perm_of_Permutation. unfold moveP.
  eapply Permutation_trans; [apply fold_insert_perm|].
  eapply Permutation_trans.
  { apply Permutation_app_tail. apply Permutation_map. apply sort_pairs_perm. }
  rewrite map_snd_combine by lia.
  eapply Permutation_trans; [|apply (filter_partition_perm (fun k => existsb (Nat.eqb k) src) (seq 0 n))].
  apply Permutation_app_tail. apply NoDup_Permutation.
  - exact ND.
  - apply NoDup_filter. apply seq_NoDup.
  - intro x. rewrite filter_In, in_seq, existsb_exists. split.
    + intro Hx. split; [specialize (Hlt x Hx); lia|]. exists x. split; [exact Hx | apply Nat.eqb_refl].
    + intros [_ (y & Hy & E)]. apply Nat.eqb_eq in E. subst y. exact Hy.
Qed.

(* ------------------------------------------------------------------ *)
(* axis-argument normalisation                                         *)
(* ------------------------------------------------------------------ *)
Lemma norm_axis_spec n a k : norm_axis n a = Some k <->
  ((- Z.of_nat n <= a < Z.of_nat n)%Z /\
   k = Z.to_nat (if (a <? 0)%Z then (a + Z.of_nat n)%Z else a)).
Proof.
  unfold norm_axis.
  destruct (Z.leb_spec (- Z.of_nat n) a) as [H1|H1]; destruct (Z.ltb_spec a (Z.of_nat n)) as [H2|H2];
    simpl; split; intro H; try discriminate; try (destruct H as [H _]; lia).
  - inversion H. split; [lia | reflexivity].
  - destruct H as [_ ->]. reflexivity.
Qed.

Lemma norm_axis_none n a : norm_axis n a = None <-> (a < - Z.of_nat n \/ Z.of_nat n <= a)%Z.
Proof.
  unfold norm_axis.
  destruct (Z.leb_spec (- Z.of_nat n) a) as [H1|H1]; destruct (Z.ltb_spec a (Z.of_nat n)) as [H2|H2];
    simpl; split; intro H; try discriminate; try lia; reflexivity.
Qed.

Lemma norm_axis_lt n a k : norm_axis n a = Some k -> k < n.
Proof.
  intro H. apply norm_axis_spec in H. destruct H as [H ->].
  destruct (Z.ltb_spec a 0); lia.
Qed.

(* the normalised axis is Python's a % n *)
Lemma norm_axis_mod n a k : norm_axis n a = Some k -> Z.of_nat k = (a mod Z.of_nat n)%Z.
Proof.
  intro H. apply norm_axis_spec in H. destruct H as [H ->].
  destruct (Z.ltb_spec a 0) as [Hn|Hn].
  - rewrite Z2Nat.id by lia. rewrite <- (Z_mod_plus_full a 1 (Z.of_nat n)).
    rewrite Z.mul_1_l. symmetry. apply Z.mod_small. lia.
  - rewrite Z2Nat.id by lia. symmetry. apply Z.mod_small. lia.
Qed.

Lemma norm_axes_spec n : forall l l', norm_axes n l = Some l' ->
  length l' = length l /\ forall x, In x l' -> x < n.
Proof.
  induction l as [|a l IH]; intros l' H; simpl in H.
  - inversion H. split; [reflexivity | intros x []].
  - destruct (norm_axis n a) as [k|] eqn:Ek; [|discriminate].
    destruct (norm_axes n l) as [r|] eqn:Er; [|discriminate].
    inversion H; subst. destruct (IH r eq_refl) as [Hl Hlt]. split; [simpl; lia|].
    intros x [<-|Hx]; [eapply norm_axis_lt; exact Ek | apply Hlt; exact Hx].
Qed.

(* ------------------------------------------------------------------ *)
(* bijections                                                          *)
(* ------------------------------------------------------------------ *)
(* every output element comes from an in-bounds source element, no source element is
   used twice, every source element is used: nothing lost, nothing duplicated *)
Definition bijective_on (m : imap) (s : shape) : Prop :=
  (forall i, inb (im_out m) i = true -> inb s (im_src m i) = true) /\
  (forall i i', inb (im_out m) i = true -> inb (im_out m) i' = true ->
                im_src m i = im_src m i' -> i = i') /\
  (forall j, inb s j = true -> exists i, inb (im_out m) i = true /\ im_src m i = j).

Lemma transpose_bij p s : is_perm p (length s) -> bijective_on (np_transpose p s) s.
Proof. intro H. exact (np_transpose_bijection p (length s) s H eq_refl). Qed.

Theorem swapaxes_bijection a b s m : np_swapaxes a b s = Some m -> bijective_on m s.
Proof.
  unfold np_swapaxes. intro H.
  destruct (norm_axis (length s) a) as [a'|] eqn:Ea; [|discriminate].
  destruct (norm_axis (length s) b) as [b'|] eqn:Eb; [|discriminate].
  inversion H; subst. apply transpose_bij. apply swapP_perm; eapply norm_axis_lt; eassumption.
Qed.

Theorem rollaxis_bijection a st s m : np_rollaxis a st s = Some m -> bijective_on m s.
Proof.
  unfold np_rollaxis. intro H.
  destruct (norm_axis (length s) a) as [a'|] eqn:Ea; [|discriminate].
  destruct (roll_start (length s) a' st) as [st'|] eqn:Es; [|discriminate].
  inversion H; subst. apply transpose_bij. apply rollP_perm. eapply norm_axis_lt; eassumption.
Qed.

Theorem moveaxis_bijection src dst s m : np_moveaxis src dst s = Some m -> bijective_on m s.
Proof.
  unfold np_moveaxis. intro H.
  destruct (norm_axes (length s) src) as [s'|] eqn:Es; [|discriminate].
  destruct (norm_axes (length s) dst) as [d'|] eqn:Ed; [|discriminate].
  destruct (nodupb s' && nodupb d' && Nat.eqb (length s') (length d')) eqn:Ec; [|discriminate].
  inversion H; subst.
  apply andb_true_iff in Ec. destruct Ec as [Ec E3]. apply andb_true_iff in Ec. destruct Ec as [E1 E2].
  apply Nat.eqb_eq in E3. apply transpose_bij. apply moveP_perm.
  - apply nodupb_NoDup. exact E1.
  - apply (norm_axes_spec _ _ _ Es).
  - exact E3.
Qed.

(* ---- reshape ---- *)
Lemma size_cons n t : size (n :: t) = n * size t.
Proof. reflexivity. Qed.

Lemma unravel_length s : forall k, length (unravel s k) = length s.
Proof. induction s as [|n t IH]; intro k; simpl; [reflexivity | f_equal; apply IH]. Qed.

Lemma unravel_inb s : forall k, k < size s -> inb s (unravel s k) = true.
Proof.
  induction s as [|n t IH]; intros k Hk; [reflexivity|].
  rewrite size_cons in Hk. cbn [unravel inb].
  assert (Hst : size t <> 0) by (intro E; rewrite E in Hk; lia).
  apply andb_true_iff. split.
  - apply Nat.ltb_lt. apply Nat.div_lt_upper_bound; [exact Hst | lia].
  - apply IH. apply Nat.mod_upper_bound. exact Hst.
Qed.

Lemma ravel_unravel s : forall k, k < size s -> ravel s (unravel s k) = k.
Proof.
  induction s as [|n t IH]; intros k Hk.
  - simpl in *. lia.
  - rewrite size_cons in Hk. cbn [unravel ravel].
    assert (Hst : size t <> 0) by (intro E; rewrite E in Hk; lia).
    rewrite IH by (apply Nat.mod_upper_bound; exact Hst).
    rewrite (Nat.div_mod k (size t) Hst) at 3. lia.
Qed.

Lemma unravel_ravel s : forall i, inb s i = true -> unravel s (ravel s i) = i.
Proof.
  induction s as [|n t IH]; intros [|x i] H; try discriminate; [reflexivity|].
  cbn [inb] in H. apply andb_true_iff in H. destruct H as [Hx Hi].
  cbn [ravel unravel].
  assert (Hr := ravel_lt t i Hi).
  assert (Hst : size t <> 0) by lia.
  f_equal.
  - rewrite Nat.div_add_l by exact Hst. rewrite Nat.div_small by exact Hr. lia.
  - rewrite Nat.add_comm, Nat.mod_add by exact Hst. rewrite Nat.mod_small by exact Hr.
    apply IH. exact Hi.
Qed.

Theorem reshape_map_bijection s o : size s = size o -> bijective_on (reshape_map s o) s.
Proof.
  intro Hsz. unfold bijective_on; simpl. split; [|split].
  - intros i Hi. apply unravel_inb. rewrite Hsz. apply ravel_lt. exact Hi.
  - intros i i' Hi Hi' E.
    assert (E2 : ravel o i = ravel o i').
    { rewrite <- (ravel_unravel s (ravel o i)) by (rewrite Hsz; apply ravel_lt; exact Hi).
      rewrite <- (ravel_unravel s (ravel o i')) by (rewrite Hsz; apply ravel_lt; exact Hi').
      rewrite E. reflexivity. }
    rewrite <- (unravel_ravel o i Hi), <- (unravel_ravel o i' Hi'), E2. reflexivity.
  - intros j Hj. exists (unravel o (ravel s j)). split.
    + apply unravel_inb. rewrite <- Hsz. apply ravel_lt. exact Hj.
    + rewrite ravel_unravel by (rewrite <- Hsz; apply ravel_lt; exact Hj).
      apply unravel_ravel. exact Hj.
Qed.

(* the resolved target shape (with the unknown entry filled in) has the size of the source *)
Definition unknownZ (x : Z) : bool := Z.ltb x 0.
Definition prodk (t : list Z) : nat :=
  fold_right (fun x acc => if unknownZ x then acc else Z.to_nat x * acc) 1 t.
Definition cntu (t : list Z) : nat := length (filter unknownZ t).

Lemma size_map_known d : forall t, cntu t = 0 ->
  size (map (fun x => if unknownZ x then d else Z.to_nat x) t) = prodk t.
Proof.
  induction t as [|x t IH]; intro H; [reflexivity|].
  unfold cntu in H. cbn [filter] in H. cbn [map prodk fold_right].
  destruct (unknownZ x) eqn:E; [simpl in H; lia|].
  rewrite size_cons. f_equal. apply IH. exact H.
Qed.

Lemma size_map_unknown d : forall t, cntu t = 1 ->
  size (map (fun x => if unknownZ x then d else Z.to_nat x) t) = d * prodk t.
Proof.
  induction t as [|x t IH]; intro H; [discriminate|].
  unfold cntu in H. cbn [filter] in H. cbn [map prodk fold_right]. rewrite size_cons.
  destruct (unknownZ x) eqn:E.
  - simpl in H. f_equal. apply size_map_known. unfold cntu. lia.
  - fold (prodk t). rewrite IH by exact H. lia.
Qed.

Lemma map_to_nat_known d t : cntu t = 0 ->
  map Z.to_nat t = map (fun x => if unknownZ x then d else Z.to_nat x) t.
Proof.
  induction t as [|x t IH]; intro H; [reflexivity|].
  unfold cntu in H. cbn [filter] in H. cbn [map].
  destruct (unknownZ x) eqn:E; [simpl in H; lia|]. f_equal. apply IH. exact H.
Qed.

Lemma resolve_shape_unfold sz t : resolve_shape sz t =
  match cntu t with
  | 0 => if Nat.eqb (prodk t) sz then Some (map Z.to_nat t) else None
  | 1 => if Nat.eqb (prodk t) 0 then None
         else if Nat.eqb (sz mod prodk t) 0
              then Some (map (fun x => if unknownZ x then sz / prodk t else Z.to_nat x) t)
              else None
  | _ => None
  end.
Proof. reflexivity. Qed.

Lemma resolve_shape_size sz t o : resolve_shape sz t = Some o -> size o = sz.
Proof.
  rewrite resolve_shape_unfold.
  destruct (cntu t) as [|[|c]] eqn:Ec; intro H.
  - destruct (Nat.eqb_spec (prodk t) sz) as [E|E]; [|discriminate]. inversion H; subst.
    rewrite (map_to_nat_known 0 t Ec). apply size_map_known. exact Ec.
  - destruct (Nat.eqb_spec (prodk t) 0) as [E0|E0]; [discriminate|].
    destruct (Nat.eqb_spec (sz mod prodk t) 0) as [Em|Em]; [|discriminate].
    inversion H; subst. rewrite size_map_unknown by exact Ec.
    apply Nat.div_exact in Em; [|exact E0]. lia.
  - discriminate.
Qed.

Theorem reshape_bijection t s m : np_reshape t s = Some m -> bijective_on m s.
Proof.
  unfold np_reshape. intro H.
  destruct (resolve_shape (size s) t) as [o|] eqn:E; [|discriminate].
  inversion H; subst. apply reshape_map_bijection. symmetry. eapply resolve_shape_size. exact E.
Qed.

(* ------------------------------------------------------------------ *)
(* relabeling: one map for values, mask and every derivative           *)
(* ------------------------------------------------------------------ *)
Lemma firstn_app_exact {A} (a b : list A) : firstn (length a) (a ++ b) = a.
Proof. induction a as [|x a IH]; simpl; [destruct b; reflexivity | f_equal; exact IH]. Qed.
Lemma skipn_app_exact {A} (a b : list A) : skipn (length a) (a ++ b) = b.
Proof. induction a as [|x a IH]; simpl; [reflexivity | exact IH]. Qed.

(* sigma acts on the leading part of every index; item part untouched *)
Definition relabels_lead (m : imap) (a a' : q0) : Prop :=
  qlead a' = im_out m /\ qnumer a' = qnumer a /\ qdenom a' = qdenom a /\
  (forall r j, length r = length (im_out m) -> qval a' (r ++ j) = qval a (im_src m r ++ j)) /\
  (forall r, qmask a' r = qmask a (im_src m r)).

Lemma lead_map_relabels m a : relabels_lead m a (lead_map m a).
Proof.
  unfold relabels_lead, lead_map; simpl. repeat split; try reflexivity.
  intros r j H. rewrite <- H. rewrite firstn_app_exact, skipn_app_exact. reflexivity.
Qed.

(* sigma acts on the numerator part; leading axes, denominator axes and mask untouched *)
Definition relabels_numer (m : imap) (a a' : q0) : Prop :=
  qlead a' = qlead a /\ qnumer a' = im_out m /\ qdenom a' = qdenom a /\
  (forall r n d, length r = length (qlead a) -> length n = length (im_out m) ->
                 qval a' (r ++ n ++ d) = qval a (r ++ im_src m n ++ d)) /\
  (forall r, qmask a' r = qmask a r).

Lemma skipn_add_app {A} (r n d : list A) : skipn (length r + length n) (r ++ n ++ d) = d.
Proof.
  induction r as [|x r IH]; simpl; [apply skipn_app_exact | exact IH].
Qed.

Lemma numer_map_relabels m a : relabels_numer m a (numer_map m a).
Proof.
  unfold relabels_numer, numer_map; simpl. repeat split; try reflexivity.
  intros r n d Hr Hn. rewrite <- Hr, <- Hn.
  rewrite firstn_app_exact, skipn_add_app, skipn_app_exact, firstn_app_exact. reflexivity.
Qed.

Definition relabels_denom (m : imap) (a a' : q0) : Prop :=
  qlead a' = qlead a /\ qnumer a' = qnumer a /\ qdenom a' = im_out m /\
  (forall r n d, length r = length (qlead a) -> length n = length (qnumer a) ->
                 qval a' (r ++ n ++ d) = qval a (r ++ n ++ im_src m d)) /\
  (forall r, qmask a' r = qmask a r).

Lemma denom_map_relabels m a : relabels_denom m a (denom_map m a).
Proof.
  unfold relabels_denom, denom_map; simpl. repeat split; try reflexivity.
  intros r n d Hr Hn. rewrite <- Hr, <- Hn.
  rewrite app_assoc. rewrite <- app_length. rewrite firstn_app_exact, skipn_app_exact.
  rewrite <- app_assoc. reflexivity.
Qed.

(* the index map each leading-axis operation uses (None: not a leading-axis operation;
   Some None: the arguments are rejected) *)
Definition lead_sigma (o : op15) (lead : shape) : option (option imap) :=
  match o with
  | OReshape t _ => Some (np_reshape t lead)
  | OFlatten _ => Some (Some (lead_flatten lead))
  | OSwapAxes a b _ => Some (np_swapaxes a b lead)
  | ORollAxis a st rank _ => Some (with_rank (np_rollaxis a st) rank lead)
  | OMoveAxis s d rank _ => Some (with_rank (np_moveaxis s d) rank lead)
  | OBroadcastTo t _ => Some (q_broadcast_map t lead)
  | _ => None
  end.
Definition op_rec (o : op15) : bool :=
  match o with
  | OReshape _ r | OFlatten r | OSwapAxes _ _ r | ORollAxis _ _ _ r | OMoveAxis _ _ _ r
  | OBroadcastTo _ r | OExtractNumer _ _ _ r | OSliceNumer _ _ _ _ r | OTransposeNumer _ _ r
  | OReshapeNumer _ _ r | OFlattenNumer _ r | OAsRow r | OAsColumn r | OAsDiagonal r
  | OToScalars r | OToScalar _ r | OSwapXY r => r
  | _ => false
  end.

Theorem lead_relabel o q sg : lead_sigma o (qlead (qcore q)) = Some sg ->
  match sg with
  | None => run_op o q = RErr
  | Some m =>
      exists q', run_op o q = ROk [q'] /\ qcls q' = qcls q /\
                 qcore q' = lead_map m (qcore q) /\
                 qders q' = if op_rec o
                            then map (fun kd => (fst kd, lead_map m (snd kd))) (qders q) else []
  end.
Proof.
  destruct o; simpl; intro H; try discriminate; inversion H; subst; clear H;
    try (match goal with |- match ?x with _ => _ end => destruct x as [m|] eqn:E end);
    unfold apply_lead; simpl; try rewrite E; simpl; try reflexivity;
    eexists; (split; [reflexivity|]); simpl; auto.
Qed.

(* numerator-axis operations *)
Definition reshape_numer_sigma (t nu : shape) : option imap :=
  if Nat.eqb (size t) (size nu) then Some (reshape_map nu t) else None.
Definition numer_sigma (o : op15) (nu : shape) : option (option imap) :=
  match o with
  | OExtractNumer ax ix _ _ =>
      Some (match norm_axis (length nu) ax with
            | None => None
            | Some a => match norm_index (nth a nu 0) ix with
                        | None => None
                        | Some k => Some (ix_extract a k nu)
                        end
            end)
  | OToScalar ix _ =>
      Some (match norm_axis (length nu) 0 with
            | None => None
            | Some a => match norm_index (nth a nu 0) ix with
                        | None => None
                        | Some k => Some (ix_extract a k nu)
                        end
            end)
  | OSliceNumer ax i1 i2 _ _ =>
      Some (match norm_axis (length nu) ax with
            | None => None
            | Some a => let n := nth a nu 0 in
                        Some (ix_slice a (clip_bound n i1 0) (clip_bound n i2 n - clip_bound n i1 0) nu)
            end)
  | OTransposeNumer a b _ =>
      Some (match norm_axis (length nu) a, norm_axis (length nu) b with
            | Some a', Some b' => Some (np_transpose (swapP a' b' (length nu)) nu)
            | _, _ => None
            end)
  | OReshapeNumer t _ _ => Some (reshape_numer_sigma t nu)
  | OFlattenNumer _ _ => Some (reshape_numer_sigma [size nu] nu)
  | OAsRow _ => Some (reshape_numer_sigma (1 :: nu) nu)
  | OAsColumn _ => Some (reshape_numer_sigma (nu ++ [1]) nu)
  | OSwapXY _ => Some (Some (ix_flip0 nu))
  | _ => None
  end.

Theorem numer_relabel o q sg : numer_sigma o (qnumer (qcore q)) = Some sg ->
  match sg with
  | None => run_op o q = RErr
  | Some m =>
      exists q', run_op o q = ROk [q'] /\
                 qcore q' = numer_map m (qcore q) /\
                 qders q' = if op_rec o
                            then map (fun kd => (fst kd, numer_map m (snd kd))) (qders q) else []
  end.
Proof.
  destruct o; intro H; cbn [numer_sigma] in H; try discriminate; injection H as <-;
    cbn [run_op]; unfold q_extract_numer, q_reshape_numer, apply_numer, reshape_numer_sigma;
    repeat match goal with
           | |- context [match norm_axis ?n ?a with _ => _ end] => destruct (norm_axis n a) eqn:?
           | |- context [match norm_index ?n ?a with _ => _ end] => destruct (norm_index n a) eqn:?
           | |- context [if Nat.eqb ?x ?y then _ else _] => destruct (Nat.eqb x y) eqn:?
           end; try reflexivity;
    eexists; (split; [reflexivity|]); cbn [qcore qders map_q op_rec]; auto.
Qed.

(* denominator-axis operations and item regrouping never touch leading axes or the mask *)
Theorem denom_ops_keep_lead o q q' :
  match o with
  | OExtractDenom _ _ _ | OTransposeDenom _ _ | OReshapeDenom _ | OFlattenDenom
  | OJoinItems _ | OSplitItems _ _ | OSwapItems _ => True
  | _ => False
  end ->
  run_op o q = ROk [q'] ->
  qlead (qcore q') = qlead (qcore q) /\ (forall r, qmask (qcore q') r = qmask (qcore q) r) /\
  qders q' = [].
Proof.
  destruct o; simpl; intros Ho H; try contradiction; clear Ho;
    unfold q_reshape_denom in H;
    repeat match type of H with
           | context [match norm_axis ?n ?a with _ => _ end] => destruct (norm_axis n a) eqn:?
           | context [match norm_index ?n ?a with _ => _ end] => destruct (norm_index n a) eqn:?
           | context [if ?c then _ else _] => destruct c eqn:?
           | context [match qdenom ?c with _ => _ end] => destruct (qdenom c) eqn:?
           end; try discriminate; inversion H; subst; simpl; auto.
Qed.

(* ------------------------------------------------------------------ *)
(* which axis arguments are accepted                                   *)
(* ------------------------------------------------------------------ *)
Lemma apply_lead_err m rec ro q : apply_lead m rec ro q = RErr <-> m = None.
Proof. unfold apply_lead. destruct m; split; intro H; try discriminate; reflexivity. Qed.

Lemma np_swapaxes_none a b s : np_swapaxes a b s = None <->
  ~ ((- Z.of_nat (length s) <= a < Z.of_nat (length s))%Z /\
     (- Z.of_nat (length s) <= b < Z.of_nat (length s))%Z).
Proof.
  unfold np_swapaxes.
  destruct (norm_axis (length s) a) as [a'|] eqn:Ea; destruct (norm_axis (length s) b) as [b'|] eqn:Eb.
  - apply norm_axis_spec in Ea. apply norm_axis_spec in Eb. split; [discriminate | intro H; exfalso; apply H; tauto].
  - apply norm_axis_none in Eb. split; [intros _ [_ H]; lia | reflexivity].
  - apply norm_axis_none in Ea. split; [intros _ [H _]; lia | reflexivity].
  - apply norm_axis_none in Ea. split; [intros _ [H _]; lia | reflexivity].
Qed.

Lemma np_rollaxis_none a st s : np_rollaxis a st s = None <->
  ~ ((- Z.of_nat (length s) <= a < Z.of_nat (length s))%Z /\
     (- Z.of_nat (length s) <= st <= Z.of_nat (length s))%Z).
Proof.
  unfold np_rollaxis.
  destruct (norm_axis (length s) a) as [a'|] eqn:Ea.
  - apply norm_axis_spec in Ea. destruct Ea as [Ha _]. unfold roll_start.
    destruct (Z.ltb_spec st 0) as [Hs|Hs];
      match goal with |- context [Z.leb 0 ?x && Z.leb ?y ?z] =>
        destruct (Z.leb_spec 0 x) as [L1|L1]; destruct (Z.leb_spec y z) as [L2|L2] end; simpl;
      split; intro H; try discriminate; try reflexivity;
      try (exfalso; apply H; split; [exact Ha | lia]); try (intros [_ Hst]; lia).
  - apply norm_axis_none in Ea. split; [intros _ [H _]; lia | reflexivity].
Qed.

Lemma np_moveaxis1_none a b s : np_moveaxis [a] [b] s = None <->
  ~ ((- Z.of_nat (length s) <= a < Z.of_nat (length s))%Z /\
     (- Z.of_nat (length s) <= b < Z.of_nat (length s))%Z).
Proof.
  unfold np_moveaxis. cbn [norm_axes].
  destruct (norm_axis (length s) a) as [a'|] eqn:Ea; destruct (norm_axis (length s) b) as [b'|] eqn:Eb; simpl.
  - apply norm_axis_spec in Ea. apply norm_axis_spec in Eb. split; [discriminate | intro H; exfalso; apply H; tauto].
  - apply norm_axis_none in Eb. split; [intros _ [_ H]; lia | reflexivity].
  - apply norm_axis_none in Ea. split; [intros _ [H _]; lia | reflexivity].
  - apply norm_axis_none in Ea. split; [intros _ [H _]; lia | reflexivity].
Qed.

Lemma eff_rank_spec n rank R : eff_rank n rank = Some R -> n <= R /\ 1 <= R.
Proof.
  unfold eff_rank. destruct (Nat.eqb_spec rank 0) as [E|E].
  - rewrite Nat.ltb_irrefl. destruct (Nat.eqb_spec n 0) as [E0|E0]; intro HR; inversion HR; lia.
  - destruct (Nat.ltb_spec rank n) as [L|L]; [discriminate|].
    destruct (Nat.eqb_spec rank 0) as [E0|E0]; intro HR; inversion HR; lia.
Qed.

Lemma eff_rank_none n rank : eff_rank n rank = None <-> (rank <> 0 /\ rank < n).
Proof.
  unfold eff_rank. destruct (Nat.eqb_spec rank 0) as [E|E].
  - rewrite Nat.ltb_irrefl. split; [discriminate | lia].
  - destruct (Nat.ltb_spec rank n) as [L|L]; split; intro HR; try discriminate; try lia; reflexivity.
Qed.

Lemma with_rank_none f rank lead R : eff_rank (length lead) rank = Some R ->
  (with_rank f rank lead = None <-> f (repeat 1 (R - length lead) ++ lead) = None).
Proof.
  unfold with_rank. intros ->. destruct (f (repeat 1 (R - length lead) ++ lead)).
  - destruct lead; split; discriminate.
  - split; reflexivity.
Qed.

Lemma padded_length R lead : length lead <= R -> length (repeat 1 (R - length lead) ++ lead) = R.
Proof. intro H. rewrite app_length, repeat_length. lia. Qed.

Theorem swap_axes_legal a b rec q :
  run_op (OSwapAxes a b rec) q = RErr <->
  ~ ((- Z.of_nat (length (qlead (qcore q))) <= a < Z.of_nat (length (qlead (qcore q))))%Z /\
     (- Z.of_nat (length (qlead (qcore q))) <= b < Z.of_nat (length (qlead (qcore q))))%Z).
Proof. cbn [run_op]. rewrite apply_lead_err. apply np_swapaxes_none. Qed.

Theorem roll_axis_legal a st rank rec q R :
  eff_rank (length (qlead (qcore q))) rank = Some R ->
  (run_op (ORollAxis a st rank rec) q = RErr <->
   ~ ((- Z.of_nat R <= a < Z.of_nat R)%Z /\ (- Z.of_nat R <= st <= Z.of_nat R)%Z)).
Proof.
  intro HR. cbn [run_op]. rewrite apply_lead_err, (with_rank_none _ _ _ _ HR), np_rollaxis_none.
  rewrite padded_length by (apply (eff_rank_spec _ _ _ HR)). reflexivity.
Qed.

Theorem move_axis_legal a b rank rec q R :
  eff_rank (length (qlead (qcore q))) rank = Some R ->
  (run_op (OMoveAxis [a] [b] rank rec) q = RErr <->
   ~ ((- Z.of_nat R <= a < Z.of_nat R)%Z /\ (- Z.of_nat R <= b < Z.of_nat R)%Z)).
Proof.
  intro HR. cbn [run_op]. rewrite apply_lead_err, (with_rank_none _ _ _ _ HR), np_moveaxis1_none.
  rewrite padded_length by (apply (eff_rank_spec _ _ _ HR)). reflexivity.
Qed.

Theorem rank_too_small_rejected o q :
  match o with
  | ORollAxis _ _ rank _ | OMoveAxis _ _ rank _ =>
      rank <> 0 /\ rank < length (qlead (qcore q))
  | _ => False
  end -> run_op o q = RErr.
Proof.
  destruct o; try contradiction; intro H; apply eff_rank_none in H; cbn [run_op];
    apply apply_lead_err; unfold with_rank; rewrite H; reflexivity.
Qed.

(* without rank= the index map is NumPy's own, applied to the leading shape *)
Theorem plain_rank_is_numpy f lead : lead <> [] ->
  match f lead, with_rank f 0 lead with
  | None, None => True
  | Some m, Some m' => im_out m' = im_out m /\ forall i, im_src m' i = im_src m i
  | _, _ => False
  end.
Proof.
  intro H. unfold with_rank, eff_rank. simpl. rewrite Nat.ltb_irrefl.
  destruct lead as [|x l]; [contradiction|]. cbn [length Nat.eqb]. rewrite Nat.sub_diag. simpl.
  destruct (f (x :: l)); simpl; auto.
Qed.

(* ------------------------------------------------------------------ *)
(* inverse pairs                                                       *)
(* ------------------------------------------------------------------ *)
Definition q0_eq_in (a b : q0) : Prop :=
  qlead a = qlead b /\ qnumer a = qnumer b /\ qdenom a = qdenom b /\
  (forall i, inb (qfull a) i = true -> qval a i = qval b i) /\
  (forall r, inb (qlead a) r = true -> qmask a r = qmask b r).

Lemma inb_app_split s1 : forall s2 i, inb (s1 ++ s2) i = true ->
  inb s1 (firstn (length s1) i) = true /\ inb s2 (skipn (length s1) i) = true.
Proof.
  induction s1 as [|n s1 IH]; intros s2 i H; simpl in *.
  - split; [reflexivity | exact H].
  - destruct i as [|x i]; [discriminate|]. apply andb_true_iff in H. destruct H as [Hx Hi].
    destruct (IH s2 i Hi) as [H1 H2]. simpl. rewrite Hx, H1. split; [reflexivity | exact H2].
Qed.

Lemma lead_map_inverse m1 m2 x :
  im_out m2 = qlead x ->
  (forall r, inb (im_out m2) r = true ->
             length (im_src m2 r) = length (im_out m1) /\ im_src m1 (im_src m2 r) = r) ->
  q0_eq_in (lead_map m2 (lead_map m1 x)) x.
Proof.
  intros Ho Hinv. unfold q0_eq_in, lead_map, qfull; simpl.
  repeat split; try reflexivity; try exact Ho.
  - intros i Hi. apply inb_app_split in Hi. destruct Hi as [Hr _].
    destruct (Hinv _ Hr) as [Hl Hs]. rewrite <- Hl.
    rewrite firstn_app_exact, skipn_app_exact, Hs, firstn_skipn. reflexivity.
  - intros r Hr. destruct (Hinv _ Hr) as [_ Hs]. rewrite Hs. reflexivity.
Qed.

(* swap_axes twice *)
Lemma swapP_nth a b n k : k < n -> nth k (swapP a b n) 0 = swapf a b k.
Proof.
  intro H. unfold swapP. rewrite (nth_map_lt _ (seq 0 n) k 0 0) by (rewrite seq_length; exact H).
  rewrite seq_nth by exact H. reflexivity.
Qed.

Lemma swapP_inv a b n : a < n -> b < n -> inv (swapP a b n) = swapP a b n.
Proof.
  intros Ha Hb. assert (Hp := swapP_perm a b n Ha Hb). destruct Hp as (ND & Hl & Hin).
  unfold inv. rewrite Hl. unfold swapP at 2. apply map_ext_in. intros m Hm. apply in_seq in Hm.
  assert (Hs : swapf a b m < n) by (apply swapf_lt; lia).
  change (pos m (swapP a b n) = swapf a b m).
  assert (E : nth (swapf a b m) (swapP a b n) 0 = m)
    by (rewrite swapP_nth by exact Hs; apply swapf_invol).
  rewrite <- E at 1. apply pos_nth; [exact ND | rewrite Hl; exact Hs].
Qed.

Theorem swap_axes_twice a b s m1 x : qlead x = s -> np_swapaxes a b s = Some m1 ->
  exists m2, np_swapaxes a b (im_out m1) = Some m2 /\ q0_eq_in (lead_map m2 (lead_map m1 x)) x.
Proof.
  intros Hx H. unfold np_swapaxes in *.
  destruct (norm_axis (length s) a) as [a'|] eqn:Ea; [|discriminate].
  destruct (norm_axis (length s) b) as [b'|] eqn:Eb; [|discriminate].
  inversion H; subst m1; clear H. cbn [im_out np_transpose].
  assert (Hlen : length (gather (swapP a' b' (length s)) s) = length s)
    by (rewrite gather_length; unfold swapP; rewrite map_length, seq_length; reflexivity).
  rewrite Hlen, Ea, Eb.
  eexists. split; [reflexivity|].
  assert (Ha := norm_axis_lt _ _ _ Ea). assert (Hb := norm_axis_lt _ _ _ Eb).
  assert (Hp := swapP_perm a' b' (length s) Ha Hb).
  set (p := swapP a' b' (length s)) in *.
  assert (Hinv : inv p = p) by (apply swapP_inv; assumption).
  assert (Hpl : length p = length s) by (destruct Hp as (_ & Hl & _); exact Hl).
  apply lead_map_inverse.
  - cbn [im_out np_transpose]. rewrite Hx.
    rewrite <- Hinv at 1. apply (transpose_roundtrip2 p (length s) s Hp eq_refl).
  - cbn [im_out im_src np_transpose]. intros r Hr. apply inb_length in Hr.
    rewrite !gather_length in Hr. rewrite !gather_length, inv_length. split; [reflexivity|].
    rewrite Hinv at 2. apply (transpose_roundtrip2 p (length s) r Hp). lia.
Qed.

(* reshape to any legal target and back to the original shape *)
Lemma resolve_shape_nat sz s : size s = sz -> resolve_shape sz (map Z.of_nat s) = Some s.
Proof.
  intro H. rewrite resolve_shape_unfold.
  assert (Hc : cntu (map Z.of_nat s) = 0).
  { unfold cntu. clear H. induction s as [|n s IH]; [reflexivity|]. cbn [map filter].
    unfold unknownZ at 1. destruct (Z.ltb_spec (Z.of_nat n) 0); [lia | exact IH]. }
  rewrite Hc.
  assert (Hk : prodk (map Z.of_nat s) = size s).
  { clear H Hc. induction s as [|n s IH]; [reflexivity|]. cbn [map prodk fold_right]. fold (prodk (map Z.of_nat s)).
    unfold unknownZ. destruct (Z.ltb_spec (Z.of_nat n) 0); [lia|]. rewrite IH, Nat2Z.id. reflexivity. }
  rewrite Hk, H, Nat.eqb_refl. f_equal.
  rewrite map_map. rewrite <- (map_id s) at 2. apply map_ext. intro n. apply Nat2Z.id.
Qed.

Theorem reshape_and_back t s m1 x : qlead x = s -> np_reshape t s = Some m1 ->
  exists m2, np_reshape (map Z.of_nat s) (im_out m1) = Some m2 /\
             q0_eq_in (lead_map m2 (lead_map m1 x)) x.
Proof.
  intros Hx H. unfold np_reshape in *.
  destruct (resolve_shape (size s) t) as [o|] eqn:E; [|discriminate].
  inversion H; subst m1; clear H. cbn [im_out reshape_map].
  assert (Hsz : size o = size s) by (eapply resolve_shape_size; exact E).
  rewrite (resolve_shape_nat (size o) s) by (symmetry; exact Hsz).
  eexists. split; [reflexivity|].
  apply lead_map_inverse.
  - cbn [im_out reshape_map]. symmetry. exact Hx.
  - cbn [im_out im_src reshape_map]. intros r Hr. rewrite unravel_length. split; [reflexivity|].
    assert (Hlt := ravel_lt s r Hr).
    rewrite ravel_unravel by lia. apply unravel_ravel. exact Hr.
Qed.

(* split_items after join_items restores numerator and denominator; same values and mask *)
Theorem split_after_join a :
  qnumer (split_map (length (qnumer a)) (join_map a)) = qnumer a /\
  qdenom (split_map (length (qnumer a)) (join_map a)) = qdenom a /\
  qlead (split_map (length (qnumer a)) (join_map a)) = qlead a /\
  (forall i, qval (split_map (length (qnumer a)) (join_map a)) i = qval a i) /\
  (forall r, qmask (split_map (length (qnumer a)) (join_map a)) r = qmask a r).
Proof.
  unfold split_map, join_map; simpl. rewrite app_nil_r.
  rewrite firstn_app_exact, skipn_app_exact. repeat split; reflexivity.
Qed.

(* swap_items twice *)
Theorem swap_items_twice a r n d :
  length r = length (qlead a) -> length n = length (qnumer a) -> length d = length (qdenom a) ->
  qval (swap_items_map (swap_items_map a)) (r ++ n ++ d) = qval a (r ++ n ++ d) /\
  qnumer (swap_items_map (swap_items_map a)) = qnumer a /\
  qdenom (swap_items_map (swap_items_map a)) = qdenom a /\
  (forall k, qmask (swap_items_map (swap_items_map a)) k = qmask a k).
Proof.
  intros Hr Hn Hd. unfold swap_items_map; simpl. repeat split; try reflexivity.
  rewrite <- Hr, <- Hn, <- Hd.
  rewrite firstn_app_exact, skipn_add_app, skipn_app_exact, firstn_app_exact.
  rewrite firstn_app_exact, skipn_add_app, skipn_app_exact, firstn_app_exact. reflexivity.
Qed.

(* a single swap_items puts the denominator axes in front of the numerator axes *)
Theorem swap_items_relabel a r n d :
  length r = length (qlead a) -> length d = length (qdenom a) ->
  qval (swap_items_map a) (r ++ d ++ n) = qval a (r ++ n ++ d).
Proof.
  intros Hr Hd. unfold swap_items_map; simpl. rewrite <- Hr, <- Hd.
  rewrite firstn_app_exact, skipn_add_app, skipn_app_exact, firstn_app_exact. reflexivity.
Qed.

(* two axis permutations that undo each other (p1[p2[k]] = k) give inverse relabelings *)
Lemma perm_pair_inv p1 p2 n : is_perm p1 n -> is_perm p2 n -> gather p2 p1 = seq 0 n ->
  inv p2 = p1 /\ inv p1 = p2.
Proof.
  intros (ND1 & L1 & I1) (ND2 & L2 & I2) G.
  assert (Hk : forall k, k < n -> nth (nth k p2 0) p1 0 = k).
  { intros k Hk. rewrite <- nth_gather by lia. rewrite G. apply seq_nth. exact Hk. }
  split.
  - apply nth_ext with (d := 0) (d' := 0); [rewrite inv_length; lia|].
    intros m Hm. rewrite inv_length, L2 in Hm. unfold inv.
    rewrite (nth_map_lt _ (seq 0 (length p2)) m 0 0) by (rewrite seq_length; lia).
    rewrite seq_nth by lia. simpl.
    assert (Hin : In m p2) by (apply I2; exact Hm).
    rewrite <- (nth_pos p2 m Hin) at 2. symmetry. apply Hk. rewrite <- L2. apply pos_lt. exact Hin.
  - apply nth_ext with (d := 0) (d' := 0); [rewrite inv_length; lia|].
    intros m Hm. rewrite inv_length, L1 in Hm. unfold inv.
    rewrite (nth_map_lt _ (seq 0 (length p1)) m 0 0) by (rewrite seq_length; lia).
    rewrite seq_nth by lia. simpl.
    rewrite <- (Hk m Hm) at 1. apply pos_nth; [exact ND1|].
    rewrite L1. apply I2. apply nth_In. lia.
Qed.

Lemma perm_pair_inverse p1 p2 s x : qlead x = s ->
  is_perm p1 (length s) -> is_perm p2 (length s) -> gather p2 p1 = seq 0 (length s) ->
  q0_eq_in (lead_map (np_transpose p2 (gather p1 s)) (lead_map (np_transpose p1 s) x)) x.
Proof.
  intros Hx H1 H2 G. destruct (perm_pair_inv p1 p2 (length s) H1 H2 G) as [E2 E1].
  assert (L1 : length p1 = length s) by (destruct H1 as (_ & L & _); exact L).
  assert (L2 : length p2 = length s) by (destruct H2 as (_ & L & _); exact L).
  assert (B2 : forall k, In k p2 -> k < length p1).
  { intros k Hk. rewrite L1. destruct H2 as (_ & _ & I2). apply I2. exact Hk. }
  apply lead_map_inverse.
  - cbn [im_out np_transpose]. rewrite gather_gather by exact B2. rewrite G, Hx. apply gather_seq.
  - cbn [im_out im_src np_transpose]. intros r Hr. apply inb_length in Hr.
    rewrite !gather_length in Hr. rewrite !gather_length, inv_length. split; [lia|].
    rewrite E1, E2. rewrite gather_gather by exact B2. rewrite G. rewrite <- L2, <- Hr. apply gather_seq.
Qed.

Lemma nlist_eqb_eq a : forall b, nlist_eqb a b = true -> a = b.
Proof.
  induction a as [|x a IH]; intros [|y b] H; simpl in H; try discriminate; [reflexivity|].
  apply andb_true_iff in H. destruct H as [H1 H2]. apply Nat.eqb_eq in H1. f_equal; [exact H1 | apply IH; exact H2].
Qed.

(* B (rank <= 6): moving axis a to b and then b to a; rolling k to the front and back *)
Definition move_pair_ok (n : nat) : bool :=
  forallb (fun a => forallb (fun b =>
    nlist_eqb (gather (moveP [b] [a] n) (moveP [a] [b] n)) (seq 0 n)) (seq 0 n)) (seq 0 n).
Definition roll_pair_ok (n : nat) : bool :=
  forallb (fun k => nlist_eqb (gather (rollP 0 k n) (rollP k 0 n)) (seq 0 n)) (seq 0 n).

Lemma pairs_ok_6 : forallb (fun n => move_pair_ok n && roll_pair_ok n) (seq 0 7) = true.
Proof. vm_compute. reflexivity. Qed.

Lemma move_pair_fact n a b : n <= 6 -> a < n -> b < n ->
  gather (moveP [b] [a] n) (moveP [a] [b] n) = seq 0 n.
Proof.
  intros Hn Ha Hb. assert (H := pairs_ok_6). rewrite forallb_forall in H.
  assert (Hin : In n (seq 0 7)) by (apply in_seq; lia).
  specialize (H n Hin). apply andb_true_iff in H. destruct H as [H _].
  unfold move_pair_ok in H. rewrite forallb_forall in H.
  assert (Hia : In a (seq 0 n)) by (apply in_seq; lia).
  specialize (H a Hia). rewrite forallb_forall in H. apply nlist_eqb_eq. apply H. apply in_seq. lia.
Qed.

Lemma roll_pair_fact n k : n <= 6 -> k < n -> gather (rollP 0 k n) (rollP k 0 n) = seq 0 n.
Proof.
  intros Hn Hk. assert (H := pairs_ok_6). rewrite forallb_forall in H.
  assert (Hin : In n (seq 0 7)) by (apply in_seq; lia).
  specialize (H n Hin). apply andb_true_iff in H. destruct H as [_ H].
  unfold roll_pair_ok in H. rewrite forallb_forall in H. apply nlist_eqb_eq. apply H. apply in_seq. lia.
Qed.

Lemma moveP1_perm a b n : a < n -> is_perm (moveP [a] [b] n) n.
Proof.
  intro H. apply moveP_perm; [constructor; [intros [] | constructor] | | reflexivity].
  intros x [<-|[]]. exact H.
Qed.

Theorem move_axis_pair_B a b s x : length s <= 6 -> a < length s -> b < length s -> qlead x = s ->
  q0_eq_in (lead_map (np_transpose (moveP [b] [a] (length s)) (gather (moveP [a] [b] (length s)) s))
                     (lead_map (np_transpose (moveP [a] [b] (length s)) s) x)) x.
Proof.
  intros Hn Ha Hb Hx. apply perm_pair_inverse; [exact Hx | apply moveP1_perm; exact Ha
    | apply moveP1_perm; exact Hb | apply move_pair_fact; assumption].
Qed.

Theorem roll_axis_pair_B k s x : length s <= 6 -> k < length s -> qlead x = s ->
  q0_eq_in (lead_map (np_transpose (rollP 0 k (length s)) (gather (rollP k 0 (length s)) s))
                     (lead_map (np_transpose (rollP k 0 (length s)) s) x)) x.
Proof.
  intros Hn Hk Hx. apply perm_pair_inverse; [exact Hx | apply rollP_perm; exact Hk
    | apply rollP_perm; lia | apply roll_pair_fact; assumption].
Qed.

(* the permutations above are the ones NumPy's functions use for those arguments *)
Lemma norm_axis_nat n k : k < n -> norm_axis n (Z.of_nat k) = Some k.
Proof.
  intro H. apply norm_axis_spec. split; [lia|].
  destruct (Z.ltb_spec (Z.of_nat k) 0); [lia|]. symmetry. apply Nat2Z.id.
Qed.

Lemma np_moveaxis_nat a b s : a < length s -> b < length s ->
  np_moveaxis [Z.of_nat a] [Z.of_nat b] s = Some (np_transpose (moveP [a] [b] (length s)) s).
Proof.
  intros Ha Hb. unfold np_moveaxis. cbn [norm_axes].
  rewrite (norm_axis_nat _ _ Ha), (norm_axis_nat _ _ Hb). reflexivity.
Qed.

Lemma np_rollaxis_front k s : k < length s ->
  np_rollaxis (Z.of_nat k) 0 s = Some (np_transpose (rollP k 0 (length s)) s).
Proof.
  intro Hk. unfold np_rollaxis. rewrite (norm_axis_nat _ _ Hk). unfold roll_start.
  destruct (Z.ltb_spec 0 0) as [L|L]; [lia|].
  destruct (Z.leb_spec 0 0) as [L1|L1]; [|lia].
  destruct (Z.leb_spec 0 (Z.of_nat (length s))) as [L2|L2]; [|lia]. reflexivity.
Qed.

Lemma np_rollaxis_back k s : k < length s ->
  np_rollaxis 0 (Z.of_nat (S k)) s = Some (np_transpose (rollP 0 k (length s)) s).
Proof.
  intro Hk. unfold np_rollaxis.
  assert (H0 : norm_axis (length s) 0 = Some 0) by (apply (norm_axis_nat (length s) 0); lia).
  rewrite H0. unfold roll_start.
  destruct (Z.ltb_spec (Z.of_nat (S k)) 0) as [L|L]; [lia|].
  destruct (Z.leb_spec 0 (Z.of_nat (S k))) as [L1|L1]; [|lia].
  destruct (Z.leb_spec (Z.of_nat (S k)) (Z.of_nat (length s))) as [L2|L2]; [|lia].
  cbn [andb]. rewrite Nat2Z.id.
  destruct (Nat.ltb_spec 0 (S k)) as [L3|L3]; [|lia]. cbn [Nat.sub]. rewrite Nat.sub_0_r. reflexivity.
Qed.

(* transpose_numer twice (item axes), same permutation lemma on the numerator part *)
Theorem transpose_numer_twice a b (x : q0) r n d :
  a < length (qnumer x) -> b < length (qnumer x) ->
  length r = length (qlead x) -> length n = length (qnumer x) ->
  let p := swapP a b (length (qnumer x)) in
  let m1 := np_transpose p (qnumer x) in
  let m2 := np_transpose p (im_out m1) in
  im_out m2 = qnumer x /\
  qval (numer_map m2 (numer_map m1 x)) (r ++ n ++ d) = qval x (r ++ n ++ d).
Proof.
  intros Ha Hb Hr Hn p m1 m2.
  assert (Hp := swapP_perm a b _ Ha Hb). fold p in Hp.
  assert (Hinv : inv p = p) by (apply swapP_inv; assumption).
  assert (Hpl : length p = length (qnumer x)) by (destruct Hp as (_ & L & _); exact L).
  assert (Hout : im_out m2 = qnumer x).
  { unfold m2, m1. cbn [im_out np_transpose]. rewrite <- Hinv at 1.
    apply (transpose_roundtrip2 p _ _ Hp eq_refl). }
  split; [exact Hout|].
  destruct (numer_map_relabels m2 (numer_map m1 x)) as (_ & _ & _ & Hv2 & _).
  destruct (numer_map_relabels m1 x) as (Hl1 & _ & _ & Hv1 & _).
  rewrite Hv2; [| rewrite Hl1; exact Hr | rewrite Hout; exact Hn].
  rewrite Hv1; [| exact Hr |].
  - unfold m2, m1. cbn [im_src np_transpose]. rewrite Hinv.
    rewrite <- Hinv at 1. rewrite (transpose_roundtrip2 p _ n Hp Hn). reflexivity.
  - unfold m2, m1. cbn [im_src im_out np_transpose]. rewrite !gather_length, inv_length. reflexivity.
Qed.

(* ------------------------------------------------------------------ *)
(* as_diagonal, stack, from_scalars / to_scalars                       *)
(* ------------------------------------------------------------------ *)
Lemma nth_app_exact {A} (r t : list A) d : nth (length r) (r ++ t) d = nth 0 t d.
Proof. rewrite app_nth2 by lia. rewrite Nat.sub_diag. reflexivity. Qed.
Lemma nth_app_exact_S {A} (r t : list A) d : nth (S (length r)) (r ++ t) d = nth 1 t d.
Proof. rewrite app_nth2 by lia. replace (S (length r) - length r) with 1 by lia. reflexivity. Qed.
Lemma skipn_SS_app {A} (r : list A) x y t : skipn (S (S (length r))) (r ++ x :: y :: t) = t.
Proof. induction r as [|z r IH]; simpl; [reflexivity | exact IH]. Qed.
Lemma skipn_S_app {A} (r : list A) x t : skipn (S (length r)) (r ++ x :: t) = t.
Proof. induction r as [|z r IH]; simpl; [reflexivity | exact IH]. Qed.

(* diagonal elements are the source elements, everything else is a fresh zero;
   leading axes, denominator axes and mask untouched *)
Theorem diag_spec a r i j d : length r = length (qlead a) ->
  qval (diag_map a) (r ++ i :: j :: d) = (if Nat.eqb i j then qval a (r ++ i :: d) else 0%Z) /\
  qlead (diag_map a) = qlead a /\ (forall k, qmask (diag_map a) k = qmask a k).
Proof.
  intro Hr. unfold diag_map; cbn [qval qlead qmask]. rewrite <- Hr.
  rewrite nth_app_exact, nth_app_exact_S, firstn_app_exact, skipn_SS_app. cbn [nth].
  repeat split; reflexivity.
Qed.

Theorem stack_spec s l nu de k i :
  qval (stack_q0 s l nu de) (k :: i) = qval (nth_q0 k l) i /\
  qmask (stack_q0 s l nu de) (k :: i) = qmask (nth_q0 k l) i /\
  qlead (stack_q0 s l nu de) = length l :: s.
Proof. repeat split; reflexivity. Qed.

Theorem bcast_spec s a r j : length r = length s ->
  qval (bcast_q0 s a) (r ++ j) = qval a (bproj (qlead a) r ++ j) /\
  qmask (bcast_q0 s a) r = qmask a (bproj (qlead a) r).
Proof.
  intro Hr. unfold bcast_q0; cbn [qval qmask]. rewrite <- Hr, firstn_app_exact, skipn_app_exact.
  split; reflexivity.
Qed.

Theorem fromsc_spec s l de r k d : length r = length s ->
  qval (fromsc_q0 s l de) (r ++ k :: d) = qval (nth_q0 k l) (r ++ d) /\
  qmask (fromsc_q0 s l de) r = existsb (fun a => qmask a r) l.
Proof.
  intro Hr. unfold fromsc_q0; cbn [qval qmask]. rewrite <- Hr.
  rewrite nth_app_exact, firstn_app_exact, skipn_S_app. cbn [nth]. split; reflexivity.
Qed.

(* from_scalars of the to_scalars components gives every element back *)
Theorem from_to_scalars a n r k d : qnumer a = [n] -> k < n -> length r = length (qlead a) ->
  qval (fromsc_q0 (qlead a) (map (fun j => numer_map (ix_extract 0 j [n]) a) (seq 0 n)) (qdenom a))
       (r ++ k :: d) = qval a (r ++ k :: d).
Proof.
  intros Hn Hk Hr.
  destruct (fromsc_spec (qlead a) (map (fun j => numer_map (ix_extract 0 j [n]) a) (seq 0 n))
                        (qdenom a) r k d Hr) as [Hv _].
  rewrite Hv. unfold nth_q0.
  rewrite (nth_map_lt _ (seq 0 n) k 0) by (rewrite seq_length; exact Hk).
  rewrite seq_nth by exact Hk. cbn [Nat.add].
  destruct (numer_map_relabels (ix_extract 0 k [n]) a) as (_ & _ & _ & Hv1 & _).
  specialize (Hv1 r [] d Hr eq_refl). cbn [app] in Hv1. rewrite Hv1. reflexivity.
Qed.
