From Coq Require Import ZArith List Bool String.
From PM Require Import C12Pre.
From PMGen Require Import Gen_units.
From PM Require Import C12Model.
Lemma stub : True. Proof. exact I. Qed.
