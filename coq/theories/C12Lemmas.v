(* C12 lemmas: all proofs about the REGENERATED units algebra (coq/gen/Gen_units.v, produced
   from /repo/polymath/units.py by tools/regen/units_ast.py on every run) and the hand-written
   object-level rules of C12Model.v.  Compiled by harness/c12.py after Gen_units.v and
   C12Model.v (not in coq/parts: it depends on the regenerated file).

   Method: a semantic function  uval u = (uexp u, qv u : Q, pik u)  and the invariant
   wf u (positive numerator and denominator, coprime).  The generated operations are shown to
   be homomorphisms into (Z^3, Q, Z) that preserve wf; wf records are canonical (determined
   by uval); the algebraic laws follow from the field laws of Q.  Every statement whose
   conclusion needs the gcd loop to terminate carries "= Ok _" hypotheses or an
   "\/ = OutOfFuel" alternative (FUEL = 4000 steps of Euclid).

   Labels: U = unbounded, B = bounded-exhaustive by vm_compute (bound in the statement). *)
From Coq Require Import ZArith List Bool String QArith Qpower Lia Znumtheory.
From PM Require Import C12Pre.
From PMGen Require Import Gen_units.
From PM Require Import C12Model.
Import ListNotations.
Open Scope Z_scope.
Global Opaque FUEL.

(* ---------- gcd ---------- *)
Lemma gcd_nonneg_spec : forall fuel a b g, 0 <= a -> 0 <= b ->
  gcd fuel a b = Ok g -> g = Z.gcd a b.
Proof.
  induction fuel as [|f IH]; intros a b g Ha Hb H; [discriminate|].
  cbn [gcd] in H.
  destruct (b =? 0) eqn:E.
  - apply Z.eqb_eq in E. subst b. cbn [negb] in H. inversion H. subst.
    rewrite Z.gcd_0_r. symmetry. apply Z.abs_eq. assumption.
  - cbn [negb] in H. apply Z.eqb_neq in E. unfold pmod in H.
    destruct (b =? 0) eqn:E2; [apply Z.eqb_eq in E2; contradiction|].
    cbn [bind] in H.
    assert (Hm : 0 <= a mod b < b) by (apply Z.mod_pos_bound; lia).
    apply IH in H; try lia. rewrite H.
    rewrite Z.gcd_comm. rewrite Z.gcd_mod by lia. apply Z.gcd_comm.
Qed.

Lemma gcd_pos_spec : forall fuel a b g, 0 < b -> gcd fuel a b = Ok g -> g = Z.gcd a b.
Proof.
  intros fuel a b g Hb H. destruct fuel as [|f]; [discriminate|].
  cbn [gcd] in H.
  destruct (b =? 0) eqn:E; [apply Z.eqb_eq in E; lia|].
  cbn [negb] in H. unfold pmod in H. rewrite E in H. cbn [bind] in H.
  assert (Hm : 0 <= a mod b < b) by (apply Z.mod_pos_bound; lia).
  apply gcd_nonneg_spec in H; try lia. rewrite H.
  rewrite Z.gcd_comm. rewrite Z.gcd_mod by lia. apply Z.gcd_comm.
Qed.

(* gcd never raises and never leaves the integers *)
Lemma gcd_total : forall fuel a b, 0 < b \/ (0 <= a /\ 0 <= b) ->
  gcd fuel a b = OutOfFuel \/ exists g, gcd fuel a b = Ok g.
Proof.
  induction fuel as [|f IH]; intros a b H; [left; reflexivity|].
  cbn [gcd]. destruct (b =? 0) eqn:E; cbn [negb].
  - right. eexists. reflexivity.
  - unfold pmod. rewrite E. cbn [bind]. apply Z.eqb_neq in E.
    apply IH. right. assert (0 < b) by lia.
    pose proof (Z.mod_pos_bound a b H0). lia.
Qed.

Definition unum (u : units) := t0 (utrip u).
Definition uden (u : units) := t1 (utrip u).
Definition pik (u : units) := t2 (utrip u).
Definition wf (u : units) : Prop := 0 < unum u /\ 0 < uden u /\ Z.gcd (unum u) (uden u) = 1.

Lemma gcd_256 : forall n d, Z.gcd (n * 256) (d * 256) = Z.gcd n d * 256.
Proof. intros. rewrite Z.gcd_mul_mono_r_nonneg by lia. reflexivity. Qed.

Lemma div_gcd_cross : forall n d, 0 < d -> (n / Z.gcd n d) * d = (d / Z.gcd n d) * n.
Proof.
  intros n d Hd. set (g := Z.gcd n d).
  assert (Hg : 0 < g) by (subst g; pose proof (Z.gcd_nonneg n d);
    assert (Z.gcd n d <> 0) by (intro E; apply Z.gcd_eq_0_r in E; lia); lia).
  destruct (Z.gcd_divide_l n d) as [x Hx]. destruct (Z.gcd_divide_r n d) as [y Hy].
  fold g in Hx, Hy.
  assert (Hn : n / g = x) by (rewrite Hx; apply Z.div_mul; lia).
  assert (Hd2 : d / g = y) by (rewrite Hy; apply Z.div_mul; lia).
  rewrite Hn, Hd2. clearbody g. subst n d. ring.
Qed.

Lemma gcd_pos : forall n d, 0 < d -> 0 < Z.gcd n d.
Proof.
  intros. pose proof (Z.gcd_nonneg n d).
  assert (Z.gcd n d <> 0) by (intro E; apply Z.gcd_eq_0_r in E; lia). lia.
Qed.

(* U: Units.__init__ on integer input with a positive denominator: the float fallback is
   not taken and the triple is the gcd-reduced one *)
(* the normalisation in Units.__init__, robust against commuted products in the source:
   numer, denom are any ring-equal forms of 256*n, 256*d; the fallback test any form of
   numer*d =? denom*n *)
Ltac init_core H n d Hd :=
  cbv beta iota zeta delta [t0 t1 t2 fst snd] in H;
  match type of H with context [gcd FUEL ?x ?y] =>
    replace x with (n * 256) in H by ring; replace y with (d * 256) in H by ring
  end;
  let g := fresh "g" in let G := fresh "G" in let E := fresh "E" in
  destruct (gcd FUEL (n * 256) (d * 256)) as [g| | |] eqn:G; cbn [bind] in H; try discriminate;
  apply gcd_pos_spec in G; [|lia]; rewrite gcd_256 in G;
  pose proof (gcd_pos n d Hd) as Hg;
  unfold pdiv in H;
  destruct (g =? 0) eqn:E; [apply Z.eqb_eq in E; lia|]; cbn [bind] in H;
  subst g; rewrite !Z.div_mul_cancel_r in H by lia;
  pose proof (div_gcd_cross n d Hd) as Hx;
  match type of H with context [negb (?a =? ?b)] =>
    replace (a =? b) with true in H by (symmetry; apply Z.eqb_eq; nia)
  end;
  cbn [negb] in H.

Lemma init_spec : forall e n d k u, 0 < d -> Units___init__ e (n, d, k) = Ok u ->
  uexp u = e /\ utrip u = (n / Z.gcd n d, d / Z.gcd n d, k).
Proof.
  intros e n d k u Hd H. unfold Units___init__ in H. init_core H n d Hd.
  inversion H. split; reflexivity.
Qed.

Lemma init_fallback_false : forall e n d k b, 0 < d -> Units_init_fallback e (n, d, k) = Ok b -> b = false.
Proof.
  intros e n d k b Hd H. unfold Units_init_fallback in H. init_core H n d Hd.
  inversion H. reflexivity.
Qed.

Lemma init_total : forall e n d k, 0 < d ->
  Units___init__ e (n, d, k) = OutOfFuel \/ exists u, Units___init__ e (n, d, k) = Ok u.
Proof.
  intros e n d k Hd. unfold Units___init__.
  cbv beta iota zeta delta [t0 t1 t2 fst snd].
  match goal with |- context [gcd FUEL ?x ?y] =>
    replace x with (n * 256) by ring; replace y with (d * 256) by ring end.
  destruct (gcd_total FUEL (n * 256) (d * 256)) as [G|[g G]]; [left; lia| |].
  - rewrite G. left. reflexivity.
  - rewrite G. cbn [bind]. apply gcd_pos_spec in G; [|lia]. rewrite gcd_256 in G.
    pose proof (gcd_pos n d Hd) as Hg. unfold pdiv.
    destruct (g =? 0) eqn:E; [apply Z.eqb_eq in E; lia|]. cbn [bind].
    right. destruct (negb _); eexists; reflexivity.
Qed.

(* reduced fractions with positive denominators are unique *)
Lemma reduced_unique : forall n d n' d', 0 < d -> 0 < d' -> Z.gcd n d = 1 -> Z.gcd n' d' = 1 ->
  n * d' = n' * d -> n = n' /\ d = d'.
Proof.
  intros n d n' d' Hd Hd' G G' E.
  assert (D1 : (d | d')).
  { apply Z.gauss with n. exists n'. exact E.
    rewrite Z.gcd_comm. assumption. }
  assert (D2 : (d' | d)).
  { apply Z.gauss with n'. exists n. symmetry. exact E.
    rewrite Z.gcd_comm. assumption. }
  assert (d = d') by (apply Z.divide_antisym_nonneg; [lia|lia|assumption|assumption]).
  subst d'. split; [|reflexivity].
  apply Z.mul_reg_r with d; lia.
Qed.

Lemma reduce_wf : forall n d, 0 < n -> 0 < d ->
  0 < n / Z.gcd n d /\ 0 < d / Z.gcd n d /\ Z.gcd (n / Z.gcd n d) (d / Z.gcd n d) = 1.
Proof.
  intros n d Hn Hd. pose proof (gcd_pos n d Hd) as Hg.
  destruct (Z.gcd_divide_l n d) as [x Hx]. destruct (Z.gcd_divide_r n d) as [y Hy].
  repeat split.
  - rewrite Hx at 1. rewrite Z.div_mul by lia. nia.
  - rewrite Hy at 1. rewrite Z.div_mul by lia. nia.
  - apply Z.gcd_div_gcd; [lia|reflexivity].
Qed.

(* the rational part of the conversion factor *)
Definition qv (u : units) : Q := unum u # Z.to_pos (uden u).
Definition e_add (a b : Z3) : Z3 := (t0 a + t0 b, t1 a + t1 b, t2 a + t2 b).
Definition e_sub (a b : Z3) : Z3 := (t0 a - t0 b, t1 a - t1 b, t2 a - t2 b).
Definition e_scale (p : Z) (a : Z3) : Z3 := (p * t0 a, p * t1 a, p * t2 a).

Lemma qmk_eq : forall n d n' d', 0 < d -> 0 < d' ->
  ((n # Z.to_pos d) == (n' # Z.to_pos d'))%Q <-> n * d' = n' * d.
Proof.
  intros. unfold Qeq. cbn [Qnum Qden]. rewrite !Z2Pos.id by assumption. tauto.
Qed.

Lemma qmk_mul : forall n d n' d', 0 < d -> 0 < d' ->
  ((n # Z.to_pos d) * (n' # Z.to_pos d') == (n * n') # Z.to_pos (d * d'))%Q.
Proof.
  intros. unfold Qeq, Qmult. cbn [Qnum Qden].
  rewrite Pos2Z.inj_mul. rewrite !Z2Pos.id by nia. reflexivity.
Qed.

Lemma qmk_reduce : forall n d, 0 < d ->
  ((n / Z.gcd n d) # Z.to_pos (d / Z.gcd n d) == n # Z.to_pos d)%Q.
Proof.
  intros n d Hd. pose proof (gcd_pos n d Hd) as Hg.
  assert (0 < d / Z.gcd n d).
  { destruct (Z.gcd_divide_r n d) as [y Hy]. rewrite Hy at 1. rewrite Z.div_mul by lia. nia. }
  apply qmk_eq; try assumption. rewrite div_gcd_cross by assumption. ring.
Qed.

Lemma init_sem : forall e n d k u, 0 < n -> 0 < d -> Units___init__ e (n, d, k) = Ok u ->
  wf u /\ uexp u = e /\ pik u = k /\ (qv u == n # Z.to_pos d)%Q.
Proof.
  intros e n d k u Hn Hd H. apply init_spec in H; [|assumption]. destruct H as [He Ht].
  destruct (reduce_wf n d Hn Hd) as (A & B & C).
  unfold wf, qv, unum, uden, pik. rewrite Ht. cbv beta iota delta [t0 t1 t2 fst snd].
  repeat split; try assumption. apply qmk_reduce. assumption.
Qed.

(* canonical forms: a well-formed record is determined by its meaning *)
Lemma canon : forall u v, wf u -> wf v -> uexp u = uexp v -> pik u = pik v ->
  (qv u == qv v)%Q -> u = v.
Proof.
  intros [eu [[nu du] ku]] [ev [[nv dv] kv]] (A & B & C) (A' & B' & C') He Hk Hq.
  unfold wf, qv, unum, uden, pik in *. cbv beta iota delta [t0 t1 t2 fst snd utrip uexp] in *.
  apply (proj1 (qmk_eq _ _ _ _ B B')) in Hq.
  destruct (reduced_unique nu du nv dv B B' C C' Hq). subst. reflexivity.
Qed.

Lemma wf_pos : forall u, wf u -> 0 < unum u /\ 0 < uden u.
Proof. intros u (A & B & _). split; assumption. Qed.

Lemma mul_unfold : forall a b, Units___mul__ a (AUnits b) =
  Units___init__ (e_add (uexp a) (uexp b)) (unum a * unum b, uden a * uden b, pik a + pik b).
Proof. intros. reflexivity. Qed.

Lemma div_unfold : forall a b, Units___truediv__ a (AUnits b) =
  Units___init__ (e_sub (uexp a) (uexp b)) (unum a * uden b, uden a * unum b, pik a - pik b).
Proof. intros. reflexivity. Qed.

Lemma mul_sem : forall a b c, wf a -> wf b -> Units___mul__ a (AUnits b) = Ok c ->
  wf c /\ uexp c = e_add (uexp a) (uexp b) /\ pik c = pik a + pik b /\ (qv c == qv a * qv b)%Q.
Proof.
  intros a b c Ha Hb H. rewrite mul_unfold in H.
  destruct (wf_pos a Ha), (wf_pos b Hb).
  apply init_sem in H; try nia. destruct H as (W & E & K & Q1).
  repeat split; try assumption; try apply W.
  rewrite Q1. unfold qv. symmetry. apply qmk_mul; assumption.
Qed.

Lemma qmk_div : forall n d n' d', 0 < d -> 0 < d' -> 0 < n' ->
  ((n # Z.to_pos d) / (n' # Z.to_pos d') == (n * d') # Z.to_pos (d * n'))%Q.
Proof.
  intros n d n' d' Hd Hd' Hn'. destruct n' as [|p|p]; try lia.
  unfold Qdiv, Qinv, Qmult, Qeq. cbn [Qnum Qden].
  rewrite Pos2Z.inj_mul. rewrite !Z2Pos.id by lia. ring.
Qed.

Lemma div_sem : forall a b c, wf a -> wf b -> Units___truediv__ a (AUnits b) = Ok c ->
  wf c /\ uexp c = e_sub (uexp a) (uexp b) /\ pik c = pik a - pik b /\ (qv c == qv a / qv b)%Q.
Proof.
  intros a b c Ha Hb H. rewrite div_unfold in H.
  destruct (wf_pos a Ha), (wf_pos b Hb).
  apply init_sem in H; try nia. destruct H as (W & E & K & Q1).
  repeat split; try assumption; try apply W.
  rewrite Q1. unfold qv. symmetry. apply qmk_div; assumption.
Qed.

Lemma qv_pos : forall u, wf u -> (0 < qv u)%Q.
Proof. intros u (A & B & _). unfold qv, Qlt. cbn [Qnum Qden]. lia. Qed.
Lemma qv_nz : forall u, wf u -> ~ (qv u == 0)%Q.
Proof. intros u W E. pose proof (qv_pos u W) as P. rewrite E in P. apply Qlt_irrefl in P. assumption. Qed.

(* never Err / Inexact on well-formed operands *)
Lemma mul_total : forall a b, wf a -> wf b ->
  Units___mul__ a (AUnits b) = OutOfFuel \/ exists c, Units___mul__ a (AUnits b) = Ok c.
Proof. intros a b Ha Hb. rewrite mul_unfold. destruct (wf_pos a Ha), (wf_pos b Hb). apply init_total. nia. Qed.
Lemma div_total : forall a b, wf a -> wf b ->
  Units___truediv__ a (AUnits b) = OutOfFuel \/ exists c, Units___truediv__ a (AUnits b) = Ok c.
Proof. intros a b Ha Hb. rewrite div_unfold. destruct (wf_pos a Ha), (wf_pos b Hb). apply init_total. nia. Qed.

(* ---- the algebraic laws ---- *)
Lemma mul_comm : forall a b, Units___mul__ a (AUnits b) = Units___mul__ b (AUnits a).
Proof.
  intros. rewrite !mul_unfold. unfold e_add.
  rewrite (Z.mul_comm (unum a)), (Z.mul_comm (uden a)), (Z.add_comm (pik a)).
  rewrite (Z.add_comm (t0 (uexp a))), (Z.add_comm (t1 (uexp a))), (Z.add_comm (t2 (uexp a))).
  reflexivity.
Qed.

Lemma e_add_assoc : forall a b c, e_add (e_add a b) c = e_add a (e_add b c).
Proof. intros. unfold e_add. cbv beta iota delta [t0 t1 t2 fst snd]. f_equal; [f_equal|]; ring. Qed.

Lemma mul_assoc : forall a b c ab bc l r, wf a -> wf b -> wf c ->
  Units___mul__ a (AUnits b) = Ok ab -> Units___mul__ ab (AUnits c) = Ok l ->
  Units___mul__ b (AUnits c) = Ok bc -> Units___mul__ a (AUnits bc) = Ok r -> l = r.
Proof.
  intros a b c ab bc l r Wa Wb Wc H1 H2 H3 H4.
  destruct (mul_sem _ _ _ Wa Wb H1) as (Wab & E1 & K1 & Q1).
  destruct (mul_sem _ _ _ Wab Wc H2) as (Wl & E2 & K2 & Q2).
  destruct (mul_sem _ _ _ Wb Wc H3) as (Wbc & E3 & K3 & Q3).
  destruct (mul_sem _ _ _ Wa Wbc H4) as (Wr & E4 & K4 & Q4).
  apply canon; try assumption.
  - rewrite E2, E1, E4, E3. apply e_add_assoc.
  - rewrite K2, K1, K4, K3. ring.
  - rewrite Q2, Q1, Q4, Q3. ring.
Qed.

Lemma e_add_sub : forall a b, e_sub (e_add a b) b = a.
Proof. intros [[x y] z] [[x' y'] z']. unfold e_add, e_sub. cbv beta iota delta [t0 t1 t2 fst snd]. f_equal; [f_equal|]; ring. Qed.

(* a*b/b == a : the very same record, hence Units.__eq__ *)
Lemma div_cancel : forall a b ab r, wf a -> wf b ->
  Units___mul__ a (AUnits b) = Ok ab -> Units___truediv__ ab (AUnits b) = Ok r -> r = a.
Proof.
  intros a b ab r Wa Wb H1 H2.
  destruct (mul_sem _ _ _ Wa Wb H1) as (Wab & E1 & K1 & Q1).
  destruct (div_sem _ _ _ Wab Wb H2) as (Wr & E2 & K2 & Q2).
  apply canon; try assumption.
  - rewrite E2, E1. apply e_add_sub.
  - rewrite K2, K1. ring.
  - rewrite Q2, Q1. field. apply qv_nz. assumption.
Qed.

Lemma half_int_double : forall p, half_int (2 * p) = p.
Proof. intros. unfold half_int. rewrite Z.mul_comm. apply Z.quot_mul. lia. Qed.

Lemma pow_unfold : forall a p, Units___pow__ a (2 * p) =
  if p >? 0
  then Units___init__ (e_scale p (uexp a)) (unum a ^ p, uden a ^ p, p * pik a)
  else Units___init__ (e_scale p (uexp a)) (uden a ^ (- p), unum a ^ (- p), p * pik a).
Proof.
  intros a p. unfold Units___pow__. cbn [Units___pow___f]. cbv zeta.
  rewrite half_int_double. rewrite Z.eqb_refl. cbn [negb].
  destruct (p >? 0) eqn:E.
  - assert (0 < p) by (apply Z.gtb_lt; assumption).
    unfold ppow. destruct (p <? 0) eqn:E2; [apply Z.ltb_lt in E2; lia|].
    cbn [bind]. reflexivity.
  - assert (p <= 0) by (destruct (Z.gtb_spec p 0); [discriminate|lia]).
    unfold ppow. destruct (- p <? 0) eqn:E2; [apply Z.ltb_lt in E2; lia|].
    cbn [bind]. reflexivity.
Qed.

Lemma topos_pow : forall (d q : positive), Z.to_pos (Z.pos d ^ Z.pos q) = (d ^ q)%positive.
Proof. intros. rewrite <- Pos2Z.inj_pow. reflexivity. Qed.

(* U: integer powers *)
Lemma pow_sem : forall a p c, wf a -> Units___pow__ a (2 * p) = Ok c ->
  wf c /\ uexp c = e_scale p (uexp a) /\ pik c = p * pik a /\ (qv c == qv a ^ p)%Q.
Proof.
  intros a p c Wa H. rewrite pow_unfold in H.
  destruct Wa as (Hn & Hd & Hg).
  destruct a as [e [[n d] k]]. unfold unum, uden, pik, qv in *.
  cbv beta iota delta [t0 t1 t2 fst snd utrip uexp] in *.
  destruct n as [|n|n]; try lia. destruct d as [|d|d]; try lia.
  destruct p as [|q|q].
  - (* p = 0 *) cbn [Z.gtb Z.compare Z.opp] in H. rewrite !Z.pow_0_r in H.
    apply init_sem in H; try lia. destruct H as (W & E & K & Q1).
    repeat split; try assumption; try apply W.
  - (* p > 0 *) cbn [Z.gtb Z.compare] in H.
    apply init_sem in H; try (apply Z.pow_pos_nonneg; lia). destruct H as (W & E & K & Q1).
    repeat split; try assumption; try apply W. rewrite Q1.
    rewrite Qpower_decomp_pos. rewrite topos_pow. cbn [Z.to_pos]. reflexivity.
  - (* p < 0 *) cbn [Z.gtb Z.compare Z.opp] in H.
    apply init_sem in H; try (apply Z.pow_pos_nonneg; lia). destruct H as (W & E & K & Q1).
    repeat split; try assumption; try apply W. rewrite Q1.
    change (unum {| uexp := e; utrip := (Z.pos n, Z.pos d, k) |}) with (Z.pos n).
    change (Z.to_pos (uden {| uexp := e; utrip := (Z.pos n, Z.pos d, k) |})) with d.
    rewrite Qpower_decomp_neg_pos. rewrite topos_pow. reflexivity.
Qed.

Lemma e_scale_add : forall p q e, e_add (e_scale p e) (e_scale q e) = e_scale (p + q) e.
Proof. intros p q [[x y] z]. unfold e_add, e_scale. cbv beta iota delta [t0 t1 t2 fst snd]. f_equal; [f_equal|]; ring. Qed.

(* a**p * a**q == a**(p+q) *)
Lemma pow_add : forall a p q ap aq l r, wf a ->
  Units___pow__ a (2 * p) = Ok ap -> Units___pow__ a (2 * q) = Ok aq ->
  Units___mul__ ap (AUnits aq) = Ok l -> Units___pow__ a (2 * (p + q)) = Ok r -> l = r.
Proof.
  intros a p q ap aq l r Wa H1 H2 H3 H4.
  destruct (pow_sem _ _ _ Wa H1) as (W1 & E1 & K1 & Q1).
  destruct (pow_sem _ _ _ Wa H2) as (W2 & E2 & K2 & Q2).
  destruct (mul_sem _ _ _ W1 W2 H3) as (W3 & E3 & K3 & Q3).
  destruct (pow_sem _ _ _ Wa H4) as (W4 & E4 & K4 & Q4).
  apply canon; try assumption.
  - rewrite E3, E1, E2, E4. apply e_scale_add.
  - rewrite K3, K1, K2, K4. ring.
  - rewrite Q3, Q1, Q2, Q4. symmetry. apply Qpower_plus. apply qv_nz. assumption.
Qed.

(* break a hypothesis [H : <generated term> = Ok c] into its feasible paths *)
Ltac break_H H :=
  repeat (first
    [ discriminate H
    | progress cbn [bind fl_int fl_eqb fl_to_Z fl_times_irrational fl_of_Z negb] in H
    | match type of H with
      | context [if ?c then _ else _] => let E := fresh "E" in destruct c eqn:E
      | context [match ?c with FExact _ => _ | FInexact => _ end] => let E := fresh "E" in destruct c eqn:E
      end ]).

Ltac bool2prop :=
  repeat match goal with
  | H : negb _ = false |- _ => apply negb_false_iff in H
  | H : negb _ = true |- _ => apply negb_true_iff in H
  | H : (_ && _) = true |- _ => apply andb_true_iff in H; destruct H
  | H : (_ =? _) = true |- _ => apply Z.eqb_eq in H
  | H : (_ =? _) = false |- _ => apply Z.eqb_neq in H
  | H : (_ <=? _) = true |- _ => apply Z.leb_le in H
  | H : (_ >=? _) = true |- _ => apply Z.geb_le in H
  | H : (_ <? _) = false |- _ => apply Z.ltb_ge in H
  | H : FExact _ = FExact _ |- _ => inversion H; clear H
  | H : Ok _ = Ok _ |- _ => inversion H; clear H
  end.

Lemma even_half : forall x, x mod 2 = 0 -> 2 * (x / 2) = x.
Proof. intros x H. pose proof (Z_div_mod_eq_full x 2). lia. Qed.

Lemma sqrt_sem_raw : forall e0 e1 e2 n d k c, 0 < n -> 0 < d ->
  Units_sqrt (mkU (e0, e1, e2) (n, d, k)) = Ok c ->
  wf c /\ e_scale 2 (uexp c) = (e0, e1, e2) /\ 2 * pik c = k /\ (qv c * qv c == n # Z.to_pos d)%Q.
Proof.
  intros e0 e1 e2 n d k c Hn Hd H.
  unfold Units_sqrt in H. autounfold with gen_helpers in H.
  cbv beta iota zeta delta [t0 t1 t2 fst snd utrip uexp np_sqrt] in H.
  break_H H; bool2prop; subst;
  match type of H with
  | Units___init__ _ (?rn, ?rd, _) = Ok _ =>
      assert (Hrn : 0 < rn) by (pose proof (Z.sqrt_nonneg n); nia);
      assert (Hrd : 0 < rd) by (pose proof (Z.sqrt_nonneg d); nia);
      apply init_sem in H; [|assumption|assumption];
      destruct H as (Wc & Ec & Kc & Qc);
      (split; [exact Wc|]); (split; [|split])
  end.
  all: try (rewrite Ec; unfold e_scale; cbv beta iota delta [t0 t1 t2 fst snd];
            rewrite !even_half by assumption; reflexivity).
  all: try lia.
  all: try (rewrite Qc; rewrite qmk_mul by assumption; apply qmk_eq; [nia|assumption|]; nia).
Qed.

Lemma sqrt_sem : forall a c, wf a -> Units_sqrt a = Ok c ->
  wf c /\ e_scale 2 (uexp c) = uexp a /\ 2 * pik c = pik a /\ (qv c * qv c == qv a)%Q.
Proof.
  intros [[[e0 e1] e2] [[n d] k]] c (Hn & Hd & _) H.
  exact (sqrt_sem_raw e0 e1 e2 n d k c Hn Hd H).
Qed.

Lemma sq_inj_pos : forall x y, 0 < x -> 0 < y -> x * x = y * y -> x = y.
Proof.
  intros x y Hx Hy H. assert (E : (x - y) * (x + y) = 0) by (ring_simplify; lia).
  apply Z.mul_eq_0 in E. lia.
Qed.

Lemma e_double : forall a b, e_scale 2 a = e_add b b -> a = b.
Proof.
  intros [[x y] z] [[x' y'] z']. unfold e_scale, e_add. cbv beta iota delta [t0 t1 t2 fst snd].
  intro H.
  assert (H1 : 2 * x = x' + x') by (exact (f_equal t0 H)).
  assert (H2 : 2 * y = y' + y') by (exact (f_equal t1 H)).
  assert (H3 : 2 * z = z' + z') by (exact (f_equal t2 H)).
  f_equal; [f_equal|]; lia.
Qed.

(* sqrt(a*a) == a : the same record *)
Lemma sqrt_sq : forall a aa r, wf a ->
  Units___mul__ a (AUnits a) = Ok aa -> Units_sqrt aa = Ok r -> r = a.
Proof.
  intros a aa r Wa H1 H2.
  destruct (mul_sem _ _ _ Wa Wa H1) as (Waa & E1 & K1 & Q1).
  destruct (sqrt_sem _ _ Waa H2) as (Wr & E2 & K2 & Q2).
  apply canon; try assumption.
  - apply e_double. rewrite E2, E1. reflexivity.
  - lia.
  - rewrite Q1 in Q2. destruct Wr as (A & B & _). destruct Wa as (A' & B' & _).
    unfold qv in *. rewrite !qmk_mul in Q2 by assumption.
    assert (P1 : 0 < uden r * uden r) by nia.
    assert (P2 : 0 < uden a * uden a) by nia.
    apply (proj1 (qmk_eq _ _ _ _ P1 P2)) in Q2.
    apply qmk_eq; try assumption.
    apply sq_inj_pos; try nia.
Qed.

Lemma mod2_double : forall x, (2 * x) mod 2 = 0.
Proof. intros. rewrite Z.mul_comm. apply Z.mod_mul. lia. Qed.
Lemma div2_double : forall x, (2 * x) / 2 = x.
Proof. intros. rewrite Z.mul_comm. apply Z.div_mul. lia. Qed.

(* ... and the square root of a square is never refused and never leaves the integers *)
Lemma sqrt_of_square_total : forall x y z n d k, 0 < n -> 0 < d ->
  Units_sqrt (mkU (2 * x, 2 * y, 2 * z) (n * n, d * d, 2 * k)) = Units___init__ (x, y, z) (n, d, k).
Proof.
  intros x y z n d k Hn Hd.
  unfold Units_sqrt. autounfold with gen_helpers.
  cbv beta iota zeta delta [t0 t1 t2 fst snd utrip uexp np_sqrt].
  rewrite ?Z.geb_leb.
  rewrite !mod2_double, !div2_double. rewrite !Z.sqrt_square by lia.
  replace (0 <=? n * n) with true by (symmetry; apply Z.leb_le; nia).
  replace (0 <=? d * d) with true by (symmetry; apply Z.leb_le; nia).
  replace (n * n <? 0) with false by (symmetry; apply Z.ltb_ge; nia).
  replace (d * d <? 0) with false by (symmetry; apply Z.ltb_ge; nia).
  rewrite !Z.eqb_refl.
  cbn [andb negb bind fl_int fl_eqb fl_to_Z fl_of_Z].
  rewrite ?Z.eqb_refl. cbn [andb negb bind fl_int fl_eqb fl_to_Z fl_of_Z].
  reflexivity.
Qed.

(* ---- conversion between units of the same dimension ---- *)
Lemma e_sub_self : forall a, e_sub a a = (0, 0, 0).
Proof. intros [[x y] z]. unfold e_sub. cbv beta iota delta [t0 t1 t2 fst snd]. f_equal; [f_equal|]; ring. Qed.

Lemma convert_exact : forall a b c, wf a -> wf b -> Units___truediv__ a (AUnits b) = Ok c ->
  (qv c == qv a / qv b)%Q /\ pik c = pik a - pik b /\ (uexp a = uexp b -> uexp c = (0, 0, 0)).
Proof.
  intros a b c Wa Wb H. destruct (div_sem _ _ _ Wa Wb H) as (_ & E & K & Q1).
  repeat split; try assumption. intro Eq. rewrite E, Eq. apply e_sub_self.
Qed.

(* ---- copy ---- *)
Lemma copy_id : forall a r, wf a -> Units_copy a = Ok r -> r = a.
Proof.
  intros [e [[n d] k]] r (Hn & Hd & Hg) H. unfold Units_copy, Units___copy__ in H.
  cbv beta iota delta [uexp utrip] in H. unfold unum, uden in *.
  cbv beta iota delta [t0 t1 t2 fst snd utrip] in *.
  apply init_spec in H; [|assumption]. destruct H as [He Ht].
  rewrite Hg in Ht. rewrite !Z.div_1_r in Ht. destruct r as [er tr]. cbv beta iota delta [uexp utrip] in *.
  subst. reflexivity.
Qed.

(* ---- compatibility predicates ---- *)
Lemma z3_eqb_eq : forall a b, z3_eqb a b = true <-> a = b.
Proof.
  intros [[x y] z] [[x' y'] z']. unfold z3_eqb. cbv beta iota delta [t0 t1 t2 fst snd].
  rewrite !andb_true_iff, !Z.eqb_eq. split.
  - intros [[A B] C]. subst. reflexivity.
  - intro H. inversion H. auto.
Qed.

Lemma z3_eqb_sym : forall a b, z3_eqb a b = z3_eqb b a.
Proof.
  intros [[x y] z] [[x' y'] z']. unfold z3_eqb. cbv beta iota delta [t0 t1 t2 fst snd].
  rewrite (Z.eqb_sym x), (Z.eqb_sym y), (Z.eqb_sym z). reflexivity.
Qed.
(* closes a goal that holds by computation up to the orientation of the == tests in the source *)
Ltac refl_sym := first [ reflexivity | rewrite z3_eqb_sym; reflexivity
                       | rewrite (z3_eqb_sym _ (0, 0, 0)), (z3_eqb_sym _ (0, 0, 1)); reflexivity
                       | rewrite (z3_eqb_sym _ (0, 0, 0)); reflexivity ].

Definition oexp (o : option units) : Z3 := match o with Some u => uexp u | None => (0, 0, 0) end.

Lemma unitless_value : U_UNITLESS = Ok (mkU (0, 0, 0) (1, 1, 0)).
Proof. vm_compute. reflexivity. Qed.

Lemma match_rules :
  (forall b, Units_can_match None b = Ok true) /\
  (forall a, Units_can_match a None = Ok true) /\
  (forall a b, Units_can_match (Some a) (Some b) = Ok (z3_eqb (uexp a) (uexp b))) /\
  (forall a b, Units_do_match a b = Ok (z3_eqb (oexp a) (oexp b))) /\
  (forall a, Units_is_angle a = Ok (z3_eqb (oexp a) (0, 0, 0) || z3_eqb (oexp a) (0, 0, 1))) /\
  (forall a, Units_is_unitless a = Ok (z3_eqb (oexp a) (0, 0, 0))).
Proof.
  split; [|split; [|split; [|split; [|split]]]].
  - intros [b|]; reflexivity.
  - intros [a|]; reflexivity.
  - intros; refl_sym.
  - intros [a|] [b|]; unfold Units_do_match; rewrite ?unitless_value; refl_sym.
  - intros [a|]; refl_sym.
  - intros [a|]; refl_sym.
Qed.

Lemma require_rules : forall a b,
  Units_require_compatible a b = (if match Units_can_match a b with Ok c => c | _ => false end then Ok tt else Err EValue) /\
  Units_require_angle a = (if z3_eqb (oexp a) (0, 0, 0) || z3_eqb (oexp a) (0, 0, 1) then Ok tt else Err EValue) /\
  Units_require_unitless a = (if z3_eqb (oexp a) (0, 0, 0) then Ok tt else Err EValue).
Proof.
  intros a b. destruct match_rules as (M1 & M2 & M3 & M4 & M5 & M6). repeat split.
  - unfold Units_require_compatible. destruct a as [a|], b as [b|]; rewrite ?M1, ?M2, ?M3; reflexivity.
  - unfold Units_require_angle. rewrite M5. reflexivity.
  - unfold Units_require_unitless. rewrite M6. reflexivity.
Qed.

(* ---- object-level rules ---- *)
Definition compatible (a b : option units) : bool :=
  match a, b with Some x, Some y => z3_eqb (uexp x) (uexp y) | _, _ => true end.

Lemma can_match_compatible : forall a b, Units_can_match a b = Ok (compatible a b).
Proof. intros [a|] [b|]; cbn [compatible]; refl_sym. Qed.

Lemma object_rules_compat : forall a b,
  obj_rule OAdd a b = (if compatible a b then obs_of_ounits (Ok (or_units a b)) else OErr EValue) /\
  obj_rule OOrder a b = (if compatible a b then ONone else OErr EValue) /\
  obj_rule OAtan2 a b = (if compatible a b then ONone else OErr EValue) /\
  obj_rule OEq a b = OBool (compatible a b).
Proof.
  intros a b. unfold obj_rule, Units_require_compatible. rewrite can_match_compatible.
  cbn [bind obs_of_bool]. destruct (compatible a b); repeat split; reflexivity.
Qed.

Lemma object_rules_fn : forall a,
  obj_rule OAngleFn a None =
    (if z3_eqb (oexp a) (0, 0, 0) || z3_eqb (oexp a) (0, 0, 1) then ONone else OErr EValue) /\
  obj_rule OPureFn a None = (if z3_eqb (oexp a) (0, 0, 0) then ONone else OErr EValue) /\
  obj_rule OKeep a None = obs_of_ounits (Ok a) /\
  obj_rule ONoUnits a None = (match a with Some _ => OErr EType | None => ONone end).
Proof.
  intros a. destruct (require_rules a None) as (_ & R2 & R3).
  unfold obj_rule. rewrite R2, R3. repeat split;
  try (destruct (_ || _); reflexivity); try (destruct (z3_eqb _ _); reflexivity).
Qed.

Lemma object_rules_mul : forall a b,
  obj_rule OMul (Some a) (Some b) = obs_of_units (Units___mul__ a (AUnits b)) /\
  obj_rule ODiv (Some a) (Some b) = obs_of_units (Units___truediv__ a (AUnits b)) /\
  obj_rule OMul None None = ONone /\ obj_rule ODiv None None = ONone /\
  obj_rule ODiv None (Some b) = obs_of_units (Units___pow__ b (2 * -1)) /\
  (forall p2, p2 <> 0 -> obj_rule (OPow p2) (Some a) None = obs_of_units (Units___pow__ a p2)) /\
  (forall p2, obj_rule (OPow p2) None None = ONone) /\
  obj_rule OSqrt (Some a) None = obs_of_units (Units_sqrt a) /\
  obj_rule OSqrt None None = ONone.
Proof.
  intros a b. unfold obj_rule, mul_units_m, div_units_m, Units_mul_units, Units_div_units,
    Units_units_power, Units_sqrt_units. cbn [is_some is_none negb andb].
  cbn [Z.opp].
  repeat split; intros;
    try (destruct (p2 =? 0) eqn:E; [apply Z.eqb_eq in E; try contradiction; reflexivity|]);
    try match goal with |- context [bind ?x _] => destruct x end; reflexivity.
Qed.

(* one operand without units: the other operand's units, as the same record *)
Lemma object_rules_mul_none : forall a o, wf a ->
  (obj_rule OMul (Some a) None = o \/ obj_rule OMul None (Some a) = o \/ obj_rule ODiv (Some a) None = o) ->
  o = OUnits (uexp a) (utrip a) \/ o = OFuel.
Proof.
  intros a o Wa H. unfold obj_rule, mul_units_m, div_units_m, Units_mul_units, Units_div_units in H.
  cbn [is_some is_none negb andb] in H.
  assert (X : obs_of_ounits (bind (Units_copy a) (fun r => Ok (Some r))) = o) by (destruct H as [H|[H|H]]; exact H).
  clear H.
  assert (T : Units_copy a = OutOfFuel \/ exists c, Units_copy a = Ok c).
  { unfold Units_copy, Units___copy__. destruct a as [e [[n d] k]]. apply init_total. apply Wa. }
  destruct T as [T|[c T]]; rewrite T in X; cbn [bind obs_of_ounits] in X.
  - right. symmetry. exact X.
  - left. apply copy_id in T; [|assumption]. subst. reflexivity.
Qed.

(* ---- stored values ---- *)
Lemma values_untouched : forall u q vals der,
  vvals (set_units_v u q) = vvals q /\ vderiv (set_units_v u q) = vderiv q /\
  vvals (without_units_v q) = vvals q /\ vderiv (without_units_v q) = vderiv q /\
  vvals (ctor_v vals der u) = vals /\ vderiv (ctor_v vals der u) = der /\
  vunits (set_units_v u q) = u /\ vunits (without_units_v q) = None.
Proof. intros. repeat split. Qed.

Lemma inj_pos_nz : forall n, 0 < n -> ~ (inject_Z n == 0)%Q.
Proof. intros n Hn E. unfold Qeq in E. cbn in E. lia. Qed.

Section Conversion.
  Local Open Scope Q_scope.
  Variable pi : Q.
  Hypothesis pi_nonzero : ~ (pi == 0)%Q.

  Lemma qfactor_nz : forall x, wf x -> ~ (qfactor pi x == 0)%Q.
  Proof.
    intros x (Hn & Hd & _). unfold qfactor. fold (unum x) (uden x).
    pose proof (inj_pos_nz _ Hn) as A. pose proof (inj_pos_nz _ Hd) as B.
    pose proof (Qpower_not_0 pi (t2 (utrip x)) pi_nonzero) as C.
    intro E. apply Qmult_integral in E. destruct E as [E|E]; [|contradiction].
    apply A. rewrite <- (Qmult_div_r (inject_Z (unum x)) (inject_Z (uden x))) by assumption.
    rewrite E. ring.
  Qed.

  Lemma ofactor_nz : forall u, (forall x, u = Some x -> wf x) -> ~ (ofactor pi u == 0)%Q.
  Proof.
    intros [x|] W; cbn [ofactor].
    - apply qfactor_nz. apply W. reflexivity.
    - discriminate.
  Qed.

  (* from_units (into_units q) == q and into_units (from_units q) == q, element by element,
     for values and derivatives alike (both are scaled by the same factor) *)
  Lemma conversion_inverse : forall q, (forall x, vunits q = Some x -> wf x) ->
    Forall2 Qeq (vvals (from_units_v pi (into_units_v pi q))) (vvals q) /\
    Forall2 Qeq (vderiv (from_units_v pi (into_units_v pi q))) (vderiv q) /\
    Forall2 Qeq (vvals (into_units_v pi (from_units_v pi q))) (vvals q) /\
    Forall2 Qeq (vderiv (into_units_v pi (from_units_v pi q))) (vderiv q) /\
    vunits (from_units_v pi (into_units_v pi q)) = vunits q.
  Proof.
    intros [vals der u] W. cbn [vunits vvals vderiv] in *.
    pose proof (ofactor_nz u W) as NZ.
    unfold from_units_v, into_units_v. cbn [vunits vvals vderiv].
    rewrite !map_map.
    assert (A : forall l, Forall2 Qeq (map (fun x => ofactor pi u * (/ ofactor pi u * x)) l) l).
    { induction l as [|h t IH]; constructor; [field; assumption|assumption]. }
    assert (B : forall l, Forall2 Qeq (map (fun x => / ofactor pi u * (ofactor pi u * x)) l) l).
    { induction l as [|h t IH]; constructor; [field; assumption|assumption]. }
    repeat split; auto.
  Qed.

  Lemma conversion_same_factor : forall q,
    vvals (into_units_v pi q) = map (Qmult (/ ofactor pi (vunits q))) (vvals q) /\
    vderiv (into_units_v pi q) = map (Qmult (/ ofactor pi (vunits q))) (vderiv q) /\
    vvals (from_units_v pi q) = map (Qmult (ofactor pi (vunits q))) (vvals q) /\
    vderiv (from_units_v pi q) = map (Qmult (ofactor pi (vunits q))) (vderiv q).
  Proof. intros. repeat split. Qed.
End Conversion.

(* ---- the named table and expressions over it ---- *)
Definition wfb (u : units) : bool :=
  (0 <? unum u) && (0 <? uden u) && (Z.gcd (unum u) (uden u) =? 1).
Lemma wfb_wf : forall u, wfb u = true -> wf u.
Proof.
  intros u H. unfold wfb in H. apply andb_true_iff in H. destruct H as [H C].
  apply andb_true_iff in H. destruct H as [A B].
  apply Z.ltb_lt in A. apply Z.ltb_lt in B. apply Z.eqb_eq in C. repeat split; assumption.
Qed.

Definition named_ok (r : string * (Z3 * Z3 * string)) : bool :=
  match named_value (fst r) with
  | Ok u => wfb u && z3_eqb (uexp u) (fst (fst (snd r))) && z3_eqb (utrip u) (snd (fst (snd r)))
  | _ => false
  end.

(* B (the whole table): every named unit is present, normalised, equal to its literal *)
Lemma named_all_ok : forallb named_ok named_table = true.
Proof. vm_compute. reflexivity. Qed.

Lemma named_wf : forall n u, named_value n = Ok u -> wf u.
Proof.
  intros n u H. unfold named_value in H.
  destruct (find (fun r => String.eqb (fst r) n) named_table) as [r|] eqn:F; [|discriminate].
  pose proof (find_some _ _ F) as [I E]. apply String.eqb_eq in E.
  pose proof named_all_ok as A. rewrite forallb_forall in A. specialize (A r I).
  unfold named_ok in A. rewrite E in A. unfold named_value in A. rewrite F in A.
  destruct r as [nm [[e t] s]]. rewrite H in A.
  apply andb_true_iff in A. destruct A as [A _]. apply andb_true_iff in A. destruct A as [A _].
  apply wfb_wf. assumption.
Qed.

(* U: every unit built from the named table by products, quotients, integer powers and
   square roots is well-formed, so all the laws above apply to it *)
Lemma ueval_wf : forall x u, ueval x = Ok u -> wf u.
Proof.
  induction x as [n|a IHa b IHb|a IHa b IHb|a IHa p|a IHa]; intros u H; cbn [ueval] in H.
  - apply named_wf with n. assumption.
  - destruct (ueval a) as [ua| | |]; try discriminate. destruct (ueval b) as [ub| | |]; try discriminate.
    cbn [bind] in H. apply mul_sem in H; auto. apply H.
  - destruct (ueval a) as [ua| | |]; try discriminate. destruct (ueval b) as [ub| | |]; try discriminate.
    cbn [bind] in H. apply div_sem in H; auto. apply H.
  - destruct (ueval a) as [ua| | |]; try discriminate. cbn [bind] in H.
    apply pow_sem in H; auto. apply H.
  - destruct (ueval a) as [ua| | |]; try discriminate. cbn [bind] in H.
    apply sqrt_sem in H; auto. apply H.
Qed.

(* ---- alias facts regenerated from the text of the static helpers ---- *)
Lemma alias_facts :
  attr_assign_guarded_mul_units = true /\ attr_assign_guarded_div_units = true /\
  attr_assign_guarded_sqrt_units = true /\ attr_assign_guarded_units_power = true.
Proof. repeat split; reflexivity. Qed.

(* ---- B: the property's own quantifier, decided inside Coq on the regenerated table ---- *)
Definition named_units_list : list units :=
  flat_map (fun r => match named_value (fst r) with Ok u => [u] | _ => [] end) named_table.
Fixpoint dedup (l : list units) : list units :=
  match l with
  | [] => []
  | u :: t => if existsb (units_eqb u) t then dedup t else u :: dedup t
  end.
(* one representative per distinct value (synonyms such as KM / KILOMETER are the same record) *)
Definition distinct_units : list units := dedup named_units_list.

Lemma units_eqb_eq : forall a b, units_eqb a b = true -> a = b.
Proof.
  intros [ea ta] [eb tb] H. unfold units_eqb in H. cbn [uexp utrip] in H.
  apply andb_true_iff in H. destruct H as [A B].
  apply z3_eqb_eq in A. apply z3_eqb_eq in B. subst. reflexivity.
Qed.
Lemma dedup_covers : forall l u, In u l -> In u (dedup l).
Proof.
  induction l as [|h t IH]; intros u H; [destruct H|].
  cbn [dedup]. destruct (existsb (units_eqb h) t) eqn:E.
  - destruct H as [H|H]; [|apply IH; assumption].
    subst h. apply existsb_exists in E. destruct E as [v [Iv Ev]].
    apply units_eqb_eq in Ev. subst v. apply IH. assumption.
  - destruct H as [H|H]; [left; assumption|right; apply IH; assumption].
Qed.

Definition umul (a b : units) := Units___mul__ a (AUnits b).
Definition udiv (a b : units) := Units___truediv__ a (AUnits b).
Definition upow (a : units) (p : Z) := Units___pow__ a (2 * p).
Definition ok_eq (r : res units) (u : units) : bool :=
  match r with Ok v => units_eqb v u | _ => false end.

Definition pair_ok (a b : units) : bool :=
  match umul a b, umul b a, udiv a b with
  | Ok ab, Ok ba, Ok q => units_eqb ab ba && ok_eq (udiv ab b) a && ok_eq (umul q b) a
  | _, _, _ => false
  end.
Definition triple_ok (a b c : units) : bool :=
  match umul a b, umul b c with
  | Ok ab, Ok bc =>
      match umul ab c, umul a bc with Ok l, Ok r => units_eqb l r | _, _ => false end
  | _, _ => false
  end.
Definition prange : list Z := [-3; -2; -1; 0; 1; 2; 3].
Definition pow_ok (a : units) : bool :=
  forallb (fun p => forallb (fun q =>
    match upow a p, upow a q with
    | Ok x, Ok y => match umul x y with Ok l => ok_eq (upow a (p + q)) l | _ => false end
    | _, _ => false
    end) prange) prange
  && match umul a a with Ok aa => ok_eq (Units_sqrt aa) a | _ => false end
  && match upow a 2 with Ok aa => ok_eq (Units___pow__ aa 1) a | _ => false end.

Lemma B_named_count : List.length named_units_list = List.length named_table.
Proof. vm_compute. reflexivity. Qed.
Lemma B_pairs : forallb (fun a => forallb (pair_ok a) named_units_list) named_units_list = true.
Proof. vm_compute. reflexivity. Qed.
Lemma B_triples : forallb (fun a => forallb (fun b => forallb (triple_ok a b) distinct_units)
                                      distinct_units) distinct_units = true.
Proof. vm_compute. reflexivity. Qed.
Lemma B_powers : forallb pow_ok named_units_list = true.
Proof. vm_compute. reflexivity. Qed.

Lemma B_pairs_all : forall a b, In a named_units_list -> In b named_units_list -> pair_ok a b = true.
Proof.
  intros a b Ia Ib. pose proof B_pairs as H. rewrite forallb_forall in H.
  specialize (H a Ia). rewrite forallb_forall in H. exact (H b Ib).
Qed.
Lemma B_triples_all : forall a b c, In a named_units_list -> In b named_units_list ->
  In c named_units_list -> triple_ok a b c = true.
Proof.
  intros a b c Ia Ib Ic. apply dedup_covers in Ia, Ib, Ic. fold distinct_units in Ia, Ib, Ic.
  pose proof B_triples as H. rewrite forallb_forall in H.
  specialize (H a Ia). rewrite forallb_forall in H. specialize (H b Ib).
  rewrite forallb_forall in H. exact (H c Ic).
Qed.
Lemma B_powers_all : forall a, In a named_units_list -> pow_ok a = true.
Proof. intros a Ia. pose proof B_powers as H. rewrite forallb_forall in H. exact (H a Ia). Qed.
