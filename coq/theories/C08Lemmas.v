From Coq Require Import List Arith ZArith Bool Lia.
From PM Require Import C08Model.
Import ListNotations.
