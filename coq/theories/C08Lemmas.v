(* C08 proofs over the heap machine of C08Model.v *)
From Coq Require Import List Arith ZArith Bool Lia.
From PM Require Import C08Model.
Import ListNotations.

(* ---- list facts ---- *)
Lemma set_nth_length {A} (l : list A) k x : length (set_nth l k x) = length l.
Proof. revert k; induction l as [|y l IH]; intros [|k]; simpl; auto. Qed.
Lemma nth_set_nth_same {A} (l : list A) k x d : k < length l -> nth k (set_nth l k x) d = x.
Proof. revert k; induction l as [|y l IH]; intros [|k] H; simpl in *; try lia; auto. apply IH; lia. Qed.
Lemma nth_set_nth_other {A} (l : list A) k j x d : j <> k -> nth j (set_nth l k x) d = nth j l d.
Proof.
  revert k j; induction l as [|y l IH]; intros [|k] [|j] H; simpl; auto; try congruence.
Qed.
Lemma upd_nth_length {A} (l : list A) k f d : length (upd_nth l k f d) = length l.
Proof. apply set_nth_length. Qed.
Lemma nth_upd_other {A} (l : list A) k j f d d' : j <> k -> nth j (upd_nth l k f d) d' = nth j l d'.
Proof. intro H. unfold upd_nth. apply nth_set_nth_other; auto. Qed.
Lemma nth_upd_same {A} (l : list A) k f d : k < length l -> nth k (upd_nth l k f d) d = f (nth k l d).
Proof. intro H. unfold upd_nth. apply nth_set_nth_same; auto. Qed.
Lemma nth_app_old {A} (l : list A) x k d : k < length l -> nth k (l ++ [x]) d = nth k l d.
Proof. intro H. apply app_nth1; auto. Qed.

(* ---- read-only objects reject every mutator; frozen arrays reject direct writes ---- *)
Lemma mutators_rejected h i :
  valid h i = true -> oro (nth i (objs h) dflt_obj) = true ->
  hstep h (HSetInt i) = (h, RErr) /\ hstep h (HIAdd i) = (h, RErr) /\ hstep h (HSetUnits i) = (h, RErr).
Proof. intros V R. simpl. rewrite V, R. auto. Qed.

Lemma direct_write_refused h i :
  valid h i = true ->
  awr (get_arr h (ovals (nth i (objs h) dflt_obj))) = false ->
  hstep h (HDirectV i) = (h, RErr).
Proof. intros V W. simpl. rewrite V, W. reflexivity. Qed.
Lemma direct_mask_write_refused h i m :
  valid h i = true -> omask (nth i (objs h) dflt_obj) = Some m ->
  awr (get_arr h m) = false -> hstep h (HDirectM i) = (h, RErr).
Proof. intros V M W. simpl. rewrite V, M, W. reflexivity. Qed.

(* as_readonly: afterwards the object's own arrays refuse writes and it is flagged *)
Lemma get_arr_set_awr_same h a w : a < length (arrs h) -> awr (get_arr (set_awr h a w) a) = w.
Proof. intro H. unfold get_arr, set_awr; simpl. rewrite nth_upd_same; auto. Qed.
Lemma get_arr_set_awr_other h a b w : b <> a -> get_arr (set_awr h a w) b = get_arr h b.
Proof. intro H. unfold get_arr, set_awr; simpl. apply nth_upd_other; auto. Qed.
Lemma awr_set_awr_false h a b : awr (get_arr h b) = false -> awr (get_arr (set_awr h a false) b) = false.
Proof.
  intro H. destruct (Nat.eq_dec b a) as [->|N].
  - destruct (Nat.lt_ge_cases a (length (arrs h))) as [L|G].
    + apply get_arr_set_awr_same; auto.
    + unfold get_arr, set_awr in *; simpl. rewrite nth_overflow; [reflexivity|].
      rewrite upd_nth_length. exact G.
  - rewrite get_arr_set_awr_other; auto.
Qed.

Lemma freeze_freezes h i :
  let o := nth i (objs h) dflt_obj in
  i < length (objs h) -> ovals o < length (arrs h) ->
  (forall m, omask o = Some m -> m < length (arrs h)) ->
  let h' := freeze h i in
  oro (nth i (objs h') dflt_obj) = true /\
  awr (get_arr h' (ovals o)) = false /\
  (forall m, omask o = Some m -> awr (get_arr h' m) = false).
Proof.
  intros o Hi Hv Hm h'. unfold h', freeze. fold o.
  split; [|split].
  - unfold set_obj; simpl. rewrite nth_set_nth_same; auto.
    destruct (omask o); simpl; auto.
  - unfold set_obj, get_arr; simpl.
    destruct (omask o) as [m|] eqn:E; simpl.
    + change (awr (get_arr (set_awr (set_awr h (ovals o) false) m false) (ovals o)) = false).
      apply awr_set_awr_false. apply get_arr_set_awr_same; auto.
    + change (awr (get_arr (set_awr h (ovals o) false) (ovals o)) = false).
      apply get_arr_set_awr_same; auto.
  - intros m E. rewrite E. unfold set_obj; simpl.
    change (awr (get_arr (set_awr (set_awr h (ovals o) false) m false) m) = false).
    apply get_arr_set_awr_same. unfold set_awr; simpl. rewrite upd_nth_length. apply Hm; auto.
Qed.

(* ---- a buffer all of whose arrays are read-only can never change again ---- *)
Definition buf_frozen (h : heap) (b : nat) : Prop :=
  forall k, k < length (arrs h) -> abuf (get_arr h k) = b -> awr (get_arr h k) = false.

Lemma get_buf_write_other h a k z b :
  abuf (get_arr h a) <> b -> get_buf (write h a k z) b = get_buf h b.
Proof.
  intro H. unfold write. destruct (nth_error (aidx (get_arr h a)) k); auto.
  unfold get_buf; simpl. apply nth_upd_other. congruence.
Qed.
Lemma arrs_write h a k z : arrs (write h a k z) = arrs h.
Proof. unfold write. destruct (nth_error _ _); reflexivity. Qed.
Lemma bufs_len_write h a k z : length (bufs (write h a k z)) = length (bufs h).
Proof. unfold write. destruct (nth_error _ _); simpl; auto. apply upd_nth_length. Qed.

(* the frozen-ness of b and its content, as one invariant *)
Definition keeps (h h' : heap) (b : nat) : Prop :=
  buf_frozen h' b /\ get_buf h' b = get_buf h b /\ length (bufs h) <= length (bufs h').

Lemma keeps_refl h b : buf_frozen h b -> keeps h h b.
Proof. intro H. repeat split; auto. Qed.
Lemma keeps_trans h1 h2 h3 b : keeps h1 h2 b -> keeps h2 h3 b -> keeps h1 h3 b.
Proof. intros (A & B & C) (D & E & F). repeat split; auto; [congruence|lia]. Qed.

Lemma keeps_bufs_len h h' b : keeps h h' b -> b < length (bufs h) -> b < length (bufs h').
Proof. intros (_ & _ & L) H. lia. Qed.
Lemma keeps_frozen h h' b : keeps h h' b -> buf_frozen h' b.
Proof. intros (A & _); exact A. Qed.

Lemma keeps_set_awr_false h a b : buf_frozen h b -> keeps h (set_awr h a false) b.
Proof.
  intro H. repeat split; auto.
  intros k Hk Hb. unfold set_awr in Hk; simpl in Hk. rewrite upd_nth_length in Hk.
  destruct (Nat.eq_dec k a) as [->|N].
  - apply get_arr_set_awr_same; auto.
  - rewrite get_arr_set_awr_other in *; auto.
Qed.
Lemma keeps_set_obj h i o b : buf_frozen h b -> keeps h (set_obj h i o) b.
Proof. intro H. repeat split; auto. Qed.
Lemma keeps_add_obj h o b : buf_frozen h b -> keeps h (add_obj h o) b.
Proof. intro H. repeat split; auto. Qed.
Lemma keeps_add_buf h c b : b < length (bufs h) -> buf_frozen h b -> keeps h (fst (add_buf h c)) b.
Proof.
  intros L H. unfold add_buf; simpl. repeat split; auto.
  - unfold get_buf; simpl. apply nth_app_old; auto.
  - simpl. rewrite app_length; simpl; lia.
Qed.
Lemma get_arr_add_arr_old h a k : k < length (arrs h) -> get_arr (fst (add_arr h a)) k = get_arr h k.
Proof. intro H. unfold get_arr, add_arr; simpl. apply nth_app_old; auto. Qed.
Lemma get_arr_add_arr_new h a : get_arr (fst (add_arr h a)) (length (arrs h)) = a.
Proof. unfold get_arr, add_arr; simpl. rewrite app_nth2; [|lia]. rewrite Nat.sub_diag. reflexivity. Qed.
Lemma keeps_add_arr h a b :
  buf_frozen h b -> (abuf a = b -> awr a = false) -> keeps h (fst (add_arr h a)) b.
Proof.
  intros H Ha. repeat split; auto.
  intros k Hk Hb. unfold add_arr in Hk; simpl in Hk. rewrite app_length in Hk; simpl in Hk.
  destruct (Nat.eq_dec k (length (arrs h))) as [->|N].
  - rewrite get_arr_add_arr_new in *. auto.
  - rewrite get_arr_add_arr_old in * by lia. apply H; auto; lia.
Qed.
(* a view inherits the flag of its base *)
Lemma keeps_view h a sel b : buf_frozen h b -> keeps h (fst (view h a sel)) b.
Proof.
  intro H. unfold view. apply keeps_add_arr; auto. simpl. intro E.
  destruct (Nat.lt_ge_cases a (length (arrs h))) as [L|G].
  - apply H; auto.
  - unfold get_arr. rewrite nth_overflow; auto.
Qed.
(* a fresh array lives on a fresh buffer *)
Lemma fresh_arr_eq h c w :
  fst (fresh_arr h c w) = fst (add_arr (fst (add_buf h c)) (mka (length (bufs h)) (seq 0 (length c)) w)).
Proof. reflexivity. Qed.
Lemma keeps_fresh_arr h c w b : b < length (bufs h) -> buf_frozen h b -> keeps h (fst (fresh_arr h c w)) b.
Proof.
  intros L H. rewrite fresh_arr_eq.
  pose proof (keeps_add_buf h c b L H) as K1.
  eapply keeps_trans; [exact K1|].
  apply keeps_add_arr.
  - apply (keeps_frozen _ _ _ K1).
  - cbn [abuf awr]. intro E. lia.
Qed.
Lemma keeps_write h a k z b :
  buf_frozen h b -> awr (get_arr h a) = true -> keeps h (write h a k z) b.
Proof.
  intros H W. repeat split.
  - intros j Hj Hb. rewrite arrs_write in Hj. unfold get_arr in *. rewrite arrs_write in *. apply H; auto.
  - apply get_buf_write_other. intro E.
    destruct (Nat.lt_ge_cases a (length (arrs h))) as [L|G].
    + rewrite (H a L E) in W. discriminate.
    + unfold get_arr in W. rewrite nth_overflow in W; auto. discriminate.
  - rewrite bufs_len_write. lia.
Qed.

(* ---- the invariant "buffer b is frozen and holds content c" through every step ---- *)
Section Frozen.
Variable b : nat.
Variable c : list Z.
Definition Inv (h : heap) : Prop := buf_frozen h b /\ get_buf h b = c /\ b < length (bufs h).

Lemma inv_of_keeps h h' : Inv h -> keeps h h' b -> Inv h'.
Proof. intros (A & B & C) (D & E & F). repeat split; auto; [congruence|lia]. Qed.
Lemma inv_set_awr h a : Inv h -> Inv (set_awr h a false).
Proof. intros I. apply (inv_of_keeps h); auto. apply keeps_set_awr_false. apply I. Qed.
Lemma inv_set_obj h i o : Inv h -> Inv (set_obj h i o).
Proof. intros I. apply (inv_of_keeps h); auto. apply keeps_set_obj. apply I. Qed.
Lemma inv_add_obj h o : Inv h -> Inv (add_obj h o).
Proof. intros I. apply (inv_of_keeps h); auto. apply keeps_add_obj. apply I. Qed.
Lemma inv_view h a sel : Inv h -> Inv (fst (view h a sel)).
Proof. intros I. apply (inv_of_keeps h); auto. apply keeps_view. apply I. Qed.
Lemma inv_fresh h l w : Inv h -> Inv (fst (fresh_arr h l w)).
Proof. intros I. apply (inv_of_keeps h); auto. destruct I as (A & B & C). apply keeps_fresh_arr; auto. Qed.
Lemma inv_write h a k z : Inv h -> awr (get_arr h a) = true -> Inv (write h a k z).
Proof. intros I W. apply (inv_of_keeps h); auto. apply keeps_write; auto. apply I. Qed.
Lemma inv_made h n : Inv h -> Inv (mkheap (bufs h) (arrs h) (objs h) n).
Proof. intros I. exact I. Qed.
Lemma inv_freeze h i : Inv h -> Inv (freeze h i).
Proof.
  intro I. unfold freeze. apply inv_set_obj.
  destruct (omask (nth i (objs h) dflt_obj)); repeat apply inv_set_awr; auto.
Qed.
Lemma inv_new_obj h va ma mb ro u l : Inv h -> Inv (new_obj h va ma mb ro u l).
Proof.
  intro I. unfold new_obj. apply inv_add_obj.
  destruct (negb (awr (get_arr h va))); auto. destruct ma; auto. apply inv_set_awr; auto.
Qed.
(* writes through a writeable array, folded over several positions *)
Lemma awr_write h a k z a' : awr (get_arr (write h a k z) a') = awr (get_arr h a').
Proof. unfold get_arr. rewrite arrs_write. reflexivity. Qed.
Lemma inv_fold_write h a ks z :
  Inv h -> awr (get_arr h a) = true -> Inv (fold_left (fun hh k => write hh a k z) ks h).
Proof.
  revert h. induction ks as [|k ks IH]; intros h I W; simpl; auto.
  apply IH. { apply inv_write; auto. } rewrite awr_write. exact W.
Qed.
(* x += number: every element of the value array, in place *)
Lemma inv_iadd h a :
  Inv h -> awr (get_arr h a) = true ->
  Inv (mkheap (upd_nth (bufs h) (abuf (get_arr h a))
                (fun bb => fold_left (fun acc p => set_nth acc p (nth p acc 0 + 100)%Z) (aidx (get_arr h a)) bb) [])
              (arrs h) (objs h) (made h)).
Proof.
  intros (A & B & C) W.
  assert (N : abuf (get_arr h a) <> b).
  { intro E. destruct (Nat.lt_ge_cases a (length (arrs h))) as [L|G].
    - rewrite (A a L E) in W. discriminate.
    - unfold get_arr in W. rewrite nth_overflow in W; auto. discriminate. }
  repeat split.
  - intros k Hk Hb. apply A; auto.
  - unfold get_buf; simpl. rewrite nth_upd_other; auto.
  - simpl. rewrite upd_nth_length. exact C.
Qed.

Ltac pairstep :=
  match goal with
  | I : Inv ?h |- context [view ?h ?a ?s] =>
      let h1 := fresh "hh" in let v := fresh "vv" in let E := fresh "E" in let I1 := fresh "I" in
      destruct (view h a s) as [h1 v] eqn:E;
      assert (I1 : Inv h1) by (replace h1 with (fst (view h a s)) by (rewrite E; reflexivity);
                               apply inv_view; exact I);
      clear E
  | I : Inv ?h |- context [fresh_arr ?h ?l ?w] =>
      let h1 := fresh "hh" in let v := fresh "vv" in let E := fresh "E" in let I1 := fresh "I" in
      destruct (fresh_arr h l w) as [h1 v] eqn:E;
      assert (I1 : Inv h1) by (replace h1 with (fst (fresh_arr h l w)) by (rewrite E; reflexivity);
                               apply inv_fresh; exact I);
      clear E
  end.

Lemma hstep_inv h p : Inv h -> Inv (fst (hstep h p)).
Proof.
  intro I. destruct p; unfold hstep.
  - (* HMake *) repeat pairstep. cbn [fst]. apply inv_made. apply inv_add_obj. assumption.
  - destruct (valid h i); cbn [fst]; auto. apply inv_freeze; auto.
  - destruct (valid h i); cbn [fst]; auto.
    pairstep. destruct (omask (nth i (objs h) dflt_obj)).
    + pairstep. cbn [fst]. apply inv_new_obj; assumption.
    + cbn [fst]. apply inv_new_obj; assumption.
  - destruct (valid h i); cbn [fst]; auto; try (apply inv_add_obj; auto).
  - destruct (valid h i); cbn [fst]; auto.
    destruct (olast (nth i (objs h) dflt_obj) <? 2); cbn [fst]; auto.
    pairstep. destruct (omask (nth i (objs h) dflt_obj)).
    + pairstep. cbn [fst]. apply inv_new_obj; assumption.
    + cbn [fst]. apply inv_new_obj; assumption.
  - destruct (valid h i); cbn [fst]; auto.
    pairstep. destruct (omask (nth i (objs h) dflt_obj)).
    + pairstep. cbn [fst]. apply inv_add_obj; assumption.
    + cbn [fst]. apply inv_add_obj; assumption.
  - (* HBroadcast *)
    destruct (valid h i); cbn [fst]; auto.
    assert (I0 : Inv (freeze h i)) by (apply inv_freeze; auto).
    pairstep.
    match goal with |- context [set_awr ?hh ?vv false] =>
      assert (I2 : Inv (set_awr hh vv false)) by (apply inv_set_awr; assumption) end.
    destruct (omask (nth i (objs (freeze h i)) dflt_obj)).
    + pairstep. cbn [fst]. apply inv_add_obj. apply inv_set_awr. assumption.
    + cbn [fst]. apply inv_add_obj. assumption.
  - (* HPickle *)
    destruct (valid h i); cbn [fst]; auto.
    destruct (omask (nth i (objs h) dflt_obj)).
    + destruct (all_true _).
      * pairstep. cbn [fst]. apply inv_add_obj; assumption.
      * destruct (negb (any_true _)).
        -- pairstep. cbn [fst]. apply inv_add_obj; assumption.
        -- pairstep. pairstep. cbn [fst]. apply inv_add_obj; assumption.
    + pairstep. cbn [fst]. apply inv_add_obj; assumption.
  - (* HSetInt *)
    destruct (valid h i); cbn [fst]; auto.
    destruct (oro (nth i (objs h) dflt_obj)); cbn [fst]; auto.
    destruct (awr (get_arr h (ovals (nth i (objs h) dflt_obj)))) eqn:W; cbn [negb fst]; auto.
    match goal with |- context [fold_left ?f ?ks h] =>
      assert (I1 : Inv (fold_left f ks h)) by (apply inv_fold_write; auto) end.
    destruct (omask (nth i (objs h) dflt_obj)).
    + pairstep. cbn [fst]. apply inv_set_obj; assumption.
    + destruct (omb (nth i (objs h) dflt_obj)).
      * pairstep. cbn [fst]. apply inv_set_obj; assumption.
      * cbn [fst]. assumption.
  - (* HIAdd *)
    destruct (valid h i); cbn [fst]; auto.
    destruct (oro (nth i (objs h) dflt_obj)); cbn [fst]; auto.
    destruct (awr (get_arr h (ovals (nth i (objs h) dflt_obj)))) eqn:W; cbn [negb fst]; auto.
    apply inv_iadd; auto.
  - destruct (valid h i); cbn [fst]; auto.
    destruct (oro (nth i (objs h) dflt_obj)); cbn [fst]; auto; try (apply inv_set_obj; auto).
  - destruct (valid h i); cbn [fst]; auto.
    destruct (awr (get_arr h (ovals (nth i (objs h) dflt_obj)))) eqn:W; cbn [fst]; auto.
    apply inv_write; auto.
  - destruct (valid h i); cbn [fst]; auto.
    destruct (omask (nth i (objs h) dflt_obj)) as [m|]; cbn [fst]; auto.
    destruct (awr (get_arr h m)) eqn:W; cbn [fst]; auto. apply inv_write; auto.
Qed.

Lemma hrun_inv ps : forall h, Inv h -> Inv (hrun h ps).
Proof. induction ps as [|p ps IH]; intros h I; simpl; auto. apply IH. apply hstep_inv. exact I. Qed.
End Frozen.

(* a frozen buffer keeps its content through every history *)
Theorem frozen_forever h b ps :
  buf_frozen h b -> b < length (bufs h) -> get_buf (hrun h ps) b = get_buf h b.
Proof.
  intros F L. destruct (hrun_inv b (get_buf h b) ps h) as (_ & E & _); auto.
  repeat split; auto.
Qed.

(* once an object is flagged read-only it stays so *)
Lemma objs_write h a k z : objs (write h a k z) = objs h.
Proof. unfold write. destruct (nth_error _ _); reflexivity. Qed.
Lemma objs_fold_write h a ks z : objs (fold_left (fun hh k => write hh a k z) ks h) = objs h.
Proof. revert h; induction ks as [|k ks IH]; intro h; simpl; auto. rewrite IH. apply objs_write. Qed.

Definition ro_at (h : heap) (i : nat) : Prop :=
  i < length (objs h) /\ oro (nth i (objs h) dflt_obj) = true.

Lemma ro_at_app l o i :
  i < length l -> oro (nth i l dflt_obj) = true ->
  i < length (l ++ [o]) /\ oro (nth i (l ++ [o]) dflt_obj) = true.
Proof. intros L R. rewrite app_length; simpl. split; [lia|]. rewrite app_nth1; auto. Qed.
Lemma ro_at_set l j o i :
  i < length l -> oro (nth i l dflt_obj) = true -> (j = i -> oro o = true) ->
  i < length (set_nth l j o) /\ oro (nth i (set_nth l j o) dflt_obj) = true.
Proof.
  intros L R H. rewrite set_nth_length. split; auto.
  destruct (Nat.eq_dec i j) as [->|N].
  - rewrite nth_set_nth_same; auto.
  - rewrite nth_set_nth_other; auto.
Qed.

Lemma ro_at_freeze h j i : ro_at h i -> ro_at (freeze h j) i.
Proof.
  intros [L R]. unfold ro_at, freeze, set_obj.
  destruct (omask (nth j (objs h) dflt_obj)); cbn; apply ro_at_set; auto.
Qed.

Lemma oro_monotone h p i : ro_at h i -> ro_at (fst (hstep h p)) i.
Proof.
  intros [L R].
  destruct p; unfold hstep;
    repeat match goal with
           | |- context [valid h ?j] => destruct (valid h j); cbn [fst]; try (split; assumption)
           end.
  - unfold ro_at, fresh_arr, add_buf, add_arr, add_obj. cbn. apply ro_at_app; auto.
  - apply ro_at_freeze. split; auto.
  - unfold ro_at, view, add_arr, new_obj, add_obj, set_awr.
    destruct (omask (nth i0 (objs h) dflt_obj)); cbn;
      match goal with |- context [if ?c then _ else _] => destruct c end; cbn; apply ro_at_app; auto.
  - unfold ro_at, add_obj. cbn. apply ro_at_app; auto.
  - unfold ro_at, fresh_arr, add_buf, add_arr, new_obj, add_obj, set_awr.
    destruct (olast (nth i0 (objs h) dflt_obj) <? 2); cbn; auto.
    destruct (omask (nth i0 (objs h) dflt_obj)); cbn;
      match goal with |- context [if ?c then _ else _] => destruct c end; cbn; apply ro_at_app; auto.
  - unfold ro_at, fresh_arr, add_buf, add_arr, add_obj.
    destruct (omask (nth i0 (objs h) dflt_obj)); cbn; apply ro_at_app; auto.
  - (* HBroadcast *)
    pose proof (ro_at_freeze h i0 i (conj L R)) as [L0 R0].
    set (h0 := freeze h i0) in *.
    unfold ro_at, view, add_arr, add_obj, set_awr.
    destruct (omask (nth i0 (objs h0) dflt_obj)); cbn; apply ro_at_app; auto.
  - unfold ro_at, fresh_arr, add_buf, add_arr, add_obj.
    destruct (omask (nth i0 (objs h) dflt_obj)); cbn.
    + destruct (all_true _); cbn; [apply ro_at_app; auto|].
      destruct (negb (any_true _)); cbn; apply ro_at_app; auto.
    + apply ro_at_app; auto.
  - (* HSetInt: only reached when the target is writable, so the target is not i *)
    destruct (oro (nth i0 (objs h) dflt_obj)) eqn:R0; cbn [fst]; [split; assumption|].
    destruct (negb (awr (get_arr h (ovals (nth i0 (objs h) dflt_obj))))); cbn [fst]; [split; assumption|].
    assert (N : i0 <> i) by (intro E; subst; congruence).
    unfold ro_at, fresh_arr, add_buf, add_arr, set_obj.
    destruct (omask (nth i0 (objs h) dflt_obj)); cbn.
    + rewrite objs_fold_write. apply ro_at_set; auto; intro E; congruence.
    + destruct (omb (nth i0 (objs h) dflt_obj)); cbn; rewrite objs_fold_write.
      * apply ro_at_set; auto; intro E; congruence.
      * split; auto.
  - destruct (oro (nth i0 (objs h) dflt_obj)) eqn:R0; cbn [fst]; [split; assumption|].
    destruct (negb (awr (get_arr h (ovals (nth i0 (objs h) dflt_obj))))); cbn [fst]; split; assumption.
  - destruct (oro (nth i0 (objs h) dflt_obj)) eqn:R0; cbn [fst]; [split; assumption|].
    assert (N : i0 <> i) by (intro E; subst; congruence).
    unfold ro_at, set_obj. cbn. apply ro_at_set; auto; intro E; congruence.
  - destruct (awr (get_arr h (ovals (nth i0 (objs h) dflt_obj)))); cbn [fst]; [|split; assumption].
    unfold ro_at. rewrite objs_write. split; assumption.
  - destruct (omask (nth i0 (objs h) dflt_obj)) as [m|]; cbn [fst]; [|split; assumption].
    destruct (awr (get_arr h m)); cbn [fst]; [|split; assumption].
    unfold ro_at. rewrite objs_write. split; assumption.
Qed.

Lemma oro_forever ps : forall h i, ro_at h i -> ro_at (hrun h ps) i.
Proof. induction ps as [|p ps IH]; intros h i H; simpl; auto. apply IH. apply oro_monotone. exact H. Qed.

(* objects derived from a read-only object are read-only; copy() is writable on fresh storage *)
Lemma derived_readonly h i :
  valid h i = true -> oro (nth i (objs h) dflt_obj) = true ->
  forall p, In p [HSlice i; HClone i; HAdvanced i; HBroadcast i; HPickle i] ->
  snd (hstep h p) = ROk ->
  oro (last (objs (fst (hstep h p))) dflt_obj) = true.
Proof.
  intros V R p Hp. simpl in Hp.
  destruct Hp as [<-|[<-|[<-|[<-|[<-|[]]]]]]; unfold hstep; rewrite V.
  - unfold view, add_arr, new_obj, add_obj, set_awr.
    destruct (omask (nth i (objs h) dflt_obj)); cbn; intros _;
      match goal with |- context [if ?c then _ else _] => destruct c end; cbn; rewrite last_last; cbn; exact R.
  - unfold add_obj. cbn. intros _. rewrite last_last. exact R.
  - unfold fresh_arr, add_buf, add_arr, new_obj, add_obj, set_awr.
    destruct (olast (nth i (objs h) dflt_obj) <? 2); cbn; [discriminate|].
    destruct (omask (nth i (objs h) dflt_obj)); cbn; intros _;
      match goal with |- context [if ?c then _ else _] => destruct c end; cbn; rewrite last_last; cbn; exact R.
  - set (h0 := freeze h i). unfold view, add_arr, add_obj, set_awr.
    destruct (omask (nth i (objs h0) dflt_obj)); cbn; intros _; rewrite last_last; reflexivity.
  - unfold fresh_arr, add_buf, add_arr, add_obj.
    destruct (omask (nth i (objs h) dflt_obj)); cbn.
    + destruct (all_true _); cbn; [intros _; rewrite last_last; exact R|].
      destruct (negb (any_true _)); cbn; intros _; rewrite last_last; exact R.
    + intros _; rewrite last_last; exact R.
Qed.

Lemma copy_writable_fresh h i :
  valid h i = true ->
  let h' := fst (hstep h (HCopy i)) in
  let o' := last (objs h') dflt_obj in
  oro o' = false /\ awr (get_arr h' (ovals o')) = true /\
  length (bufs h) <= abuf (get_arr h' (ovals o')).
Proof.
  intros V. unfold hstep. rewrite V.
  unfold fresh_arr, add_buf, add_arr, add_obj, get_arr.
  destruct (omask (nth i (objs h) dflt_obj)); cbn; rewrite last_last; cbn.
  - repeat split; auto.
    + rewrite app_nth1 by (rewrite app_length; simpl; lia).
      rewrite app_nth2 by lia. rewrite Nat.sub_diag. reflexivity.
    + rewrite app_nth1 by (rewrite app_length; simpl; lia).
      rewrite app_nth2 by lia. rewrite Nat.sub_diag. cbn. lia.
  - repeat split; auto.
    + rewrite app_nth2 by lia. rewrite Nat.sub_diag. reflexivity.
    + rewrite app_nth2 by lia. rewrite Nat.sub_diag. cbn. lia.
Qed.
