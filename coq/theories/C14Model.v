(* C14 model: equality, ordering, three-valued logic (qube.py __eq__/__ne__/
   __and__..., scalar.py __lt__..., extensions/tvl.py). Proof-free: the model
   must still run when a proof breaks. *)
From Coq Require Import List Arith ZArith Bool.
From PM Require Import Base Mask.
Import ListNotations.


(* a Boolean object *)
Record bobj := mkb { bsh : shape; bval : mi -> bool; bmask : mrep }.

(* three truth values *)
Inductive tv := T | F | M.
Definition tv_eqb (a b : tv) : bool :=
  match a, b with T, T | F, F | M, M => true | _, _ => false end.
Definition tv_at (a : bobj) (i : mi) : tv :=
  if mget (bmask a) i then M else if bval a i then T else F.

Definition kand (a b : tv) : tv :=
  match a, b with
  | F, _ | _, F => F
  | T, T => T
  | _, _ => M
  end.
Definition kor (a b : tv) : tv :=
  match a, b with
  | T, _ | _, T => T
  | F, F => F
  | _, _ => M
  end.
(* Kleene reductions over a list *)
Definition kany (l : list tv) : tv :=
  if existsb (tv_eqb T) l then T else if forallb (tv_eqb F) l then F else M.
Definition kall (l : list tv) : tv :=
  if existsb (tv_eqb F) l then F else if forallb (tv_eqb T) l then T else M.

(* ---- tvl_and / tvl_or, branch for branch ---- *)
(* Qube.is_one_false(mask): the mask is the single value False *)
Definition one_false (m : mrep) : bool := match m with MS false => true | _ => false end.
Definition is_true (a : bobj) (i : mi) : bool :=
  if one_false (bmask a) then bval a i else bval a i && negb (mget (bmask a) i).
Definition is_not_false (a : bobj) (i : mi) : bool :=
  if one_false (bmask a) then bval a i else bval a i || mget (bmask a) i.

Definition tvl_and (a b : bobj) : option bobj :=
  match bshape (bsh a) (bsh b) with
  | None => None
  | Some s =>
      let rt r := is_true a (bproj (bsh a) r) && is_true b (bproj (bsh b) r) in
      let rnf r := is_not_false a (bproj (bsh a) r) && is_not_false b (bproj (bsh b) r) in
      Some (mkb s rt (MA (fun r => negb (rt r) && rnf r)))
  end.
Definition tvl_or (a b : bobj) : option bobj :=
  match bshape (bsh a) (bsh b) with
  | None => None
  | Some s =>
      let rt r := is_true a (bproj (bsh a) r) || is_true b (bproj (bsh b) r) in
      let rnf r := is_not_false a (bproj (bsh a) r) || is_not_false b (bproj (bsh b) r) in
      Some (mkb s rnf (MA (fun r => negb (rt r) && rnf r)))
  end.

(* ---- tvl_any / tvl_all along axes ([keep] marks surviving axes) ---- *)
Definition varr (a : bobj) : arr bool := mkarr (bsh a) (bval a).
Definition marr (a : bobj) : arr bool := mkarr (bsh a) (mget (bmask a)).

Definition tvl_any (keep : list bool) (a : bobj) : bobj :=
  match bsh a with
  | [] => a
  | _ =>
    match bmask a with
    | MS m => mkb (out_shape (bsh a) keep) (aget (reduce any_l keep (varr a))) (MS m)
    | MA _ =>
      let nv := reduce any_l keep
                  (mkarr (bsh a) (fun i => bval a i && negb (mget (bmask a) i))) in
      let mf := reduce any_l keep (marr a) in
      mkb (ashape nv) (aget nv) (MA (fun o => negb (aget nv o) && aget mf o))
    end
  end.
Definition tvl_all (keep : list bool) (a : bobj) : bobj :=
  match bsh a with
  | [] => a
  | _ =>
    match bmask a with
    | MS m => mkb (out_shape (bsh a) keep) (aget (reduce all_l keep (varr a))) (MS m)
    | MA _ =>
      let nv := reduce all_l keep
                  (mkarr (bsh a) (fun i => bval a i || mget (bmask a) i)) in
      let mf := reduce any_l keep (marr a) in
      mkb (ashape nv) (aget nv) (MA (fun o => aget nv o && aget mf o))
    end
  end.

(* ---- any / all (masked values do not exist) ---- *)
Definition q_any (keep : list bool) (a : bobj) : bobj :=
  match bsh a with
  | [] => a
  | _ =>
    match bmask a with
    | MS m => mkb (out_shape (bsh a) keep) (aget (reduce any_l keep (varr a))) (MS m)
    | MA _ =>
      let nv := reduce any_l keep
                  (mkarr (bsh a) (fun i => bval a i && negb (mget (bmask a) i))) in
      mkb (ashape nv) (aget nv) (MA (aget (reduce all_l keep (marr a))))
    end
  end.
Definition q_all (keep : list bool) (a : bobj) : bobj :=
  match bsh a with
  | [] => a
  | _ =>
    match bmask a with
    | MS m => mkb (out_shape (bsh a) keep) (aget (reduce all_l keep (varr a))) (MS m)
    | MA _ =>
      let nv := reduce all_l keep
                  (mkarr (bsh a) (fun i => bval a i || mget (bmask a) i)) in
      mkb (ashape nv) (aget nv) (MA (aget (reduce all_l keep (marr a))))
    end
  end.

(* ---- strict operators & | ^ ~ (masked if any input is) ---- *)
Definition strict2 (f : bool -> bool -> bool) (a b : bobj) : option bobj :=
  match bshape (bsh a) (bsh b) with
  | None => None
  | Some s => Some (mkb s (fun r => f (bval a (bproj (bsh a) r)) (bval b (bproj (bsh b) r)))
                        (or_m (bmask a) (bmask b) (bsh a) (bsh b)))
  end.
Definition q_and := strict2 andb.
Definition q_or := strict2 orb.
Definition q_xor := strict2 xorb.
Definition q_not (a : bobj) : bobj := mkb (bsh a) (fun i => negb (bval a i)) (bmask a).

(* ---- numeric objects and comparisons ---- *)
Record nobj := mkn { nsh : shape; nitem : shape; nval : mi -> list Z;
                     nmask : mrep; nunit : option (Z * Z * Z) }.

Fixpoint list_eqb (a b : list Z) : bool :=
  match a, b with
  | [], [] => true
  | x :: a', y :: b' => Z.eqb x y && list_eqb a' b'
  | _, _ => false
  end.
Definition unit_match (u v : option (Z * Z * Z)) : bool :=   (* Units.can_match *)
  match u, v with
  | Some (a, b, c), Some (a', b', c') => Z.eqb a a' && Z.eqb b b' && Z.eqb c c'
  | _, _ => true
  end.

(* result of a comparison: a Python bool, or a Boolean object *)
Inductive cres := CBool (b : bool) | CObj (o : bobj) | CErr.

(* _compatible_arg: units, item shape, broadcastable *)
Definition compat (a b : nobj) : option shape :=
  if unit_match (nunit a) (nunit b) && shape_eqb (nitem a) (nitem b)
  then bshape (nsh a) (nsh b) else None.

Definition eq_at (a b : nobj) (r : mi) : bool :=
  let ma := mget (nmask a) (bproj (nsh a) r) in
  let mb := mget (nmask b) (bproj (nsh b) r) in
  if xorb ma mb then false
  else if ma && mb then true
  else list_eqb (nval a (bproj (nsh a) r)) (nval b (bproj (nsh b) r)).
Definition ne_at (a b : nobj) (r : mi) : bool :=
  let ma := mget (nmask a) (bproj (nsh a) r) in
  let mb := mget (nmask b) (bproj (nsh b) r) in
  if xorb ma mb then true
  else if ma && mb then false
  else negb (list_eqb (nval a (bproj (nsh a) r)) (nval b (bproj (nsh b) r))).

Definition q_eq (a b : nobj) : cres :=
  match compat a b with
  | None => CBool false
  | Some [] => CBool (eq_at a b [])
  | Some s => CObj (mkb s (eq_at a b) (MS false))
  end.
Definition q_ne (a b : nobj) : cres :=
  match compat a b with
  | None => CBool true
  | Some [] => CBool (ne_at a b [])
  | Some s => CObj (mkb s (ne_at a b) (MS false))
  end.

(* ordering: Scalars only (single values), False where either is masked *)
Inductive cmp := Lt | Le | Gt | Ge.
Definition cmpz (c : cmp) (x y : Z) : bool :=
  match c with Lt => Z.ltb x y | Le => Z.leb x y | Gt => Z.gtb x y | Ge => Z.geb x y end.
Definition hd0 (l : list Z) : Z := match l with x :: _ => x | [] => 0%Z end.
Definition ord_at (c : cmp) (a b : nobj) (r : mi) : bool :=
  cmpz c (hd0 (nval a (bproj (nsh a) r))) (hd0 (nval b (bproj (nsh b) r)))
  && negb (mget (nmask a) (bproj (nsh a) r)) && negb (mget (nmask b) (bproj (nsh b) r)).
Definition q_ord (c : cmp) (a b : nobj) : cres :=
  if negb (unit_match (nunit a) (nunit b)) then CErr
  else match bshape (nsh a) (nsh b) with
       | None => CErr
       | Some [] => CBool (ord_at c a b [])
       | Some s => CObj (mkb s (ord_at c a b) (MS false))
       end.

(* tvl comparisons: masked iff either side is (builtins = False form) *)
Definition as_obj (c : cres) : option bobj :=
  match c with
  | CBool b => Some (mkb [] (fun _ => b) (MS false))
  | CObj o => Some o
  | CErr => None
  end.
Definition nmask_or (a b : nobj) : mrep := or_m (nmask a) (nmask b) (nsh a) (nsh b).
Definition tvl_cmp (c : cres) (a b : nobj) : option bobj :=
  match as_obj c with
  | None => None
  | Some o => Some (mkb (bsh o) (bval o) (nmask_or a b))
  end.

(* truth value of a comparison result: bool(a == b) is all(), bool(a != b) is any() *)
Definition truth_all (c : cres) : option bool :=
  match c with
  | CBool b => Some b
  | CObj o => Some (all_l (map (bval o) (all_mi (bsh o))))
  | CErr => None
  end.
Definition truth_any (c : cres) : option bool :=
  match c with
  | CBool b => Some b
  | CObj o => Some (any_l (map (bval o) (all_mi (bsh o))))
  | CErr => None
  end.

(* ---- observation (the projection compared with the implementation) ---- *)
Inductive obs := OBool (b : bool) | OArr (s : shape) (l : list tv) | OErr.
Definition obs_b (o : bobj) : obs := OArr (bsh o) (map (tv_at o) (all_mi (bsh o))).
Definition obs_ob (o : option bobj) : obs := match o with Some x => obs_b x | None => OErr end.
Definition obs_c (c : cres) : obs :=
  match c with CBool b => OBool b | CObj o => obs_b o | CErr => OErr end.
Definition obs_eqb (x y : obs) : bool :=
  match x, y with
  | OBool a, OBool b => Bool.eqb a b
  | OErr, OErr => true
  | OArr s l, OArr s' l' =>
      shape_eqb s s' && (Nat.eqb (length l) (length l')) &&
      forallb (fun p => tv_eqb (fst p) (snd p)) (combine l l')
  | _, _ => false
  end.

(* ---- building objects from the list form used in case files ---- *)
Definition mkbL (s : shape) (v : list bool) (m : mrepL) : bobj :=
  mkb s (fun i => nth (ravel s i) v false) (mrep_of s m).
Definition mknL (s item : shape) (v : list (list Z)) (m : mrepL) (u : option (Z*Z*Z)) : nobj :=
  mkn s item (fun i => nth (ravel s i) v []) (mrep_of s m) u.

(* a case: operation + operands; the model's answer *)
Inductive op14 :=
| OpTvlAnd | OpTvlOr | OpAnd | OpOr | OpXor.
Inductive case14 :=
| CBin (o : op14) (a b : bobj)
| CNot (a : bobj)
| CRed (which : nat) (keep : list bool) (a : bobj)   (* 0 tvl_any 1 tvl_all 2 any 3 all *)
| CEq (a b : nobj) | CNe (a b : nobj)
| COrd (c : cmp) (a b : nobj)
| CTvlCmp (which : nat) (a b : nobj)                 (* 0 eq 1 ne 2 lt 3 le 4 gt 5 ge *)
| CTruth (which : nat) (a b : nobj).                 (* 0 bool(a==b) 1 bool(a!=b) *)

Definition cmp_of (w : nat) (a b : nobj) : cres :=
  match w with
  | 0 => q_eq a b | 1 => q_ne a b | 2 => q_ord Lt a b | 3 => q_ord Le a b
  | 4 => q_ord Gt a b | _ => q_ord Ge a b
  end.

Definition run14 (c : case14) : obs :=
  match c with
  | CBin OpTvlAnd a b => obs_ob (tvl_and a b)
  | CBin OpTvlOr a b => obs_ob (tvl_or a b)
  | CBin OpAnd a b => obs_ob (q_and a b)
  | CBin OpOr a b => obs_ob (q_or a b)
  | CBin OpXor a b => obs_ob (q_xor a b)
  | CNot a => obs_b (q_not a)
  | CRed 0 k a => obs_b (tvl_any k a)
  | CRed 1 k a => obs_b (tvl_all k a)
  | CRed 2 k a => obs_b (q_any k a)
  | CRed _ k a => obs_b (q_all k a)
  | CEq a b => obs_c (q_eq a b)
  | CNe a b => obs_c (q_ne a b)
  | COrd c a b => obs_c (q_ord c a b)
  | CTvlCmp w a b => obs_ob (tvl_cmp (cmp_of w a b) a b)
  | CTruth 0 a b => match truth_all (q_eq a b) with Some t => OBool t | None => OErr end
  | CTruth _ a b => match truth_any (q_ne a b) with Some t => OBool t | None => OErr end
  end.

(* positions of the cases on which model and implementation disagree *)
Fixpoint mism_from (k : nat) (l : list (case14 * obs)) : list nat :=
  match l with
  | [] => []
  | (c, o) :: t => if obs_eqb (run14 c) o then mism_from (S k) t else k :: mism_from (S k) t
  end.
Definition mismatches := mism_from 0.
