(* C06 - names used by the emitted kernels (coq/gen/Gen_kern_C06_*.v).  No proofs. *)
From Coq Require Import Reals.
Local Open Scope R_scope.

(* a real (non-integer) power x ** a is emitted as [rpow a x] = Rpower x a = exp (a * ln x);
   the exponent comes first so that [rpow a] is a unary function of the base *)
Definition rpow (a x : R) : R := Rpower x a.
