(* C20 model: polynomials as coefficient lists in DECREASING order (polymath/polynomial.py).
   Proof-free.  The list functions are written once, over an arbitrary carrier with ring
   operations (Section Poly); C20Lemmas instantiates them at R for the theorems and the
   generated obligations, this file at Z for the executable correspondence (integer
   coefficients are exact in the implementation's floats).  The post-processing of
   roots() for order >= 3 is written over an arbitrary carrier with a comparison and is
   instantiated at Z (theorems) and PrimFloat (correspondence on the eigenvalues LAPACK
   really returned). *)
From Coq Require Import List Arith ZArith Bool.
From Coq Require Import Floats.PrimFloat.
From PM Require Import Base Mask.
Import ListNotations.

Section Poly.
  Variable A : Type.
  Variables (rO rI : A) (radd rmul rsub : A -> A -> A) (ropp : A -> A).

  (* x^n and n*c by repeated multiplication / addition (no injection nat -> A needed) *)
  Fixpoint gpow (x : A) (n : nat) : A :=
    match n with O => rI | S k => rmul x (gpow x k) end.
  Fixpoint gnmul (n : nat) (c : A) : A :=
    match n with O => rO | S k => radd c (gnmul k c) end.

  (* eval: Horner, leading coefficient first  (= numpy.polyval) *)
  Fixpoint gpeval_acc (acc : A) (p : list A) (x : A) : A :=
    match p with
    | [] => acc
    | c :: p' => gpeval_acc (radd (rmul acc x) c) p' x
    end.
  Definition gpeval (p : list A) (x : A) : A := gpeval_acc rO p x.

  (* at_least_order: left zero padding up to length n *)
  Definition gpad (n : nat) (p : list A) : list A := repeat rO (n - length p) ++ p.

  Fixpoint gmap2 (f : A -> A -> A) (p q : list A) : list A :=
    match p, q with
    | a :: p', b :: q' => f a b :: gmap2 f p' q'
    | _, _ => []
    end.

  (* __add__ / __sub__: both operands brought to the larger order, then element-wise *)
  Definition gpadd (p q : list A) : list A :=
    let n := Nat.max (length p) (length q) in gmap2 radd (gpad n p) (gpad n q).
  Definition gpsub (p q : list A) : list A :=
    let n := Nat.max (length p) (length q) in gmap2 rsub (gpad n p) (gpad n q).
  Definition gpneg (p : list A) : list A := map ropp p.

  (* __mul__: q = b x^m + q'  =>  p q = (b p) x^m + p q'   (the convolution of the source,
     one shifted multiple of p per coefficient of q) *)
  Fixpoint gpmul (p q : list A) : list A :=
    match q with
    | [] => []
    | b :: q' => gpadd (map (rmul b) p ++ repeat rO (length q')) (gpmul p q')
    end.

  (* __pow__: 0 -> [1]; 1 -> self; n -> ((self*self)*self)... *)
  Fixpoint gppow (p : list A) (n : nat) : list A :=
    match n with
    | O => [rI]
    | S k => match k with O => p | S _ => gpmul (gppow p k) p end
    end.

  (* deriv: coefficient i times (order - i), last coefficient dropped; order 0 -> [0] *)
  Fixpoint gpderiv_aux (p : list A) : list A :=
    match p with
    | [] => []
    | c :: p' => match p' with [] => [] | _ :: _ => gnmul (length p') c :: gpderiv_aux p' end
    end.
  Definition gpderiv (p : list A) : list A :=
    match p with
    | [_] => [rO]
    | _ => gpderiv_aux p
    end.
End Poly.

(* ---- Z instance (executable) ---- *)
Definition zpeval := gpeval Z 0%Z Z.add Z.mul.
Definition zpadd := gpadd Z 0%Z Z.add.
Definition zpsub := gpsub Z 0%Z Z.sub.
Definition zpneg := gpneg Z Z.opp.
Definition zpmul := gpmul Z 0%Z Z.add Z.mul.
Definition zppow := gppow Z 0%Z 1%Z Z.add Z.mul.
Definition zpderiv := gpderiv Z 0%Z Z.add.

(* ------------------------------------------------------------------------- *)
(* roots(), order >= 3: what happens to the eigenvalues of the companion matrix *)
(* ------------------------------------------------------------------------- *)
Section RootsPost.
  Variable V : Type.
  Variables (vleb veqb : V -> V -> bool).

  (* an eigenvalue as the code sees it: real part, "imaginary part is not 0", magnitude *)
  Record eig := mkeig { e_re : V; e_cplx : bool; e_mag : V }.
  (* an entry of the result: value (None = masked; hidden values are not part of the projection) *)

  Definition vltb (a b : V) : bool := vleb a b && negb (veqb a b).

  (* rank_by_size = argsort(argsort(|roots|)): position of entry i in the stable order by magnitude *)
  Fixpoint count_before (l : list eig) (m : V) : nat :=
    match l with [] => O | e :: l' => (if vleb (e_mag e) m then 1 else 0) + count_before l' m end.
  Fixpoint count_after (l : list eig) (m : V) : nat :=
    match l with [] => O | e :: l' => (if vltb (e_mag e) m then 1 else 0) + count_after l' m end.
  (* entries before i count when their magnitude is <=, entries after i when it is < *)
  Fixpoint ranks_aux (before l : list eig) : list nat :=
    match l with
    | [] => []
    | e :: l' => (count_before before (e_mag e) + count_after l' (e_mag e)) :: ranks_aux (before ++ [e]) l'
    end.
  Definition ranks (l : list eig) : list nat := ranks_aux [] l.

  (* steps 1+2: masked when the polynomial is masked, the eigenvalue is not real, or it is one of
     the `shifts` smallest in magnitude (one spurious zero root per leading zero coefficient) *)
  Definition step_mask (pmask : bool) (shifts : nat) (l : list eig) : list (option V) :=
    map (fun er => let '(e, r) := er in
                   if pmask || e_cplx e || Nat.ltb r shifts then None else Some (e_re e))
        (combine l (ranks l)).

  (* Scalar.sort(axis=0): unmasked values in increasing order, masked entries last *)
  Fixpoint insert (x : V) (l : list V) : list V :=
    match l with
    | [] => [x]
    | y :: l' => if vleb x y then x :: l else y :: insert x l'
    end.
  Fixpoint isort (l : list V) : list V :=
    match l with [] => [] | x :: l' => insert x (isort l') end.
  Fixpoint somes (l : list (option V)) : list V :=
    match l with [] => [] | Some v :: l' => v :: somes l' | None :: l' => somes l' end.
  Definition sort_masked (l : list (option V)) : list (option V) :=
    let s := isort (somes l) in map Some s ++ repeat None (length l - length s).

  (* duplicated[1:] = (v[1:] == v[:-1]) & ~mask[1:]: an unmasked entry equal to its predecessor
     (in the sorted array, where the unmasked entries come first) becomes masked *)
  Fixpoint dedup_from (prev : V) (l : list V) : list (option V) :=
    match l with
    | [] => []
    | y :: l' => (if veqb y prev then None else Some y) :: dedup_from y l'
    end.
  Definition dedup (l : list V) : list (option V) :=
    match l with [] => [] | x :: l' => Some x :: dedup_from x l' end.

  Definition roots_post (pmask : bool) (shifts : nat) (l : list eig) : list (option V) :=
    let s1 := sort_masked (step_mask pmask shifts l) in
    let d := dedup (somes s1) in
    sort_masked (d ++ repeat None (length s1 - length d)).
End RootsPost.

Arguments mkeig {V}.
Arguments e_re {V}.
Arguments e_cplx {V}.
Arguments e_mag {V}.

Definition zroots_post := roots_post Z Z.leb Z.eqb.
Definition froots_post := roots_post float PrimFloat.leb PrimFloat.eqb.

(* ------------------------------------------------------------------------- *)
(* executable correspondence                                                  *)
(* ------------------------------------------------------------------------- *)
Inductive pop := OpAdd | OpSub | OpMul | OpNeg | OpPow | OpDeriv | OpEval.

Inductive case :=
| CRing (op : pop) (p q : list Z) (n : nat) (x : Z)
| CRoots (pmask : bool) (shifts : nat) (l : list (eig float)).

Inductive obs :=
| ORing (r : list Z)
| ORoots (r : list (option float)).

Definition run20 (c : case) : obs :=
  match c with
  | CRing op p q n x =>
      ORing match op with
            | OpAdd => zpadd p q
            | OpSub => zpsub p q
            | OpMul => zpmul p q
            | OpNeg => zpneg p
            | OpPow => zppow p n
            | OpDeriv => zpderiv p
            | OpEval => [zpeval p x]
            end
  | CRoots pm s l => ORoots (froots_post pm s l)
  end.

Fixpoint list_eqb {T} (eqb : T -> T -> bool) (a b : list T) : bool :=
  match a, b with
  | [], [] => true
  | x :: a', y :: b' => eqb x y && list_eqb eqb a' b'
  | _, _ => false
  end.
Definition optf_eqb (a b : option float) : bool :=
  match a, b with
  | None, None => true
  | Some x, Some y => PrimFloat.eqb x y
  | _, _ => false
  end.
Definition obs_eqb (a b : obs) : bool :=
  match a, b with
  | ORing x, ORing y => list_eqb Z.eqb x y
  | ORoots x, ORoots y => list_eqb optf_eqb x y
  | _, _ => false
  end.

Fixpoint mism_aux (i : nat) (l : list (case * obs)) : list nat :=
  match l with
  | [] => []
  | (c, o) :: l' => if obs_eqb (run20 c) o then mism_aux (S i) l' else i :: mism_aux (S i) l'
  end.
Definition mismatches (l : list (case * obs)) : list nat := mism_aux 0 l.
