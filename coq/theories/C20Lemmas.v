(* C20 - proofs.  Part 1: the list model over ANY commutative ring (Section PolyThm, closed by
   [ring] for the section's ring theory), instantiated at R and Z.  Part 2: R instance, Horner
   sum, derivative (Coquelicot is_derive), the fixed tactic for the generated obligations.
   Part 3: Scalar.solve_quadratic + the order-2 branch of roots().  Part 4: the post-processing
   of roots() for order >= 3.  No axioms of our own; the standard library's real-number axioms
   are the only ones used. *)
From Coq Require Import List Arith ZArith Bool Lia Ring Reals Lra Sorting.Permutation.
From Coquelicot Require Import Coquelicot.
From PM Require Import C20Model C20Real.
Import ListNotations.
Arguments gpeval : simpl never.

(* ========================================================================= *)
(* Part 1: any commutative ring                                               *)
(* ========================================================================= *)
Section PolyThm.
  Variable A : Type.
  Variables (rO rI : A) (radd rmul rsub : A -> A -> A) (ropp : A -> A).
  Hypothesis Rth : ring_theory rO rI radd rmul rsub ropp (@eq A).
  Add Ring Aring : Rth.

  Local Notation pe := (gpeval A rO radd rmul).
  Local Notation pacc := (gpeval_acc A radd rmul).
  Local Notation pw := (gpow A rI rmul).
  Local Notation pad := (gpad A rO).
  Local Notation "a + b" := (radd a b).
  Local Notation "a * b" := (rmul a b).

  Lemma g_pow_add : forall x a b, pw x (a + b)%nat = pw x a * pw x b.
  Proof. intros x a b. induction a as [|a IH]; simpl; [ring | rewrite IH; ring]. Qed.

  Lemma g_acc_spec : forall p acc x, pacc acc p x = acc * pw x (length p) + pe p x.
  Proof.
    induction p as [|c p IH]; intros acc x.
    - unfold gpeval. simpl. ring.
    - unfold gpeval. simpl. rewrite (IH (acc * x + c)), (IH (rO * x + c)). ring.
  Qed.

  Lemma g_peval_nil : forall x, pe [] x = rO.
  Proof. reflexivity. Qed.

  (* Horner = leading coefficient times x^(number of remaining coefficients) + rest *)
  Lemma g_peval_cons : forall c p x, pe (c :: p) x = c * pw x (length p) + pe p x.
  Proof. intros. unfold gpeval at 1. simpl. rewrite g_acc_spec. ring. Qed.

  Lemma g_peval_app : forall p q x, pe (p ++ q) x = pe p x * pw x (length q) + pe q x.
  Proof.
    induction p as [|c p IH]; intros q x.
    - change ([] ++ q) with q. rewrite g_peval_nil. ring.
    - change ((c :: p) ++ q) with (c :: (p ++ q)). rewrite !g_peval_cons, IH, app_length, g_pow_add. ring.
  Qed.

  Lemma g_peval_zeros : forall n x, pe (repeat rO n) x = rO.
  Proof. induction n as [|n IH]; intros x; simpl; [reflexivity|]. rewrite g_peval_cons, IH. ring. Qed.

  (* at_least_order: leading zeros do not change the value *)
  Lemma g_peval_pad : forall n p x, pe (pad n p) x = pe p x.
  Proof. intros. unfold gpad. rewrite g_peval_app, g_peval_zeros. ring. Qed.

  Lemma g_pad_length : forall n p, (length p <= n)%nat -> length (pad n p) = n.
  Proof. intros. unfold gpad. rewrite app_length, repeat_length. lia. Qed.

  Lemma g_map2_length : forall f p q, length p = length q -> length (gmap2 A f p q) = length p.
  Proof.
    intros f. induction p as [|a p IH]; intros [|b q] H; simpl in *; try reflexivity; try discriminate.
    f_equal. apply IH. lia.
  Qed.

  Lemma g_peval_map2_add : forall p q x, length p = length q ->
    pe (gmap2 A radd p q) x = pe p x + pe q x.
  Proof.
    induction p as [|a p IH]; intros [|b q] x H; simpl in *; try discriminate.
    - rewrite g_peval_nil. ring.
    - rewrite !g_peval_cons, IH by lia. rewrite g_map2_length by lia.
      replace (length q) with (length p) by lia. ring.
  Qed.

  Lemma g_peval_map2_sub : forall p q x, length p = length q ->
    pe (gmap2 A rsub p q) x = rsub (pe p x) (pe q x).
  Proof.
    induction p as [|a p IH]; intros [|b q] x H; simpl in *; try discriminate.
    - rewrite g_peval_nil. ring.
    - rewrite !g_peval_cons, IH by lia. rewrite g_map2_length by lia.
      replace (length q) with (length p) by lia. ring.
  Qed.

  Theorem g_peval_padd : forall p q x, pe (gpadd A rO radd p q) x = pe p x + pe q x.
  Proof.
    intros. unfold gpadd. rewrite g_peval_map2_add, !g_peval_pad; [reflexivity|].
    rewrite !g_pad_length by lia. reflexivity.
  Qed.

  Theorem g_peval_psub : forall p q x, pe (gpsub A rO rsub p q) x = rsub (pe p x) (pe q x).
  Proof.
    intros. unfold gpsub. rewrite g_peval_map2_sub, !g_peval_pad; [reflexivity|].
    rewrite !g_pad_length by lia. reflexivity.
  Qed.

  Theorem g_peval_pneg : forall p x, pe (gpneg A ropp p) x = ropp (pe p x).
  Proof.
    induction p as [|c p IH]; intros x; unfold gpneg in *; simpl.
    - rewrite g_peval_nil. ring.
    - rewrite !g_peval_cons, IH, map_length. ring.
  Qed.

  Lemma g_peval_scale : forall b p x, pe (map (rmul b) p) x = b * pe p x.
  Proof.
    induction p as [|c p IH]; intros x; simpl.
    - rewrite g_peval_nil. ring.
    - rewrite !g_peval_cons, IH, map_length. ring.
  Qed.

  Theorem g_peval_pmul : forall p q x, pe (gpmul A rO radd rmul p q) x = pe p x * pe q x.
  Proof.
    intros p q x. induction q as [|b q IH]; simpl.
    - rewrite g_peval_nil. ring.
    - rewrite g_peval_padd, IH, g_peval_app, g_peval_scale, g_peval_zeros, repeat_length, g_peval_cons.
      ring.
  Qed.

  Theorem g_peval_ppow : forall p n x, pe (gppow A rO rI radd rmul p n) x = pw (pe p x) n.
  Proof.
    intros p n x. induction n as [|k IH].
    - simpl. rewrite g_peval_cons, g_peval_nil. simpl. ring.
    - destruct k as [|k'].
      + simpl. ring.
      + change (gppow A rO rI radd rmul p (S (S k'))) with
          (gpmul A rO radd rmul (gppow A rO rI radd rmul p (S k')) p).
        rewrite g_peval_pmul, IH. simpl. ring.
  Qed.

  (* lengths: the order of the result *)
  Lemma g_padd_length : forall p q, length (gpadd A rO radd p q) = Nat.max (length p) (length q).
  Proof. intros. unfold gpadd. rewrite g_map2_length; rewrite !g_pad_length by lia; reflexivity. Qed.

  Lemma g_pmul_length : forall p q, q <> [] -> length (gpmul A rO radd rmul p q) = (length p + length q - 1)%nat.
  Proof.
    intros p q. induction q as [|b q IH]; intros H; [congruence|].
    simpl. rewrite g_padd_length, app_length, map_length, repeat_length.
    destruct q as [|b' q'].
    - simpl. lia.
    - rewrite IH by congruence. simpl. lia.
  Qed.
End PolyThm.

(* ========================================================================= *)
(* Part 2: the real instance                                                  *)
(* ========================================================================= *)
Local Open Scope R_scope.

Lemma gpow_R : forall x n, gpow R 1 Rmult x n = x ^ n.
Proof. induction n as [|n IH]; simpl; [reflexivity | rewrite IH; reflexivity]. Qed.

Lemma gnmul_R : forall n c, gnmul R 0 Rplus n c = INR n * c.
Proof.
  induction n as [|n IH]; intros c.
  - simpl. ring.
  - change (gnmul R 0 Rplus (S n) c) with (c + gnmul R 0 Rplus n c). rewrite IH, S_INR. ring.
Qed.

Lemma peval_cons : forall c p x, peval (c :: p) x = c * x ^ length p + peval p x.
Proof. intros. unfold peval. rewrite (g_peval_cons R 0 1 Rplus Rmult Rminus Ropp RTheory), gpow_R. reflexivity. Qed.

Lemma peval_nil : forall x, peval [] x = 0.
Proof. reflexivity. Qed.

Theorem ring_hom_add : forall p q x, peval (padd p q) x = peval p x + peval q x.
Proof. exact (g_peval_padd R 0 1 Rplus Rmult Rminus Ropp RTheory). Qed.
Theorem ring_hom_sub : forall p q x, peval (psub p q) x = peval p x - peval q x.
Proof. exact (g_peval_psub R 0 1 Rplus Rmult Rminus Ropp RTheory). Qed.
Theorem ring_hom_neg : forall p x, peval (pneg p) x = - peval p x.
Proof. exact (g_peval_pneg R 0 1 Rplus Rmult Rminus Ropp RTheory). Qed.
Theorem ring_hom_mul : forall p q x, peval (pmul p q) x = peval p x * peval q x.
Proof. exact (g_peval_pmul R 0 1 Rplus Rmult Rminus Ropp RTheory). Qed.
Theorem ring_hom_pow : forall p n x, peval (ppow p n) x = peval p x ^ n.
Proof. intros. unfold peval, ppow. rewrite (g_peval_ppow R 0 1 Rplus Rmult Rminus Ropp RTheory), gpow_R. reflexivity. Qed.
Theorem pad_invariant : forall n p x, peval (ppad n p) x = peval p x.
Proof. exact (g_peval_pad R 0 1 Rplus Rmult Rminus Ropp RTheory). Qed.
Theorem padd_order : forall p q, length (padd p q) = Nat.max (length p) (length q).
Proof. exact (g_padd_length R 0 Rplus). Qed.
Theorem pmul_order : forall p q, q <> [] -> length (pmul p q) = (length p + length q - 1)%nat.
Proof. exact (g_pmul_length R 0 Rplus Rmult). Qed.

(* the same laws hold in the integer instance the correspondence evaluates *)
Theorem ring_hom_Z : forall p q x,
  (zpeval (zpadd p q) x = zpeval p x + zpeval q x /\ zpeval (zpsub p q) x = zpeval p x - zpeval q x /\
   zpeval (zpmul p q) x = zpeval p x * zpeval q x /\ zpeval (zpneg p) x = - zpeval p x)%Z.
Proof.
  intros. repeat split.
  - exact (g_peval_padd Z 0%Z 1%Z Z.add Z.mul Z.sub Z.opp Zth p q x).
  - exact (g_peval_psub Z 0%Z 1%Z Z.add Z.mul Z.sub Z.opp Zth p q x).
  - exact (g_peval_pmul Z 0%Z 1%Z Z.add Z.mul Z.sub Z.opp Zth p q x).
  - exact (g_peval_pneg Z 0%Z 1%Z Z.add Z.mul Z.sub Z.opp Zth p x).
Qed.

(* ---- Horner value = sum of c_i x^(n-i) ---- *)
Fixpoint sumn (n : nat) (f : nat -> R) : R :=
  match n with O => 0 | S k => sumn k f + f k end.

Lemma sumn_shift : forall n f, sumn (S n) f = f O + sumn n (fun i => f (S i)).
Proof.
  induction n as [|n IH]; intros f.
  - simpl. ring.
  - change (sumn (S (S n)) f) with (sumn (S n) f + f (S n)). rewrite IH. simpl. ring.
Qed.

Lemma sumn_ext : forall n f g, (forall i, (i < n)%nat -> f i = g i) -> sumn n f = sumn n g.
Proof.
  induction n as [|n IH]; intros f g H; simpl; [reflexivity|].
  rewrite (IH f g), (H n) by (intros; try apply H; lia). reflexivity.
Qed.

Theorem horner_sum : forall p x,
  peval p x = sumn (length p) (fun i => nth i p 0 * x ^ (length p - 1 - i)).
Proof.
  induction p as [|c p IH]; intros x.
  - reflexivity.
  - rewrite peval_cons. change (length (c :: p)) with (S (length p)). rewrite sumn_shift, IH.
    simpl nth. replace (S (length p) - 1 - 0)%nat with (length p) by lia.
    f_equal. apply sumn_ext. intros i Hi. simpl nth.
    replace (S (length p) - 1 - S i)%nat with (length p - 1 - i)%nat by lia. reflexivity.
Qed.

(* ---- deriv() is the derivative of eval ---- *)
Definition pderiv_aux := gpderiv_aux R 0 Rplus.

Lemma pderiv_aux_cons : forall c d p,
  pderiv_aux (c :: d :: p) = (INR (S (length p)) * c) :: pderiv_aux (d :: p).
Proof.
  intros. unfold pderiv_aux.
  change (gpderiv_aux R 0 Rplus (c :: d :: p))
    with (gnmul R 0 Rplus (length (d :: p)) c :: gpderiv_aux R 0 Rplus (d :: p)).
  rewrite gnmul_R. reflexivity.
Qed.

Lemma pderiv_aux_length : forall p, length (pderiv_aux p) = (length p - 1)%nat.
Proof.
  induction p as [|c p IH]; [reflexivity|]. destruct p as [|d p]; [reflexivity|].
  rewrite pderiv_aux_cons. simpl length in *. rewrite IH. lia.
Qed.

Lemma peval_pderiv_aux : forall p x, peval (pderiv p) x = peval (pderiv_aux p) x.
Proof.
  intros [|c [|d p]] x; try reflexivity.
  unfold pderiv, gpderiv, pderiv_aux. simpl. unfold peval, gpeval. simpl. ring.
Qed.

Lemma is_derive_peval_aux : forall p x, is_derive (peval p) x (peval (pderiv_aux p) x).
Proof.
  induction p as [|c p IH]; intros x.
  - apply (is_derive_ext (fun _ => 0)); [intros; reflexivity|]. apply @is_derive_const.
  - destruct p as [|d p].
    + apply (is_derive_ext (fun _ => c)).
      * intros t. rewrite peval_cons, peval_nil. simpl. ring.
      * change (peval (pderiv_aux [c]) x) with 0. apply @is_derive_const.
    + rewrite pderiv_aux_cons.
      apply (is_derive_ext (fun t => c * t ^ length (d :: p) + peval (d :: p) t)).
      * intros t. rewrite (peval_cons c). reflexivity.
      * rewrite (peval_cons (INR (S (length p)) * c)). rewrite pderiv_aux_length.
        apply @is_derive_plus; [|apply IH].
        simpl length. replace (S (length p) - 1)%nat with (length p) by lia.
        auto_derive; [exact I|]. simpl. rewrite <- S_INR. simpl pred. ring.
  Qed.

Theorem deriv_is_derivative : forall p x, is_derive (peval p) x (peval (pderiv p) x).
Proof. intros. rewrite peval_pderiv_aux. apply is_derive_peval_aux. Qed.

(* formal derivative, coefficient by coefficient *)
Theorem pderiv_coeff : forall p i, (2 <= length p)%nat -> (i < length p - 1)%nat ->
  nth i (pderiv p) 0 = INR (length p - 1 - i) * nth i p 0.
Proof.
  intros p i H2 Hi.
  assert (E : pderiv p = pderiv_aux p) by (destruct p as [|c [|d p]]; simpl in *; try lia; reflexivity).
  rewrite E. clear E. revert i H2 Hi.
  induction p as [|c p IH]; intros i H2 Hi; [simpl in *; lia|].
  destruct p as [|d p]; [simpl in *; lia|].
  rewrite pderiv_aux_cons. destruct i as [|i].
  - simpl nth. simpl length. replace (S (S (length p)) - 1 - 0)%nat with (S (length p)) by lia. reflexivity.
  - simpl nth at 1. simpl length in *.
    destruct p as [|e p]; [simpl in *; lia|]. simpl length in *.
    rewrite IH by (simpl length; lia). simpl length. simpl nth.
    replace (S (S (S (length p))) - 1 - S i)%nat with (S (S (length p)) - 1 - i)%nat by lia. reflexivity.
Qed.

(* ========================================================================= *)
(* Part 3: order 1 and 2 roots (Scalar.solve_quadratic, numerically stable form) *)
(* ========================================================================= *)
(* None = masked.  sign(zeros=False): -1 below zero, +1 otherwise *)
Definition sgn1 (t : R) : R := if Rlt_dec t 0 then -1 else 1.

Definition lin_root (a b : R) : option R := if Req_EM_T a 0 then None else Some (- b / a).

(* neg_half_b = -0.5 b; discr = neg_half_b^2 - a c; term = neg_half_b + sign * sqrt discr;
   x0 = c / term; x1 = term / a; x0 takes x1 where x0 is masked; x1 masked where x0 was masked
   or x1 == x0.  sqrt of a negative number and division by zero are masked. *)
Definition quad_raw (a b c : R) : option R * option R :=
  let h := - (1 / 2) * b in
  let d := h * h - a * c in
  if Rlt_dec d 0 then (None, None) else
  let t := h + sgn1 h * sqrt d in
  let x1 := if Req_EM_T a 0 then None else Some (t / a) in
  if Req_EM_T t 0 then (x1, None)
  else (Some (c / t),
        match x1 with
        | Some v1 => if Req_EM_T v1 (c / t) then None else Some v1
        | None => None
        end).

(* Qube.stack(x0, x1).sort(axis=0): increasing, masked last *)
Definition sort2 (y : option R * option R) : option R * option R :=
  match y with
  | (Some u, Some v) => if Rlt_dec v u then (Some v, Some u) else (Some u, Some v)
  | (None, Some v) => (Some v, None)
  | _ => y
  end.
Definition quad_roots (a b c : R) : option R * option R := sort2 (quad_raw a b c).

Definition disc (a b c : R) : R := b * b - 4 * a * c.
Definition is_root2 (a b c r : R) : Prop := a * r * r + b * r + c = 0.

Lemma lin_root_spec : forall a b, a <> 0 ->
  exists r, lin_root a b = Some r /\ a * r + b = 0 /\ forall r', a * r' + b = 0 -> r' = r.
Proof.
  intros a b Ha. unfold lin_root. destruct (Req_EM_T a 0) as [E|_]; [contradiction|].
  exists (- b / a). split; [reflexivity|]. split; [field; assumption|].
  intros r' H. apply (Rmult_eq_reg_l a); [|assumption]. field_simplify; [lra|assumption].
Qed.

Lemma sgn1_sq : forall t, sgn1 t * sgn1 t = 1.
Proof. intros. unfold sgn1. destruct (Rlt_dec t 0); ring. Qed.

Lemma half_disc : forall a b c, (- (1 / 2) * b) * (- (1 / 2) * b) - a * c = disc a b c / 4.
Proof. intros. unfold disc. field. Qed.

(* the key identity of the stable form: term^2 + b term + a c = 0 *)
Lemma term_identity : forall a b c, 0 <= disc a b c ->
  let h := - (1 / 2) * b in let t := h + sgn1 h * sqrt (h * h - a * c) in
  t * t + b * t + a * c = 0.
Proof.
  intros a b c Hd h t. subst t.
  assert (Hs : sqrt (h * h - a * c) * sqrt (h * h - a * c) = h * h - a * c).
  { apply sqrt_sqrt. unfold h. rewrite half_disc. lra. }
  pose proof (sgn1_sq h) as Hg.
  set (s := sqrt (h * h - a * c)) in *. set (g := sgn1 h) in *.
  replace b with (- 2 * h) by (unfold h; field).
  replace ((h + g * s) * (h + g * s) + -2 * h * (h + g * s) + a * c)
    with ((g * g) * (s * s) - h * h + a * c) by ring.
  rewrite Hg, Hs. ring.
Qed.

Lemma term_nonzero : forall a b c, 0 < disc a b c ->
  let h := - (1 / 2) * b in h + sgn1 h * sqrt (h * h - a * c) <> 0.
Proof.
  intros a b c Hd h.
  assert (Hp : 0 < sqrt (h * h - a * c)) by (apply sqrt_lt_R0; unfold h; rewrite half_disc; lra).
  unfold sgn1. destruct (Rlt_dec h 0); lra.
Qed.

Theorem quad_negative_disc : forall a b c, disc a b c < 0 -> quad_roots a b c = (None, None).
Proof.
  intros a b c Hd. unfold quad_roots, quad_raw.
  destruct (Rlt_dec _ 0) as [_|H]; [reflexivity|]. exfalso. apply H. rewrite half_disc. lra.
Qed.

Lemma sort2_in : forall y r, (fst (sort2 y) = Some r \/ snd (sort2 y) = Some r) ->
  (fst y = Some r \/ snd y = Some r).
Proof.
  intros [[u|] [v|]] r; simpl; try tauto.
  destruct (Rlt_dec v u); simpl; tauto.
Qed.

(* every value returned unmasked is a root *)
Theorem quad_roots_are_roots : forall a b c r, a <> 0 ->
  (fst (quad_roots a b c) = Some r \/ snd (quad_roots a b c) = Some r) -> is_root2 a b c r.
Proof.
  intros a b c r Ha H. apply sort2_in in H. unfold quad_raw in H.
  destruct (Rlt_dec _ 0) as [_|Hd]; [simpl in H; destruct H; discriminate|].
  assert (Hd' : 0 <= disc a b c) by (rewrite half_disc in Hd; lra).
  pose proof (term_identity a b c Hd') as Ht. cbv zeta in Ht.
  set (t := - (1 / 2) * b + sgn1 (- (1 / 2) * b) * sqrt (- (1 / 2) * b * (- (1 / 2) * b) - a * c)) in *.
  assert (R1 : is_root2 a b c (t / a)).
  { unfold is_root2. replace (a * (t / a) * (t / a) + b * (t / a) + c) with ((t * t + b * t + a * c) / a)
      by (field; assumption). rewrite Ht. field. assumption. }
  destruct (Req_EM_T a 0) as [E|_]; [contradiction|].
  destruct (Req_EM_T t 0) as [T0|Tn].
  - simpl in H. destruct H as [H|H]; [|discriminate]. injection H as <-. exact R1.
  - assert (R0 : is_root2 a b c (c / t)).
    { unfold is_root2. replace (a * (c / t) * (c / t) + b * (c / t) + c) with (c * (t * t + b * t + a * c) / (t * t))
        by (field; assumption). rewrite Ht. field. assumption. }
    simpl in H. destruct H as [H|H].
    + injection H as <-. exact R0.
    + destruct (Req_EM_T (t / a) (c / t)); [discriminate|]. injection H as <-. exact R1.
Qed.

(* two unmasked values are in strictly increasing order (the duplicate has been masked) *)
Theorem quad_roots_sorted : forall a b c u v, quad_roots a b c = (Some u, Some v) -> u < v.
Proof.
  intros a b c u v H. unfold quad_roots in H.
  assert (D : forall x y, quad_raw a b c = (Some x, Some y) -> x <> y).
  { intros x y E. unfold quad_raw in E.
    destruct (Rlt_dec _ 0); [discriminate|].
    destruct (Req_EM_T a 0); destruct (Req_EM_T _ 0); try discriminate.
    destruct (Req_EM_T _ _) as [|N]; [discriminate|]. injection E as <- <-. intro; apply N; symmetry; assumption. }
  destruct (quad_raw a b c) as [[x|] [y|]] eqn:E; simpl in H; try discriminate.
  specialize (D x y eq_refl).
  destruct (Rlt_dec y x); injection H as <- <-; lra.
Qed.

(* masked entries come last *)
Theorem quad_roots_masked_last : forall a b c v, quad_roots a b c <> (None, Some v).
Proof.
  intros a b c v. unfold quad_roots. destruct (quad_raw a b c) as [[x|] [y|]]; simpl; try discriminate.
  destruct (Rlt_dec y x); discriminate.
Qed.

(* disc = 0: one root, the duplicate is masked *)
Theorem quad_zero_disc : forall a b c, a <> 0 -> disc a b c = 0 ->
  quad_roots a b c = (Some (- b / (2 * a)), None).
Proof.
  intros a b c Ha Hd. unfold quad_roots, quad_raw.
  assert (E0 : - (1 / 2) * b * (- (1 / 2) * b) - a * c = 0) by (rewrite half_disc, Hd; field).
  rewrite E0, sqrt_0.
  destruct (Rlt_dec 0 0); [lra|]. destruct (Req_EM_T a 0); [contradiction|].
  replace (- (1 / 2) * b + sgn1 (- (1 / 2) * b) * 0) with (- (1 / 2) * b) by ring.
  destruct (Req_EM_T (- (1 / 2) * b) 0) as [B0|Bn].
  - simpl. f_equal. f_equal. assert (b = 0) by lra. subst b. field. assumption.
  - assert (Bb : b <> 0) by (intro Z; apply Bn; rewrite Z; ring).
    assert (Ec : c / (- (1 / 2) * b) = - (1 / 2) * b / a).
    { assert (c = (- (1 / 2) * b) * (- (1 / 2) * b) / a) by (field_simplify_eq; [lra|assumption]).
      rewrite H at 1. field. repeat split; assumption. }
    destruct (Req_EM_T _ _) as [_|N]; [|exfalso; apply N; symmetry; exact Ec].
    simpl. f_equal. f_equal. rewrite Ec. field. assumption.
Qed.

(* disc > 0: two distinct values, both unmasked, increasing, and they are ALL the real roots *)
Theorem quad_positive_disc : forall a b c, a <> 0 -> 0 < disc a b c ->
  exists u v, quad_roots a b c = (Some u, Some v) /\ u < v /\
    forall r, is_root2 a b c r <-> (r = u \/ r = v).
Proof.
  intros a b c Ha Hd.
  pose proof (term_nonzero a b c Hd) as Tn. pose proof (term_identity a b c (Rlt_le _ _ Hd)) as Ht.
  cbv zeta in Tn, Ht.
  assert (Eraw : exists t, t <> 0 /\ t * t + b * t + a * c = 0 /\ t / a <> c / t /\
                           quad_raw a b c = (Some (c / t), Some (t / a))).
  { unfold quad_raw. destruct (Rlt_dec _ 0) as [L|_]; [rewrite half_disc in L; lra|].
    set (t := - (1 / 2) * b + sgn1 (- (1 / 2) * b) * sqrt (- (1 / 2) * b * (- (1 / 2) * b) - a * c)) in *.
    clearbody t. exists t. destruct (Req_EM_T a 0); [contradiction|]. destruct (Req_EM_T t 0); [contradiction|].
    assert (N : t / a <> c / t).
    { intro E. assert (E2 : t * t = a * c).
      { apply (Rmult_eq_compat_r (a * t)) in E. field_simplify in E; try assumption; lra. }
      (* then b t = -2 a c and t^2 = a c give t (2t + b) = 0, so t = -b/2, i.e. sqrt disc = 0 *)
      assert (E3 : t * (2 * t + b) = 0) by lra.
      apply Rmult_integral in E3. destruct E3 as [|E3]; [contradiction|].
      unfold disc in Hd. assert (Eb : b = - 2 * t) by lra.
      assert (b * b = 4 * (t * t)) by (rewrite Eb; ring). lra. }
    repeat split; try assumption. destruct (Req_EM_T _ _); [contradiction|reflexivity]. }
  destruct Eraw as (t & Tnz & Tid & N & Eraw).
  assert (Fact : forall r, a * r * r + b * r + c = a * (r - c / t) * (r - t / a)).
  { intros r. assert (Hb : b = - (t * t + a * c) / t) by (field_simplify_eq; [lra|assumption]).
    rewrite Hb. field. split; assumption. }
  assert (Roots : forall r, is_root2 a b c r <-> (r = c / t \/ r = t / a)).
  { intros r. unfold is_root2. rewrite Fact. split.
    - intros H. apply Rmult_integral in H. destruct H as [H|H]; [|right; lra].
      apply Rmult_integral in H. destruct H as [H|H]; [contradiction|left; lra].
    - intros [-> | ->]; ring. }
  unfold quad_roots. rewrite Eraw. simpl. destruct (Rlt_dec (t / a) (c / t)) as [L|G].
  - exists (t / a), (c / t). split; [reflexivity|]. split; [assumption|]. intros r. rewrite Roots. tauto.
  - exists (c / t), (t / a). split; [reflexivity|]. split; [lra|]. intros r. rewrite Roots. tauto.
Qed.

(* ========================================================================= *)
(* Part 4: post-processing of roots() for order >= 3 (integer instance)       *)
(* ========================================================================= *)
Local Open Scope Z_scope.

Local Notation zinsert := (insert Z Z.leb).
Local Notation zisort := (isort Z Z.leb).
Local Notation zsomes := (somes Z).
Local Notation zsort_masked := (sort_masked Z Z.leb).
Local Notation zdedup := (dedup Z Z.eqb).
Local Notation zdedup_from := (dedup_from Z Z.eqb).

Fixpoint sorted_le (l : list Z) : Prop :=
  match l with
  | [] => True
  | x :: l' => match l' with [] => True | y :: _ => x <= y end /\ sorted_le l'
  end.
Fixpoint sorted_lt (l : list Z) : Prop :=
  match l with
  | [] => True
  | x :: l' => match l' with [] => True | y :: _ => x < y end /\ sorted_lt l'
  end.

Lemma sorted_lt_le : forall l, sorted_lt l -> sorted_le l.
Proof.
  induction l as [|x l IH]; simpl; [tauto|]. intros [H1 H2]. split; [|auto].
  destruct l; [exact I|lia].
Qed.

Lemma insert_in : forall v x l, In v (zinsert x l) <-> v = x \/ In v l.
Proof.
  intros v x. induction l as [|y l IH]; simpl.
  - intuition.
  - destruct (x <=? y); simpl; [intuition|]. rewrite IH. intuition.
Qed.

Lemma insert_sorted : forall x l, sorted_le l -> sorted_le (zinsert x l).
Proof.
  intros x. induction l as [|y l IH]; intros H; simpl.
  - tauto.
  - destruct (x <=? y) eqn:E.
    + apply Z.leb_le in E. simpl. simpl in H. tauto.
    + apply Z.leb_gt in E. simpl in H. destruct H as [H1 H2]. specialize (IH H2).
      destruct l as [|z l]; simpl in *.
      * split; [lia|tauto].
      * destruct (x <=? z) eqn:E2; simpl; (split; [first [apply Z.leb_le in E2; lia | lia]| assumption]).
Qed.

Lemma isort_in : forall v l, In v (zisort l) <-> In v l.
Proof. intros v. induction l as [|x l IH]; simpl; [tauto|]. rewrite insert_in, IH. intuition. Qed.

Lemma isort_sorted : forall l, sorted_le (zisort l).
Proof. induction l as [|x l IH]; simpl; [exact I|]. apply insert_sorted, IH. Qed.

Lemma insert_length : forall x l, length (zinsert x l) = S (length l).
Proof. intros x. induction l as [|y l IH]; simpl; [reflexivity|]. destruct (x <=? y); simpl; congruence. Qed.

Lemma isort_length : forall l, length (zisort l) = length l.
Proof. induction l as [|x l IH]; simpl; [reflexivity|]. rewrite insert_length, IH. reflexivity. Qed.

Lemma isort_id : forall l, sorted_le l -> zisort l = l.
Proof.
  induction l as [|x l IH]; intros H; simpl; [reflexivity|].
  simpl in H. destruct H as [H1 H2]. rewrite (IH H2).
  destruct l as [|y l]; simpl; [reflexivity|].
  destruct (x <=? y) eqn:E; [reflexivity|]. apply Z.leb_gt in E. lia.
Qed.

Lemma somes_pad : forall s k, zsomes (map Some s ++ repeat None k) = s.
Proof.
  induction s as [|x s IH]; intros k; simpl.
  - induction k as [|k IHk]; simpl; [reflexivity|exact IHk].
  - rewrite IH. reflexivity.
Qed.

Lemma somes_length_le : forall l, (length (zsomes l) <= length l)%nat.
Proof. induction l as [|[x|] l IH]; simpl; lia. Qed.

Lemma sort_masked_length : forall l, length (zsort_masked l) = length l.
Proof.
  intros. unfold sort_masked. rewrite app_length, map_length, repeat_length, isort_length.
  pose proof (somes_length_le l). lia.
Qed.

(* after the sort, an unmasked entry equal to its predecessor becomes masked: on a sorted list
   this keeps exactly one copy of every value, in strictly increasing order *)
Lemma dedup_from_spec : forall l prev, sorted_le (prev :: l) ->
  sorted_lt (prev :: zsomes (zdedup_from prev l)) /\
  (forall v, In v (prev :: zsomes (zdedup_from prev l)) <-> In v (prev :: l)) /\
  length (zdedup_from prev l) = length l.
Proof.
  induction l as [|y l IH]; intros prev H.
  - simpl. intuition.
  - simpl in H. destruct H as [H1 H2]. specialize (IH y H2). destruct IH as (S1 & I1 & L1).
    simpl zdedup_from. destruct (y =? prev) eqn:E.
    + apply Z.eqb_eq in E. subst y. simpl zsomes. split; [exact S1|]. split.
      * intros v. rewrite I1. simpl. tauto.
      * simpl. congruence.
    + apply Z.eqb_neq in E. simpl zsomes. split; [|split].
      * split; [lia|]. exact S1.
      * intros v. split.
        -- intros [H|H]; [left; exact H|]. right. apply I1. exact H.
        -- intros [H|H]; [left; exact H|]. right. apply I1. exact H.
      * simpl. congruence.
Qed.

Lemma dedup_spec : forall l, sorted_le l ->
  sorted_lt (zsomes (zdedup l)) /\ (forall v, In v (zsomes (zdedup l)) <-> In v l) /\
  length (zdedup l) = length l.
Proof.
  intros [|x l] H; simpl; [tauto|].
  destruct (dedup_from_spec l x H) as (S1 & I1 & L1). split; [exact S1|]. split; [exact I1|].
  simpl. congruence.
Qed.

Lemma somes_app_nones : forall l k, zsomes (l ++ repeat None k) = zsomes l.
Proof.
  induction l as [|[x|] l IH]; intros k; simpl.
  - induction k as [|k IHk]; simpl; [reflexivity|exact IHk].
  - rewrite IH. reflexivity.
  - apply IH.
Qed.

(* THE RESULT: relative to whatever survives the masking steps 1+2 (vals), roots() returns the
   distinct values of vals in strictly increasing order, padded with masked entries to the
   original length *)
Theorem roots_post_spec : forall pmask shifts l,
  let vals := zsomes (step_mask Z Z.leb Z.eqb pmask shifts l) in
  exists rs, zroots_post pmask shifts l = map Some rs ++ repeat None (length l - length rs) /\
             sorted_lt rs /\ (forall v, In v rs <-> In v vals) /\ (length rs <= length l)%nat.
Proof.
  intros pmask shifts l vals. unfold zroots_post, roots_post.
  set (m := step_mask Z Z.leb Z.eqb pmask shifts l) in *.
  assert (Lm : length m = length l).
  { unfold m, step_mask. rewrite map_length, combine_length. unfold ranks.
    assert (RL : forall b k, length (ranks_aux Z Z.leb Z.eqb b k) = length k).
    { intros b k. revert b. induction k as [|e k IHk]; intros b; simpl; [reflexivity|]. rewrite IHk. reflexivity. }
    rewrite RL. lia. }
  set (s1 := zsort_masked m).
  assert (Ls1 : length s1 = length l) by (unfold s1; rewrite sort_masked_length; exact Lm).
  assert (Es1 : zsomes s1 = zisort vals) by (unfold s1, sort_masked; apply somes_pad).
  rewrite Es1.
  destruct (dedup_spec (zisort vals) (isort_sorted vals)) as (S1 & I1 & L1).
  set (d := zdedup (zisort vals)) in *.
  exists (zsomes d). unfold sort_masked at 1. rewrite somes_app_nones.
  rewrite (isort_id (zsomes d)) by (apply sorted_lt_le; exact S1).
  assert (Ld : (length d <= length l)%nat).
  { rewrite L1, isort_length. unfold vals. rewrite <- Lm. apply somes_length_le. }
  assert (Lsd : (length (zsomes d) <= length d)%nat) by apply somes_length_le.
  rewrite app_length, repeat_length.
  replace (length d + (length s1 - length d))%nat with (length l) by lia.
  split; [reflexivity|]. split; [exact S1|]. split; [|lia].
  intros v. rewrite I1. apply isort_in.
Qed.

(* steps 1+2 never unmask: every surviving value is the real part of a real eigenvalue of an
   unmasked polynomial *)
Theorem step_mask_sound : forall pmask shifts l v,
  In (Some v) (step_mask Z Z.leb Z.eqb pmask shifts l) ->
  pmask = false /\ exists e, In e l /\ e_cplx e = false /\ e_re e = v.
Proof.
  intros pmask shifts l v H. unfold step_mask in H. apply in_map_iff in H.
  destruct H as ([e r] & H1 & H2).
  destruct pmask; simpl in H1; [discriminate|].
  destruct (e_cplx e) eqn:Ec; simpl in H1; [discriminate|].
  destruct (Nat.ltb r shifts); [discriminate|]. injection H1 as <-.
  split; [reflexivity|]. exists e. split; [|tauto]. apply in_combine_l in H2. exact H2.
Qed.

(* step 2, bounded-exhaustive (B): for every list of at most 4 real eigenvalues with magnitudes
   in 0..2 and every shift count 0..4, exactly min(shifts, n) entries are masked and no masked
   entry has a larger magnitude than an unmasked one *)
Definition mags_upto (n : nat) : list (list Z) :=
  (fix go (k : nat) : list (list Z) :=
     match k with
     | O => [[]]
     | S k' => let r := go k' in r ++ flat_map (fun l => [0 :: l; 1 :: l; 2 :: l]) (filter (fun l => Nat.eqb (length l) k') r)
     end) n.
Definition shift_ok (shifts : nat) (mags : list Z) : bool :=
  let l := map (fun m => mkeig m false m) mags in
  let r := step_mask Z Z.leb Z.eqb false shifts l in
  let masked := map fst (filter (fun p => match snd p with None => true | Some _ => false end) (combine mags r)) in
  let kept := zsomes r in
  Nat.eqb (length masked) (Nat.min shifts (length mags)) &&
  forallb (fun a => forallb (fun b => a <=? b) kept) masked.
Definition shift_space : list (nat * list Z) :=
  flat_map (fun s => map (fun l => (s, l)) (mags_upto 4)) [0; 1; 2; 3; 4]%nat.

Theorem step_mask_smallest_B : forall s mags, In (s, mags) shift_space -> shift_ok s mags = true.
Proof.
  assert (H : forallb (fun p => shift_ok (fst p) (snd p)) shift_space = true) by (vm_compute; reflexivity).
  intros s mags Hin. rewrite forallb_forall in H. exact (H (s, mags) Hin).
Qed.
