(* Lemmas about the run-time support of the regenerated loops (LoopModel.v) and the bridge between the integer
   lists of the regenerated code and the nat lists of the hand-written models. *)
From Coq Require Import List Arith ZArith Bool Lia.
From PM Require Import Base Mask LoopModel.
Import ListNotations.

Lemma pyok_nat n j : j < n -> pyok n (Z.of_nat j) = true.
Proof. intros H. unfold pyok. apply andb_true_iff. split; [apply Z.leb_le|apply Z.ltb_lt]; lia. Qed.
Lemma pyidx_nat n j : pyidx n (Z.of_nat j) = j.
Proof. unfold pyidx. destruct (Z.ltb_spec (Z.of_nat j) 0); lia. Qed.
Lemma zrange_nat n : zrange (Z.of_nat n) = map Z.of_nat (seq 0 n).
Proof. unfold zrange. rewrite Nat2Z.id. reflexivity. Qed.
Lemma lset_app {A} (p : list A) x y t : lset (length p) x (p ++ y :: t) = p ++ x :: t.
Proof. induction p as [|a p IH]; cbn [length app lset]; [reflexivity|]. rewrite IH. reflexivity. Qed.
Lemma nth_app_here {A} (p : list A) y t d : nth (length p) (p ++ y :: t) d = y.
Proof. induction p as [|a p IH]; cbn [length app nth]; [reflexivity|exact IH]. Qed.
Lemma zeqb_nat a b : Z.eqb (Z.of_nat a) (Z.of_nat b) = Nat.eqb a b.
Proof. destruct (Z.eqb_spec (Z.of_nat a) (Z.of_nat b)); destruct (Nat.eqb_spec a b); try reflexivity; lia. Qed.
Lemma fold_none {A B} (f : option A -> B -> option A) (l : list B) :
  (forall x, f None x = None) -> fold_left f l None = None.
Proof. intros H. induction l as [|a l IH]; [reflexivity|]. cbn [fold_left]. rewrite H. exact IH. Qed.
Lemma map_repeat {A B} (f : A -> B) x n : map f (repeat x n) = repeat (f x) n.
Proof. induction n as [|n IH]; [reflexivity|]. cbn [repeat map]. rewrite IH. reflexivity. Qed.
