(* C06 - carried derivatives equal the true derivative.
   Part 1: derivative facts for the functions Coquelicot's auto_derive does not know
           (tan, asin, acos, real powers), registered as UnaryDiff' instances;
   Part 2: the FIXED tactics that close the generated obligations coq/gen/obl/C06_*.v;
   Part 3 (C06Chain.v): the hand-written theorems (chain rule over expression trees, linearity,
           missing key, stripping).
   Axioms: only those of the standard library's real numbers / Coquelicot
   (sig_forall_dec, sig_not_dec, functional_extensionality_dep, Classical_Prop.classic). *)
From Coq Require Import Reals Lra Psatz List Nsatz.
From Coquelicot Require Import Coquelicot.
From PM Require Import C06Defs.
Local Open Scope R_scope.

(* ------------------------------------------------------------------------- *)
(* Part 1: elementary functions                                               *)
(* ------------------------------------------------------------------------- *)
Lemma c06_sqrt_neq_0_pos : forall x, sqrt x <> 0 -> 0 < x.
Proof.
  intros x H. destruct (Rlt_le_dec 0 x) as [L|L]; [exact L|].
  exfalso. apply H. apply sqrt_neg_0. exact L.
Qed.

Lemma c06_sqrt_pos_neq_0 : forall x, 0 < x -> sqrt x <> 0.
Proof. intros x H. pose proof (sqrt_lt_R0 x H). lra. Qed.

Lemma c06_cos_sin_1 : forall t, cos t * cos t + sin t * sin t = 1.
Proof. intros. pose proof (sin2_cos2 t) as H. unfold Rsqr in H. lra. Qed.

Lemma c06_is_derive_tan : forall x, cos x <> 0 -> is_derive tan x (/ (cos x) ^ 2).
Proof.
  intros x H. unfold tan. auto_derive; [exact H|].
  pose proof (c06_cos_sin_1 x) as E.
  replace (/ cos x ^ 2) with ((cos x * cos x + sin x * sin x) * / cos x ^ 2) by (rewrite E; ring).
  field. exact H.
Qed.

Lemma c06_one_minus_sq : forall x, -1 < x < 1 -> 0 < 1 - x * x.
Proof. intros x [H1 H2]. nra. Qed.

Lemma c06_is_derive_asin : forall x, -1 < x < 1 -> is_derive asin x (/ sqrt (1 - x * x)).
Proof.
  intros x H. apply is_derive_Reals.
  pose proof (derive_pt_asin x H) as E.
  pose proof (proj2_sig (derivable_pt_asin x H)) as D. simpl in D.
  unfold derive_pt in E. rewrite E in D. unfold Rsqr in D.
  replace (/ sqrt (1 - x * x)) with (1 / sqrt (1 - x * x)) by (unfold Rdiv; ring). exact D.
Qed.

Lemma c06_is_derive_acos : forall x, -1 < x < 1 -> is_derive acos x (- / sqrt (1 - x * x)).
Proof.
  intros x H. apply is_derive_Reals.
  pose proof (derive_pt_acos x H) as E.
  pose proof (proj2_sig (derivable_pt_acos x H)) as D. simpl in D.
  unfold derive_pt in E. rewrite E in D. unfold Rsqr in D.
  replace (- / sqrt (1 - x * x)) with (- 1 / sqrt (1 - x * x)) by (unfold Rdiv; ring). exact D.
Qed.

Lemma c06_is_derive_rpow : forall a x, 0 < x -> is_derive (rpow a) x (a * rpow (a - 1) x).
Proof. intros a x H. apply is_derive_Reals. unfold rpow. apply derivable_pt_lim_power. exact H. Qed.

Global Instance UnaryDiff_tan : UnaryDiff' tan :=
  {| UnaryDiff'_f' := fun x => / (cos x) ^ 2; UnaryDiff'_df := fun x => cos x <> 0;
     UnaryDiff'_H := c06_is_derive_tan |}.
Global Instance UnaryDiff_asin : UnaryDiff' asin :=
  {| UnaryDiff'_f' := fun x => / sqrt (1 - x * x); UnaryDiff'_df := fun x => -1 < x < 1;
     UnaryDiff'_H := c06_is_derive_asin |}.
Global Instance UnaryDiff_acos : UnaryDiff' acos :=
  {| UnaryDiff'_f' := fun x => - / sqrt (1 - x * x); UnaryDiff'_df := fun x => -1 < x < 1;
     UnaryDiff'_H := c06_is_derive_acos |}.
Global Instance UnaryDiff_rpow : forall a, UnaryDiff' (rpow a) :=
  fun a => {| UnaryDiff'_f' := fun x => a * rpow (a - 1) x; UnaryDiff'_df := fun x => 0 < x;
              UnaryDiff'_H := c06_is_derive_rpow a |}.

Lemma c06_rpow_half : forall x, 0 < x -> rpow (/ 2) x = sqrt x.
Proof. intros. unfold rpow. apply Rpower_sqrt. assumption. Qed.

Lemma c06_rpow_succ : forall a x, 0 < x -> rpow (a + 1) x = x * rpow a x.
Proof. intros a x H. unfold rpow. rewrite Rpower_plus, Rpower_1 by assumption. ring. Qed.

Lemma c06_rpow_pos : forall a x, 0 < rpow a x.
Proof. intros. unfold rpow, Rpower. apply exp_pos. Qed.

(* ------------------------------------------------------------------------- *)
(* Part 2: the fixed tactics                                                  *)
(* ------------------------------------------------------------------------- *)
Ltac c06_hyps := repeat match goal with H : _ /\ _ |- _ => destruct H end.
Ltac c06_zero := rewrite ?Rmult_0_l, ?Rplus_0_r in *.

Ltac c06_nz_base :=
  solve [ assumption | lra | apply c06_rpow_pos
        | apply c06_sqrt_neq_0_pos; assumption
        | apply Rgt_not_eq; apply c06_rpow_pos
        | match goal with H : ?b <> 0 |- ?a <> 0 => replace a with b by ring; exact H end
        | match goal with H : sqrt ?b <> 0 |- 0 < ?a => apply c06_sqrt_neq_0_pos; replace a with b by ring; exact H end
        | match goal with H : sqrt ?b <> 0 |- sqrt ?a <> 0 => replace a with b by ring; exact H end
        | match goal with H : 0 < ?b |- 0 < ?a => replace a with b by ring; exact H end
        | match goal with H : ?b > 0 |- 0 < ?a => replace a with b by ring; exact H end
        | match goal with H : ?b > 0 |- sqrt ?a <> 0 => apply c06_sqrt_pos_neq_0; replace a with b by ring; exact H end
        | match goal with H : ?b <> 0 |- ?a <> 0 => replace a with b by (field; repeat split; assumption); exact H end
        | nra
        | auto with real ].

Ltac c06_nz :=
  repeat first [ apply Rmult_integral_contrapositive_currified | apply Rinv_neq_0_compat | apply pow_nonzero ];
  c06_nz_base.

(* make the arguments of equal functions syntactically equal when they are provably equal *)
Ltac c06_unify_fn f :=
  repeat match goal with
  | |- context [f ?a] =>
      let s := fresh "c06u" in
      set (s := f a);          (* hides every syntactic occurrence *)
      repeat match goal with
      | |- context [f ?b] =>
          let H := fresh "Hs" in
          assert (H : f b = s) by (subst s; apply f_equal; ring);
          rewrite H; clear H
      end
  end;
  repeat match goal with s := f _ |- _ => subst s end.
Ltac c06_unify_rpow :=
  repeat match goal with
  | |- context [rpow ?c ?a] =>
      match goal with
      | |- context [rpow ?d ?b] =>
          tryif (constr_eq a b; constr_eq c d) then fail else
            (let H := fresh "Hs" in
             assert (H : rpow d b = rpow c a)
               by (apply f_equal2; first [ reflexivity | lra | ring | field; repeat split; c06_nz ]);
             rewrite H; clear H)
      end
  end.
Ltac c06_unify :=
  cbv beta iota delta [pow] in *;
  c06_unify_fn sqrt; c06_unify_fn exp; c06_unify_fn cos; c06_unify_fn sin; c06_unify_fn ln;
  c06_unify_fn atan; c06_unify_fn asin; c06_unify_fn acos; c06_unify_fn tan; c06_unify_rpow.

Ltac c06_sign :=
  repeat match goal with
  | |- context [sign ?x] =>
      first [ rewrite (sign_eq_1 x) by c06_nz | rewrite (sign_eq_m1 x) by c06_nz ]
  end.

(* sqrt x = rpow (/2) x so that  x ** 1.5  differentiates to  1.5 * sqrt x *)
Ltac c06_sqrt_as_rpow :=
  match goal with
  | |- context [rpow _ _] =>
      repeat match goal with
      | |- context [sqrt ?x] => rewrite <- (c06_rpow_half x) by c06_nz
      end
  | _ => idtac
  end.

(* algebraic fallback: replace every [sqrt e] by a fresh r with r * r = e and every [/ x] by a
   fresh xi with x * xi = 1, then decide the polynomial identity with nsatz *)
Ltac c06_pos :=
  repeat apply Rplus_le_le_0_compat; first [ apply pow2_ge_0 | apply Rle_0_sqr | apply Rlt_le; assumption | lra | nra ].
Ltac c06_abs_sqrt :=
  repeat match goal with
  | |- context [sqrt ?e] =>
      lazymatch e with context [sqrt _] => fail | _ => idtac end;
      let r := fresh "r" in let Hr := fresh "Hr" in
      assert (Hr : sqrt e * sqrt e = e) by (apply sqrt_sqrt; c06_pos);
      try (let Hn := fresh "Hn" in assert (Hn : sqrt e <> 0) by c06_nz);
      generalize dependent (sqrt e); intro r; intros
  end.
Ltac c06_abs_inv :=
  repeat match goal with
  | |- context [/ ?x] =>
      let xi := fresh "ri" in let Hi := fresh "Hi" in
      assert (Hi : x * / x = 1) by (apply Rinv_r; c06_nz);
      generalize dependent (/ x); intro xi; intros
  end.
Ltac c06_alg :=
  c06_abs_sqrt; c06_abs_inv; cbv beta iota delta [Rpow_def.pow] in *; solve [nsatz].

Ltac c06_dom := c06_zero; unfold Rdiv in *; repeat split; try exact I; c06_nz.
Ltac c06_close :=
  c06_zero; unfold Rdiv in *; c06_sign; c06_sqrt_as_rpow; c06_unify;
  first [ ring | field; repeat split; c06_nz | c06_alg ].

Ltac c06_derive :=
  cbv beta zeta in *; c06_hyps;
  auto_derive; [ c06_dom | c06_close ].

Ltac c06_const :=
  cbv beta zeta in *; c06_hyps; repeat split;
  first [ reflexivity | ring | unfold Rdiv in *; c06_unify; field; repeat split; c06_nz ].

(* Matrix.inverse with the LAPACK stub: the traced derivative solves the differentiated hypothesis *)
Ltac c06_inverse :=
  cbv beta zeta in *; c06_hyps; repeat split;
  cbv beta iota delta [Rpow_def.pow] in *; solve [nsatz].
