(* C06 - carried derivatives equal the true derivative.
   Part 1: the fixed tactics that close the generated obligations coq/gen/obl/C06_*.v. *)
From Coq Require Import Reals Lra Psatz List.
From Coquelicot Require Import Coquelicot.
Local Open Scope R_scope.

Lemma c06_sqrt_neq_0_pos : forall x, sqrt x <> 0 -> 0 < x.
Proof.
  intros x H. destruct (Rlt_le_dec 0 x) as [L|L]; [exact L|].
  exfalso. apply H. apply sqrt_neg_0. exact L.
Qed.

Ltac c06_hyps := repeat match goal with H : _ /\ _ |- _ => destruct H end.
Ltac c06_zero := rewrite ?Rmult_0_l, ?Rplus_0_r in *.

(* make all square roots of provably equal arguments syntactically equal *)
Ltac c06_sqrt_unify :=
  repeat match goal with
  | |- context [sqrt ?a] =>
      match goal with
      | |- context [sqrt ?b] =>
          tryif constr_eq a b then fail else
            (let H := fresh "Hs" in
             assert (H : sqrt b = sqrt a) by (apply f_equal; ring); rewrite H; clear H)
      end
  end.

Ltac c06_nz :=
  solve [ assumption | lra | nra
        | apply c06_sqrt_neq_0_pos; assumption
        | match goal with H : ?b <> 0 |- ?a <> 0 => replace a with b by (field || ring); exact H end
        | match goal with H : sqrt ?b <> 0 |- 0 < ?a => apply c06_sqrt_neq_0_pos; replace a with b by ring; exact H end
        | match goal with H : sqrt ?b <> 0 |- sqrt ?a <> 0 => replace a with b by ring; exact H end
        | auto with real ].

Ltac c06_dom := c06_zero; repeat split; try exact I; c06_nz.
Ltac c06_close := c06_zero; c06_sqrt_unify; first [ ring | field; repeat split; c06_nz ].

Ltac c06_derive :=
  cbv beta zeta in *; c06_hyps;
  auto_derive; [ c06_dom | c06_close ].

Ltac c06_const :=
  cbv beta zeta in *; c06_hyps; repeat split; first [ reflexivity | ring | field; repeat split; c06_nz ].
