(* C18 proofs: cache coherence is an invariant of every history, and the
   machine with the cache gives the same answers as the machine without. *)
From Coq Require Import List Arith ZArith Bool Lia.
From PM Require Import C18Model.
Import ListNotations.

Definition same_fields (a b : obj) : Prop :=
  shaped a = shaped b /\ vals a = vals b /\ mask a = mask b /\ marr a = marr b /\
  derivs a = derivs b /\ units a = units b /\ ro a = ro b.

Lemma coh_empty o : cch o = empty_cache -> coh o.
Proof. intro H. unfold coh. rewrite H. simpl. repeat split; intros x Hx; discriminate. Qed.

Lemma calc_anti_mask a b : mask a = mask b -> calc_anti a = calc_anti b.
Proof. unfold calc_anti. intros ->. reflexivity. Qed.
Lemma calc_corn_mask a b : mask a = mask b -> shaped a = shaped b -> calc_corn a = calc_corn b.
Proof. unfold calc_corn. intros -> ->. reflexivity. Qed.

Lemma anti_after_ok o a :
  (forall a, k_anti (cch o) = Some a -> a = calc_anti o) ->
  anti_after_corners o = Some a -> a = calc_anti o.
Proof.
  intros Ha. unfold anti_after_corners. destruct (shaped o && marr o); auto.
  destruct (k_anti (cch o)) eqn:E; intro H; inversion H; subst; auto.
Qed.

Ltac coh_inv H :=
  destruct H as (Ha & Hc & Hs & Hw).

(* every step, from a coherent state, reaches a coherent state *)
Lemma step_coh o p : coh o -> coh (fst (step o p)).
Proof.
  intro H. destruct p; simpl.
  - (* QAnti *) destruct (k_anti (cch o)) eqn:E; simpl; auto.
    coh_inv H. unfold coh; simpl. repeat split; auto.
    intros a Ha'. inversion Ha'. reflexivity.
  - destruct (k_corn (cch o)) eqn:E; simpl; auto.
    coh_inv H. unfold coh; simpl. repeat split; auto.
    + intros a Ha'. apply (anti_after_ok o a Ha Ha').
    + intros c Hc'. inversion Hc'. reflexivity.
  - destruct (k_slic (cch o)) eqn:E; simpl; auto.
    coh_inv H. unfold coh; simpl. repeat split; auto.
    + intros a Ha'. destruct (k_corn (cch o)) eqn:E2; auto. apply (anti_after_ok o a Ha Ha').
    + intros c Hc'. inversion Hc'; subst. destruct (k_corn (cch o)) eqn:E2; auto.
    + intros c Hc'. inversion Hc'; subst. destruct (k_corn (cch o)) eqn:E2; auto.
  - destruct (derivs o); simpl; auto.
    destruct (k_wod (cch o)) eqn:E; simpl; auto.
    coh_inv H. unfold coh; simpl. repeat split; auto.
    intros w Hw'. inversion Hw'. reflexivity.
  - destruct (ro o); simpl; auto.
    destruct (negb (shaped o)); simpl; auto.
    destruct (negb (k <? length (vals o))); simpl; auto.
    apply coh_empty. reflexivity.
  - destruct (ro o); simpl; auto. apply coh_empty. reflexivity.
  - (* MAddNum: antimask, corners, slicer survive; the mask did not change *)
    destruct (ro o) eqn:R; simpl; auto.
    coh_inv H. unfold coh, new_values; simpl. repeat split; try (intros x Hx; discriminate).
    + intros a Ha'. apply Ha in Ha'. subst. reflexivity.
    + intros c Hc'. apply Hc in Hc'. subst. reflexivity.
    + intros c Hs'. apply Hs in Hs'. subst. reflexivity.
  - (* MMulNum: with derivatives the cache is cleared (insert_derivs), without them as MAddNum *)
    destruct (ro o) eqn:R; simpl; auto.
    destruct (derivs o) as [|d0 ds] eqn:D; simpl; [|apply coh_empty; reflexivity].
    coh_inv H. unfold coh, new_values; simpl. repeat split; try (intros x Hx; discriminate).
    + intros a Ha'. apply Ha in Ha'. subst. reflexivity.
    + intros c Hc'. apply Hc in Hc'. subst. reflexivity.
    + intros c Hs'. apply Hs in Hs'. subst. reflexivity.
  - destruct (ro o); simpl; auto.
    destruct (negb _); simpl; auto. apply coh_empty. reflexivity.
  - destruct (negb _); simpl; auto. apply coh_empty. reflexivity.
  - destruct (ro o); simpl; auto. apply coh_empty. reflexivity.
  - destruct (ro o); simpl; auto. apply coh_empty. reflexivity.
  - destruct (ro o); simpl; auto. apply coh_empty. reflexivity.
  - (* MReadonly: cached objects become read-only with their owner *)
    destruct (ro o) eqn:R; simpl; auto.
    coh_inv H. unfold coh; simpl. repeat split; auto.
    intros w Hw'. destruct (k_wod (cch o)) as [w0|] eqn:E; [|discriminate].
    inversion Hw'; subst. specialize (Hw _ eq_refl). subst w0. reflexivity.
Qed.

Lemma run_coh ps : forall o, coh o -> coh (fst (run step o ps)).
Proof.
  induction ps as [|p ps IH]; intros o H; simpl; auto.
  apply IH. apply step_coh. exact H.
Qed.

Lemma mk_obj_coh sh v m ma d u r : coh (mk_obj sh v m ma d u r).
Proof. apply coh_empty. reflexivity. Qed.

(* one step of the two machines from states with equal fields *)
Lemma step_sim o1 o2 p :
  same_fields o1 o2 -> coh o1 ->
  snd (step o1 p) = snd (step_nc o2 p) /\ same_fields (fst (step o1 p)) (fst (step_nc o2 p)).
Proof.
  intros SF H.
  destruct o1 as [s1 v1 m1 a1 d1 u1 r1 c1], o2 as [s2 v2 m2 a2 d2 u2 r2 c2].
  unfold same_fields in SF; simpl in SF. destruct SF as (-> & -> & -> & -> & -> & -> & ->).
  unfold coh in H; simpl in H. coh_inv H.
  destruct p; simpl.
  - destruct (k_anti c1) eqn:E; simpl.
    + rewrite (Ha _ eq_refl). split; [reflexivity | repeat split; reflexivity].
    + split; [reflexivity | repeat split; reflexivity].
  - destruct (k_corn c1) eqn:E; simpl.
    + rewrite (Hc _ eq_refl). split; [reflexivity | repeat split; reflexivity].
    + split; [reflexivity | repeat split; reflexivity].
  - destruct (k_slic c1) eqn:E; simpl.
    + rewrite (Hs _ eq_refl). split; [reflexivity | repeat split; reflexivity].
    + destruct (k_corn c1) eqn:E2; simpl.
      * rewrite (Hc _ eq_refl). split; [reflexivity | repeat split; reflexivity].
      * split; [reflexivity | repeat split; reflexivity].
  - destruct d2 eqn:D; simpl; [split; [reflexivity | repeat split; reflexivity]|].
    destruct (k_wod c1) eqn:E; simpl.
    + rewrite (Hw _ eq_refl). split; [reflexivity | repeat split; reflexivity].
    + split; [reflexivity | repeat split; reflexivity].
  - destruct r2; simpl; [split; [reflexivity | repeat split; reflexivity]|].
    destruct (negb s2); simpl; [split; [reflexivity | repeat split; reflexivity]|].
    destruct (negb (k <? length v2)); simpl;
      split; try reflexivity; repeat split; reflexivity.
  - destruct r2; simpl; split; try reflexivity; repeat split; reflexivity.
  - destruct r2; simpl; split; try reflexivity; repeat split; reflexivity.
  - (* MMulNum *) destruct r2; simpl; [|destruct d2; simpl]; split; try reflexivity; repeat split; reflexivity.
  - destruct r2; simpl; [split; [reflexivity | repeat split; reflexivity]|].
    destruct (negb _); simpl; split; try reflexivity; repeat split; reflexivity.
  - destruct (negb _); simpl; split; try reflexivity; repeat split; reflexivity.
  - destruct r2; simpl; split; try reflexivity; repeat split; reflexivity.
  - destruct r2; simpl; split; try reflexivity; repeat split; reflexivity.
  - destruct r2; simpl; split; try reflexivity; repeat split; reflexivity.
  - destruct r2; simpl; split; try reflexivity; repeat split; reflexivity.
Qed.

(* the cache is transparent: same answers on every history *)
Lemma run_transparent ps : forall o1 o2,
  same_fields o1 o2 -> coh o1 ->
  snd (run step o1 ps) = snd (run step_nc o2 ps).
Proof.
  induction ps as [|p ps IH]; intros o1 o2 SF H; simpl; auto.
  destruct (step_sim o1 o2 p SF H) as [E1 E2].
  rewrite E1. f_equal. apply IH; auto. apply step_coh; auto.
Qed.

Lemma same_fields_refl o : same_fields o o.
Proof. repeat split; reflexivity. Qed.

(* asking a question changes no field, so asking twice (or asking other
   questions in between) cannot change an answer *)
Definition is_query (p : op) : bool :=
  match p with QAnti | QCorn | QSlic | QWod => true | _ => false end.
Lemma query_fields o p : is_query p = true -> same_fields o (fst (step o p)).
Proof.
  destruct p; simpl; try discriminate; intros _.
  - destruct (k_anti (cch o)); simpl; apply same_fields_refl || (repeat split; reflexivity).
  - destruct (k_corn (cch o)); simpl; repeat split; reflexivity.
  - destruct (k_slic (cch o)); simpl; repeat split; reflexivity.
  - destruct (derivs o); simpl; [repeat split; reflexivity|].
    destruct (k_wod (cch o)); simpl; repeat split; reflexivity.
Qed.
Lemma same_fields_trans a b c : same_fields a b -> same_fields b c -> same_fields a c.
Proof.
  intros (A1 & A2 & A3 & A4 & A5 & A6 & A7) (B1 & B2 & B3 & B4 & B5 & B6 & B7).
  repeat split; congruence.
Qed.
Lemma queries_fields qs : forall o, forallb is_query qs = true ->
  same_fields o (fst (run step o qs)).
Proof.
  induction qs as [|q qs IH]; intros o H; simpl; [apply same_fields_refl|].
  simpl in H. apply andb_true_iff in H. destruct H as [H1 H2].
  eapply same_fields_trans; [apply query_fields; exact H1|]. apply IH; exact H2.
Qed.
Lemma step_nc_fields o1 o2 p : same_fields o1 o2 -> snd (step_nc o1 p) = snd (step_nc o2 p).
Proof.
  intros SF.
  destruct o1 as [s1 v1 m1 a1 d1 u1 r1 c1], o2 as [s2 v2 m2 a2 d2 u2 r2 c2].
  unfold same_fields in SF; simpl in SF. destruct SF as (-> & -> & -> & -> & -> & -> & ->).
  destruct p; simpl; try reflexivity.
  all: try (destruct d2; reflexivity).
  all: try (destruct r2; simpl; try reflexivity).
  all: try (destruct (negb s2); simpl; try reflexivity).
  all: try (destruct (negb (k <? length v2)); reflexivity).
  all: try (destruct (negb _); reflexivity).
Qed.
(* the answer to query q is the same before and after any block of queries *)
Lemma answer_stable o qs q :
  coh o -> forallb is_query qs = true -> is_query q = true ->
  snd (step (fst (run step o qs)) q) = snd (step o q).
Proof.
  intros H Hq Hq1.
  pose proof (queries_fields qs o Hq) as SF.
  pose proof (run_coh qs o H) as H'.
  destruct (step_sim (fst (run step o qs)) (fst (run step o qs)) q (same_fields_refl _) H') as [E1 _].
  destruct (step_sim o o q (same_fields_refl _) H) as [E2 _].
  rewrite E1, E2. symmetry. apply step_nc_fields. exact SF.
Qed.
